"""C06 - JSON/XDL decoding is total, memory-safe, chunk-independent and JSON-conformant
(spec/JsonText.tla, JsonTextGen.tla, JsonTextXdl.tla, XdlSM.tla + XdlSMRefine/XdlSMRefineXdl/XdlSMExplore, XdlParserApi.tla
(the parser object: parse*/value/reset/decode), Trace_JsonTextDec.tla, Trace_XdlParserApi.tla)."""
import concurrent.futures as cf
import os
import re
import subprocess
import vlib

META = {
    "engine": "JsonText.tla,JsonTextGen.tla,JsonTextXdl.tla,XdlSM.tla,XdlSMRefine.tla,XdlSMRefineXdl.tla,XdlSMExplore.tla,XdlParserApi.tla,Trace_JsonTextDec.tla,Trace_XdlParserApi.tla",
    "technique": "TLC: (1) grammar generator of JSON texts (pushdown system with every lexical variant) checked against a strict "
                 "RFC 8259 recognizer written as recursive TLA+ operators; (2) statement-level model of the XdlParser state "
                 "machine checked to refine generator and recognizer (no stack underflow, chunk boundaries invisible); every "
                 "transition of (1), of the XDL dialect generator and of the machine's own state graph is replayed on the real "
                 "decoder whole, in all 2-cuts, byte by byte and in random cuts under ASan/LSan; recorded decodes of mutated "
                 "documents and random bytes are classified by TLC with the recognizer; (3) the parser *object* as a state machine "
                 "over its calls parse(chunk)* / value() / reset() / decode(text) (XdlParserApi.tla): its state must be a function "
                 "of the text fed since construction or the last reset - TLC proves it for the repaired reset() and refutes the "
                 "pinned one; every call sequence up to the bound is run on a real object and compared with a new parser (R), "
                 "random call sequences are recorded and validated by TLC (V)",
    "design_ref": "DESIGN.md section 6, C05/C06",
    "level_text": "TLC enumerates every derivation prefix of the JSON grammar (and of the XDL dialect) up to the configured bounds "
                  "with all lexical variants, proves generator = recognizer on them, proves that the transcribed parser design "
                  "refines them, and each generated text is decoded by the real code whole and in every 2-chunk cut (plus "
                  "byte-wise and random cuts, and every proper prefix of each document) with the value compared to the "
                  "specification's; number tokens are compared as exact IEEE bit patterns computed in TLA+ (small dyadic "
                  "tokens) or by a bignum half-ulp test evaluated by TLC on the decoded bits (recorded traces). XdlParserApi: all "
                  "call sequences of length <= 3 (quick) / 4 (thorough) over 29 chunks, 5 decode texts and reset - ApiRefines, "
                  "ApiValue, ApiNoUnderflow, ResetIsNew, ApiSticky proved on the design and each sequence replayed on the real object.",
    "level_note": "Open finding NestingBeyondStack: documents nested beyond ~10^4-10^5 levels exhaust the call stack in the recursive "
                  "Var destructor (probes deeper than 5000 levels are skipped while it is open). Bounded (constants in spec/MC_JsonTextGen_*.cfg, MC_JsonTextXdl_*.cfg, MC_XdlSM*_*.cfg); beyond the bounds only "
                  "the recorded random/mutated inputs apply. Totality and memory safety are observed (ASan/LSan, time limit) on the "
                  "inputs the specification generates or classifies, not decided by the model. Results on malformed input and "
                  "lenient acceptances are left open, as in the property. NUL bytes cannot be passed through the char* interface.",
}

HS = ["c06_replay.cpp"]


ACT_RE = re.compile(r'"act":"([^"]*)"')


def _gen(ctx, spec, cfg, out, timeout, need=(), **kw):
    """Generator run with one emitted case per transition.  TLC's own -coverage is far too slow with the recursive
    operators of these modules, so vacuity is measured on the output: every case names the action that produced it
    (ghost variable act) and every action listed in `need` must have produced at least one case."""
    seen = {}

    def tally(line):
        m = ACT_RE.search(line)
        if m:
            seen[m.group(1)] = seen.get(m.group(1), 0) + 1
        return line

    r = ctx.model(spec, cfg, emit_to=out, timeout=timeout, xmx="8g", xss="512m", must_cover=False, emit_filter=tally, **kw)
    missing = [a for a in need if not any(k == a or k.endswith(">" + a) for k in seen)]
    if missing:
        raise vlib.HarnessError("%s/%s: vacuous run, never produced: %s" % (spec, cfg, missing))
    ctx.engines.append("%s/%s: %d cases emitted over %d distinct actions/transitions" % (spec, cfg, sum(seen.values()), len(seen)))
    return r


API_ACTS = ("Parse", "Decode", "Reset")
GEN_ACTS = ("Number", "Literal", "BeginStr", "StrChar", "EndStr", "Colon", "Begin", "End", "Comma", "Ws")
DEEP_ACTS = ("DeepBegin", "DeepEnd", "Number", "Literal", "BeginStr", "EndStr", "Probe")
XDL_ACTS = ("Scalar", "BeginArr", "BeginObj", "Key", "End", "Sep", "Ws", "WsEnd")
SM_STATES = ("NUMBER", "INT", "STRING", "PROPERTY", "IDENTIFIER", "NUMBER_E", "NUMBER_ES", "NUMBER_EV", "NUMBER_DOT", "MINUS",
             "WAIT_SEP", "WAIT_EQUAL", "WAIT_VALUE", "WAIT_PROPERTY", "WAIT_OBJ", "QPROPERTY", "ESCAPE", "ERR", "UNICODECHAR",
             "WAIT_COMMA_OR_PROPERTY", "WAIT_COMMA_OR_VALUE")


def run(ctx):
    lib = vlib.build_lib("asan")
    rep = vlib.build_harness(lib, "c06_replay", HS)
    tier = "quick" if ctx.quick else "thorough"
    ctx.rule = ("one case per transition of the generator / state-machine graphs (a text with its classification and expected "
                "value); non-trivial = text of >= 2 bytes; distinct = distinct case lines (hash)")
    # -- design level: the transcribed state machine refines generator + recognizer ----------------------------------
    # (vacuity of the generator actions is measured in the generator runs below; the two runs are independent)
    def refine(spec):
        return ctx.model(spec, "MC_%s_%s" % (spec, tier), timeout=ctx.pick(600, 3000), xss="512m", xmx="6g", must_cover=False,
                         workers=max(2, vlib.NCPU // 2))

    def api_defect(item):
        dcfg, inv = item
        r = vlib.tlc("XdlParserApi", dcfg, timeout=600, xss="512m", xmx="4g", workers=2)
        if r.violated() != inv:
            raise vlib.HarnessError("XdlParserApi/%s: TLC did not refute the pinned reset() design (%s)\n%s" % (dcfg, r.violated(), r.tail()))

    def flush_defect():
        r = vlib.tlc("XdlSMRefineXdl", "MC_XdlSMRefineXdl_defect", timeout=600, xss="512m", xmx="4g", workers=2)
        if r.violated() != "SMAll":
            raise vlib.HarnessError("XdlSMRefineXdl/defect: TLC did not refute the blank flush of decode() (%s)\n%s" % (r.violated(), r.tail()))

    with cf.ThreadPoolExecutor(5) as ex:
        jobs = [ex.submit(refine, s) for s in ("XdlSMRefine", "XdlSMRefineXdl")]
        # the pinned reset() (keeps open containers / pending names / comment flag / \\u accumulator) must be refuted by TLC itself
        jobs += [ex.submit(api_defect, d) for d in (("MC_XdlParserApi_defect", "ApiNoUnderflow"), ("MC_XdlParserApi_defect2", "ApiValue"))]
        # ... and so must the pinned end-of-text flush parse(" ") (a line comment up to the end of the text is never closed)
        jobs.append(ex.submit(flush_defect))
        for j in jobs:
            j.result()
    ctx.engines.append("XdlParserApi/MC_XdlParserApi_defect*: reset() that keeps the open containers / names / comment flag refuted by TLC "
                       "(ApiNoUnderflow, ApiValue) as expected")
    ctx.engines.append("XdlSMRefineXdl/MC_XdlSMRefineXdl_defect: decode() that flushes with a blank refuted by TLC (SMAll: a document "
                       "ending in a line comment without newline has no value) as expected")
    # the pinned design (a '/' inside a quoted key opens a comment) must be refuted by TLC itself
    r = vlib.tlc("XdlSMRefine", "MC_XdlSMRefine_defect", timeout=600, xss="512m", xmx="4g")
    if r.violated() != "SMAgree":
        raise vlib.HarnessError("XdlSMRefine/defect: TLC did not refute the SlashInQuotedKey design (%s)\n%s" % (r.violated(), r.tail()))
    ctx.engines.append("XdlSMRefine/MC_XdlSMRefine_defect: design with QKeySlashIsComment refuted by TLC (SMAgree) as expected")
    # -- R: generator states -> real decoder -------------------------------------------------------------------------
    for spec, cfg, need in (("JsonTextGen", "MC_JsonTextGen_" + tier, GEN_ACTS),
                            ("JsonTextGen", "MC_JsonTextGen_deep_" + tier, DEEP_ACTS),
                            ("JsonTextXdl", "MC_JsonTextXdl_" + tier, XDL_ACTS),
                            ("XdlSMExplore", "MC_XdlSMExplore_" + tier, SM_STATES)) + \
            ((("XdlSMExplore", "MC_XdlSMExplore_all", SM_STATES),) if not ctx.quick else ()):
        cases = os.path.join(ctx.tmp, cfg + ".cases")
        # the walk over the machine's control graph uses a VIEW: one worker keeps the choice of representatives (and with it
        # the emitted case set) deterministic
        kw = {"workers": 1} if spec == "XdlSMExplore" and "_all" not in cfg else {}
        _gen(ctx, spec, cfg, cases, ctx.pick(600, 3000), need=need, **kw)
        ctx.replay(rep, cases, label="R/" + cfg, timeout=ctx.pick(900, 5400))
        os.unlink(cases)
    # -- the parser object's API (parse* / value / reset / decode on one object): the pinned reset() is refuted by TLC, the
    #    repaired design is explored exhaustively to MaxCalls calls and every call sequence is run on a real object
    arep = vlib.build_harness(lib, "c06_api_replay", ["c06_api_replay.cpp"])
    cases = os.path.join(ctx.tmp, "api.cases")
    _gen(ctx, "XdlParserApi", "MC_XdlParserApi_" + tier, cases, ctx.pick(600, 3000), need=API_ACTS, workers=4)
    ctx.replay(arep, cases, label="R/MC_XdlParserApi_" + tier, timeout=ctx.pick(900, 5400))
    os.unlink(cases)
    ctx.exhaustive = True
    # -- V: mutated documents and random bytes through the real decoder, classified by the recognizer --------------------
    rec = vlib.build_harness(lib, "c06_record", ["c06_record.cpp"])
    files = ctx.record(rec, ctx.pick(8, 32), ctx.pick(700, 6000), "V/JsonTextDec")
    ctx.validate_traces("Trace_JsonTextDec", "Trace_JsonTextDec", files, label="V/JsonTextDec", timeout=ctx.pick(600, 3000),
                        xss="512m", xmx="4g")
    # -- V: one real parser object through random parse / reset / decode / new calls; TLC keeps the account of the fed text --
    arec = vlib.build_harness(lib, "c06_api_record", ["c06_api_record.cpp"])
    afiles = ctx.record(arec, ctx.pick(4, 16), ctx.pick(500, 4000), "V/XdlParserApi")
    ctx.validate_traces("Trace_XdlParserApi", "Trace_XdlParserApi", afiles, label="V/XdlParserApi", timeout=ctx.pick(600, 3000),
                        xss="512m", xmx="4g")
    ctx.assumptions += [
        "exhaustive within the constants of the MC_*_%s.cfg files; beyond them only recorded random/mutated inputs apply" % tier,
        "memory errors, leaks and hangs are observed by ASan/LSan and a per-case time limit on the replayed inputs, not decided by the model",
        "texts are NUL-free (the decoder's interface is a C string)",
    ]


def _replay_recorded(path, lib, hname, hsrcs, trace_spec):
    """--replay for V-direction violations (like vlib.replay_recorded, but with the deep Java stack the bignum operators
    need): a stored rejected trace is validated again; a recorder crash descriptor is re-recorded first."""
    import json
    import shutil
    tmp = os.path.join(vlib.BUILD, "tmp", "replay-%s-%d" % (hname, os.getpid()))
    os.makedirs(tmp, exist_ok=True)
    try:
        trace = os.path.abspath(path)
        if not path.endswith(".ndjson"):
            info = json.load(open(path))
            exe = vlib.build_harness(lib, hname, hsrcs)
            trace = os.path.join(tmp, "t.ndjson")
            cmd = [exe, "--seed", str(info["seed"]), "--events", str(info["events"]), "--out", trace] + list(info.get("args", []))
            if info.get("avoid"):
                cmd += ["--avoid", ",".join(info["avoid"])]
            p = subprocess.run(["timeout", "900"] + cmd, env=vlib.run_env())
            if p.returncode != 0:
                print("recorder failed again with exit %d (seed %s): violation reproduced" % (p.returncode, info["seed"]))
                return 1
        r = vlib.tlc(trace_spec, trace_spec, workers=1, timeout=3000, env={"TRACE": trace}, xss="1g", xmx="8g")
        if r.rc == 0:
            print("trace accepted by %s" % trace_spec)
            return 0
        if r.violated() is None:
            print(r.tail(40))
            return 2
        print("trace rejected by %s near event %d: %s" % (trace_spec, r.depth, vlib._nth_line(trace, r.depth)))
        return 1
    finally:
        shutil.rmtree(tmp, ignore_errors=True)


def replay(path):
    lib = vlib.build_lib("asan")
    if os.path.basename(path).startswith("rec-") or path.endswith(".ndjson"):
        if "XdlParserApi" in os.path.basename(path):
            return _replay_recorded(path, lib, "c06_api_record", ["c06_api_record.cpp"], "Trace_XdlParserApi")
        return _replay_recorded(path, lib, "c06_record", ["c06_record.cpp"], "Trace_JsonTextDec")
    if '"calls"' in open(path, errors="replace").read(4096):      # a call sequence of spec/XdlParserApi.tla
        rep = vlib.build_harness(lib, "c06_api_replay", ["c06_api_replay.cpp"])
    else:
        rep = vlib.build_harness(lib, "c06_replay", HS)
    r = subprocess.run([rep, "--single", path], env=vlib.run_env())
    return 1 if r.returncode == 1 else (0 if r.returncode == 0 else 2)
