"""C04 - Var holds, copies, assigns and compares JSON-like values faithfully (spec/VarHeap.tla)."""
import concurrent.futures as cf
import os
import subprocess
import time
import vlib

META = {
    "engine": "VarHeap.tla, Trace_VarHeap.tla",
    "technique": "TLC exhaustive enumeration of VarHeap.tla histories (typed and Var-to-Var assignment incl. own descendants, "
                 "construction from containers, operator[] auto-creation, <<, resize, clear, remove, extend, clone on shared "
                 "container nodes) replayed transition-by-transition on real asl::Var values under ASan+LSan with the canonical "
                 "tree, sharing, reference counts, accessors, conversions and the == matrix compared; recorded random executions "
                 "(depth 5, growth past the capacity steps) validated against the same spec actions",
    "design_ref": "DESIGN.md section 6, C04",
    "level_text": "TLC enumerates every history of public Var calls over the root variables and all slots reachable by paths up to the "
                  "configured bounds on VarHeap.tla (a heap of reference-counted array/object nodes; scalars NONE, NUL, BOOL, INT, "
                  "NUMBER, FLOAT, strings on both sides of the 7/8-byte inline boundary) and checks the specification's own "
                  "invariants (count = number of referencing slots, no reference to a released node, acyclic, keys ordered) and action "
                  "properties (after a = b the target has the source's previous value, also when b is a descendant of a; a clone "
                  "shares nothing; calls through one root leave unrelated roots unchanged). Every transition is replayed on real "
                  "Var objects under ASan/LSan and every value of every root's tree is compared: type(), is(), length(), int/Long/"
                  "float/double/bool/String conversions, toString(), ==/!= with literals, keys, has(), storage identity and "
                  "reference counts of shared containers, and the pairwise ==/!= matrix. Recorded executions of the real Var are "
                  "accepted by TLC as behaviours of the same actions.",
    "level_note": "Bounded (constants in spec/MC_VarHeap_*.cfg); beyond them only the recorded random executions apply. Numbers are "
                  "integers and halves (exactly representable); NaN, %g formatting of other doubles and numeric text parsing are not "
                  "modelled. NONE == NONE is false in the implementation (an array with unset elements is not == to its own clone); "
                  "the property speaks of values built from numbers, booleans, strings, arrays and objects, so comparisons that hinge "
                  "on a NONE/NONE pair are left unspecified ('u') and not compared. Calls that would make a container contain itself "
                  "(incl. x << x on an unset Var) and extend() with a non-object argument are outside the property and not generated. "
                  "Open finding GrowWhileShared is excluded by a hazard predicate evaluated on the real rc()/cap(). Use-after-free, "
                  "double destruction and leaks are observed by ASan/LSan on the generated executions, not decided by the model.",
}


def _model_and_replay(ctx, rep, spec, cfg, label, workers, jobs):
    cases = os.path.join(ctx.tmp, "%s.cases" % cfg)
    ctx.model(spec, cfg, emit_to=cases, timeout=ctx.pick(900, 3400), xmx="8g", workers=workers)
    m = ctx.replay(rep, cases, label=label, timeout=ctx.pick(900, 5400), jobs=jobs, args=["--batch", ctx.pick("500", "1000")])
    os.unlink(cases)
    return m


def run(ctx):
    lib = vlib.build_lib("asan")
    rep = vlib.build_harness(lib, "c04_replay", ["c04_replay.cpp"])
    rec = vlib.build_harness(lib, "c04_record", ["c04_record.cpp"])
    tier = "quick" if ctx.quick else "thorough"
    ncpu = vlib.NCPU
    # (two spellings of the module name: see checks/C02.py)
    groups = [
        [("VarHeap", "MC_VarHeap_%s" % tier, "R/VarHeap", max(2, ncpu // 2), ncpu)],
        [("VarHeap.tla", "MC_VarHeap_scalars_%s" % tier, "R/VarHeap-scalars", max(2, ncpu // 5), max(2, ncpu // 4))],
    ]
    if not ctx.quick:
        groups[1].append(("VarHeap.tla", "MC_VarHeap_deep1_thorough", "R/VarHeap-deep1", max(2, ncpu // 3), max(2, ncpu // 2)))
        groups[1].append(("VarHeap.tla", "MC_VarHeap_deep_thorough", "R/VarHeap-deep", max(2, ncpu // 3), max(2, ncpu // 2)))

    def group(g):
        for spec, cfg, label, wk, jb in g:
            _model_and_replay(ctx, rep, spec, cfg, label, wk, jb)

    def traces():
        files = ctx.record(rec, ctx.pick(8, 32), ctx.pick(5000, 20000), "V/VarHeap")
        ctx.validate_traces("Trace_VarHeap", "Trace_VarHeap", files, label="V/VarHeap", timeout=ctx.pick(600, 3000),
                            parallel=max(2, ncpu // 2))

    with cf.ThreadPoolExecutor(6) as ex:
        futs = []
        for g in groups:
            futs.append(ex.submit(group, g))
            time.sleep(0.7)     # vlib's TLC run counter is not thread-safe: stagger the starts
        futs.append(ex.submit(traces))
        for f in futs:
            f.result()
    ctx.exhaustive = True
    ctx.rule = ("one case per transition of the VarHeap state graph (history of public Var calls + expected tree of every root with the "
                "accessor results + == matrix); non-trivial = history with >= 2 calls; distinct = distinct case lines (hash)")
    ctx.assumptions += [
        "exhaustive within the constants of spec/MC_VarHeap_*_%s.cfg; beyond them only the recorded random executions apply" % tier,
        "memory errors/leaks are observed by ASan/LSan on the replayed and recorded executions, not decided by the model",
        "numbers are integers and halves; strings: \"\", \"abcdefg\" (7 bytes, inline), \"abcdefgh\" (8 bytes, heap), \"12\", \"1.5xyzuvw\"",
        "comparisons whose result hinges on NONE == NONE are not compared (the implementation answers false)",
    ]


def replay(path):
    lib = vlib.build_lib("asan")
    if os.path.basename(path).startswith("rec-") or path.endswith(".ndjson"):
        return vlib.replay_recorded(path, lib, "c04_record", ["c04_record.cpp"], "Trace_VarHeap", "Trace_VarHeap")
    rep = vlib.build_harness(lib, "c04_replay", ["c04_replay.cpp"])
    r = subprocess.run([rep, "--single", path], env=vlib.run_env())
    return 1 if r.returncode == 1 else (0 if r.returncode == 0 else 2)
