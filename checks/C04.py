"""C04 - Var holds, copies, assigns and compares JSON-like values faithfully (spec/VarHeap.tla)."""
import concurrent.futures as cf
import os
import re
import subprocess
import time
import vlib

META = {
    "engine": "VarHeap.tla, VarApi.tla, Trace_VarHeap.tla",
    "technique": "TLC exhaustive enumeration of VarHeap.tla / VarApi.tla histories (typed and Var-to-Var assignment incl. own descendants, "
                 "construction from Array<Var>/Dic<Var>, from typed Array<T>/Dic<T>, from every C++ number type and from Var::Type, operator[] "
                 "auto-creation, <<, resize, clear, remove, removeAt(i, n), extend with any argument, clone, and enumerations as multi-step "
                 "processes interleaved with other calls, on shared container nodes) replayed transition-by-transition on real asl::Var values "
                 "under ASan+LSan with the canonical tree, sharing, reference counts, accessors, conversions (scalar, Array<T>, Dic<T>), keyed "
                 "read-only queries, == against every other root and against literals of every C++ type compared; enumerations are run with the "
                 "library's foreach/foreach2 macros, range-based for and Var::Enumerator; recorded random executions (depth 5, growth past the "
                 "capacity steps, enumerations with interleaved writes through sharing Vars) validated against the same spec actions",
    "design_ref": "DESIGN.md section 6, C04",
    "level_text": "TLC enumerates every history of public Var calls over the root variables and all slots reachable by paths up to the "
                  "configured bounds on VarHeap.tla (a heap of reference-counted array/object nodes; scalars NONE, NUL, BOOL, INT, "
                  "NUMBER, FLOAT, strings on both sides of the 7/8-byte inline boundary and numeric-looking texts) and on VarApi.tla, "
                  "which adds over the same state: construction from Array<T>/Dic<T> (T = int, double, float, bool, String), from char/"
                  "unsigned/long/unsigned long/Long/ULong and from Var::Type, extend() with a non-object argument, removeAt(i, n), the "
                  "conversions back to Array<T>/Dic<T> with element type mismatches, has(k)/has(k, type)/operator()(k) and chains/read()/"
                  "getp()/const operator[] (no auto-creation)/isArrayOf/Var | default, == against literals (INT/NUMBER/FLOAT and text "
                  "lattice), and enumeration as a process (begin, one step per item in order - ascending keys for objects - reading the "
                  "current value and optionally assigning through the reference, end or break) interleaved with every call that leaves "
                  "the enumerated path and the item sets of its containers in place. TLC checks the specification's own invariants "
                  "(count = number of referencing slots, no reference to a released node, acyclic, keys ordered, an open enumeration "
                  "stands on its container) and action properties (after a = b the target has the source's previous value, also when b "
                  "is a descendant of a; a clone shares nothing; calls through one root leave unrelated roots unchanged; a Var built "
                  "from Array<T>/Dic<T> converts back to the same elements; visiting never changes the shape of the container) and, as "
                  "ASSUMEs, the laws of the scalar domain (== symmetric, numeric across INT/NUMBER/FLOAT, equal scalars print and convert "
                  "alike, number -> text -> number is the identity, atoi/atof prefix reading). Every transition is replayed on real Var "
                  "objects under ASan/LSan and every value of every root's tree is compared: type(), is(), length(), int/unsigned/Long/"
                  "ULong/float/double/bool/String conversions, toString()/string(), ==/!= with literals, keys, has(), contains(), storage "
                  "identity and reference counts of shared containers, the pairwise ==/!= matrix, and for VarApi cases the wide "
                  "observation listed above. Recorded executions of the real Var (calls, step-wise enumerations, accessor results) are "
                  "accepted by TLC as behaviours of the same actions.",
    "level_note": "Bounded (constants in spec/MC_VarHeap_*.cfg, spec/MC_VarApi_*.cfg); beyond them only the recorded random executions "
                  "apply. Numbers are integers and halves (exactly representable); NaN (except (double)NUL), %g formatting of other "
                  "doubles, values beyond 32 bits (the INT/NUMBER switch of Var(unsigned) at 2^31), exponents and non-C locales in "
                  "numeric text are not modelled. The INT-or-NUMBER choice for char/unsigned/long/Long/ULong follows the implementation "
                  "(the documentation only shows int and double). NONE == NONE is false in the implementation (an array with unset "
                  "elements is not == to its own clone); the documentation defines == as equality of type and value and offers ok()/"
                  "is(NONE) for unset Vars, nothing in the library compares unset Vars, so comparisons that hinge on a NONE/NONE pair "
                  "stay unspecified ('u') and are not compared (NONE against anything else is specified: false). Also left open because "
                  "the documentation is silent: const operator[] beyond the end of an array, removeAt(i, n) with a range partly outside "
                  "the array, enumeration of Vars that are not arrays/objects, structural changes of a container during its own "
                  "enumeration, operator[] with the wrong index kind, Var(Var::NUMBER/INT/BOOL/FLOAT) (value uninitialised), is(class), "
                  "whether the Array<Var>/Dic<Var> a Var was built from stays shared. Calls that would make a container contain itself "
                  "(incl. x << x on an unset Var) are outside the property and not generated. Var(Var&&)/operator=(Var&&) are compiled "
                  "out (ASL_HAVE_MOVE is commented out in defs.h), so move semantics cannot be exercised on this build. Open finding "
                  "GrowWhileShared is excluded by a hazard predicate evaluated on the real rc()/cap(). Use-after-free, double "
                  "destruction and leaks are observed by ASan/LSan on the generated executions, not decided by the model.",
}


def _kinds(path):
    """call kinds that occur in the emitted histories (vacuity check of the switchable VarApi alphabets)"""
    seen = {}
    rx = re.compile(r'"op":"(\w+)"')
    with open(path) as f:
        for ln in f:
            h = ln[:ln.index('"exp"')] if '"exp"' in ln else ln
            for m in rx.finditer(h):
                seen[m.group(1)] = seen.get(m.group(1), 0) + 1
    return seen


def _model_and_replay(ctx, rep, spec, cfg, label, workers, jobs, need=()):
    cases = os.path.join(ctx.tmp, "%s.cases" % cfg)
    # (four TLC runs at a time: modest heaps, the state spaces are small - the JVMs were OOM-killed with 8g each on a loaded machine)
    xmx = ctx.pick("3g", "4g") if "VarApi" in cfg else ctx.pick("4g", "5g")
    ctx.model(spec, cfg, emit_to=cases, timeout=ctx.pick(1200, 3400), xmx=xmx, workers=workers)
    if need:
        seen = _kinds(cases)
        missing = [k for k in need if not seen.get(k)]
        if missing:
            raise vlib.HarnessError("%s: vacuous run, call kinds never generated: %s" % (cfg, ", ".join(missing)))
        ctx.extra.setdefault("call_kinds", {})[cfg] = seen
    m = ctx.replay(rep, cases, label=label, timeout=ctx.pick(900, 5400), jobs=jobs, args=["--batch", ctx.pick("500", "1000"), "--case-timeout-ms", "120000"])   # (20 s default: false alarms on a loaded machine)
    os.unlink(cases)
    return m


ENUM = ("enumBegin", "enumNext", "enumEnd")


def run(ctx):
    lib = vlib.build_lib("asan")
    rep = vlib.build_harness(lib, "c04_replay", ["c04_replay.cpp"])
    rec = vlib.build_harness(lib, "c04_record", ["c04_record.cpp"])
    tier = "quick" if ctx.quick else "thorough"
    ncpu = vlib.NCPU
    # (two spellings of a module name: vlib's TLC metadir is derived from it, see checks/C02.py)
    groups = [
        [("VarHeap", "MC_VarHeap_%s" % tier, "R/VarHeap", max(2, ncpu // 2), ncpu, ())],
        [("VarApi", "MC_VarApi_scalars_%s" % tier, "R/VarApi-scalars", max(2, ncpu // 5), max(2, ncpu // 3), ("assignC", "assignScalar", "assignKind")),
         ("VarApi", "MC_VarApi_typed_%s" % tier, "R/VarApi-typed", max(2, ncpu // 5), max(2, ncpu // 3), ("assignTyped", "extend", "removeAt"))],
        [("VarApi.tla", "MC_VarApi_enum_%s" % tier, "R/VarApi-enum", max(2, ncpu // 5), max(2, ncpu // 3), ENUM)],
    ]
    if not ctx.quick:
        # (the deep configuration is the longest chain of the thorough tier: it gets its own lane)
        groups.insert(1, [("VarHeap.tla", "MC_VarHeap_deep_thorough", "R/VarHeap-deep", max(2, ncpu // 3), max(2, ncpu // 2), ())])
        groups[2].append(("VarHeap.tla", "MC_VarHeap_deep1_thorough", "R/VarHeap-deep1", max(2, ncpu // 3), max(2, ncpu // 2), ()))

    def group(g):
        for spec, cfg, label, wk, jb, need in g:
            _model_and_replay(ctx, rep, spec, cfg, label, wk, jb, need)

    def traces():
        count = ctx.pick(8, 32)
        files = ctx.record(rec, count, ctx.pick(5000, 20000), "V/VarHeap")
        kinds = {}
        for f in files:
            for k, n in _kinds(f).items():
                kinds[k] = kinds.get(k, 0) + n
        missing = [k for k in ENUM + ("assignTyped", "assignC", "assignKind", "facts") if not kinds.get(k)]
        if missing and len(files) == count:     # (a recorder that died is a violation already)
            raise vlib.HarnessError("V/VarHeap: recorded runs without events of kind: %s" % ", ".join(missing))
        ctx.extra["recorded_kinds"] = kinds
        ctx.validate_traces("Trace_VarHeap", "Trace_VarHeap", files, label="V/VarHeap", timeout=ctx.pick(600, 3000),
                            parallel=max(2, ncpu // 2))

    with cf.ThreadPoolExecutor(6) as ex:
        futs = []
        for g in groups:
            futs.append(ex.submit(group, g))
            time.sleep(0.7)     # vlib's TLC run counter is not thread-safe: stagger the starts
        futs.append(ex.submit(traces))
        for f in futs:
            f.result()
    ctx.exhaustive = True
    ctx.rule = ("one case per transition of the VarHeap / VarApi state graphs (history of public Var calls, enumeration steps included, "
                "+ expected tree of every root with the accessor results, for VarApi the wide observation of every value, + == matrix); "
                "non-trivial = history with >= 2 calls; distinct = distinct case lines (hash)")
    ctx.assumptions += [
        "exhaustive within the constants of spec/MC_VarHeap_*_%s.cfg and spec/MC_VarApi_*_%s.cfg; beyond them only the recorded random executions apply" % (tier, tier),
        "memory errors/leaks are observed by ASan/LSan on the replayed and recorded executions, not decided by the model",
        "numbers are integers and halves; strings: \"\", \"abcdefg\" (7 bytes, inline), \"abcdefgh\" (8 bytes, heap), and the numeric-looking "
        "texts \"12\", \"1.5xyzuvw\", \"1.5\", \"abc\", \" 7\", \"-2.5\" (C locale)",
        "comparisons whose result hinges on NONE == NONE are not compared (the implementation answers false)",
        "enumeration configurations start from three preset shared containers built by a recorded prefix of calls; calls interleaved with "
        "an enumeration are those that keep the enumerated path and the item sets of its containers (EnumStable)",
    ]


def replay(path):
    lib = vlib.build_lib("asan")
    if os.path.basename(path).startswith("rec-") or path.endswith(".ndjson"):
        return vlib.replay_recorded(path, lib, "c04_record", ["c04_record.cpp"], "Trace_VarHeap", "Trace_VarHeap")
    rep = vlib.build_harness(lib, "c04_replay", ["c04_replay.cpp"])
    r = subprocess.run([rep, "--single", path], env=vlib.run_env())
    return 1 if r.returncode == 1 else (0 if r.returncode == 0 else 2)
