"""C04 - Var holds, copies, assigns and compares JSON-like values faithfully (spec/VarHeap.tla)."""
import os
import subprocess
import vlib

META = {
    "engine": "VarHeap.tla",
    "technique": "TLC",
    "design_ref": "DESIGN.md section 6, C04",
    "level_text": "",
    "level_note": "",
}


def run(ctx):
    lib = vlib.build_lib("asan")
    rep = vlib.build_harness(lib, "c04_replay", ["c04_replay.cpp"])
    cases = os.path.join(ctx.tmp, "c04.cases")
    ctx.model("VarHeap", "MC_VarHeap_quick", emit_to=cases, timeout=900, xmx="6g", workers=6)
    ctx.replay(rep, cases, label="R/VarHeap", timeout=900, jobs=12, args=["--batch", "300"])


def replay(path):
    lib = vlib.build_lib("asan")
    rep = vlib.build_harness(lib, "c04_replay", ["c04_replay.cpp"])
    r = subprocess.run([rep, "--single", path], env=vlib.run_env())
    return 1 if r.returncode == 1 else (0 if r.returncode == 0 else 2)
