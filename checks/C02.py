"""C02 - Map, Dic, HashMap, HashDic and Set behave as finite maps and sets (spec/FiniteMap.tla, spec/HashChains.tla)."""
import concurrent.futures as cf
import os
import subprocess
import time
import vlib

META = {
    "engine": "FiniteMap.tla, HashChains.tla, Trace_FiniteMap.tla",
    "technique": "TLC exhaustive enumeration of FiniteMap.tla histories (shared handles, clones, merges, set algebra) replayed "
                 "transition-by-transition on Map/Dic/HashMap/HashDic/Set (16 key/value/table-size instantiations, colliding "
                 "keys) under ASan+LSan; implementation-shaped HashChains.tla (chains, rehash, lock-step ==) model-checked as a "
                 "refinement of FiniteMap and replayed on tiny tables; recorded random executions (thousands of entries, all "
                 "growth thresholds) validated against the same spec actions",
    "design_ref": "DESIGN.md section 6, C02",
    "level_text": "TLC enumerates every history of public map/set calls through 3 handles (set, operator[], remove, clear, add/merge, "
                  "clone, dup, copy/assign/drop of handles, default construction, union/intersection/difference) up to the configured "
                  "bound on FiniteMap.tla and checks the specification's own properties (a lookup finds exactly the keys present with "
                  "their latest values, length = number of distinct keys, clone independence, extensional set algebra). HashChains.tla "
                  "transcribes the hash table (bins, chains, 7/8 rehash x8, dup, ==) and TLC checks that it implements FiniteMap. Every "
                  "transition of both state graphs is replayed on the real containers under ASan/LSan and the projected state (sorted "
                  "entries, length, has/find/get/const [] for every key of the universe, keys()/array(), reference count, pairwise "
                  "==/!=/contains/containsAny, live value instances) is compared with what TLC emitted. Recorded executions of the real "
                  "containers are accepted by TLC as behaviours of the same actions.",
    "level_note": "Bounded (constants in spec/MC_FiniteMap_*.cfg, MC_FiniteSet_*.cfg, MC_HashChains*.cfg); beyond them only the recorded "
                  "random executions apply. Enumeration order of hash containers is left unspecified (compared as a multiset). Open "
                  "findings GrowWhileShared (Map/Dic) and RehashWhileShared (HashMap/HashDic/Set) are excluded by hazard predicates "
                  "evaluated on the real rc()/cap()/table size; TLC exhibits RehashWhileShared, the chain-head removal and the "
                  "lock-step == as counterexamples of HashChains.tla with the corresponding switch on. Self-assignment of one and "
                  "the same HashMap object (m = m clears it) is outside the property and not generated. Memory errors and leaks are "
                  "observed by ASan/LSan on the generated executions, not decided by the model.",
}

# expected-counterexample runs of the implementation-shaped model: switch -> invariants one of which TLC must report
EXPECT = [
    ("MC_HashChains_headbug", ("Refines", "LengthOK", "LookupOK"), "remove() of a chain head drops the rest of the chain"),
    ("MC_HashChains_eqlockstep", ("EqualOK",), "operator== walking both enumerations depends on insertion order"),
    ("MC_HashChains_allowsharedrehash", ("Refines", "LengthOK", "LookupOK", "SharingOK", "EqualOK"), "rehash() while the table is shared"),
]


def _model_and_replay(ctx, rep, spec, cfg, label, workers, jobs, ignore=(), args=()):
    # small batches: when a batch leaks, vrun re-runs it one case per process to attribute the leak
    cases = os.path.join(ctx.tmp, "%s.cases" % cfg)
    ctx.model(spec, cfg, emit_to=cases, timeout=ctx.pick(900, 3000), xmx="6g", workers=workers, ignore_cov=ignore)
    m = ctx.replay(rep, cases, label=label, timeout=ctx.pick(900, 5400), jobs=jobs, args=list(args) + ["--batch", ctx.pick("300", "1000")] + ([] if ctx.quick else ["--all-kinds"]))
    os.unlink(cases)
    return m


def run(ctx):
    lib = vlib.build_lib("asan")
    rep = vlib.build_harness(lib, "c02_replay", ["c02_replay.cpp"])
    rec = vlib.build_harness(lib, "c02_record", ["c02_record.cpp"])
    tier = "quick" if ctx.quick else "thorough"
    ncpu = vlib.NCPU
    # the first group is the long pole: it gets half of the TLC workers and, when the other groups are done, all cores
    big = (max(2, ncpu // 2), ncpu)
    small = (max(2, ncpu // 5), max(2, ncpu // 4))
    setonly = ("Index",)
    maponly = ("Union", "Inter", "Diff")
    # vlib names TLC's scratch directory after pid, a (not thread-safe) counter and the spec's file name: concurrent runs
    # of one module are therefore started under two different spellings of it ("X" / "X.tla"), chains run one by one
    groups = [
        [("FiniteMap", "MC_FiniteMap_%s" % tier, "R/FiniteMap", maponly, ())],
        [("FiniteMap.tla", "MC_FiniteSet_%s" % tier, "R/FiniteSet", setonly, ()),
         ("FiniteMap.tla", "MC_FiniteMap_order", "R/FiniteMap-order", maponly + setonly, ()),
         ("FiniteMap.tla", "MC_FiniteSet_order", "R/FiniteSet-order", setonly, ())],
        [("HashChains", "MC_HashChains_%s" % tier, "R/HashChains", (), ()),
         ("HashChains", "MC_HashChainsSet_%s" % tier, "R/HashChains-set", ("Index",), ())],
    ]
    if not ctx.quick:
        groups[2].append(("HashChains", "MC_HashChains2_thorough", "R/HashChains-nb2", (), ()))
        groups[1].append(("FiniteMap.tla", "MC_FiniteMap_wide", "R/FiniteMap-wide", maponly, ()))
    shape = {"cases": 0, "differs": 0}

    def group(g):
        for spec, cfg, label, ignore, args in g:
            wk, jb = big if g is groups[0] else small
            m = _model_and_replay(ctx, rep, spec, cfg, label, wk, jb, ignore, args)
            if spec.startswith("HashChains"):
                shape["cases"] += m["executed"] + m["skipped"].get("ShapeDiffers", 0)
                shape["differs"] += m["skipped"].get("ShapeDiffers", 0)

    def expected():
        for cfg, invs, what in EXPECT:
            r = vlib.tlc("HashChains.tla", cfg, workers=2, timeout=600, xmx="2g")
            v = r.violated()
            if v not in invs:
                raise vlib.HarnessError("HashChains/%s: expected a counterexample (%s) for '%s', TLC said %s\n%s" %
                                        (cfg, "/".join(invs), what, v, r.tail(30)))
            ctx.engines.append("HashChains/%s: counterexample as expected (%s violated after %d states): %s" % (cfg, v, r.generated, what))
            vlib.log(ctx.engines[-1])

    def traces():
        files = ctx.record(rec, ctx.pick(8, 32), ctx.pick(25000, 50000), "V/FiniteMap")
        ctx.validate_traces("Trace_FiniteMap", "Trace_FiniteMap", files, label="V/FiniteMap", timeout=ctx.pick(600, 3000),
                            parallel=max(2, ncpu // 4))

    with cf.ThreadPoolExecutor(8) as ex:
        futs = []
        for g in groups:
            futs.append(ex.submit(group, g))
            time.sleep(0.7)     # vlib's TLC run counter is not thread-safe: stagger the starts
        futs.append(ex.submit(traces))
        time.sleep(0.7)
        futs.append(ex.submit(expected))
        for f in futs:
            f.result()
    ctx.known_hits.pop("ShapeDiffers", None)
    ctx.extra["hashchains_shape"] = ("%d of %d replayed HashChains transitions reproduce the transcribed table size and enumeration "
                                     "order exactly" % (shape["cases"] - shape["differs"], shape["cases"]))
    ctx.exhaustive = True
    ctx.rule = ("one case per transition of the FiniteMap / HashChains state graphs (history of public calls + expected projected state), "
                "each executed on every container instantiation of its mode; non-trivial = history with >= 2 calls; distinct = distinct "
                "case lines (hash)")
    ctx.assumptions += [
        "exhaustive within the constants of the MC_*_%s.cfg files; beyond them only the recorded random executions apply" % tier,
        "memory errors/leaks are observed by ASan/LSan on the replayed and recorded executions, not decided by the model",
        "key ids are mapped monotonically onto concrete keys chosen to collide (1,257,513,2049; \"Ab\",\"BA\",\"C \"), to share long "
        "prefixes, and onto integer extremes; hash tables start with 256 bins (default) or 1, 2, 4, 16 bins (HashMap(n))",
        "a HashMap has no merge call: 'add' is executed as an enumeration of the source with assignment into the target",
    ]


def replay(path):
    lib = vlib.build_lib("asan")
    if os.path.basename(path).startswith("rec-") or path.endswith(".ndjson"):
        return vlib.replay_recorded(path, lib, "c02_record", ["c02_record.cpp"], "Trace_FiniteMap", "Trace_FiniteMap")
    rep = vlib.build_harness(lib, "c02_replay", ["c02_replay.cpp"])
    r = subprocess.run([rep, "--single", path], env=vlib.run_env())
    return 1 if r.returncode == 1 else (0 if r.returncode == 0 else 2)
