"""C02 - Map, Dic, HashMap, HashDic and Set behave as finite maps and sets (spec/FiniteMap.tla, FiniteMapExt.tla,
HashChains.tla, MapBuild.tla)."""
import concurrent.futures as cf
import os
import re
import subprocess
import time
import vlib

META = {
    "engine": "FiniteMap.tla, FiniteMapExt.tla, HashChains.tla, MapBuild.tla, Trace_FiniteMap.tla",
    "technique": "TLC exhaustive enumeration of FiniteMap.tla histories (shared handles, clones, merges, set algebra) replayed "
                 "transition-by-transition on Map/Dic/HashMap/HashDic/Set (16 key/value/table-size instantiations, colliding "
                 "keys) under ASan+LSan; implementation-shaped HashChains.tla (chains, rehash, lock-step ==) model-checked as a "
                 "refinement of FiniteMap and replayed on tiny tables; FiniteMapExt.tla (Enumerator objects stepped while other "
                 "handles change, value assignment through enumerators and find(), size-argument and list constructors, m = m) "
                 "and MapBuild.tla (every key/value list -> map / key set / join text, split as the opposite of join) enumerated "
                 "and replayed the same way; recorded random executions (thousands of entries, all growth thresholds, enumerator "
                 "sessions) validated against the same spec actions",
    "design_ref": "DESIGN.md section 6, C02",
    "level_text": "TLC enumerates every history of public map/set calls through 3 handles (set, operator[], remove, clear, add/merge, "
                  "clone, dup, copy/assign/drop of handles, default construction, union/intersection/difference) up to the configured "
                  "bound on FiniteMap.tla and checks the specification's own properties (a lookup finds exactly the keys present with "
                  "their latest values, length = number of distinct keys, clone independence, extensional set algebra). HashChains.tla "
                  "transcribes the hash table (bins, chains, 7/8 rehash x8, dup, ==) and TLC checks that it implements FiniteMap. Every "
                  "transition of both state graphs is replayed on the real containers under ASan/LSan and the projected state (sorted "
                  "entries, length, has/find/get/const [] for every key of the universe, keys()/array(), reference count, pairwise "
                  "==/!=/contains/containsAny, live value instances; the foreach2 and range-based for loops against the explicit "
                  "enumerator) is compared with what TLC emitted. FiniteMapExt.tla adds Enumerator objects (begin, step, *e = v, "
                  "early end) interleaved with every call that leaves the enumerated key set alone - in particular changes of the "
                  "source while its clone is enumerated and vice versa - with the properties 'visited, current and remaining keys "
                  "partition the key set', 'ascending for Map/Dic, any not yet visited key for hash containers' (TLC explores every "
                  "choice, the replayer follows the one the real table makes), 'a step reads the latest value'; containers "
                  "constructed with a size argument (0, 1, 3, ...: no observable effect; set algebra and == between tables of "
                  "different sizes), from key/value lists, assignment of an object to itself, writes through find(). MapBuild.tla "
                  "enumerates every key/value list up to the bound: the map it denotes (last value of a repeated key) must come out "
                  "of the braced-list, chained-pair, converting and size-argument constructors, its key set out of Set's list / "
                  "Array constructors and array(), and Dic::join / String::split(sep1, sep2) must be inverse on it (the round trip "
                  "is an invariant of the specification's own split). HashChains.tla also transcribes HashMap(n) (nextPoT) and "
                  "operator= on the object itself. Recorded executions of the real containers are accepted by TLC as behaviours "
                  "of the same actions.",
    "level_note": "Bounded (constants in spec/MC_FiniteMap_*.cfg, MC_FiniteSet_*.cfg, MC_FiniteMapExt_*.cfg, MC_FiniteSetExt_*.cfg, "
                  "MC_HashChains*.cfg, MC_MapBuild_*.cfg); beyond them only the recorded "
                  "random executions apply. Enumeration order of hash containers is left unspecified (compared as a multiset). Open "
                  "findings GrowWhileShared (Map/Dic) and RehashWhileShared (HashMap/HashDic/Set) are excluded by hazard predicates "
                  "evaluated on the real rc()/cap()/table size; TLC exhibits RehashWhileShared, the chain-head removal and the "
                  "lock-step ==, HashMap(0) and the clearing m = m as counterexamples of HashChains.tla with the corresponding switch "
                  "on. Changing the key set of a container while an enumerator is open on it, texts given to split(sep1, sep2) that "
                  "are not joins (pieces without separator, empty keys, separators inside keys or values) and negative size "
                  "arguments are not documented and left unconstrained (never generated). A hash-container enumeration order that "
                  "no instantiation produces is counted (enum_orders), not a failure. Memory errors and leaks are observed by "
                  "ASan/LSan on the generated executions, not decided by the model.",
}

# expected-counterexample runs of the implementation-shaped model: switch -> invariants one of which TLC must report
EXPECT = [
    ("MC_HashChains_headbug", ("Refines", "LengthOK", "LookupOK"), "remove() of a chain head drops the rest of the chain"),
    ("MC_HashChains_eqlockstep", ("EqualOK",), "operator== walking both enumerations depends on insertion order"),
    ("MC_HashChains_allowsharedrehash", ("Refines", "LengthOK", "LookupOK", "SharingOK", "EqualOK"), "rehash() while the table is shared"),
    ("MC_HashChains_zerobins", ("BinsOK",), "HashMap(0) builds a table without bins"),
    ("MC_HashChains_selfassign", ("Refines", "LengthOK", "LookupOK", "EqualOK"), "operator= on the object itself clears it"),
]


def _model_and_replay(ctx, rep, spec, cfg, label, workers, jobs, ignore=(), args=()):
    # small batches: when a batch leaks, vrun re-runs it one case per process to attribute the leak; the per-case time limit
    # (a hang is a failure) is 2 minutes instead of vrun's 20 s: on a machine shared with dozens of other runs a forked
    # batch has been seen starved for longer than that
    cases = os.path.join(ctx.tmp, "%s.cases" % cfg)
    # TLC reports the Next of these modules as a single action, so -coverage (which slows TLC down several times) says
    # nothing about vacuity: for the configurations of the wider surface the generated calls are counted on the emitted cases
    counted = "Ext" in cfg or "_sizes_" in cfg or "MapBuild" in cfg
    ctx.model(spec, cfg, emit_to=cases, timeout=ctx.pick(900, 3000), xmx="6g", workers=workers, ignore_cov=ignore, must_cover=not counted)
    ops, enum_cases = set(), 0
    if counted:
        with open(cases, "rb") as f:
            for ln in f:
                found = set(re.findall(rb'"op":"([A-Za-z]+)"', ln[:ln.find(b'"exp"')]))
                ops |= found
                if b"estep" in found or b"ebegin" in found:
                    enum_cases += 1
        ops = {o.decode() for o in ops}
    m = ctx.replay(rep, cases, label=label, timeout=ctx.pick(900, 5400), jobs=jobs, args=list(args) + ["--batch", ctx.pick("300", "1000"), "--case-timeout-ms", "120000"] + ([] if ctx.quick else ["--all-kinds"]))
    os.unlink(cases)
    m["ops"], m["enum_cases"] = ops, enum_cases
    return m


def run(ctx):
    lib = vlib.build_lib("asan")
    rep = vlib.build_harness(lib, "c02_replay", ["c02_replay.cpp"])
    rec = vlib.build_harness(lib, "c02_record", ["c02_record.cpp"])
    tier = "quick" if ctx.quick else "thorough"
    ncpu = vlib.NCPU
    # the first group is the long pole: it gets half of the TLC workers and, when the other groups are done, all cores
    big = (max(2, ncpu // 2), ncpu)
    small = (max(2, ncpu // 5), max(2, ncpu // 4))
    setonly = ("Index",)
    maponly = ("Union", "Inter", "Diff")
    # vlib names TLC's scratch directory after pid, a (not thread-safe) counter and the spec's file name: concurrent runs
    # of one module are therefore started under two different spellings of it ("X" / "X.tla"), chains run one by one
    groups = [
        [("FiniteMap", "MC_FiniteMap_%s" % tier, "R/FiniteMap", maponly, ())],
        [("FiniteMap.tla", "MC_FiniteSet_%s" % tier, "R/FiniteSet", setonly, ()),
         ("FiniteMap.tla", "MC_FiniteMap_order", "R/FiniteMap-order", maponly + setonly, ()),
         ("FiniteMap.tla", "MC_FiniteSet_order", "R/FiniteSet-order", setonly, ())],
        [("HashChains", "MC_HashChains_%s" % tier, "R/HashChains", (), ()),
         ("HashChains", "MC_HashChainsSet_%s" % tier, "R/HashChains-set", ("Index",), ())],
    ]
    # the wider surface: enumerators / size and list constructors / m = m (FiniteMapExt), tables built with HashMap(n)
    # (HashChains, a second spelling of the module name: see above), lists -> containers and texts (MapBuild)
    ext_a = [("MC_FiniteMapExt", "MC_FiniteMapExt_%s" % tier, "R/FiniteMapExt", (), ()),
             ("MC_FiniteMapExt", "MC_FiniteMapExt_enum_%s" % tier, "R/FiniteMapExt-enum", (), ())]
    ext_b = [("MC_FiniteMapExt.tla", "MC_FiniteSetExt_%s" % tier, "R/FiniteSetExt", (), ()),
             ("HashChains.tla" if ctx.quick else "HashChains", "MC_HashChains_sizes_%s" % tier, "R/HashChains-sizes", (), ()),
             ("MC_MapBuild", "MC_MapBuild_%s" % tier, "R/MapBuild", (), ())]
    if ctx.quick:
        groups += [ext_a, ext_b]     # two more pipelines side by side: the quick tier is bounded by wall time
    else:
        groups[1] += ext_a           # the thorough tier is bounded by memory (several JVMs of 6 GB + 16 ASan replayers holding
        groups[2] += ext_b           # their case files): the new configurations queue up behind the shorter two groups
    if not ctx.quick:
        groups[2].append(("HashChains", "MC_HashChains2_thorough", "R/HashChains-nb2", (), ()))
        groups[1].append(("FiniteMap.tla", "MC_FiniteMap_wide", "R/FiniteMap-wide", maponly, ()))
    shape = {"cases": 0, "differs": 0}
    orders = {"cases": 0, "other": 0}

    def group(g):
        for spec, cfg, label, ignore, args in g:
            wk, jb = big if g is groups[0] else small
            m = _model_and_replay(ctx, rep, spec, cfg, label, wk, jb, ignore, args)
            if spec.startswith("HashChains"):
                shape["cases"] += m["executed"] + m["skipped"].get("ShapeDiffers", 0)
                shape["differs"] += m["skipped"].get("ShapeDiffers", 0)
            if "Ext" in cfg:
                # vacuity of the new actions is measured on the emitted cases (TLC reports Next as one action)
                need = {"ebegin", "estep", "eend", "list"} | (set() if "_enum_" in cfg else {"new", "assignSelf"}) | \
                       (set() if "Set" in cfg else {"eassign", "poke"})
                missing = sorted(need - m["ops"])
                if missing:
                    raise vlib.HarnessError("%s: vacuous run, calls never generated: %s" % (cfg, missing))
                orders["cases"] += m["enum_cases"]
                orders["other"] += m["skipped"].get("OtherOrder", 0)
                if m["enum_cases"] - m["skipped"].get("OtherOrder", 0) <= 0:
                    raise vlib.HarnessError("%s: no enumerator history was followed to its end" % cfg)
            if "_sizes_" in cfg and not {"new", "assignSelf"} <= m["ops"]:
                raise vlib.HarnessError("%s: vacuous run, no HashMap(n) / m = m generated" % cfg)

    def expected():
        for cfg, invs, what in EXPECT:
            r = vlib.tlc("HashChains.tla", cfg, workers=2, timeout=600, xmx="2g")
            v = r.violated()
            if v not in invs:
                raise vlib.HarnessError("HashChains/%s: expected a counterexample (%s) for '%s', TLC said %s\n%s" %
                                        (cfg, "/".join(invs), what, v, r.tail(30)))
            ctx.engines.append("HashChains/%s: counterexample as expected (%s violated after %d states): %s" % (cfg, v, r.generated, what))
            vlib.log(ctx.engines[-1])

    def traces():
        files = ctx.record(rec, ctx.pick(8, 32), ctx.pick(25000, 50000), "V/FiniteMap")
        ctx.validate_traces("Trace_FiniteMap", "Trace_FiniteMap", files, label="V/FiniteMap", timeout=ctx.pick(600, 3000),
                            parallel=max(2, ncpu // 4))

    with cf.ThreadPoolExecutor(8) as ex:
        futs = []
        for g in groups:
            futs.append(ex.submit(group, g))
            time.sleep(0.7)     # vlib's TLC run counter is not thread-safe: stagger the starts
        futs.append(ex.submit(traces))
        time.sleep(0.7)
        futs.append(ex.submit(expected))
        for f in futs:
            f.result()
    ctx.known_hits.pop("ShapeDiffers", None)
    ctx.known_hits.pop("OtherOrder", None)
    ctx.extra["enum_orders"] = ("%d of %d replayed histories with an enumerator step were followed to their end by at least one container "
                                "instantiation; the others choose a visiting order of a hash container that no instantiation produces"
                                % (orders["cases"] - orders["other"], orders["cases"]))
    ctx.extra["hashchains_shape"] = ("%d of %d replayed HashChains transitions reproduce the transcribed table size and enumeration "
                                     "order exactly" % (shape["cases"] - shape["differs"], shape["cases"]))
    ctx.exhaustive = True
    ctx.rule = ("one case per transition of the FiniteMap / HashChains state graphs (history of public calls + expected projected state), "
                "each executed on every container instantiation of its mode; non-trivial = history with >= 2 calls; distinct = distinct "
                "case lines (hash)")
    ctx.assumptions += [
        "exhaustive within the constants of the MC_*_%s.cfg files; beyond them only the recorded random executions apply" % tier,
        "memory errors/leaks are observed by ASan/LSan on the replayed and recorded executions, not decided by the model",
        "key ids are mapped monotonically onto concrete keys chosen to collide (1,257,513,2049; \"Ab\",\"BA\",\"C \"), to share long "
        "prefixes, and onto integer extremes; hash tables start with 256 bins (default) or 1, 2, 4, 16 bins (HashMap(n))",
        "a HashMap has no merge call: 'add' is executed as an enumeration of the source with assignment into the target",
        "a HashMap/HashDic has no list constructor: 'list' is executed as a new container filled with set()/operator[] in list order; "
        "for Map/Dic a size argument is executed as reserve(n) on a new map",
        "while an enumerator is open, only calls that leave the key set of the enumerated block and the enumerated handle object alone "
        "are generated / recorded (the library documents nothing about modifying a container that is being enumerated)",
    ]


def replay(path):
    lib = vlib.build_lib("asan")
    if os.path.basename(path).startswith("rec-") or path.endswith(".ndjson"):
        return vlib.replay_recorded(path, lib, "c02_record", ["c02_record.cpp"], "Trace_FiniteMap", "Trace_FiniteMap")
    rep = vlib.build_harness(lib, "c02_replay", ["c02_replay.cpp"])
    r = subprocess.run([rep, "--single", path], env=vlib.run_env())
    return 1 if r.returncode == 1 else (0 if r.returncode == 0 else 2)
