"""C02 - Map, Dic, HashMap, HashDic and Set behave as finite maps and sets (spec/FiniteMap.tla, spec/HashChains.tla)."""
import os
import subprocess
import vlib

META = {
    "engine": "FiniteMap.tla",
    "technique": "TLC",
    "design_ref": "DESIGN.md section 6, C02",
    "level_text": "",
    "level_note": "",
}


def run(ctx):
    lib = vlib.build_lib("asan")
    rep = vlib.build_harness(lib, "c02_replay", ["c02_replay.cpp"])
    cases = os.path.join(ctx.tmp, "c02.cases")
    r = ctx.model("FiniteMap", "MC_FiniteMap_quick", emit_to=cases, timeout=600, xmx="4g", workers=4, ignore_cov=("Union", "Inter", "Diff"))
    ctx.replay(rep, cases, label="R/FiniteMap", timeout=900, jobs=12)
    r = ctx.model("FiniteMap", "MC_FiniteSet_quick", emit_to=cases, timeout=600, xmx="4g", workers=4, ignore_cov=("Index",))
    ctx.replay(rep, cases, label="R/FiniteSet", timeout=900, jobs=12)
    r = ctx.model("HashChains", "MC_HashChains_quick", emit_to=cases, timeout=600, xmx="4g", workers=4)
    ctx.replay(rep, cases, label="R/HashChains", timeout=900, jobs=12, args=["--strict-shape"])


def replay(path):
    lib = vlib.build_lib("asan")
    rep = vlib.build_harness(lib, "c02_replay", ["c02_replay.cpp"])
    r = subprocess.run([rep, "--single", path], env=vlib.run_env())
    return 1 if r.returncode == 1 else (0 if r.returncode == 0 else 2)
