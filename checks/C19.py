"""C19 - Date converts between epoch seconds and UTC calendar fields as a bijection (spec/Calendar*.tla)."""
import concurrent.futures as cf
import json
import os
import random
import re
import subprocess
import threading
import vlib

META = {
    "engine": "Calendar.tla, CalendarDays.tla, CalendarClock.tla, CalendarText.tla, Trace_Calendar.tla, CalendarZone.tla, "
              "CalendarZoneDays.tla, CalendarPattern.tla, CalendarArith.tla, CalendarDaysNeg.tla, Trace_CalendarZone.tla",
    "technique": "TLC walks every day of years 1..9999 (successor rule) and every second of a day (carry rule) checking the "
                 "closed-form day number / inverse / year-start table and clock split against them, and generates date-time "
                 "texts (all zone offsets, lexical variants, 1..9 fraction digits, the four output formats) with the instants "
                 "they denote, and texts (with all their prefixes) for the format-driven constructor Date(text, format); every "
                 "generated row/text is replayed on the real asl::Date under ASan; recorded random "
                 "executions (instants incl. sub-millisecond ones, well-formed / mutated / random strings) are validated by "
                 "TLC with the same operators.  Growth: zone rules with daylight saving (CalendarZone.tla) rendered by the "
                 "specification as POSIX TZ strings that the harnesses put into the environment of the library; TLC walks the "
                 "local calendar of 8 zones day by day (counted change days and a toggled daylight flag against the closed "
                 "forms) and emits offsets, local fields, the five local texts and the instants denoted by local times incl. "
                 "the skipped and the repeated hour; every format of the Date(text, format) mini-language up to a length and "
                 "every order of the fields as a formatter/parser pair; arithmetic, order, years 0 / negative / above 9999, "
                 "invalid and huge values; all replayed on asl::Date; recorded executions in each zone (offset, split, local "
                 "constructor, texts, readings, now(), + - < ==) validated by Trace_CalendarZone.tla",
    "design_ref": "DESIGN.md section 6, C19",
    "level_text": "TLC model-checks the calendar (3.65 M days, three independent formulations + successor rule), the clock "
                  "(86 400 s) and the text generator (Read(Format(i)) = i, zone shift for every offset -23:59..+23:59) and "
                  "every row and text it generates is executed on asl::Date (splitUTC, Date(UTC,..), toUTCString, Date(String), "
                  "Date(String, format)) "
                  "with exact comparison; recorded executions of the real code are accepted by Trace_Calendar.tla.  "
                  "Local time: CalendarZoneDays model-checks 8 zone rules (whole- and half-hour offsets, both hemispheres, a 30 min "
                  "shift, changes at midnight) against the counted calendar and every emitted instant / local time around each "
                  "change and one instant per day is executed (localOffset, split, accessors, Date(LOCAL,..), Date(y,..), "
                  "toString in 5 formats, Date(String) without designator) under the TZ string the specification rendered; "
                  "CalendarPattern checks Parse(Format(t, f), f) = t for every injective format and replays every format up to "
                  "length 5 (6 thorough) and all 1158 field orders; CalendarArith the laws of + - < == and the far years; "
                  "recorded executions in each zone are accepted by Trace_CalendarZone.tla.",
    "level_note": "Finite spaces (days, seconds of a day, zone offsets) are complete; instants are otherwise sampled (seeded). "
                  "Date holds a double: the harness converts (day, second, microsecond) to that double and accepts 100 us of "
                  "representation error when comparing parsed instants (a double resolves 30 us in year 9999); instants closer "
                  "than 150 us to a millisecond rounding boundary are not generated. Strings outside the ISO/HTTP forms the spec "
                  "vouches for are only observed (ASan, termination), any result is accepted. "
                  "Local time is checked in 8 synthetic POSIX zones (no zoneinfo data base: no historical rule changes, no "
                  "offsets with seconds); outside 1970..2038 the library approximates the daylight period, there the offset is "
                  "only required to be the rule's when no change is within 10 days, else one of the zone's two offsets; a local "
                  "time in the skipped hour may denote either neighbour; out-of-range constructor fields (day 0, hour 24, ..), "
                  "texts of years outside 0..9999, the obsolete HTTP date forms and values beyond +-1.8e14 s are unspecified "
                  "and only observed. Date::now() is compared with the system clock read by the recorder. "
                  "Memory safety is observed by ASan/LSan, not decided by the model.",
}

MONTH_RE = re.compile(r'\{"k":"month","y":(\d+),"m":(\d+),')


def _models(ctx, jobs):
    """Run TLC model-checking jobs side by side ((spec, cfg, emit path, timeout, workers)), then do the same bookkeeping as
    Ctx.model for each: success required, no action left uncovered, state counters."""
    def one(j):
        spec, cfg, emit, timeout, workers = j[:5]
        cov = j[5] if len(j) > 5 else True
        return j, vlib.tlc(spec, cfg, emit_to=emit, timeout=timeout, workers=workers, xmx="6g" if cov else "3g", coverage=cov)

    with cf.ThreadPoolExecutor(len(jobs)) as ex:
        results = list(ex.map(one, jobs))
    for j, r in results:
        spec, cfg = j[0], j[1]
        what = "%s/%s" % (spec, cfg)
        vlib.tlc_expect_ok(r, what)
        z = vlib.zero_coverage(r) if (len(j) < 6 or j[5]) else []
        if z:
            raise vlib.HarnessError("%s: vacuous run, actions never taken: %s" % (what, z))
        ctx.count(states=r.distinct, transitions=r.generated)
        ctx.engines.append("%s: %d distinct states, %d transitions, depth %d, %.1fs" % (what, r.distinct, r.generated, r.depth, r.wall))
        vlib.log(ctx.engines[-1])


def _pick_days(ctx, months_path, count):
    """Choose the days whose every second is checked: boundary days (fixed list of (y, m, d) *inputs*) plus seeded
    random ones.  Only the choice is made here - the rows (dn, y, m, d, wd) are copied from TLC's output."""
    rnd = random.Random(vlib.derive_seed(ctx.seed, "C19-days"))
    want = {}
    edge = [(1, 1, 1), (1, 12, 31), (4, 2, 29), (100, 2, 28), (100, 3, 1), (400, 2, 29), (1600, 2, 29), (1899, 12, 31),
            (1900, 1, 1), (1900, 2, 28), (1900, 3, 1), (1903, 12, 31), (1904, 1, 1), (1904, 2, 29), (1969, 12, 31),
            (1970, 1, 1), (1999, 12, 31), (2000, 1, 1), (2000, 2, 29), (2000, 12, 31), (2024, 2, 29), (2038, 1, 19),
            (2096, 2, 29), (2099, 12, 31), (2100, 1, 1), (2100, 2, 28), (2100, 3, 1), (2100, 12, 31), (2400, 2, 29),
            (9999, 1, 1), (9999, 12, 31)]
    for y, m, d in edge:
        want.setdefault((y, m), set()).add(d)
    n = len(edge)
    while n < count:
        y = rnd.randint(1, 9999) if rnd.random() < 0.6 else rnd.randint(1890, 2110)
        m = rnd.randint(1, 12)
        d = rnd.choice([1, 28, rnd.randint(1, 28), 31])        # 31 = "last day of the month"
        if d not in want.setdefault((y, m), set()):
            want[(y, m)].add(d)
            n += 1
    days = []
    ctx.extra["day_x_time_points"] = 0
    with open(months_path) as f:
        for ln in f:
            mo = MONTH_RE.match(ln)
            if not mo:
                continue
            i = ln.index('"tod":')
            ctx.extra["day_x_time_points"] += (ln.count("[", 0, i) - 1) * (ln.count("[", i) - 1)   # days x times of day
            key = (int(mo.group(1)), int(mo.group(2)))
            if key not in want:
                continue
            c = json.loads(ln)
            rows = c["rows"]
            for d in want[key]:
                r = rows[-1] if d > len(rows) else rows[d - 1]
                days.append([r[0], c["y"], c["m"], r[1], r[2]])
    days.sort()
    return [list(x) for x in sorted(set(tuple(x) for x in days))]


def _utc_lane(ctx, rep, rec, vlock):
    """The property as listed: UTC calendar, clock, texts (R) and recorded executions in UTC (V)."""
    ctx.rule = ("cases: one per month of years 1..9999 (every day x times of day), one per minute of the day (60 seconds x the "
                "selected days), one per generated text; evaluations: library calls compared with a TLC-computed value; "
                "non-trivial = every case (each carries >= 3 comparisons)")

    # 1. the three models side by side: every day of years 1..9999 (successor rule vs closed forms), every second of a
    #    day (carry rule vs closed form), the text generator (formats read back, every zone offset, fraction digits,
    #    format-driven reading)
    months = os.path.join(ctx.tmp, "c19-months.cases")
    clock = os.path.join(ctx.tmp, "c19-clock.lines")
    texts = os.path.join(ctx.tmp, "c19-text.cases")
    to = ctx.pick(900, 3000)
    _models(ctx, [("CalendarDays", ctx.pick("MC_CalendarDays_quick", "MC_CalendarDays_thorough"), months, to, 8),
                  ("CalendarClock", "MC_CalendarClock", clock, to, 2),
                  ("CalendarText", ctx.pick("MC_CalendarText_quick", "MC_CalendarText_thorough"), texts, to, 6)])
    # 2. R: every day at the times of day of the configuration; every second of the selected days; every text
    ctx.replay(rep, months, label="R/CalendarDays", timeout=ctx.pick(900, 3000))
    days = _pick_days(ctx, months, ctx.pick(200, 1500))
    os.unlink(months)
    tod = os.path.join(ctx.tmp, "c19-tod.cases")
    dtext = json.dumps(days, separators=(",", ":"))
    with open(tod, "w") as out:
        for ln in open(clock):
            ln = ln.rstrip("\n")
            if not ln.endswith("}"):
                raise vlib.HarnessError("unexpected CalendarClock output line: " + ln[:100])
            out.write(ln[:-1] + ',"days":' + dtext + "}\n")
    ctx.extra["days_checked_every_second"] = len(days)
    # measured numbers of library calls compared with a TLC value (splitUTC + Date(UTC,..) per point)
    ctx.evaluations += 2 * ctx.extra["day_x_time_points"] + 2 * 86400 * len(days)
    ctx.replay(rep, tod, label="R/CalendarClock", timeout=ctx.pick(900, 3000), args=("--batch", "40", "--case-timeout-ms", "120000"))
    os.unlink(tod)

    tsamples = []
    with open(texts) as f:
        for ln in f:
            for kind in ('"k":"fmt"', '"k":"read"'):
                if kind in ln and not any(kind in x for x in tsamples):
                    tsamples.append(ln.strip()[:700])
            if len(tsamples) == 2:
                break
    ctx.replay(rep, texts, label="R/CalendarText", timeout=ctx.pick(900, 3000))
    os.unlink(texts)

    # 3. V: recorded executions validated by TLC
    with vlock:
        files = ctx.record(rec, ctx.pick(10, 48), ctx.pick(4000, 40000), "V/Calendar")
        if files:
            with open(files[0]) as f:
                tsamples += [ln.strip()[:300] for ln in f.readlines()[1:4]]
        ctx.validate_traces("Trace_Calendar", "Trace_Calendar", files, label="V/Calendar", timeout=ctx.pick(600, 3000))
    ctx.assumptions += [
        "the runs of the listed property use TZ=UTC, LC_ALL=C (Date(text, format) builds a local time, which is UTC there); the local "
        "functions are exercised by the zone runs",
        "Date(text, format): the spec vouches for the result only when the whole text matches the whole format with 1..9-digit "
        "numbers and valid fields; every other text (all prefixes of matching texts are generated) may give any value in bounds",
        "instants are (day, second, microsecond) triples converted to double by the harness; parsed instants are compared with "
        "100 us tolerance (double resolution in year 9999 is 30 us); sub-millisecond instants within 150 us of a rounding "
        "boundary are not generated",
        "for instants off the millisecond grid the spec accepts the fields/text of the instant rounded to the nearest "
        "millisecond or truncated to it, but all fields must come from the same resolved instant",
        "strings the reading relation Read() of Calendar.tla does not accept (no zone designator, invalid field, other shapes) "
        "may produce any result; they are executed under ASan with a time limit only",
    ]
    return tsamples


ZONE_KINDS = ("zmonth", "zchange", "zpat", "add", "diff", "cmp", "far", "inv", "huge", "old", "oor", "unit")
NZONES = 8


def _zone_vacuity(path):
    """CalendarZoneDays runs without -coverage (TLC's cost model runs out of memory on it): vacuity is decided on what
    was emitted - every zone has month lines, every zone with daylight saving has start and end lines, the skipped and
    the repeated hour occur."""
    months, starts, ends, kinds = {}, {}, {}, set()
    with open(path) as f:
        for ln in f:
            i = ln.index('"tz":')
            tz = ln[i:ln.index("]", i)]
            if '"k":"zmonth"' in ln[:20] or ln.startswith('{"k":"zmonth"'):
                months[tz] = months.get(tz, 0) + 1
            elif '"zchange"' in ln[:20]:
                d = starts if '"start":1' in ln else ends
                d[tz] = d.get(tz, 0) + 1
                for k in ("skipped", "repeated", "unique"):
                    if '"kind":"%s"' % k in ln:
                        kinds.add(k)
    dst = [tz for tz in months if "44," in tz]          # a comma in the TZ string: the zone has a daylight rule
    if len(months) != NZONES or any(tz not in starts or tz not in ends for tz in dst) or len(dst) < 6 or \
            kinds != {"skipped", "repeated", "unique"}:
        raise vlib.HarnessError("CalendarZoneDays: vacuous run (zones %d, with start %d, with end %d, kinds %s)" %
                                (len(months), len(starts), len(ends), sorted(kinds)))
    return sum(months.values()), sum(starts.values()) + sum(ends.values())


def _zone_lane(ctx, rep, zrep, zrec, vlock):
    """Growth: local time with daylight saving, the format mini-language, arithmetic/order, the ends of the representation."""
    zone = os.path.join(ctx.tmp, "c19-zone.cases")
    pat = os.path.join(ctx.tmp, "c19-pat.cases")
    arith = os.path.join(ctx.tmp, "c19-arith.cases")
    neg = os.path.join(ctx.tmp, "c19-neg.cases")
    big = os.path.join(ctx.tmp, "c19-big.cases")
    to = ctx.pick(900, 3000)
    _models(ctx, [("CalendarZoneDays", ctx.pick("MC_CalendarZoneDays_quick", "MC_CalendarZoneDays_thorough"), zone, to, ctx.pick(4, 8), False),
                  ("CalendarPattern", ctx.pick("MC_CalendarPattern_quick", "MC_CalendarPattern_thorough"), pat, to, ctx.pick(3, 4)),
                  ("CalendarArith", "MC_CalendarArith", arith, to, 1),
                  ("CalendarDaysNeg", ctx.pick("MC_CalendarDays_neg", "MC_CalendarDays_neg_thorough"), neg, to, 2),
                  ("CalendarDays", ctx.pick("MC_CalendarDays_big", "MC_CalendarDays_big_thorough"), big, to, ctx.pick(1, 2))])
    nmonths, nchanges = _zone_vacuity(zone)
    ctx.extra["zone_month_lines"] = nmonths
    ctx.extra["zone_change_days"] = nchanges
    samples = []
    with open(zone) as f:
        for ln in f:
            if '"zchange"' in ln[:20]:
                samples.append(ln.strip()[:600])
                break
    # one case file for the zone replayer, one (month lines of far years) for the calendar replayer
    allz = os.path.join(ctx.tmp, "c19-zone-all.cases")
    with open(allz, "w") as out:
        for p in (zone, pat, arith):
            with open(p) as f:
                for ln in f:
                    out.write(ln)
            os.unlink(p)
    far = os.path.join(ctx.tmp, "c19-far.cases")
    with open(far, "w") as out:
        for p in (neg, big):
            with open(p) as f:
                for ln in f:
                    out.write(ln)
            os.unlink(p)
    ctx.replay(zrep, allz, label="R/CalendarZone+Pattern+Arith", timeout=ctx.pick(900, 3000))
    os.unlink(allz)
    ctx.replay(rep, far, label="R/CalendarDays-far-years", timeout=ctx.pick(900, 3000))
    os.unlink(far)
    # V: one recorder per zone
    with vlock:
        files = []
        for z in range(1, NZONES + 1):
            files += ctx.record(zrec, ctx.pick(1, 4), ctx.pick(3000, 30000), "V/ZoneCalendar-z%d" % z, extra_args=("--mode", str(z)))
        if files:
            with open(files[0]) as f:
                samples += [ln.strip()[:300] for ln in f.readlines()[0:3]]
        ctx.validate_traces("Trace_CalendarZone", "Trace_CalendarZone", files, label="V/ZoneCalendar", timeout=ctx.pick(600, 3000))
    ctx.assumptions += [
        "zones are the 8 rules of CalendarZone.tla, rendered by the specification as POSIX TZ strings (TzString) and given to the "
        "library through the environment (TZ) - the C library interprets the same rule the specification defines; no zoneinfo data",
        "outside 1970-01-01 .. 2038-01-01 the library approximates the local offset (documented only as a code comment): there the "
        "offset must be the rule's when no change of the offset lies within 10 days, else one of the two offsets of the zone",
        "a local time in the hour skipped when daylight time starts may denote either of its two neighbours (local time minus "
        "the standard or minus the daylight offset); a local time in the repeated hour may denote either of its two instants",
        "toUTCString(DATE_ONLY): a trailing 'Z' after the date is accepted and not required (documentation: 'just the date part')",
        "Date(text, format): vouched for when the whole text matches the whole format, numbers have 1..9 digits, year (0..99999), "
        "month and day are present and valid; the result is that local time in the zone of the case",
        "years -100 000 .. 100 000 (the constructor's own lower limit) are checked through splitUTC / Date(UTC, ..); texts of years "
        "outside 0..9999, out-of-range constructor fields, the obsolete HTTP date forms and values beyond the int day range are "
        "executed under ASan only",
    ]
    return samples


def run(ctx):
    lib = vlib.build_lib("asan")
    rep = vlib.build_harness(lib, "c19_replay", ["c19_replay.cpp"])
    rec = vlib.build_harness(lib, "c19_record", ["c19_record.cpp"])
    zrep = vlib.build_harness(lib, "c19_zone_replay", ["c19_zone_replay.cpp"])
    zrec = vlib.build_harness(lib, "c19_zone_record", ["c19_zone_record.cpp"])
    ctx.exhaustive = True
    vlock = threading.Lock()          # Ctx.record / validate_traces keep their bookkeeping in the context: one V pair at a time
    with cf.ThreadPoolExecutor(2) as ex:
        lanes = [ex.submit(_utc_lane, ctx, rep, rec, vlock), ex.submit(_zone_lane, ctx, rep, zrep, zrec, vlock)]
        cf.wait(lanes)
    tsamples = []
    for f in lanes:
        tsamples += f.result()        # re-raises HarnessError of a lane
    ctx.samples = [x[:260] + (" ..." if len(x) > 260 else "") for x in ctx.samples[:1]] + tsamples


def replay(path):
    lib = vlib.build_lib("asan")
    base = os.path.basename(path)
    if base.startswith("rec-") or path.endswith(".ndjson"):
        if "ZoneCalendar" in base:
            return vlib.replay_recorded(path, lib, "c19_zone_record", ["c19_zone_record.cpp"], "Trace_CalendarZone", "Trace_CalendarZone")
        return vlib.replay_recorded(path, lib, "c19_record", ["c19_record.cpp"], "Trace_Calendar", "Trace_Calendar")
    with open(path) as f:
        first = f.readline()
    if any('"k":"%s"' % k in first for k in ZONE_KINDS):
        rep = vlib.build_harness(lib, "c19_zone_replay", ["c19_zone_replay.cpp"])
    else:
        rep = vlib.build_harness(lib, "c19_replay", ["c19_replay.cpp"])
    r = subprocess.run([rep, "--single", path, "--case-timeout-ms", "120000"], env=vlib.run_env())
    return 1 if r.returncode == 1 else (0 if r.returncode == 0 else 2)
