"""C19 - Date converts between epoch seconds and UTC calendar fields as a bijection (spec/Calendar*.tla)."""
import concurrent.futures as cf
import json
import os
import random
import re
import subprocess
import vlib

META = {
    "engine": "Calendar.tla, CalendarDays.tla, CalendarClock.tla, CalendarText.tla, Trace_Calendar.tla",
    "technique": "TLC walks every day of years 1..9999 (successor rule) and every second of a day (carry rule) checking the "
                 "closed-form day number / inverse / year-start table and clock split against them, and generates date-time "
                 "texts (all zone offsets, lexical variants, 1..9 fraction digits, the four output formats) with the instants "
                 "they denote, and texts (with all their prefixes) for the format-driven constructor Date(text, format); every "
                 "generated row/text is replayed on the real asl::Date under ASan; recorded random "
                 "executions (instants incl. sub-millisecond ones, well-formed / mutated / random strings) are validated by "
                 "TLC with the same operators",
    "design_ref": "DESIGN.md section 6, C19",
    "level_text": "TLC model-checks the calendar (3.65 M days, three independent formulations + successor rule), the clock "
                  "(86 400 s) and the text generator (Read(Format(i)) = i, zone shift for every offset -23:59..+23:59) and "
                  "every row and text it generates is executed on asl::Date (splitUTC, Date(UTC,..), toUTCString, Date(String), "
                  "Date(String, format)) "
                  "with exact comparison; recorded executions of the real code are accepted by Trace_Calendar.tla.",
    "level_note": "Finite spaces (days, seconds of a day, zone offsets) are complete; instants are otherwise sampled (seeded). "
                  "Date holds a double: the harness converts (day, second, microsecond) to that double and accepts 100 us of "
                  "representation error when comparing parsed instants (a double resolves 30 us in year 9999); instants closer "
                  "than 150 us to a millisecond rounding boundary are not generated. Strings outside the ISO/HTTP forms the spec "
                  "vouches for are only observed (ASan, termination), any result is accepted. Local-zone functions are not covered "
                  "(TZ=UTC). Memory safety is observed by ASan/LSan, not decided by the model.",
}

MONTH_RE = re.compile(r'\{"k":"month","y":(\d+),"m":(\d+),')


def _models(ctx, jobs):
    """Run TLC model-checking jobs side by side ((spec, cfg, emit path, timeout, workers)), then do the same bookkeeping as
    Ctx.model for each: success required, no action left uncovered, state counters."""
    def one(j):
        spec, cfg, emit, timeout, workers = j
        return j, vlib.tlc(spec, cfg, emit_to=emit, timeout=timeout, workers=workers, xmx="6g", coverage=True)

    with cf.ThreadPoolExecutor(len(jobs)) as ex:
        results = list(ex.map(one, jobs))
    for (spec, cfg, emit, timeout, workers), r in results:
        what = "%s/%s" % (spec, cfg)
        vlib.tlc_expect_ok(r, what)
        z = vlib.zero_coverage(r)
        if z:
            raise vlib.HarnessError("%s: vacuous run, actions never taken: %s" % (what, z))
        ctx.states += r.distinct
        ctx.transitions += r.generated
        ctx.engines.append("%s: %d distinct states, %d transitions, depth %d, %.1fs" % (what, r.distinct, r.generated, r.depth, r.wall))
        vlib.log(ctx.engines[-1])


def _pick_days(ctx, months_path, count):
    """Choose the days whose every second is checked: boundary days (fixed list of (y, m, d) *inputs*) plus seeded
    random ones.  Only the choice is made here - the rows (dn, y, m, d, wd) are copied from TLC's output."""
    rnd = random.Random(vlib.derive_seed(ctx.seed, "C19-days"))
    want = {}
    edge = [(1, 1, 1), (1, 12, 31), (4, 2, 29), (100, 2, 28), (100, 3, 1), (400, 2, 29), (1600, 2, 29), (1899, 12, 31),
            (1900, 1, 1), (1900, 2, 28), (1900, 3, 1), (1903, 12, 31), (1904, 1, 1), (1904, 2, 29), (1969, 12, 31),
            (1970, 1, 1), (1999, 12, 31), (2000, 1, 1), (2000, 2, 29), (2000, 12, 31), (2024, 2, 29), (2038, 1, 19),
            (2096, 2, 29), (2099, 12, 31), (2100, 1, 1), (2100, 2, 28), (2100, 3, 1), (2100, 12, 31), (2400, 2, 29),
            (9999, 1, 1), (9999, 12, 31)]
    for y, m, d in edge:
        want.setdefault((y, m), set()).add(d)
    n = len(edge)
    while n < count:
        y = rnd.randint(1, 9999) if rnd.random() < 0.6 else rnd.randint(1890, 2110)
        m = rnd.randint(1, 12)
        d = rnd.choice([1, 28, rnd.randint(1, 28), 31])        # 31 = "last day of the month"
        if d not in want.setdefault((y, m), set()):
            want[(y, m)].add(d)
            n += 1
    days = []
    ctx.extra["day_x_time_points"] = 0
    with open(months_path) as f:
        for ln in f:
            mo = MONTH_RE.match(ln)
            if not mo:
                continue
            i = ln.index('"tod":')
            ctx.extra["day_x_time_points"] += (ln.count("[", 0, i) - 1) * (ln.count("[", i) - 1)   # days x times of day
            key = (int(mo.group(1)), int(mo.group(2)))
            if key not in want:
                continue
            c = json.loads(ln)
            rows = c["rows"]
            for d in want[key]:
                r = rows[-1] if d > len(rows) else rows[d - 1]
                days.append([r[0], c["y"], c["m"], r[1], r[2]])
    days.sort()
    return [list(x) for x in sorted(set(tuple(x) for x in days))]


def run(ctx):
    lib = vlib.build_lib("asan")
    rep = vlib.build_harness(lib, "c19_replay", ["c19_replay.cpp"])
    rec = vlib.build_harness(lib, "c19_record", ["c19_record.cpp"])
    ctx.exhaustive = True
    ctx.rule = ("cases: one per month of years 1..9999 (every day x times of day), one per minute of the day (60 seconds x the "
                "selected days), one per generated text; evaluations: library calls compared with a TLC-computed value; "
                "non-trivial = every case (each carries >= 3 comparisons)")

    # 1. the three models side by side: every day of years 1..9999 (successor rule vs closed forms), every second of a
    #    day (carry rule vs closed form), the text generator (formats read back, every zone offset, fraction digits,
    #    format-driven reading)
    months = os.path.join(ctx.tmp, "c19-months.cases")
    clock = os.path.join(ctx.tmp, "c19-clock.lines")
    texts = os.path.join(ctx.tmp, "c19-text.cases")
    to = ctx.pick(900, 3000)
    _models(ctx, [("CalendarDays", ctx.pick("MC_CalendarDays_quick", "MC_CalendarDays_thorough"), months, to, 8),
                  ("CalendarClock", "MC_CalendarClock", clock, to, 2),
                  ("CalendarText", ctx.pick("MC_CalendarText_quick", "MC_CalendarText_thorough"), texts, to, 6)])
    # 2. R: every day at the times of day of the configuration; every second of the selected days; every text
    ctx.replay(rep, months, label="R/CalendarDays", timeout=ctx.pick(900, 3000))
    days = _pick_days(ctx, months, ctx.pick(200, 1500))
    os.unlink(months)
    tod = os.path.join(ctx.tmp, "c19-tod.cases")
    dtext = json.dumps(days, separators=(",", ":"))
    with open(tod, "w") as out:
        for ln in open(clock):
            ln = ln.rstrip("\n")
            if not ln.endswith("}"):
                raise vlib.HarnessError("unexpected CalendarClock output line: " + ln[:100])
            out.write(ln[:-1] + ',"days":' + dtext + "}\n")
    ctx.extra["days_checked_every_second"] = len(days)
    # measured numbers of library calls compared with a TLC value (splitUTC + Date(UTC,..) per point)
    ctx.evaluations += 2 * ctx.extra["day_x_time_points"] + 2 * 86400 * len(days)
    ctx.replay(rep, tod, label="R/CalendarClock", timeout=ctx.pick(900, 3000), args=("--batch", "40", "--case-timeout-ms", "120000"))
    os.unlink(tod)

    tsamples = []
    with open(texts) as f:
        for ln in f:
            for kind in ('"k":"fmt"', '"k":"read"'):
                if kind in ln and not any(kind in x for x in tsamples):
                    tsamples.append(ln.strip()[:700])
            if len(tsamples) == 2:
                break
    ctx.replay(rep, texts, label="R/CalendarText", timeout=ctx.pick(900, 3000))
    os.unlink(texts)

    # 3. V: recorded executions validated by TLC
    files = ctx.record(rec, ctx.pick(10, 48), ctx.pick(4000, 40000), "V/Calendar")
    if files:
        with open(files[0]) as f:
            tsamples += [ln.strip()[:300] for ln in f.readlines()[1:4]]
    ctx.validate_traces("Trace_Calendar", "Trace_Calendar", files, label="V/Calendar", timeout=ctx.pick(600, 3000))
    ctx.samples = [x[:260] + (" ..." if len(x) > 260 else "") for x in ctx.samples[:1]] + tsamples
    ctx.assumptions += [
        "TZ=UTC, LC_ALL=C; only the UTC functions of Date are exercised (Date(text, format) builds a local time, which is UTC here)",
        "Date(text, format): the spec vouches for the result only when the whole text matches the whole format with 1..9-digit "
        "numbers and valid fields; every other text (all prefixes of matching texts are generated) may give any value in bounds",
        "instants are (day, second, microsecond) triples converted to double by the harness; parsed instants are compared with "
        "100 us tolerance (double resolution in year 9999 is 30 us); sub-millisecond instants within 150 us of a rounding "
        "boundary are not generated",
        "for instants off the millisecond grid the spec accepts the fields/text of the instant rounded to the nearest "
        "millisecond or truncated to it, but all fields must come from the same resolved instant",
        "strings the reading relation Read() of Calendar.tla does not accept (no zone designator, invalid field, other shapes) "
        "may produce any result; they are executed under ASan with a time limit only",
    ]


def replay(path):
    lib = vlib.build_lib("asan")
    if os.path.basename(path).startswith("rec-") or path.endswith(".ndjson"):
        return vlib.replay_recorded(path, lib, "c19_record", ["c19_record.cpp"], "Trace_Calendar", "Trace_Calendar")
    rep = vlib.build_harness(lib, "c19_replay", ["c19_replay.cpp"])
    r = subprocess.run([rep, "--single", path, "--case-timeout-ms", "120000"], env=vlib.run_env())
    return 1 if r.returncode == 1 else (0 if r.returncode == 0 else 2)
