"""C10 - HTTP client and server exchange exact methods, headers, status and bodies (spec/HttpExchange.tla)."""
import os
import subprocess
import vlib

META = {
    "engine": "HttpExchange.tla, HttpProtocol.tla, HttpCases.tla, Trace_HttpExchange.tla",
    "technique": "TLC checks the isolation protocol (HttpProtocol.tla) and generates exchange descriptors with the views the handler "
                 "and the client must observe (HttpCases.tla: targets, queries, headers, body lengths at every block boundary, "
                 "status codes, JSON and file bodies with every byte range); each is executed between the real Http client and "
                 "HttpServer on loopback; recorded concurrent / keep-alive / fragmented runs are validated by TLC against "
                 "HandlerView/ClientView",
    "design_ref": "DESIGN.md section 6, C10",
    "level_text": "Model checking of the exchange protocol plus spec-generated conformance cases replayed through the real client and "
                  "server, and trace validation of recorded runs with 1..64 concurrent clients, keep-alive sequences and raw "
                  "fragmented senders; all under ASan.",
    "level_note": "Bodies are compared by length and 64-bit hash computed by the harness on both sides (the spec compares the atoms). "
                  "The library has no API to terminate a streamed (chunked) response, so chunked framing is exercised for requests "
                  "(raw clients) only. OS interleavings of handlers are sampled, not enumerated.",
}


def run(ctx):
    lib = vlib.build_lib("asan")
    os.makedirs(os.path.join(vlib.BUILD, "tmp"), exist_ok=True)
    ctx.model("HttpProtocol", "MC_HttpProtocol", workers=4, timeout=300)
    cases = os.path.join(ctx.tmp, "c10.cases")
    ctx.model("HttpCases", ctx.pick("MC_HttpCases_quick", "MC_HttpCases_thorough"), emit_to=cases, workers=1, xss="1g",
              timeout=ctx.pick(300, 1800), must_cover=False)
    rep = vlib.build_harness(lib, "c10_replay", ["c10_replay.cpp"])
    ctx.rule = ("cases = every descriptor emitted by HttpCases.tla (one exchange each); non-trivial = all; distinct by line")
    ctx.replay(rep, cases, label="R/HttpCases", args=["--batch", "40", "--case-timeout-ms", "60000"], timeout=ctx.pick(900, 3600),
               jobs=ctx.pick(8, 16))


    # V: concurrent library clients + raw fragmented / keep-alive / chunked clients
    rec = vlib.build_harness(lib, "c10_record", ["c10_record.cpp"])
    files = ctx.record(rec, ctx.pick(8, 32), ctx.pick(1500, 8000), "V/HttpExchange", timeout=ctx.pick(600, 2400))
    ctx.validate_traces("Trace_HttpExchange", "Trace_HttpExchange", files, label="V/HttpExchange", timeout=ctx.pick(900, 3000), xss="256m")
    ctx.assumptions += ["request/response descriptors of the recorded runs are random (seeded); every request carries its own "
                        "response descriptor so that cross-delivery is observable"]


def replay(path):
    lib = vlib.build_lib("asan")
    if os.path.basename(path).startswith("rec-") or path.endswith(".ndjson"):
        return vlib.replay_recorded(path, lib, "c10_record", ["c10_record.cpp"], "Trace_HttpExchange", "Trace_HttpExchange", xss="256m")
    rep = vlib.build_harness(lib, "c10_replay", ["c10_replay.cpp"])
    r = subprocess.run([rep, "--single", path], env=vlib.run_env())
    return 1 if r.returncode == 1 else (0 if r.returncode == 0 else 2)
