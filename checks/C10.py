"""C10 - HTTP client and server exchange exact methods, headers, status and bodies (spec/HttpExchange.tla)."""
import concurrent.futures as cf
import os
import re
import shutil
import subprocess
import threading
import vlib

META = {
    "engine": "HttpExchange.tla, HttpProtocol.tla, HttpCases.tla, Trace_HttpExchange.tla, "
              "HttpRedirect.tla, MC_HttpRedirect.tla, Trace_HttpRedirect.tla, "
              "HttpServerRules.tla, MC_HttpServerRules.tla, Trace_HttpServerRules.tla, "
              "HttpStatic.tla, MC_HttpStatic.tla, Trace_HttpStatic.tla, "
              "HttpTransfer.tla, HttpTransferCases.tla, Trace_HttpTransfer.tla",
    "technique": "TLC checks the isolation protocol (HttpProtocol.tla) and generates exchange descriptors with the views the handler "
                 "and the client must observe (HttpCases.tla: targets, queries, headers, body lengths at every block boundary, "
                 "status codes, JSON and file bodies with every byte range); each is executed between the real Http client and "
                 "HttpServer on loopback; recorded concurrent / keep-alive / fragmented runs are validated by TLC against "
                 "HandlerView/ClientView.  Around the exchange four more modules are model-checked and bound in both directions: "
                 "HttpRedirect.tla (Http::request's redirections as a bounded transition system over sites with loops; at most 4 "
                 "requests, then 421; method/body rules of 301/302/307/308; what is delivered), HttpServerRules.tla (the "
                 "connection as a transition system: OPTIONS, Allow/405, CORS, HTTP/1.0 and Connection: close/keep-alive, Expect: "
                 "100-continue and its refusal), HttpStatic.tla (serveFile over a file tree that is rewritten and removed between "
                 "requests: index.html, 301 for directories, 404, 501, If-Modified-Since/304, byte ranges, mime types, "
                 "Last-Modified, Cache-Control; the invariant CacheCoherent says a revalidated copy is current, and TLC refutes it "
                 "for the pinned one-second-slack rule), HttpTransfer.tla (multipart/form-data envelope of Http::upload with "
                 "RFC 2046 boundary rules, Http::download, JSON / form-urlencoded request bodies, text()/json(), is(pattern)/"
                 "suffix()).  R: every history/case TLC prints is executed by harness/c10_site_replay.cpp against real servers "
                 "(library client or raw socket, real temp directory); V: harness/c10_site_record.cpp runs random scenarios from "
                 "several threads and TLC validates them with the modules' own actions (Trace_Http*.tla)",
    "design_ref": "DESIGN.md section 6, C10",
    "level_text": "Model checking of the exchange protocol, of the redirect machine (HttpRedirect.tla), of the server's connection "
                  "rules (HttpServerRules.tla) and of static serving over a mutable file tree (HttpStatic.tla), plus spec-generated "
                  "conformance cases (HttpCases.tla, HttpTransferCases.tla) replayed through the real client and server, and "
                  "trace validation of recorded runs (1..64 concurrent clients, keep-alive sequences, raw fragmented senders; "
                  "concurrent redirect chains, raw connection histories, tree operations, uploads/downloads/routing calls) "
                  "against Trace_HttpExchange / Trace_HttpRedirect / Trace_HttpServerRules / Trace_HttpStatic / "
                  "Trace_HttpTransfer; all under ASan.",
    "level_note": "Bodies are compared by length and 64-bit hash computed by the harness on both sides (the spec compares the atoms). "
                  "The library has no API to terminate a streamed (chunked) response, so chunked framing is exercised for requests "
                  "(raw clients) only. OS interleavings of handlers are sampled, not enumerated. Left unconstrained because the "
                  "library's documentation does not define them: what a call returns after a relative or missing Location (only "
                  "that no further request is made), 303, POST turned into GET or kept by 301/302 (both accepted), HEAD responses "
                  "with a body, 100-continue asked by an HTTP/1.0 peer, the json() fall-back to a query string, patterns with a "
                  "'*' that is not last and suffix() after a failed match, the body of 404/501 answers, the Content-Type of files "
                  "without extension. File times are whole seconds (POSIX); the static tree lives in a real directory under the "
                  "check's scratch directory. Wall time: asl ends exchanges by itself after fixed times (a connection is dropped "
                  "10 s after it was accepted and after 5 s without data; a body is handed over truncated after 10 s without "
                  "input); the property does not forbid that and an overloaded machine provokes it, so the observation of a "
                  "recorded exchange that took 4 s or longer (field ms, monotonic clock) is not constrained by the trace "
                  "specifications; the number of such exchanges is in the evidence (coverage.slow_exchanges) and a recording with "
                  "more than max(20, 2 %) of them is reported as a server that does not answer in time.",
}

# ---- wall time of recorded exchanges ------------------------------------------------------------------------------------------
# Every exchange-type event of the C10 recorders carries "ms" (harness/c10_common.h).  The Trace_Http* specifications do not
# constrain an event with ms >= SlowMs (the library's own time limits may have fired: a design decision of asl, provoked by an
# overloaded machine, not forbidden by the property).  So that a server which does not answer is not masked, a recording may
# contain at most max(SLOW_MIN, SLOW_SHARE of its exchanges) such events.  (On a machine that is merely overloaded the bound is
# out of reach: a recording with that many exchanges of 4 s and more does not finish within the recorder's time limit.)
SLOW_MS = 4000          # = SlowMs of spec/Trace_Http*.tla = C10_SLOW_MS of harness/c10_common.h
SLOW_MIN = 20
SLOW_SHARE = 0.02
_MS = re.compile(rb'^\{"e":"(\w+)","ms":(\d+)')
EXCHANGE_EVENTS = {"V/HttpExchange": ("recv",), "V/HttpRedirect": ("call",), "V/HttpServerRules": ("xchg", "end"),
                   "V/HttpStatic": ("get",), "V/HttpTransfer": ("upload", "download", "form", "route")}
_slow_lock = threading.Lock()


def slow_count(path, kinds=None):
    """(slow, all) exchange events of a recorded file."""
    n = m = 0
    prev_slow = False
    with open(path, "rb") as fh:
        for ln in fh:
            mt = _MS.match(ln)
            if mt and (kinds is None or mt.group(1).decode() in kinds):
                slow = int(mt.group(2)) >= SLOW_MS
                if mt.group(1) == b"end" and slow and prev_slow:
                    continue        # (the end of a connection abandoned after a slow exchange: the same exchange, not another one)
                m += 1
                n += slow
                prev_slow = slow
    return n, m


def slow_verdict(n, m):
    if n > max(SLOW_MIN, SLOW_SHARE * m):
        return ("server does not answer in time: %d of %d exchanges slower than %d s (allowed: max(%d, %g %%))"
                % (n, m, SLOW_MS // 1000, SLOW_MIN, SLOW_SHARE * 100))
    return None


def slow_rule(ctx, label, files):
    """Counts the slow exchanges of the recorded files (evidence) and reports a file that has too many of them."""
    kinds = EXCHANGE_EVENTS[label]
    tn = tm = worst = 0
    for f in files:
        n, m = slow_count(f, kinds)
        tn += n
        tm += m
        worst = max(worst, n)
        v = slow_verdict(n, m)
        if v:
            keep = os.path.join(ctx.replay_dir, "%s-slow-%s" % (label.replace("/", "_"), os.path.basename(f)))
            os.makedirs(ctx.replay_dir, exist_ok=True)
            shutil.copyfile(f, keep)
            with _slow_lock:
                ctx.violation("%s: %s in %s" % (label, v, os.path.basename(f)), path=keep)
    with _slow_lock:
        ctx.extra.setdefault("slow_exchanges", {})[label] = {"slow": tn, "exchanges": tm, "files": len(files), "most_in_one_file": worst}
        ctx.engines.append("%s: %d of %d recorded exchanges took %d s or longer (observation not constrained)" % (label, tn, tm, SLOW_MS // 1000))
        if tn:
            ctx.assumptions.append("%s: %d of %d recorded exchanges took %d s or longer on this machine (the library's own time "
                                   "limits may have fired); their observations are not constrained" % (label, tn, tm, SLOW_MS // 1000))


def run(ctx):
    lib = vlib.build_lib("asan")
    os.makedirs(os.path.join(vlib.BUILD, "tmp"), exist_ok=True)
    ctx.rule = ("cases = every descriptor emitted by HttpCases.tla (one exchange each) and every case emitted by HttpRedirect / "
                "HttpServerRules / HttpStatic / HttpTransferCases (one call, connection history, tree history or transfer each); "
                "non-trivial = all; distinct by line")
    # three independent lanes: the exchange itself (R, V), the behaviour around it (R), the same recorded (V)
    with cf.ThreadPoolExecutor(3) as ex:
        lanes = [ex.submit(exchange, ctx, lib), ex.submit(grow_r, ctx, lib), ex.submit(grow_v, ctx, lib)]
        for f in lanes:
            f.result()


def exchange(ctx, lib):
    ctx.model("HttpProtocol", "MC_HttpProtocol", workers=4, timeout=300)
    cases = os.path.join(ctx.tmp, "c10.cases")
    ctx.model("HttpCases", ctx.pick("MC_HttpCases_quick", "MC_HttpCases_thorough"), emit_to=cases, workers=1, xss="1g",
              timeout=ctx.pick(300, 1800), must_cover=False)
    rep = vlib.build_harness(lib, "c10_replay", ["c10_replay.cpp"])
    ctx.replay(rep, cases, label="R/HttpCases", args=["--batch", "40", "--case-timeout-ms", "120000"], timeout=ctx.pick(900, 3600),
               jobs=ctx.pick(8, 16))
    # V: concurrent library clients + raw fragmented / keep-alive / chunked clients
    rec = vlib.build_harness(lib, "c10_record", ["c10_record.cpp"])
    files = ctx.record(rec, ctx.pick(8, 32), ctx.pick(1500, 8000), "V/HttpExchange", timeout=ctx.pick(600, 2400))
    slow_rule(ctx, "V/HttpExchange", files)
    ctx.validate_traces("Trace_HttpExchange", "Trace_HttpExchange", files, label="V/HttpExchange", timeout=ctx.pick(900, 3000), xss="256m")
    ctx.assumptions += ["request/response descriptors of the recorded runs are random (seeded); every request carries its own "
                        "response descriptor so that cross-delivery is observable"]


def zone(ctx, tz):
    """HTTP dates are instants in GMT whatever the zone the server runs in (HttpStatic.tla: Last-Modified = the modification
    time): the servers of the growth lanes run 8 h east (R) and 3 h 30 min west (V) of Greenwich; the exchange lane stays in UTC.
    (UTC everywhere if the finding HttpDateLocalTime is registered as open.)"""
    return "UTC" if "HttpDateLocalTime" in ctx.known else tz


def grow_r(ctx, lib):
    """R for the behaviour around an exchange: every case is printed by TLC from the module named and executed between the
    library's client (or a raw socket) and real HttpServers by harness/c10_site_replay.cpp."""
    tier = ctx.pick("quick", "thorough")
    site = vlib.build_harness(lib, "c10_site_replay", ["c10_site_replay.cpp"])
    # the rule of the pinned code ("not modified if mtime <= date + 1 s") must be refuted by TLC itself
    r = vlib.tlc("MC_HttpStatic", "MC_HttpStatic_slack", workers=4, timeout=600)
    if r.violated() != "CacheCoherent":
        raise vlib.HarnessError("HttpStatic/slack: TLC did not refute the one-second slack (%s)\n%s" % (r.violated(), r.tail()))
    ctx.engines.append("MC_HttpStatic/MC_HttpStatic_slack: If-Modified-Since rule with one second of slack refuted by TLC (CacheCoherent) as expected")
    runs = (("MC_HttpRedirect", "MC_HttpRedirect_" + tier, "R/HttpRedirect", True, 4),
            ("MC_HttpServerRules", "MC_HttpServerRules_" + tier, "R/HttpServerRules", True, 4),
            ("MC_HttpStatic.tla", "MC_HttpStatic_sweep", "R/HttpStatic.sweep", True, 2),
            ("MC_HttpStatic", "MC_HttpStatic_hist_" + tier, "R/HttpStatic.hist", True, 4),
            ("HttpTransferCases", "MC_HttpTransferCases_" + tier, "R/HttpTransfer", False, 1))
    if not ctx.quick:     # longer connection histories over one request per behaviour class
        runs += (("MC_HttpServerRules.tla", "MC_HttpServerRules_deep", "R/HttpServerRules.deep", True, 4),)

    def gen(run):
        spec, cfg, label, cover, workers = run
        cases = os.path.join(ctx.tmp, cfg + ".cases")
        ctx.model(spec, cfg, emit_to=cases, workers=workers, xss="512m", timeout=ctx.pick(300, 2400), must_cover=cover)
        return cases

    # (the TLC runs are independent: generate concurrently; all cases go through the same replayer, in one sharded pass)
    with cf.ThreadPoolExecutor(len(runs)) as ex:
        files = list(ex.map(gen, runs))
    merged = os.path.join(ctx.tmp, "site.cases")
    with open(merged, "w") as out:
        for (spec, cfg, label, cover, workers), cases in zip(runs, files):
            n = 0
            with open(cases) as f:
                for ln in f:
                    out.write(ln)
                    n += 1
            ctx.engines.append("%s: %d cases printed by %s/%s" % (label, n, spec.replace(".tla", ""), cfg))
    ctx.replay(site, merged, label="R/HttpSite", args=["--batch", "60", "--case-timeout-ms", "120000"], timeout=ctx.pick(900, 3000),
               jobs=ctx.pick(12, 16), env={"C10_TMP": ctx.tmp, "TZ": zone(ctx, "VRF-8")})


GROW_V = ((1, "V/HttpRedirect", "Trace_HttpRedirect", b'{"e":"call"'),
          (2, "V/HttpServerRules", "Trace_HttpServerRules", b'{"e":"conn"'),
          (3, "V/HttpStatic", "Trace_HttpStatic", b'{"e":"tree"'),
          (4, "V/HttpTransfer", "Trace_HttpTransfer", b'{"e":"'))


def grow_v(ctx, lib):
    """V for the same four modules: harness/c10_site_record.cpp runs seeded random scenarios of one kind from several threads
    (plus unlogged load of the other kinds) and logs each scenario as one block; TLC validates the blocks with the module's
    own actions / operators."""
    rec = vlib.build_harness(lib, "c10_site_record", ["c10_site_record.cpp"])
    events = {1: ctx.pick(1500, 12000), 2: ctx.pick(1500, 12000), 3: ctx.pick(1200, 10000), 4: ctx.pick(500, 4000)}

    def record(m):
        mode, label, spec, start = m
        return ctx.record(rec, ctx.pick(2, 8), events[mode], label, extra_args=["--mode", str(mode)], timeout=ctx.pick(600, 2400),
                          env={"C10_TMP": ctx.tmp, "TZ": zone(ctx, "VRF+3:30")})

    with cf.ThreadPoolExecutor(len(GROW_V)) as ex:
        recorded = list(ex.map(record, GROW_V))
    def validate(mf):
        (mode, label, spec, start), files = mf
        slow_rule(ctx, label, files)
        ok = ctx.validate_traces(spec, spec, files, label=label, timeout=ctx.pick(900, 3000), xss="256m", parallel=4)
        n = 0
        if ok == len(files):
            for f in files:
                with open(f, "rb") as fh:
                    n += sum(1 for ln in fh if ln.startswith(start) and not ln.startswith(b'{"e":"reset"'))
        return n

    with cf.ThreadPoolExecutor(len(GROW_V)) as ex:
        accepted = sum(ex.map(validate, zip(GROW_V, recorded)))       # scenarios (calls, connections, trees, transfers) accepted
    # (not `ctx.traces += sum(...)`: that reads the counter before the validation runs and overwrites what the other lanes -
    # R/HttpSite above all - added to it meanwhile; the evidence then reported a fifth of the executions that were checked)
    ctx.count(traces=accepted)
    ctx.assumptions += ["the scenarios of the recorded runs (sites, connection histories, tree operations, transfers) are random (seeded)"]


def replay(path):
    path = os.path.abspath(path)      # (TLC runs in spec/)
    lib = vlib.build_lib("asan")
    base = os.path.basename(path)
    if path.endswith(".ndjson"):      # a recording with too many slow exchanges is a violation by itself
        kinds = None
        for label in EXCHANGE_EVENTS:
            if label.replace("/", "_") in base:
                kinds = EXCHANGE_EVENTS[label]
        v = slow_verdict(*slow_count(path, kinds or EXCHANGE_EVENTS["V/HttpExchange"]))
        if v:
            print(v)
            return 1
    for mode, label, spec, start in GROW_V:
        if label.replace("/", "_") in base:
            return vlib.replay_recorded(path, lib, "c10_site_record", ["c10_site_record.cpp"], spec, spec, xss="256m")
    if not base.startswith("rec-") and not path.endswith(".ndjson"):
        with open(path) as f:
            if '"kind":' in f.readline():
                rep = vlib.build_harness(lib, "c10_site_replay", ["c10_site_replay.cpp"])
                r = subprocess.run([rep, "--single", path], env=vlib.run_env())
                return 1 if r.returncode == 1 else (0 if r.returncode == 0 else 2)
    if os.path.basename(path).startswith("rec-") or path.endswith(".ndjson"):
        return vlib.replay_recorded(path, lib, "c10_record", ["c10_record.cpp"], "Trace_HttpExchange", "Trace_HttpExchange", xss="256m")
    rep = vlib.build_harness(lib, "c10_replay", ["c10_replay.cpp"])
    r = subprocess.run([rep, "--single", path], env=vlib.run_env())
    return 1 if r.returncode == 1 else (0 if r.returncode == 0 else 2)
