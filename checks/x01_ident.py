"""X01 part `ident` - asl::Uuid (text form, parsing, comparison, generate()) and asl::Random (documented intervals,
uniformity, seeding, getBytes, shuffle, coin, normal): spec/Ident.tla, MC_Ident.tla, Trace_Ident.tla."""
import json
import os
import subprocess
import vlib

ENGINE = "Ident.tla, MC_Ident.tla, Trace_Ident.tla"
TECHNIQUE = ("TLC enumerates Uuid byte vectors, pairs and texts as the states of MC_Ident.tla, checks the format/parse/order laws "
             "of Ident.tla on them and emits each with the prescribed text, bytes and comparison results, which are replayed on "
             "asl::Uuid under ASan; recorded runs of Uuid::generate() and of every documented call of asl::Random are "
             "validated by TLC evaluating the predicates of Ident.tla (version/variant bits, uniqueness, text relation, "
             "intervals, histograms, seeding, buffer bounds)")
LEVEL_TEXT = ("Uuid: a table of 10 vectors, every vector differing from two bases in one byte over a byte alphabet, every vector "
              "with two non-zero bytes over a position set, all pairs of a 30-element set for == != <, every one-character "
              "replacement of three well-formed texts over a character alphabet, every truncation, extensions and moved dashes; "
              "Format is 8-4-4-4-12 lowercase, Parse(Format(u)) = u also for uppercase, Format(Parse(t)) = lowercase(t), bytewise "
              "order is a strict total order - checked on the specification and executed on asl. Random/generate(): each recorded "
              "result is decided by TLC: version nibble 4, variant bits 10, no repetition within a run, integer results within "
              "[m, M] for int/short/Long/unsigned/byte incl. negative and one-value intervals, every value of a small interval "
              "drawn with a count within 6 sigma of uniform, floating results within [m, M] (as floor/ceil of x * 2^16), "
              "getBytes writes each of the n bytes and none of the 16 guard bytes, equal seeds give equal sequences, shuffle "
              "permutes, coin(p) and normal(m, s) counts within 6 sigma.")
LEVEL_NOTE = ("Bounded by spec/MC_Ident_*.cfg. What Uuid(String) makes of a malformed text is not documented and left "
              "unconstrained (such texts are only executed under ASan). Uniqueness of generate() is checked within one recorded "
              "run (up to a few hundred values) - not across processes or threads (Uuid.h documents no thread safety). "
              "Distribution properties are statistical: windows of 6 standard deviations on 1024/4096 draws of a seeded "
              "generator (false alarm < 2e-9 per window, none for the fixed seed); quality of the random numbers beyond that is "
              "not decided. Floating results are compared at a resolution of 2^-16 with bounds that are multiples of 1/16.")

HREP = ("x01_ident_replay", ["x01_ident_replay.cpp"])
HREC = ("x01_ident_record", ["x01_ident_record.cpp"])


def _sample(path, needle, limit=700):
    with open(path) as f:
        for ln in f:
            if needle in ln and len(ln) < limit:
                return ln.strip()
    return None


def run(ctx, lib):
    rep = vlib.build_harness(lib, *HREP)
    rec = vlib.build_harness(lib, *HREC)
    cfg = ctx.pick("MC_Ident_quick", "MC_Ident_thorough")
    cases = os.path.join(ctx.tmp, "x01_ident.cases")
    ctx.model("MC_Ident", cfg, emit_to=cases, timeout=ctx.pick(300, 1500), workers=4, xmx="3g")
    ctx.exhaustive = True
    ctx.rule = ("one case per state of MC_Ident (a Uuid value, a pair or a text with the prescribed results); non-trivial = "
                "non-zero value / unequal pair / non-empty text; distinct = distinct case lines (hash)")
    ctx.add_samples([x for x in (_sample(cases, '"k":"fmt"'), _sample(cases, '"k":"txt"')) if x])
    ctx.replay(rep, cases, label="R/Ident", timeout=ctx.pick(300, 1500), jobs=4)
    os.unlink(cases)
    files = ctx.record(rec, ctx.pick(3, 40), ctx.pick(150, 600), "V/Ident")
    if files:
        ctx.add_samples([x for x in (_sample(files[0], '"e":"gen"'), _sample(files[0], '"e":"int"')) if x])
    ctx.validate_traces("Trace_Ident", "Trace_Ident", files, label="V/Ident", timeout=ctx.pick(300, 1500), xmx="2g", parallel=3)
    ctx.assumptions += [
        "ident: exhaustive within the constants of spec/%s.cfg; Random and Uuid::generate() only through recorded runs" % cfg,
        "ident: malformed Uuid texts are executed for memory safety only (undocumented result)",
        "ident: distribution checks are 6-sigma windows on seeded generators; uniqueness of generate() within one process run",
        "ident: binding demonstrated on mutated copies of the library (one uppercase digit in the Uuid text, variant bits 11, "
        "getBytes one byte short, operator< ignoring the last byte; the unfixed integer interval) and on corrupted trace fields "
        "(variant bit, text, result outside the interval, guard byte, sequence, shuffle, real bound, repeated uuid): all rejected",
    ]


def replay(path, lib):
    base = os.path.basename(path)
    if "Ident" in base:
        return vlib.replay_recorded(path, lib, HREC[0], HREC[1], "Trace_Ident", "Trace_Ident")
    if base.startswith("rec-") or path.endswith(".ndjson"):
        return None
    try:
        with open(path) as f:
            first = json.loads(f.readline())
        if not isinstance(first, dict) or first.get("part") != "ident":
            return None
    except (ValueError, OSError):
        return None
    rep = vlib.build_harness(lib, *HREP)
    r = subprocess.run([rep, "--single", path], env=vlib.run_env())
    return 1 if r.returncode == 1 else (0 if r.returncode == 0 else 2)
