"""X01 part `proc`: asl::Process - life cycle, the three pipes as byte FIFOs, descriptors (spec/ProcLife.tla, V) and
pipe capacities / blocking (spec/ProcPipes.tla, R)."""
import copy
import json
import os
import subprocess
import threading
import vlib

ENGINE = "ProcLife.tla, ProcLifeGen.tla, Trace_ProcLife.tla, ProcPipes.tla, ProcShm.tla, Trace_ProcShm.tla"
TECHNIQUE = ("Process: TLC model-checks ProcLife.tla (object/child life cycle, stdin/stdout/stderr as byte FIFOs of a transducer child, "
             "lowest-free descriptor table with user-owned descriptors; the close-twice destructor design is rejected), replays every "
             "behaviour of <= 5/7 calls with specification-determined results on a real asl::Process (ProcLifeGen.tla) and validates "
             "recorded executions of the real asl::Process (every public call with its result, Process::execute with argument vectors / "
             "large outputs on both streams / missing program, descriptor counts from /proc/self/fd) against it; ProcPipes.tla models "
             "parent program x child program over bounded pipes (capacity in 4 KiB pages), TLC enumerates all interleavings and emits per "
             "scenario the set of possible outcomes (done / deadlock) and the order of the units read; each scenario is executed on the "
             "real API against a helper child under a blocked-state watchdog and must show one of those outcomes; ProcShm.tla models "
             "SharedMem segments (objects attached by name in the parent and in child processes read/write one array), validated "
             "against recorded sessions of real SharedMem objects in the recorder and in helper processes")
LEVEL_TEXT = ("Process: exhaustive model checking of the life-cycle/descriptor model (<= 7 (quick) / 9 (thorough) operations) and of every "
              "pipe scenario of the table (write-then-read, interleaved, wait-then-read, execute loop, read-one-stream-first, writer + reader "
              "thread; 1..100 pages), "
              "bound to the code by trace validation of seeded random API sessions (V) and by replay of all scenarios (R), under ASan; "
              "SharedMem: model of <= 5/7 operations over 2 names x 2 objects, V over sessions with 3 objects + child processes.")
LEVEL_NOTE = ("Process: POSIX branch only; the child is the harness' helper program (plus a non-existent path); OS scheduling of parent and "
              "child is sampled, a real deadlock is recognised by both sides sleeping in pipe calls over several samples; detach(), "
              "copies of Process objects, makeDaemon(), myPath()/loadedLibPath() and the Win32 branch are not covered; calls that would block forever or signal a reaped "
              "pid are never issued (signal() on a never-started object would be kill(-1): shown by code review only, never executed). SharedMem: what a "
              "name means after one of its objects was destroyed is undocumented (POSIX branch unlinks) - such names are not reused.")

REC = ("x01_proc_record", ["x01_proc_record.cpp"])
REP = ("x01_proc_replay", ["x01_proc_replay.cpp"])
SHM = ("x01_shm_record", ["x01_shm_record.cpp"])
LREP = ("x01_proc_life_replay", ["x01_proc_life_replay.cpp"])


def _pipes_cases(ctx, emitted, cases):
    """Group TLC's terminal-state lines by scenario: case = scenario + the set of outcomes TLC found (no computation here)."""
    by = {}
    for ln in open(emitted):
        ln = ln.strip()
        if not ln:
            continue
        d = json.loads(ln)
        key = json.dumps(d["sc"], sort_keys=True)
        ent = by.setdefault(key, {"part": "proc", "sc": d["sc"], "outcomes": [], "reads": []})
        if d["outcome"] not in ent["outcomes"]:
            ent["outcomes"].append(d["outcome"])
        if d["outcome"] == "done" and d["got"] not in ent["reads"]:
            ent["reads"].append(d["got"])
    with open(cases, "w") as f:
        for key in sorted(by):
            by[key]["outcomes"].sort()
            f.write(json.dumps(by[key], sort_keys=True) + "\n")
    return by


def _life(ctx, lib):
    """ProcLife: design model, its pre-fix variant, then V."""
    rec = vlib.build_harness(lib, *REC)
    ctx.model("ProcLife", ctx.pick("MC_ProcLife_quick", "MC_ProcLife_thorough"), workers=ctx.pick(2, 6), timeout=ctx.pick(300, 1500))
    r = vlib.tlc("ProcLife", "MC_ProcLife_closetwice", workers=1, timeout=300)
    if r.violated() != "UserIntact":
        raise vlib.HarnessError("MC_ProcLife_closetwice should violate UserIntact (non-vacuity)\n%s" % r.tail())
    ctx.engines.append("ProcLife/MC_ProcLife_closetwice: UserIntact violated as expected (a destructor that closes the run()-closed numbers again)")
    # R: every behaviour of <= 5 / 7 calls whose results the specification determines, replayed call by call
    lrep = vlib.build_harness(lib, *LREP)
    cases = os.path.join(ctx.tmp, "proclife.cases")
    ctx.model("ProcLifeGen", ctx.pick("MC_ProcLifeGen_quick", "MC_ProcLifeGen_thorough"), emit_to=cases, workers=ctx.pick(2, 6),
              timeout=ctx.pick(300, 1500))
    ctx.replay(lrep, cases, label="R/ProcLife", jobs=ctx.pick(4, 6), timeout=ctx.pick(400, 1800), args=["--batch", "100"])
    files = ctx.record(rec, ctx.pick(4, 40), ctx.pick(800, 1500), "V/ProcLife", timeout=ctx.pick(300, 1200))
    ctx.validate_traces("Trace_ProcLife", "Trace_ProcLife", files, label="V/ProcLife", timeout=ctx.pick(300, 1200), parallel=4)


def _pipes(ctx, lib):
    """ProcPipes: all interleavings of every scenario, outcomes replayed on the real API."""
    rep = vlib.build_harness(lib, *REP)
    emitted = os.path.join(ctx.tmp, "procpipes.emit")
    cases = os.path.join(ctx.tmp, "procpipes.cases")
    ctx.model("ProcPipes", ctx.pick("MC_ProcPipes_quick", "MC_ProcPipes_thorough"), emit_to=emitted, workers=ctx.pick(4, 6),
              timeout=ctx.pick(300, 1800))
    by = _pipes_cases(ctx, emitted, cases)
    nd = sum(1 for e in by.values() if "stuck" in e["outcomes"])
    ctx.engines.append("ProcPipes: %d scenarios, %d of them can deadlock according to the model" % (len(by), nd))
    ctx.extra["pipe_scenarios"] = len(by)
    ctx.extra["pipe_scenarios_deadlocking"] = nd
    ctx.replay(rep, cases, label="R/ProcPipes", jobs=ctx.pick(4, 6), timeout=ctx.pick(400, 1800), args=["--batch", "8"])


def _shm(ctx, lib):
    """ProcShm: named segments shared between objects and processes (V)."""
    rec = vlib.build_harness(lib, *SHM)
    ctx.model("ProcShm", ctx.pick("MC_ProcShm_quick", "MC_ProcShm_thorough"), workers=ctx.pick(2, 4), timeout=ctx.pick(300, 1500))
    files = ctx.record(rec, ctx.pick(2, 16), ctx.pick(800, 2000), "V/ProcShm", timeout=ctx.pick(300, 1200))
    ctx.validate_traces("Trace_ProcShm", "Trace_ProcShm", files, label="V/ProcShm", timeout=ctx.pick(300, 1200), parallel=4)


def run(ctx, lib):
    # the two halves run side by side on shadow contexts (lists/dicts shared, integer counters merged afterwards)
    base = (ctx.states, ctx.transitions, ctx.traces, ctx.evaluations, ctx.distinct)
    shadows, errs, threads = [], [], []

    def go(fn, sh):
        try:
            fn(sh, lib)
        except BaseException as e:
            errs.append(e)

    for fn in (_life, _pipes, _shm):
        sh = copy.copy(ctx)
        sh.extra = {}
        shadows.append(sh)
        t = threading.Thread(target=go, args=(fn, sh))
        threads.append(t)
        t.start()
    for t in threads:
        t.join()
    if errs:
        raise errs[0]
    for sh in shadows:
        ctx.states += sh.states - base[0]
        ctx.transitions += sh.transitions - base[1]
        ctx.traces += sh.traces - base[2]
        ctx.evaluations += sh.evaluations - base[3]
        ctx.distinct += sh.distinct - base[4]
        ctx.extra.update(sh.extra)
    ctx.rule = ("V: recorded API sessions (seeded), non-trivial = all; R: every generated call sequence of ProcLifeGen.tla (distinct by case line) and one case per pipe scenario of ProcPipes.tla with the outcome set "
                "TLC found over all interleavings, distinct by scenario")
    ctx.assumptions += [
        "Process: Linux pipes hold 16 pages of 4096 bytes and page-multiple transfers fill them exactly (ProcPipes capacities); "
        "all unfinished parent threads and the child in state S (sleeping) with no byte moved over 8 samples 50 ms apart = deadlock",
        "Process: the harness reaps children the destructor leaves behind and never has two children with pipes at once "
        "(children inherit every descriptor of the parent, so EOF on one child's pipe would wait for the other child)",
    ]


def replay(path, lib):
    base = os.path.basename(path)
    if "ProcLife" in base:
        return vlib.replay_recorded(path, lib, REC[0], REC[1], "Trace_ProcLife", "Trace_ProcLife")
    if "ProcShm" in base:
        return vlib.replay_recorded(path, lib, SHM[0], SHM[1], "Trace_ProcShm", "Trace_ProcShm")
    try:
        first = json.loads(open(path).readline())
    except Exception:
        return None
    if first.get("part") != "proc":
        return None
    exe = vlib.build_harness(lib, *(LREP if first.get("gen") == "life" else REP))
    p = subprocess.run([exe, "--single", path], env=vlib.run_env())
    return 0 if p.returncode == 0 else 1 if p.returncode == 1 else 2
