"""C12 - shared handles and atomic counters under every thread interleaving (spec/RefCount.tla, Counter.tla)."""
import os
import subprocess
import vlib

META = {
    "engine": "RefCount.tla, RefCountInd.tla, RefCountTreeInd.tla, RefHandoff.tla, Trace_Counter.tla",
    "technique": "TLC explores all handle programs x all interleavings of the library's atomic steps on RefCount.tla (invariants: alive while "
                 "referenced, destroyed once, no use after free, subtree of nested containers destroyed once by the last dropper); every "
                 "transition's history (complete executions for the Var / handle-API configurations) is forced onto real threads by a "
                 "token-passing scheduler hooked into atomicInc/atomicDec and compared step by step (payload destructors, freed blocks, "
                 "null-ness and identity of every handle); RefHandoff.tla composes the counting model with a Mutex/Semaphore/Queue "
                 "hand-off; free-running contended logs are validated by TLC as linearizable, value-returning operations included",
    "design_ref": "DESIGN.md section 6, C12",
    "level_text": "Exhaustive model checking of the reference-count protocol of each handle type (five counting disciplines: Array/Map, "
                  "HashMap, Shared<T>, SmartObject classes, Var containers with embedded handles; 2-3 threads, bounded programs) and of "
                  "the rest of the handle API (null handles, self-assignment, as<>() + converting copy, clone()) with scheduler-forced "
                  "conformance replay on Array/Map/Dic/Stack/Queue/Array2/HashMap/HashDic/Shared<T>/SmartObject classes/Var arrays and objects "
                  "under ASan; inductive "
                  "invariants for unboundedly many operations (flat and nested) by Apalache; exhaustive hand-off model (Mutex, Semaphore, "
                  "Queue of handles); trace validation of recorded executions: high-contention AtomicCount / Atomic<T> (no lost update, "
                  "every returned value of ++/--/read/store/compare/negate explained by one linearization), Dic/HashDic/Set/Stack/Queue/"
                  "Array2/nested Var handles, handles captured by asl::Thread lambdas, handles passed through a locked Queue (FIFO, each "
                  "taken once), reference counts never touched after reaching zero.",
    "level_note": "Interleavings are enumerated at the ASL_VERIF hook points (one per atomic read-modify-write); a non-atomic "
                  "counter cannot be pre-empted by the scheduler and is caught by the free-running recorded runs instead. "
                  "Weak-memory effects below sequential consistency are not modelled.  String and string-typed Var copies are deep "
                  "(nothing shared); Xml nodes count with a plain int (not shareable between threads, no atomic step to schedule); "
                  "AtomicCount's reads are plain volatile reads - their values are validated (linearizable) but they are not exercised "
                  "under the data-race detector; Array/HashMap clone() go through several private counter steps and are left to C01/C02.",
}

TYPES = ["array", "smart", "shared", "hashmap"]
# growth: Var containers with embedded handles (cascading destruction) and the rest of the Shared<T> / SmartObject handle API
# (null handles, a = a, as<>() + converting copy, clone()).  These configurations emit complete executions only (EmitFinal).
EXT_QUICK = ["var", "sharedapi_q", "smartapi_q"]
# thorough: the *_all configurations emit every transition (like the base ones), the others complete executions of bigger bounds
EXT_THOROUGH = ["var_all", "sharedapi_q_all", "smartapi_q_all", "var_tree", "var_t3", "sharedapi", "smartapi"]


def _models(ctx, jobs):
    """The RefCount configurations are independent: run TLC on them side by side (few workers each), account serially.
    jobs: (spec, cfg, emit path, coverage?)"""
    import concurrent.futures as cf
    import time

    def one(arg):
        k, (spec, cfg, p, cover) = arg
        time.sleep(0.2 * k)
        return vlib.tlc(spec, cfg, emit_to=p, workers=ctx.pick(3, 6), timeout=ctx.pick(400, 2400), xmx="4g", coverage=cover)

    with cf.ThreadPoolExecutor(ctx.pick(8, 3)) as ex:
        results = list(ex.map(one, enumerate(jobs)))
    for (spec, cfg, p, cover), r in zip(jobs, results):
        what = "%s/%s" % (spec, cfg)
        vlib.tlc_expect_ok(r, what)
        if cover:
            z = vlib.zero_coverage(r, ("Silent",))      # the base configurations have no operation without atomic step
            if z:
                raise vlib.HarnessError("%s: vacuous run, actions never taken: %s" % (what, z))
        ctx.count(states=r.distinct, transitions=r.generated)
        ctx.engines.append("%s: %d distinct states, %d transitions, depth %d, %.1fs" % (what, r.distinct, r.generated, r.depth, r.wall))
        vlib.log(ctx.engines[-1])


def _start_apalache(ctx):
    import threading
    obligations = [("base", ["--cinit=CInit", "--init=Init", "--inv=IndInv", "--length=0"]),
                   ("step", ["--cinit=CInit", "--init=IndInv", "--inv=IndInv", "--length=1"]),
                   ("IndInv=>Safe", ["--cinit=CInit", "--init=IndInv", "--inv=Safe", "--length=0"])]
    st = {"threads": [], "failed": [], "n": 0}

    def prove(spec):
        wd = os.path.join(ctx.tmp, "apalache-" + spec)
        for name, args in obligations:
            try:
                ok, out = vlib.apalache(spec, args, wd, timeout=ctx.pick(900, 1800))
            except Exception as e:  # noqa
                ok, out = False, repr(e)
            if not ok:
                st["failed"].append("Apalache obligation '%s' of %s.tla failed:\n%s" % (name, spec, out))
                return
            st["n"] += 1

    for spec in ("RefCountInd", "RefCountTreeInd"):
        th = threading.Thread(target=prove, args=(spec,))
        th.start()
        st["threads"].append(th)
    return st


def run(ctx):
    lib = vlib.build_lib("asan")
    rep = vlib.build_harness(lib, "c12_sched", ["c12_sched.cpp"])
    cases = os.path.join(ctx.tmp, "c12.cases")
    jobs = []
    for ty in TYPES:
        for cfg in (["MC_RefCount_%s" % ty] if ctx.quick else ["MC_RefCount_%s" % ty, "MC_RefCount_%s_t3" % ty]):
            jobs.append(("RefCount", cfg, os.path.join(ctx.tmp, "rc-%s.cases" % cfg), True))
    ext = EXT_QUICK if ctx.quick else EXT_THOROUGH
    for name in ext:
        # (no -coverage: it doubles the run time and sees a single Choose action anyway; vacuity is counted below)
        jobs.append(("RefCount", "MC_RefCount_%s" % name, os.path.join(ctx.tmp, "rc-%s.cases" % name), False))
    # handles handed over through a Mutex-protected Queue + Semaphore: the composition of hand-off and counting (design model;
    # bound to the code by the recorded hand-off executions, Trace_Counter.tla ChanOK + the per-counter linearization)
    nhand = 0
    for cfg in (["quick"] if ctx.quick else ["thorough", "t3"]):
        jobs.append(("RefHandoff", "MC_RefHandoff_%s" % cfg, os.path.join(ctx.tmp, "handoff-%s.out" % cfg), True))
        nhand += 1
    apal = _start_apalache(ctx)
    _models(ctx, jobs)
    for k in range(nhand):
        hand = jobs.pop()[2]
        if os.path.exists(hand):
            os.unlink(hand)
    kinds = {}
    with open(cases, "w") as out:
        for spec, cfg, p, cover in jobs:
            text = open(p).read()
            out.write(text)
            os.unlink(p)
            name = cfg[len("MC_RefCount_"):]
            if name in ext:
                # vacuity per operation kind, counted on the emitted executions
                for k in ("copy", "drop", "assign", "conv", "asnull", "clone", "mknull"):
                    kinds[(name, k)] = text.count('"k":"%s"' % k)
    want = {"var": ("copy", "drop", "assign", "mknull"), "sharedapi": ("copy", "drop", "assign", "conv", "asnull", "clone", "mknull"),
            "smartapi": ("copy", "drop", "assign", "conv", "asnull", "clone", "mknull")}
    for (name, k), n in kinds.items():
        if n == 0 and k in want[name.split("_")[0]]:
            raise vlib.HarnessError("MC_RefCount_%s: no emitted execution contains operation '%s' (vacuous)" % (name, k))
    ctx.extra["ext_operation_counts"] = {"%s/%s" % nk: n for nk, n in sorted(kinds.items()) if n}
    ctx.exhaustive = True
    ctx.rule = ("one case per transition of the RefCount state graph (base configurations) or per complete execution (Var / API "
                "configurations): per-thread programs of handle operations plus the schedule (thread of every atomic step), the "
                "thread's expected slot contents before every operation and the expected destroyed/freed flags after every step; "
                "non-trivial = all; distinct by line")
    # array / hashmap cases also run on the derived containers (Dic, Stack, Queue, Array2 / HashDic): one of them per case, chosen
    # by the case (C12_MORE_TYPES=all in the environment runs all of them on every case: +60 % replay time)
    ctx.replay(rep, cases, label="R/RefCount", args=["--batch", "300"], timeout=ctx.pick(900, 3600))
    # unbounded number of operations: the protocols' inductive invariants, discharged symbolically by Apalache (started above,
    # runs beside the model checking and the replay)
    for th in apal["threads"]:
        th.join()
    if apal["failed"]:
        raise vlib.HarnessError("\n".join(apal["failed"]))
    ctx.engines.append("RefCountInd.tla: inductive invariant IndInv (3 threads, unbounded operations) discharged by Apalache: "
                       "base, step, IndInv => Safe")
    ctx.engines.append("RefCountTreeInd.tla: inductive invariant IndInv of nested containers (parent embeds a handle to a child; cascading "
                       "destruction; 3 threads, unbounded operations) discharged by Apalache: base, step, IndInv => Safe")
    ctx.extra["apalache_obligations"] = apal["n"]
    # V: free-running contended executions, every atomic result logged, linearized by TLC
    rec = vlib.build_harness(lib, "c12_record", ["c12_record.cpp"])
    files = ctx.record(rec, ctx.pick(8, 32), ctx.pick(4000, 30000), "V/Counter", timeout=ctx.pick(300, 1500))
    ctx.validate_traces("Trace_Counter", "Trace_Counter", files, label="V/Counter", timeout=ctx.pick(600, 2400), xss="512m")
    # auxiliary: the same contended drivers, hooks silent, under ThreadSanitizer (the property quantifies over runs under a
    # data-race detector); a report in this driver - which only copies/assigns/drops own handles and bumps counters - is
    # a race on the shared object
    tlib = vlib.build_lib("tsan")
    trec = vlib.build_harness(tlib, "c12_record", ["c12_record.cpp"])
    n0 = len(ctx.violations)
    ctx.record(trec, ctx.pick(4, 16), ctx.pick(1500, 20000), "TSan/Counter", extra_args=["--mode", "3"], timeout=ctx.pick(300, 1800),
               env={"TSAN_OPTIONS": "exitcode=97:halt_on_error=1:second_deadlock_stack=1:suppressions=" +
                    os.path.join(vlib.HARNESS, "c12_tsan.supp")})
    ctx.extra["tsan_runs_clean"] = len(ctx.violations) == n0
    ctx.assumptions += [
        "threads only touch their own handles (the property's precondition)",
        "step granularity = one atomicInc/atomicDec plus the local code up to the next one",
    ]


def replay(path):
    lib = vlib.build_lib("asan")
    if os.path.basename(path).startswith("rec-") or path.endswith(".ndjson"):
        return vlib.replay_recorded(path, lib, "c12_record", ["c12_record.cpp"], "Trace_Counter", "Trace_Counter", xss="512m")
    rep = vlib.build_harness(lib, "c12_sched", ["c12_sched.cpp"])
    r = subprocess.run([rep, "--single", path], env=vlib.run_env())
    return 1 if r.returncode == 1 else (0 if r.returncode == 0 else 2)
