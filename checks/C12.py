"""C12 - shared handles and atomic counters under every thread interleaving (spec/RefCount.tla, Counter.tla)."""
import os
import subprocess
import vlib

META = {
    "engine": "RefCount.tla, RefCountInd.tla, Trace_Counter.tla",
    "technique": "TLC explores all handle programs x all interleavings of the library's atomic steps on RefCount.tla (invariants: alive while "
                 "referenced, destroyed once, no use after free); every transition's history is forced onto real threads by a "
                 "token-passing scheduler hooked into atomicInc/atomicDec and compared step by step; free-running contended "
                 "counter logs are validated by TLC as linearizable",
    "design_ref": "DESIGN.md section 6, C12",
    "level_text": "Exhaustive model checking of the reference-count protocol of each handle type (2-3 threads, bounded programs) with "
                  "scheduler-forced conformance replay on Array/Map/HashMap/Shared<T>/SmartObject classes under ASan, plus trace "
                  "validation of recorded high-contention AtomicCount / Atomic<T> executions (no lost update).",
    "level_note": "Interleavings are enumerated at the ASL_VERIF hook points (one per atomic read-modify-write); a non-atomic "
                  "counter cannot be pre-empted by the scheduler and is caught by the free-running recorded runs instead. "
                  "Weak-memory effects below sequential consistency are not modelled.",
}

TYPES = ["array", "smart", "shared", "hashmap"]


def run(ctx):
    lib = vlib.build_lib("asan")
    rep = vlib.build_harness(lib, "c12_sched", ["c12_sched.cpp"])
    cases = os.path.join(ctx.tmp, "c12.cases")
    with open(cases, "w") as out:
        for ty in TYPES:
            p = os.path.join(ctx.tmp, "rc-%s.cases" % ty)
            cfgs = ["MC_RefCount_%s" % ty] if ctx.quick else ["MC_RefCount_%s" % ty, "MC_RefCount_%s_t3" % ty]
            for cfg in cfgs:
                ctx.model("RefCount", cfg, emit_to=p, workers=8, timeout=ctx.pick(300, 2400), xmx="8g")
                out.write(open(p).read())
                os.unlink(p)
    ctx.exhaustive = True
    ctx.rule = ("one case per transition of the RefCount state graph: per-thread programs of copy/drop/assign plus the schedule "
                "(thread of every atomic step) and the expected destroyed-flags after every step; non-trivial = all; distinct by line")
    ctx.replay(rep, cases, label="R/RefCount", args=["--batch", "300"], timeout=ctx.pick(900, 3600))
    # unbounded number of operations: the protocol's inductive invariant, discharged symbolically by Apalache
    wd = os.path.join(ctx.tmp, "apalache")
    obligations = [("base", ["--cinit=CInit", "--init=Init", "--inv=IndInv", "--length=0"]),
                   ("step", ["--cinit=CInit", "--init=IndInv", "--inv=IndInv", "--length=1"]),
                   ("IndInv=>Safe", ["--cinit=CInit", "--init=IndInv", "--inv=Safe", "--length=0"])]
    for name, args in obligations:
        ok, out = vlib.apalache("RefCountInd", args, wd, timeout=600)
        if not ok:
            raise vlib.HarnessError("Apalache obligation '%s' of RefCountInd.tla failed:\n%s" % (name, out))
    ctx.engines.append("RefCountInd.tla: inductive invariant IndInv (3 threads, unbounded operations) discharged by Apalache: "
                       "base, step, IndInv => Safe")
    ctx.extra["apalache_obligations"] = len(obligations)
    # V: free-running contended executions, every atomic result logged, linearized by TLC
    rec = vlib.build_harness(lib, "c12_record", ["c12_record.cpp"])
    files = ctx.record(rec, ctx.pick(8, 32), ctx.pick(6000, 40000), "V/Counter", timeout=ctx.pick(300, 1500))
    ctx.validate_traces("Trace_Counter", "Trace_Counter", files, label="V/Counter", timeout=ctx.pick(600, 2400), xss="512m")
    # auxiliary: the same contended drivers, hooks silent, under ThreadSanitizer (the property quantifies over runs under a
    # data-race detector); a report in this driver - which only copies/assigns/drops own handles and bumps counters - is
    # a race on the shared object
    tlib = vlib.build_lib("tsan")
    trec = vlib.build_harness(tlib, "c12_record", ["c12_record.cpp"])
    n0 = len(ctx.violations)
    ctx.record(trec, ctx.pick(4, 16), ctx.pick(1500, 20000), "TSan/Counter", extra_args=["--mode", "3"], timeout=ctx.pick(300, 1800),
               env={"TSAN_OPTIONS": "exitcode=97:halt_on_error=1:second_deadlock_stack=1"})
    ctx.extra["tsan_runs_clean"] = len(ctx.violations) == n0
    ctx.assumptions += [
        "threads only touch their own handles (the property's precondition)",
        "step granularity = one atomicInc/atomicDec plus the local code up to the next one",
    ]


def replay(path):
    lib = vlib.build_lib("asan")
    if os.path.basename(path).startswith("rec-") or path.endswith(".ndjson"):
        return vlib.replay_recorded(path, lib, "c12_record", ["c12_record.cpp"], "Trace_Counter", "Trace_Counter", xss="512m")
    rep = vlib.build_harness(lib, "c12_sched", ["c12_sched.cpp"])
    r = subprocess.run([rep, "--single", path], env=vlib.run_env())
    return 1 if r.returncode == 1 else (0 if r.returncode == 0 else 2)
