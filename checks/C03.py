"""C03 - String operations agree with a byte-string model and stay in bounds (spec/ByteString*.tla, spec/IntText.tla)."""
import hashlib
import json
import os
import shutil
import subprocess
import vlib

META = {
    "engine": "ByteStringOps.tla, ByteString.tla, IntText.tla, MC_ByteStringOps.tla, MC_ByteStringFmt.tla, MC_IntText.tla, "
              "MC_ByteStringBig.tla, Trace_ByteString.tla",
    "technique": "TLC enumerates (a) every history of in-place String calls (incl. self-assignment/append of pieces of "
                 "itself) over boundary-length values and every setup/settle/jump history in which one call asks a string of "
                 ">= 1 KiB for 1.5x..6x its largest size (or shrinks it), (b) every short string against every short pattern for the pure "
                 "operations, (c) boundary integers on 16-bit limbs, (d) printf-style formats; invariants are the "
                 "property's identities and pairs of independent definitions; every emitted row is replayed on the real "
                 "String under ASan and compared; recorded random executions (long strings, random integers) are "
                 "validated by TLC against the same operators",
    "design_ref": "DESIGN.md section 6, C03",
    "level_text": "TLC explores ByteString.tla exhaustively within the configured bounds (values at the 15/16 inline and "
                  "20/24 heap boundaries, all aliasing calls; lengths 600..6 000 (thorough 31 000) around the 1 KiB growth-policy "
                  "switch with single large jumps) and evaluates ByteStringOps/IntText on complete small "
                  "domains; each transition / table row is executed on asl::String under ASan+LSan with the result "
                  "compared and length() == strlen() checked after every call.",
    "level_note": "Bounded (constants in spec/MC_ByteString*.cfg, MC_IntText*.cfg); beyond them seeded random executions "
                  "validated by TLC. %g/%f formatting and double parsing are libc and not modelled. Memory safety is observed "
                  "(ASan), not decided. Empty patterns/separators are outside the property.",
}


def run(ctx):
    lib = vlib.build_lib("asan")
    rep = vlib.build_harness(lib, "c03_replay", ["c03_replay.cpp"])
    tier = "quick" if ctx.quick else "thorough"
    runs = [] if ctx.quick else [("ByteString", "MC_ByteString_deep", "R/ByteString-deep")]   # one variable, longer histories
    # large single jumps of strings at and beyond the 1 KiB growth-policy switch (setup / settle / jump histories);
    # thorough: larger sets, two jumps in a row (deep), two variables (pair)
    runs += [("MC_ByteStringBig", "MC_ByteStringBig_" + tier, "R/ByteString-big")]
    if not ctx.quick:
        runs += [("MC_ByteStringBig", "MC_ByteStringBig_deep", "R/ByteString-big-deep"),
                 ("MC_ByteStringBig", "MC_ByteStringBig_pair", "R/ByteString-big-pair")]
    for spec, cfg, label in runs + [("ByteString", "MC_ByteString_" + tier, "R/ByteString"),
                             ("MC_ByteStringOps", "MC_ByteStringOps_" + tier, "R/ByteStringOps"),
                             ("MC_IntText", "MC_IntText_" + tier, "R/IntText"),
                             ("MC_ByteStringFmt", "MC_ByteStringFmt_" + tier, "R/ByteStringFmt")]:
        cases = os.path.join(ctx.tmp, "c03-%s.cases" % spec)
        big = spec == "MC_ByteStringBig"
        ctx.model(spec, cfg, emit_to=cases, timeout=ctx.pick(600, 3000), xmx="12g", xss="512m" if big else None)
        if big:
            _big_coverage(ctx, cases, cfg)
        ctx.replay(rep, cases, label=label, timeout=ctx.pick(900, 5400))
        os.unlink(cases)
    # V: recorded random executions (strings to ~1300 bytes: every capacity doubling and the 1 KiB malloc->realloc switch;
    # random 32/64-bit integers as limbs) validated by TLC against the same actions and operators
    rec = vlib.build_harness(lib, "c03_record", ["c03_record.cpp"])
    files = ctx.record(rec, ctx.pick(6, 24), ctx.pick(2500, 8000), "V/ByteString", extra_args=["--mode", "0"])
    files += ctx.record(rec, ctx.pick(4, 16), ctx.pick(5000, 25000), "V/IntText", extra_args=["--mode", "1"])
    # large single jumps aimed at cap(): values to 12 000 bytes (thorough: also to 30 000)
    files += ctx.record(rec, ctx.pick(6, 16), ctx.pick(300, 1500), "V/ByteString-big", extra_args=["--mode", "2"])
    if not ctx.quick:
        files += ctx.record(rec, 8, 1000, "V/ByteString-big3", extra_args=["--mode", "3"])
    ctx.validate_traces("Trace_ByteString", "Trace_ByteString", files, label="V/ByteString", timeout=ctx.pick(600, 3000), xss="512m",
                        parallel=vlib.NCPU)
    ctx.exhaustive = True
    ctx.assumptions += [
        "exhaustive within the constants of spec/MC_ByteString_%s.cfg, MC_ByteStringBig_%s.cfg, MC_ByteStringOps_%s.cfg, MC_IntText_%s.cfg, "
        "MC_ByteStringFmt_%s.cfg; beyond them only the recorded random executions apply" % (tier, tier, tier, tier, tier),
        "the large-jump histories (MC_ByteStringBig) have the shape setup / settle / jump; their requests are aimed at the largest "
        "length a variable has reached, not at the implementation's capacity (storage is not modelled)",
        "byte strings without embedded NUL, non-empty patterns and separators, in-range indices (the property's quantifier)",
        "bytes exposed by resize() beyond the old length are written by the driver before they are read",
        "the way back from the text of an unsigned 64-bit integer is (ULong)toLong() (there is no conversion to ULong); it relies on "
        "two's-complement wrap-around in myatol, as the specification's ParseS does",
        "%g/%f formatting and text->double are libc and not modelled",
        "memory errors/leaks are observed by ASan/LSan on the replayed and recorded executions, not decided by the model",
    ]
    ctx.rule = ("one case per transition of the ByteString state graph (history + expected values), per string of the "
                "operations table, per integer pattern, per format; non-trivial = history with >= 2 calls / non-empty string")


# the calls a large-jump run has to end histories with (TLC's coverage sees NextBig as one action)
BIG_SETTLE = ("appendChar", "clear", "fixAt", "reserve", "appendInt")
BIG_JUMP = ("assign", "assignVar", "resize", "appendRepeat", "assignRepeat", "appendVar", "appendPiece", "assignConcat", "append",
            "appendN", "assignN")


def _hkey(h):
    return hashlib.sha1(json.dumps(h, sort_keys=True).encode()).digest()


def _big_coverage(ctx, cases, cfg):
    """Vacuity guard for MC_ByteStringBig: every call kind ends some emitted history, and the histories do contain
    single calls that multiply the length of a string of >= 1 KiB (measured on the emitted expected values)."""
    last = {}
    lens = {}           # history (digest) -> lengths of the variables after it
    grow15 = grow2 = grow3 = shrink = 0
    with open(cases) as f:
        for ln in f:
            c = json.loads(ln)
            h = c["hist"]
            op = h[-1]["op"]
            last[op] = last.get(op, 0) + 1
            lens[_hkey(h)] = [len(v) for v in c["exp"]]
    with open(cases) as f:
        for ln in f:
            c = json.loads(ln)
            h = c["hist"]
            if len(h) < 2:
                continue
            before = lens.get(_hkey(h[:-1]))
            if before is None:
                continue
            x = h[-1]["x"]
            n0, n1 = before[x - 1], len(c["exp"][x - 1])
            if n0 >= 1023:
                grow15 += 2 * n1 > 3 * n0
                grow2 += n1 > 2 * n0
                grow3 += n1 >= 3 * n0
                shrink += n1 < 1023
    settles = not cfg.endswith("_deep")        # the deep configuration goes from the setup straight to two jumps
    missing = [o for o in BIG_JUMP + (BIG_SETTLE if settles else ()) if o not in last]
    if missing:
        raise vlib.HarnessError("%s: vacuous run, no history ends with %s" % (cfg, missing))
    if not (grow15 and grow2 and grow3 and (shrink or not settles)):
        raise vlib.HarnessError("%s: vacuous run, single calls on strings of >= 1023 bytes: %d grow > 1.5x, %d > 2x, %d >= 3x, %d shrink "
                                "below 1023" % (cfg, grow15, grow2, grow3, shrink))
    ctx.extra.setdefault("big_jumps", {})[cfg] = {"calls_growing_a_1KiB_string_more_than_1.5x": grow15, "more_than_2x": grow2,
                                                  "3x_or_more": grow3, "shrinking_below_1KiB": shrink, "last_call_kinds": last}


def _replay_recorded(path, lib, hname, hsrcs, trace_spec, cfg):
    """vlib.replay_recorded with a larger TLC stack (the operators recurse over strings of > 1000 bytes): a stored
    (rejected) trace is validated again; a recorder-crash descriptor {seed, events, args} is re-recorded first."""
    tmp = os.path.join(vlib.BUILD, "tmp", "replay-%d" % os.getpid())
    os.makedirs(tmp, exist_ok=True)
    try:
        trace = path
        if not path.endswith(".ndjson"):
            info = json.load(open(path))
            exe = vlib.build_harness(lib, hname, hsrcs)
            trace = os.path.join(tmp, "t.ndjson")
            cmd = [exe, "--seed", str(info["seed"]), "--events", str(info["events"]), "--out", trace] + list(info.get("args", []))
            if info.get("avoid"):
                cmd += ["--avoid", ",".join(info["avoid"])]
            p = subprocess.run(["timeout", "1800"] + cmd, env=vlib.run_env())
            if p.returncode != 0:
                print("recorder failed again with exit %d (seed %s): violation reproduced" % (p.returncode, info["seed"]))
                return 1
        r = vlib.tlc(trace_spec, cfg, workers=1, timeout=1800, env={"TRACE": trace}, xss="512m")
        if r.rc == 0:
            print("trace accepted by %s" % trace_spec)
            return 0
        if r.violated() is None:
            print(r.tail(40))
            return 2
        print("trace rejected by %s near event %d: %s" % (trace_spec, r.depth, vlib._nth_line(trace, r.depth)))
        return 1
    finally:
        shutil.rmtree(tmp, ignore_errors=True)


def replay(path):
    lib = vlib.build_lib("asan")
    if os.path.basename(path).startswith("rec-") or path.endswith(".ndjson"):
        return _replay_recorded(path, lib, "c03_record", ["c03_record.cpp"], "Trace_ByteString", "Trace_ByteString")
    rep = vlib.build_harness(lib, "c03_replay", ["c03_replay.cpp"])
    r = subprocess.run([rep, "--single", path], env=vlib.run_env())
    return 1 if r.returncode == 1 else (0 if r.returncode == 0 else 2)
