"""C03 - String operations agree with a byte-string model and stay in bounds (spec/ByteString*.tla, spec/IntText.tla)."""
import json
import os
import shutil
import subprocess
import vlib

META = {
    "engine": "ByteStringOps.tla, ByteString.tla, IntText.tla, MC_ByteStringOps.tla, MC_ByteStringFmt.tla, MC_IntText.tla, "
              "Trace_ByteString.tla",
    "technique": "TLC enumerates (a) every history of in-place String calls (incl. self-assignment/append of pieces of "
                 "itself) over boundary-length values, (b) every short string against every short pattern for the pure "
                 "operations, (c) boundary integers on 16-bit limbs, (d) printf-style formats; invariants are the "
                 "property's identities and pairs of independent definitions; every emitted row is replayed on the real "
                 "String under ASan and compared; recorded random executions (long strings, random integers) are "
                 "validated by TLC against the same operators",
    "design_ref": "DESIGN.md section 6, C03",
    "level_text": "TLC explores ByteString.tla exhaustively within the configured bounds (values at the 15/16 inline and "
                  "20/24 heap boundaries, all aliasing calls) and evaluates ByteStringOps/IntText on complete small "
                  "domains; each transition / table row is executed on asl::String under ASan+LSan with the result "
                  "compared and length() == strlen() checked after every call.",
    "level_note": "Bounded (constants in spec/MC_ByteString*.cfg, MC_IntText*.cfg); beyond them seeded random executions "
                  "validated by TLC. %g/%f formatting and double parsing are libc and not modelled. Memory safety is observed "
                  "(ASan), not decided. Empty patterns/separators are outside the property.",
}


def run(ctx):
    lib = vlib.build_lib("asan")
    rep = vlib.build_harness(lib, "c03_replay", ["c03_replay.cpp"])
    tier = "quick" if ctx.quick else "thorough"
    runs = [] if ctx.quick else [("ByteString", "MC_ByteString_deep", "R/ByteString-deep")]   # one variable, longer histories
    for spec, cfg, label in runs + [("ByteString", "MC_ByteString_" + tier, "R/ByteString"),
                             ("MC_ByteStringOps", "MC_ByteStringOps_" + tier, "R/ByteStringOps"),
                             ("MC_IntText", "MC_IntText_" + tier, "R/IntText"),
                             ("MC_ByteStringFmt", "MC_ByteStringFmt_" + tier, "R/ByteStringFmt")]:
        cases = os.path.join(ctx.tmp, "c03-%s.cases" % spec)
        ctx.model(spec, cfg, emit_to=cases, timeout=ctx.pick(600, 3000), xmx="12g")
        ctx.replay(rep, cases, label=label, timeout=ctx.pick(900, 5400))
        os.unlink(cases)
    # V: recorded random executions (strings to ~1300 bytes: every capacity doubling and the 1 KiB malloc->realloc switch;
    # random 32/64-bit integers as limbs) validated by TLC against the same actions and operators
    rec = vlib.build_harness(lib, "c03_record", ["c03_record.cpp"])
    files = ctx.record(rec, ctx.pick(6, 24), ctx.pick(2500, 8000), "V/ByteString", extra_args=["--mode", "0"])
    files += ctx.record(rec, ctx.pick(4, 16), ctx.pick(5000, 25000), "V/IntText", extra_args=["--mode", "1"])
    ctx.validate_traces("Trace_ByteString", "Trace_ByteString", files, label="V/ByteString", timeout=ctx.pick(600, 3000), xss="512m")
    ctx.exhaustive = True
    ctx.assumptions += [
        "exhaustive within the constants of spec/MC_ByteString_%s.cfg, MC_ByteStringOps_%s.cfg, MC_IntText_%s.cfg, MC_ByteStringFmt_%s.cfg; "
        "beyond them only the recorded random executions apply" % (tier, tier, tier, tier),
        "byte strings without embedded NUL, non-empty patterns and separators, in-range indices (the property's quantifier)",
        "bytes exposed by resize() beyond the old length are written by the driver before they are read",
        "the way back from the text of an unsigned 64-bit integer is (ULong)toLong() (there is no conversion to ULong); it relies on "
        "two's-complement wrap-around in myatol, as the specification's ParseS does",
        "%g/%f formatting and text->double are libc and not modelled",
        "memory errors/leaks are observed by ASan/LSan on the replayed and recorded executions, not decided by the model",
    ]
    ctx.rule = ("one case per transition of the ByteString state graph (history + expected values), per string of the "
                "operations table, per integer pattern, per format; non-trivial = history with >= 2 calls / non-empty string")


def _replay_recorded(path, lib, hname, hsrcs, trace_spec, cfg):
    """vlib.replay_recorded with a larger TLC stack (the operators recurse over strings of > 1000 bytes): a stored
    (rejected) trace is validated again; a recorder-crash descriptor {seed, events, args} is re-recorded first."""
    tmp = os.path.join(vlib.BUILD, "tmp", "replay-%d" % os.getpid())
    os.makedirs(tmp, exist_ok=True)
    try:
        trace = path
        if not path.endswith(".ndjson"):
            info = json.load(open(path))
            exe = vlib.build_harness(lib, hname, hsrcs)
            trace = os.path.join(tmp, "t.ndjson")
            cmd = [exe, "--seed", str(info["seed"]), "--events", str(info["events"]), "--out", trace] + list(info.get("args", []))
            if info.get("avoid"):
                cmd += ["--avoid", ",".join(info["avoid"])]
            p = subprocess.run(["timeout", "1800"] + cmd, env=vlib.run_env())
            if p.returncode != 0:
                print("recorder failed again with exit %d (seed %s): violation reproduced" % (p.returncode, info["seed"]))
                return 1
        r = vlib.tlc(trace_spec, cfg, workers=1, timeout=1800, env={"TRACE": trace}, xss="512m")
        if r.rc == 0:
            print("trace accepted by %s" % trace_spec)
            return 0
        if r.violated() is None:
            print(r.tail(40))
            return 2
        print("trace rejected by %s near event %d: %s" % (trace_spec, r.depth, vlib._nth_line(trace, r.depth)))
        return 1
    finally:
        shutil.rmtree(tmp, ignore_errors=True)


def replay(path):
    lib = vlib.build_lib("asan")
    if os.path.basename(path).startswith("rec-") or path.endswith(".ndjson"):
        return _replay_recorded(path, lib, "c03_record", ["c03_record.cpp"], "Trace_ByteString", "Trace_ByteString")
    rep = vlib.build_harness(lib, "c03_replay", ["c03_replay.cpp"])
    r = subprocess.run([rep, "--single", path], env=vlib.run_env())
    return 1 if r.returncode == 1 else (0 if r.returncode == 0 else 2)
