"""C01 - Array, Stack and Queue behave as a sequence for every operation history (spec/ArraySeq.tla)."""
import os
import subprocess
import vlib

META = {
    "engine": "ArraySeq.tla",
    "technique": "TLC exhaustive enumeration of ArraySeq.tla histories (shared handles, aliasing calls) replayed "
                 "transition-by-transition on Array/Stack/Queue under ASan+LSan; recorded random executions "
                 "validated against the same spec actions",
    "design_ref": "DESIGN.md section 6, C01",
    "level_text": "TLC enumerates every history of public Array/Stack/Queue calls (through 3 handles, incl. aliasing "
                  "calls and clones) up to the configured bound on ArraySeq.tla, checks the spec's own invariants "
                  "(no orphan storage, clone independence), and every transition is replayed on the real containers "
                  "(8 element/container instantiations) under ASan/LSan with the projected state compared.",
    "level_note": "Bounded (constants in spec/MC_ArraySeq_*.cfg). Trusted: TLC, clang ASan/LSan, the replayer's projection. "
                  "Open finding GrowWhileShared is excluded by a hazard predicate evaluated on the real rc()/cap().",
}


def run(ctx):
    lib = vlib.build_lib("asan")
    rep = vlib.build_harness(lib, "c01_replay", ["c01_replay.cpp"])
    # quick: 3 handles x 4 calls; thorough adds 2 handles x 6 calls (12.5 M transitions).  (3 handles x 5 calls = 21.7 M
    # transitions cannot be emitted: TLC interns every printed string and its table overflows at about 33.5 M entries.)
    cfgs = ["MC_ArraySeq_quick"] if ctx.quick else ["MC_ArraySeq_thorough", "MC_ArraySeq_thorough2"]
    ctx.exhaustive = True
    ctx.rule = ("one case per transition of the ArraySeq state graph (history of public calls + expected projected state); "
                "non-trivial = history with >= 2 calls; distinct = distinct case lines (hash)")
    for cfg in cfgs:
        cases = os.path.join(ctx.tmp, "c01.cases")
        ctx.model("ArraySeq", cfg, emit_to=cases, timeout=ctx.pick(600, 5400), xmx="6g", must_cover=ctx.quick)
        ctx.replay(rep, cases, label="R/" + cfg, timeout=ctx.pick(900, 7200))
        os.unlink(cases)
    # V: recorded random executions (long arrays, all growth boundaries) validated against the same actions
    rec = vlib.build_harness(lib, "c01_record", ["c01_record.cpp"])
    files = ctx.record(rec, ctx.pick(8, 48), ctx.pick(6000, 40000), "V/ArraySeq")
    ctx.validate_traces("Trace_ArraySeq", "Trace_ArraySeq", files, label="V/ArraySeq", timeout=ctx.pick(600, 3000))
    ctx.assumptions += [
        "exhaustive within the constants of spec/%s.cfg; beyond them only the recorded random executions apply" % "+".join(cfgs),
        "memory errors/leaks are observed by ASan/LSan on the replayed executions, not decided by the model",
        "int arrays: elements created by resize() are assigned 0 by the driver before being read (they are indeterminate by design)",
    ]


def replay(path):
    lib = vlib.build_lib("asan")
    if os.path.basename(path).startswith("rec-") or path.endswith(".ndjson"):
        return vlib.replay_recorded(path, lib, "c01_record", ["c01_record.cpp"], "Trace_ArraySeq", "Trace_ArraySeq")
    rep = vlib.build_harness(lib, "c01_replay", ["c01_replay.cpp"])
    r = subprocess.run([rep, "--single", path], env=vlib.run_env())
    return 1 if r.returncode == 1 else (0 if r.returncode == 0 else 2)
