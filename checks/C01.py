"""C01 - Array, Stack and Queue behave as a sequence for every operation history (spec/ArraySeq.tla), grown to the
remaining public surface of asl::Array and to the sibling containers Array_<T,N> (spec/ArrayFix.tla) and Array2<T>
(spec/Array2D.tla), which refine the sequence model."""
import copy
import json
import os
import subprocess
import threading
import vlib

META = {
    "engine": "ArraySeq.tla, ArrayFix.tla, Array2D.tla, Trace_ArraySeq.tla, Trace_Array2D.tla",
    "technique": "TLC exhaustive enumeration of ArraySeq.tla histories (shared handles, aliasing calls) replayed "
                 "transition-by-transition on Array/Stack/Queue under ASan+LSan; the same for the refinements ArrayFix.tla "
                 "(Array_<T,N>) and Array2D.tla (Array2<T>), whose steps TLC checks to be steps of the sequence model; "
                 "recorded random executions of Array/Stack/Queue and Array2 validated against the same spec actions",
    "design_ref": "DESIGN.md section 6, C01",
    "level_text": "TLC enumerates every history of public Array/Stack/Queue calls (through 3 handles, incl. aliasing "
                  "calls and clones) up to the configured bound on ArraySeq.tla, checks the spec's own invariants "
                  "(no orphan storage, clone independence), and every transition is replayed on the real containers "
                  "(8 element/container instantiations) under ASan/LSan with the projected state compared. "
                  "The same is done for the rest of Array.h (NextExt of ArraySeq.tla: constructors, pointer-based "
                  "append/copy incl. pointers into the array itself, initializer lists, element-type conversions, "
                  "sort(Less)/sortBy, removeIf/removeOne/remove variants, enumerators, ==/!=/<, join, Stack::top), for "
                  "Array_<T,N> (ArrayFix.tla: value semantics, fixed length; invariants FixedOK/LenStable) and for "
                  "Array2<T> (Array2D.tla: rows x cols over a shared row-major sequence, index map i*cols+j; invariant "
                  "DimsOK); TLC checks the action properties RefinesSeq / RefinesSeq2 (every step of a sibling container "
                  "is a step of the sequence model). Recorded executions (Trace_ArraySeq.tla incl. the new calls, "
                  "Trace_Array2D.tla) are validated against the same actions.",
    "level_note": "Bounded (constants in spec/MC_ArraySeq*_*.cfg, MC_ArrayFix_*.cfg, MC_Array2D_*.cfg). Trusted: TLC, clang "
                  "ASan/LSan, the replayers' projection. Open finding GrowWhileShared is excluded by a hazard predicate "
                  "evaluated on the real rc()/cap(). Left unconstrained because the documentation is silent: the result of "
                  "Array::operator< / Array_::operator< when the first differing element is greater (the code is not "
                  "lexicographic), what other handles see after a = {...} / a = Array<K> on a shared array, Array2::resize / "
                  "list assignment while the storage is shared (the other object keeps stale rows()/cols()), element "
                  "placement after an Array2::resize that changes cols. Not covered: move construction/assignment "
                  "(ASL_HAVE_MOVE is commented out in defs.h); the const overload of Array::slice_() does not compile "
                  "when instantiated (no Enumerator(const Array&, int, int)) - a build-time defect no execution can show.",
}

# calls every generated case file must contain at least once (vacuity guard: TLC's coverage sees only one Next action)
EXT_OPS = {"ctorN", "ctorFill", "fromList", "ctorPtr", "appendPtr", "copyPtr", "assignList", "appendList", "conv",
           "assignConv", "sortDesc", "sortBy", "removeIfLt", "removeOneFrom", "remove", "enum", "indexOf", "top", "cmp",
           "join", "append", "resize", "copyHandle", "dropHandle"}
FIX_OPS = {"set", "clone", "conv", "copyFrom", "reversed", "slice", "sort", "sortDesc", "dropHandle", "fromList",
           "indexOf", "cmp", "join", "enum"}
A2_OPS = {"ctorN", "ctorFill", "fromList", "set", "fill", "resize", "assignList", "clone", "conv", "copyHandle",
          "assignHandle", "dropHandle", "slice2", "cmp2", "idx2", "enum"}


def _ops_in(path):
    p = subprocess.run("grep -o '\"op\":\"[A-Za-z0-9_]*\"' %s | sort -u" % path, shell=True, stdout=subprocess.PIPE, text=True)
    return set(x.split('"')[3] for x in p.stdout.split())


def _sub(ctx, name):
    """A private context for a pipeline that runs in its own thread (counters are merged afterwards)."""
    s = copy.copy(ctx)
    s.states = s.transitions = s.traces = s.evaluations = s.distinct = 0
    s.samples, s.assumptions, s.engines, s.violations = [], [], [], []
    s.known_hits, s.extra = {}, {}
    s._rec_exec = 0
    s.tmp = os.path.join(ctx.tmp, name)
    os.makedirs(s.tmp, exist_ok=True)
    return s


def _merge(ctx, s):
    ctx.states += s.states
    ctx.transitions += s.transitions
    ctx.traces += s.traces
    ctx.evaluations += s.evaluations
    ctx.distinct += s.distinct
    ctx.engines += s.engines
    ctx.violations += s.violations
    ctx.assumptions += s.assumptions
    ctx.add_samples(s.samples)
    for hz, n in s.known_hits.items():
        ctx.known_hit(hz, n)


def _model_replay(c, spec, cfg, exe, label, need_ops, workers, jobs, timeout):
    cases = os.path.join(c.tmp, label.replace("/", "_") + ".cases")
    c.model(spec, cfg, emit_to=cases, timeout=timeout, xmx=c.pick("2g", "3g"), must_cover=False, workers=workers)
    missing = need_ops - _ops_in(cases)
    if missing:
        raise vlib.HarnessError("%s/%s: vacuous run, calls never generated: %s" % (spec, cfg, sorted(missing)))
    c.replay(exe, cases, label=label, timeout=timeout, jobs=jobs)
    os.unlink(cases)


def _array_surface_and_fixed(c, rep, sib):
    """rest of Array.h (NextExt of ArraySeq.tla) and Array_<T,N> (ArrayFix.tla)"""
    q = c.quick
    # (module spelled with .tla: a second TLC run of ArraySeq in this process needs its own metadir name)
    for cfg in (["MC_ArraySeqExt_quick"] if q else ["MC_ArraySeqExt_thorough"]):
        _model_replay(c, "ArraySeq.tla", cfg, rep, "R/" + cfg, EXT_OPS, c.pick(4, 8), c.pick(8, 16), c.pick(600, 3000))
    for cfg in (["MC_ArrayFix_quick"] if q else ["MC_ArrayFix_thorough", "MC_ArrayFix_thorough2"]):
        _model_replay(c, "ArrayFix", cfg, sib, "R/" + cfg, FIX_OPS, c.pick(4, 8), c.pick(8, 16), c.pick(600, 3000))
    c.model("ArrayFix", c.pick("MC_ArrayFix_refine", "MC_ArrayFix_refine_thorough"), what="ArrayFix refines ArraySeq",
            timeout=c.pick(600, 3000), xmx="2g", must_cover=False, workers=c.pick(3, 6))


def _array2(c, lib, sib):
    """Array2<T> (Array2D.tla): R, refinement, V"""
    q = c.quick
    for cfg in (["MC_Array2D_quick"] if q else ["MC_Array2D_thorough"]):
        _model_replay(c, "Array2D", cfg, sib, "R/" + cfg, A2_OPS, c.pick(4, 8), c.pick(8, 16), c.pick(600, 3000))
    c.model("Array2D.tla", c.pick("MC_Array2D_refine", "MC_Array2D_refine_thorough"), what="Array2D refines ArraySeq",
            timeout=c.pick(600, 3000), xmx="2g", must_cover=False, workers=c.pick(3, 6))
    # the shape the specification leaves open (resize through one object while another shares the storage): TLC must
    # be able to exhibit the counterexample to DimsOK, otherwise the guard RC = 1 in Resize2 would be pointless
    r = vlib.tlc("Array2D", "MC_Array2D_sharedresize", workers=2, timeout=600, xmx="2g")
    if r.violated() != "DimsOK":
        raise vlib.HarnessError("Array2D/MC_Array2D_sharedresize: TLC did not exhibit the stale-dimensions counterexample (%s)\n%s"
                                % (r.violated(), r.tail()))
    c.engines.append("Array2D/MC_Array2D_sharedresize: counterexample to DimsOK at depth %d when resize() on shared storage is "
                     "allowed (left unconstrained, not generated)" % r.depth)
    rec2 = vlib.build_harness(lib, "c01_sib_record", ["c01_sib_record.cpp"])
    files = c.record(rec2, c.pick(4, 24), c.pick(4000, 30000), "V/Array2D")
    c.validate_traces("Trace_Array2D", "Trace_Array2D", files, label="V/Array2D", timeout=c.pick(600, 3000), parallel=c.pick(4, 8), xmx="2g")


def run(ctx):
    lib = vlib.build_lib("asan")
    rep = vlib.build_harness(lib, "c01_replay", ["c01_replay.cpp"])
    sib = vlib.build_harness(lib, "c01_sib_replay", ["c01_sib_replay.cpp"])
    ctx.exhaustive = True
    ctx.rule = ("one case per transition of the ArraySeq / ArrayFix / Array2D state graphs (history of public calls + expected "
                "projected state); non-trivial = history with >= 2 calls; distinct = distinct case lines (hash)")

    # the grown parts run beside the core pipeline, each with its own counters
    subs, errors = [], []

    def guarded(fn, c, *a):
        try:
            fn(c, *a)
        except BaseException as e:   # re-raised in the main thread
            errors.append(e)

    s1, s2 = _sub(ctx, "ext"), _sub(ctx, "a2")
    subs = [s1, s2]
    threads = [threading.Thread(target=guarded, args=(_array_surface_and_fixed, s1, rep, sib)),
               threading.Thread(target=guarded, args=(_array2, s2, lib, sib))]
    for t in threads:
        t.start()
    try:
        # core: quick 3 handles x 4 calls; thorough adds 2 handles x 6 calls on sizes {0,2,7} (6.9 M transitions) and 2 handles x 5 calls on all sizes (3.5 M);
        # after the growth of ArraySeq the former 2 x 6 configuration on all sizes has > 30 M transitions.  (3 handles x 5 calls = 21.7 M
        # transitions cannot be emitted: TLC interns every printed string and its table overflows at about 33.5 M entries.)
        cfgs = ["MC_ArraySeq_quick"] if ctx.quick else ["MC_ArraySeq_thorough", "MC_ArraySeq_thorough2", "MC_ArraySeq_thorough3"]
        for cfg in cfgs:
            cases = os.path.join(ctx.tmp, "c01.cases")
            ctx.model("ArraySeq", cfg, emit_to=cases, timeout=ctx.pick(600, 5400), xmx="6g", must_cover=ctx.quick)
            ctx.replay(rep, cases, label="R/" + cfg, timeout=ctx.pick(900, 7200))
            os.unlink(cases)
        # V: recorded random executions (long arrays, all growth boundaries, core and remaining calls) validated against the same actions
        rec = vlib.build_harness(lib, "c01_record", ["c01_record.cpp"])
        files = ctx.record(rec, ctx.pick(8, 48), ctx.pick(6000, 40000), "V/ArraySeq")
        ctx.validate_traces("Trace_ArraySeq", "Trace_ArraySeq", files, label="V/ArraySeq", timeout=ctx.pick(600, 3000))
    finally:
        for t in threads:
            t.join()
    for s in subs:
        _merge(ctx, s)
    if errors:
        raise errors[0]
    ctx.assumptions += [
        "exhaustive within the constants of spec/%s.cfg and of the MC_ArraySeqExt / MC_ArrayFix / MC_Array2D configurations of this tier; "
        "beyond them only the recorded random executions apply" % "+".join(cfgs),
        "memory errors/leaks are observed by ASan/LSan on the replayed executions, not decided by the model",
        "int arrays: elements created by resize() / Array(n) / Array2(r,c) / Array_ are assigned 0 by the driver before being read (they are indeterminate by design)",
        "left unconstrained (undocumented): operator< where the first differing element is greater; a = {...} / a = Array<K> and "
        "Array2::resize / list assignment on shared storage; element placement after Array2::resize with a different cols",
    ]


def _kind_of(path):
    try:
        with open(path) as f:
            return json.loads(f.readline()).get("k", "")
    except Exception:
        return ""


def replay(path):
    lib = vlib.build_lib("asan")
    base = os.path.basename(path)
    if base.startswith("rec-") or path.endswith(".ndjson"):
        a2 = "Array2D" in base
        if not a2 and not path.endswith(".ndjson"):
            try:
                a2 = "sib" in json.load(open(path)).get("recorder", "")
            except Exception:
                pass
        if a2:
            return vlib.replay_recorded(path, lib, "c01_sib_record", ["c01_sib_record.cpp"], "Trace_Array2D", "Trace_Array2D")
        return vlib.replay_recorded(path, lib, "c01_record", ["c01_record.cpp"], "Trace_ArraySeq", "Trace_ArraySeq")
    if _kind_of(path) in ("fix", "a2"):
        rep = vlib.build_harness(lib, "c01_sib_replay", ["c01_sib_replay.cpp"])
    else:
        rep = vlib.build_harness(lib, "c01_replay", ["c01_replay.cpp"])
    r = subprocess.run([rep, "--single", path], env=vlib.run_env())
    return 1 if r.returncode == 1 else (0 if r.returncode == 0 else 2)
