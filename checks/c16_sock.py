"""C16, lane "socket streaming with partial delivery": asl::Socket / LocalSocket reading typed values and raw blocks from a
peer that delivers the bytes in arbitrary chunks and may close in the middle of a value (spec/EndianSocket.tla).

`lane(ctx, lib)` does all the work and is meant to be imported by checks/C16.py; `it is not a property id of its own: run it through `VERIF_C16_LANES=sock bin/check C16 quick`."""
import json
import os
import subprocess
import threading
import vlib

META = {
    "engine": "EndianSocket.tla, MC_EndianSocket.tla, Trace_EndianSocket.tla",
    "technique": "TLC exhaustive enumeration of EndianSocket.tla histories (peer schedules = every chunking of a byte string "
                 "into 1..3 chunks and into single bytes, with and without the peer's close, also in the middle of a value; "
                 "reader calls of every scalar type, read(p,n), read(n), read(), readString(n), skip(n), available(), "
                 "disconnected()/connected(), waitInput/waitData, setEndian, close() by the reader; blocking calls with the peer's steps taken "
                 "while the call blocks) with FIFO / chunking-independence / exhaustion properties checked on the "
                 "specification; every transition replayed under ASan+LSan on a real asl::Socket over socketpair, TCP loopback "
                 "and LocalSocket whose peer is a raw POSIX descriptor driven by a helper thread; recorded random executions "
                 "(random chunkings of some KB, all types) validated by TLC against the same actions",
    "design_ref": "DESIGN.md section 6, C16",
    "level_text": "TLC enumerates every history of peer steps and reader calls up to the configured bound, checks on the "
                  "specification that the reader consumes exactly sizeof(T) bytes per value in FIFO order, that every result "
                  "is a function of the concatenated bytes only (re-decoding the consumed bytes without chunk boundaries "
                  "reproduces the history), that nothing is read that was not sent, and that after close and drain every "
                  "request reports failure; each transition is replayed on the real Socket with the values (bit patterns), "
                  "counts, byte blocks, available(), disconnected(), waitInput/waitData and error() compared after every "
                  "call and the bytes left on the wire compared at the end; recorded random executions are accepted by TLC "
                  "only if every logged result equals what the specification computes.",
    "level_note": "Bounded (constants in spec/MC_EndianSocket*.cfg / MC_EndianSocket.tla); larger streams only through the "
                  "recorded executions. The value of a scalar read cut short by the peer's close is unspecified by the "
                  "library and not constrained (only error() != 0, termination and memory safety are). available(), "
                  "disconnected(), waitInput(0), read() are only asked at quiescent points (the harness waits with POSIX calls "
                  "until the peer's bytes are visible). Orderly close only (no RST), reader never writes. Termination is "
                  "observed through the per-case time limit. Native = LITTLE asserted by the harnesses. Trusted: TLC, clang "
                  "ASan/LSan, the kernel's socket implementation, the harness' memcpy projection of values.",
}

REPLAY_SRCS = ["c16_sock_replay.cpp"]
RECORD_SRCS = ["c16_sock_record.cpp"]


def lane(ctx, lib):
    """R (+V) for the socket-reader lane; everything it needs is passed in or derived from ctx."""
    if ctx.pid != "C16":
        # run stand-alone (bin/check C16_sock): the open findings of property C16 apply
        for k, v in vlib.load_known("C16").items():
            ctx.known.setdefault(k, v)
    env = {"VERIF_TMP": ctx.tmp}
    rep = vlib.build_harness(lib, "c16_sock_replay", REPLAY_SRCS)
    cfg = "MC_EndianSocket_quick" if ctx.quick else "MC_EndianSocket_thorough"
    cases = os.path.join(ctx.tmp, "c16sock.cases")
    ctx.model("MC_EndianSocket", cfg, emit_to=cases, timeout=ctx.pick(300, 1500), workers=4, xmx="3g")
    # vacuity per kind of call, counted on the emitted cases (last record of each history)
    ops = {}
    shorts = 0
    with open(cases) as f:
        for ln in f:
            last = json.loads(ln)["hist"][-1]
            key = last["op"] + ("+k" if last.get("k", 0) > 0 else "")
            ops[key] = ops.get(key, 0) + 1
            if last["op"] == "r" and not last["full"]:
                shorts += 1
    need = ["peer", "set", "r", "r+k", "rp", "rp+k", "rb", "rstr", "skip", "rall", "avail", "disc", "wi", "wd", "wi+k", "wd+k", "rclose"]
    missing = [k for k in need if not ops.get(k)]
    if missing or not shorts:
        raise vlib.HarnessError("EndianSocket/%s: vacuous, kinds of call never generated: %s (short scalar reads: %d)" % (cfg, missing, shorts))
    ctx.extra["sock_calls_by_kind"] = ops
    ctx.extra["sock_short_scalar_reads"] = shorts
    # V runs in a second thread while the cases are replayed:
    # random chunkings of random bytes (dribbles to multi-KB chunks), all types, close at random points
    box = {}

    def v_lane():
        try:
            rec = vlib.build_harness(lib, "c16_sock_record", RECORD_SRCS)
            files = ctx.record(rec, ctx.pick(4, 24), ctx.pick(1500, 5000), "V/EndianSocket", env=env, timeout=ctx.pick(600, 1800))
            vops = {}
            cut = 0
            for fn in files:
                with open(fn) as f:
                    for ln in f:
                        ev = json.loads(ln)
                        key = ev["op"] + ("+k" if ev.get("k", 0) > 0 else "")
                        vops[key] = vops.get(key, 0) + 1
                        if ev.get("e") and ev.get("k", 0) > 0:
                            cut += 1
            missing = [k for k in need + ["reset", "plan"] if not vops.get(k)]
            if (missing or not cut) and not ctx.violations:     # (a recorder that died on a finding leaves no file to count)
                raise vlib.HarnessError("V/EndianSocket: recorded executions lack kinds of events: %s (calls that ended with the "
                                        "error flag up while the peer was stepping: %d)" % (missing, cut))
            ctx.extra["sock_recorded_events_by_kind"] = vops
            ctx.validate_traces("Trace_EndianSocket", "Trace_EndianSocket", files, label="V/EndianSocket",
                                timeout=ctx.pick(600, 1800), parallel=4, xmx="3g")
        except BaseException as e:  # re-raised in the calling thread
            box["err"] = e
    th = threading.Thread(target=v_lane)
    th.start()
    try:
        ctx.replay(rep, cases, label="R/EndianSocket", timeout=ctx.pick(900, 3000), env=env, jobs=6,
                   args=["--case-timeout-ms", "60000", "--batch", "200"])
    finally:
        th.join()
    os.unlink(cases)
    if "err" in box:
        raise box["err"]
    ctx.assumptions += [
        "socket lane: exhaustive within the constants of spec/%s.cfg and the plans of spec/MC_EndianSocket.tla; beyond them only "
        "the recorded random executions apply" % cfg,
        "socket lane: the peer is a raw POSIX descriptor (send/close); its steps either happen at a quiescent point (the harness "
        "then waits until FIONREAD / POLLRDHUP on the reader's descriptor show them) or in a helper thread while the reader "
        "call blocks; a call that does not return within the per-case limit (60 s) is a hang",
        "socket lane: the value of a scalar whose bytes the peer never completed is left unconstrained (the library does not "
        "specify it); error() != 0 afterwards is required",
    ]


# (no run(): this module is not a property id; checks/C16.py runs lane() in a sub-context and merges the counters)


def replay(path):
    path = os.path.abspath(path)   # (TLC runs in spec/: a relative TRACE would silently read as an empty trace)
    lib = vlib.build_lib("asan")
    if os.path.basename(path).startswith("rec-") or path.endswith(".ndjson"):
        return vlib.replay_recorded(path, lib, "c16_sock_record", RECORD_SRCS, "Trace_EndianSocket", "Trace_EndianSocket")
    rep = vlib.build_harness(lib, "c16_sock_replay", REPLAY_SRCS)
    r = subprocess.run([rep, "--single", path], env=vlib.run_env({"VERIF_TMP": os.path.join(vlib.BUILD, "tmp")}))
    return 1 if r.returncode == 1 else (0 if r.returncode == 0 else 2)
