"""X01 part "log" - asl::Log: the log file as a sequence of lines (spec/LogFile.tla, spec/Trace_LogFile.tla)."""
import copy
import json
import os
import shutil
import subprocess
import tempfile
import threading
import vlib

ENGINE = "LogFile.tla, LogFileConc.tla, Trace_LogFile.tla"
TECHNIQUE = ("TLC model-checks LogFile.tla (setMaxLevel/enable/useFile/setFile/maxLevel/log, the three filters, file "
             "switching, the 1 MB rotation rule with its -1 companion) and emits every transition with the expected lines of every "
             "file, replayed on the real asl::Log in a private directory and compared line by line; seeded random executions of the "
             "real Log (sequential, rotating with 64 KiB messages, free-running concurrent loggers with jitter, also across a "
             "rotation) are read back from disk after every call and validated by TLC against the same actions, concurrent phases "
             "by a linearization search (the concurrent phases are also run under ThreadSanitizer); LogFileConc.tla model-checks the lock/check/move/append design of Log::log() for 3 threads "
             "(the design without the lock is rejected)")
LEVEL_TEXT = ("Exhaustive for every history of up to 4 calls over 2 files (one without extension), the String overload / printf "
              "overload / ASL_LOG_x macros, decorated category arguments, 2 (3) levels and a short and a 1000001-byte message, so "
              "that the rotation rule fires up to twice and the oldest generation is dropped: order, suffix/no-loss, size and "
              "filter invariants hold on the specification (thorough: also to depth 8 without replay) and the files the real "
              "code wrote equal the expected ones (all cases without a 1 MB message in the thorough tier, a seeded share of the "
              "others). Recorded executions add all 5 levels, 3 overloads, 4 files, 10..60 calls, up to 3 rotations per file, the "
              "documented defaults of a fresh process, the date of every line against the clock, the identity of "
              "Log::instance() across threads, and concurrent phases of 2..4 threads; TLC accepts every one.")
LEVEL_NOTE = ("Bounded (constants in spec/MC_LogFile_*.cfg); the VIEW keeps the last call (pairs config: the last two), so "
              "histories are replayed per abstract state and recent calls, not all of them. OS scheduling of the concurrent "
              "loggers is sampled (jitter, simultaneous start), not enumerated; data races between concurrent log() calls are "
              "observed by ThreadSanitizer on the concurrent phases of the recorder (auxiliary runs, not validated). Left open because the "
              "documentation is silent: labels of INFO/DEBUG/VERBOSE, maxLevel() while disabled, the exact threshold in the "
              "recorded runs (about 1 MB = 0.9..1.1 MB; the exhaustive part uses the 1000000 of Log.cpp), messages with line "
              "breaks, configuration calls concurrent with log calls, the "
              "console, the ASL_LOG environment variable across processes, setFile into a missing directory. Trusted: TLC, "
              "clang ASan/LSan, POSIX read-back, mktime/clock_gettime in the harness.")

REC = ("x01_log_record", ["x01_log_record.cpp"])
REP = ("x01_log_replay", ["x01_log_replay.cpp"])


def _count_kinds(ln, kinds):
    c = json.loads(ln)
    if max(c["rot"]) >= 1:
        kinds["rotated"] += 1
    if max(c["rot"]) >= 2:
        kinds["oldest_generation_dropped"] += 1
    if any(h["op"] == "log" for h in c["hist"]) and not any(x["cur"] for x in c["exp"]):
        kinds["all_filtered"] += 1


def _select(src, dst, small_share, big_share, seed):
    """R cases: every emitted transition is a case; histories with 1 MB messages cost megabytes of disk traffic each, so only
    a seeded share of them (1/big_share) is replayed, and 1/small_share of the others."""
    n = big = kept = 0
    kinds = {"rotated": 0, "oldest_generation_dropped": 0, "all_filtered": 0}
    with open(src) as f, open(dst, "w") as o:
        for ln in f:
            n += 1
            share = small_share
            if '"n":1000001' in ln:
                big += 1
                share = big_share
            if share > 1 and vlib.derive_seed(seed, "x01log-R", ln) % share != 0:
                continue
            kept += 1
            _count_kinds(ln, kinds)
            o.write(ln)
    return n, big, kept, kinds


def _recorded(ctx, rec):
    files = ctx.record(rec, ctx.pick(3, 16), ctx.pick(400, 1500), "V/LogFile", timeout=ctx.pick(900, 2400), env={"X01_LOG_TMP": ctx.tmp})
    # vacuity: the recorded runs must contain rotations, concurrent phases, and concurrent phases across a rotation
    seen = {"executions": 0, "log_calls": 0, "rotations_seen": 0, "concurrent_phases": 0, "concurrent_calls": 0, "concurrent_with_rotation": 0}
    for fn in files:
        with open(fn) as f:
            prev = {}
            for ln in f:
                if ln.startswith('{"op":"reset"'):
                    seen["executions"] += 1
                    prev = {}
                elif ln.startswith('{"op":"log"'):
                    seen["log_calls"] += 1
                    e = json.loads(ln)
                    for k, s in enumerate(e["s"]):
                        if s["onl"] and s["onl"] != prev.get(k, 0):
                            seen["rotations_seen"] += 1
                        prev[k] = s["onl"]
                elif ln.startswith('{"op":"conc"'):
                    e = json.loads(ln)
                    seen["concurrent_phases"] += 1
                    seen["concurrent_calls"] += sum(len(t) for t in e["th"])
                    ids = set(c["id"] for t in e["th"] for c in t)
                    if e["obs"]["old"] and any(x["id"] in ids for x in e["obs"]["cur"]):
                        seen["concurrent_with_rotation"] += 1
                    prev = {}
    ctx.extra["v_recorded"] = seen
    ctx.engines.append("V/LogFile recorded: %s" % ", ".join("%d %s" % (v, k) for k, v in seen.items()))
    vlib.log(ctx.engines[-1])
    if files and not (seen["rotations_seen"] and seen["concurrent_phases"] and seen["concurrent_with_rotation"]):
        raise vlib.HarnessError("V/LogFile: vacuous recording %s" % seen)
    ctx.validate_traces("Trace_LogFile", "Trace_LogFile", files, label="V/LogFile", timeout=ctx.pick(900, 2400), parallel=ctx.pick(3, 2), xss="64m")
    # auxiliary: the same concurrent phases (mode 3) and concurrent phases across a rotation (mode 4), only log() calls running
    # side by side, under ThreadSanitizer: a report is a data race inside Log (the driver's threads share nothing else)
    tlib = vlib.build_lib("tsan")
    trec = vlib.build_harness(tlib, *REC)
    n0 = len(ctx.violations)
    tenv = {"X01_LOG_TMP": ctx.tmp, "TSAN_OPTIONS": "exitcode=97:halt_on_error=1:second_deadlock_stack=1"}
    ctx.record(trec, ctx.pick(2, 8), ctx.pick(40, 200), "TSan/LogFile", extra_args=["--mode", "3"], timeout=ctx.pick(900, 2400), env=tenv)
    ctx.record(trec, ctx.pick(1, 4), ctx.pick(20, 60), "TSan/LogFile-rot", extra_args=["--mode", "4"], timeout=ctx.pick(900, 2400), env=tenv)
    ctx.extra["tsan_runs_clean"] = len(ctx.violations) == n0


def run(ctx, lib):
    rec = vlib.build_harness(lib, *REC)
    rep = vlib.build_harness(lib, *REP)
    # V: recorded executions, on a shadow context while the exhaustive part runs
    sh = copy.copy(ctx)
    base = (ctx.states, ctx.transitions, ctx.traces, ctx.evaluations, ctx.distinct)
    errs = []

    def go():
        try:
            _recorded(sh, rec)
        except BaseException as e:
            errs.append(e)

    def design(d):
        """the concurrent design of Log::log(): safe with the lock; without it TLC must find the lost generation"""
        try:
            d.model("LogFileConc", "MC_LogFileConc_lock", workers=1, xmx="2g", timeout=900)
            r = vlib.tlc("LogFileConc", "MC_LogFileConc_nolock", workers=1, xmx="2g", timeout=900)
            if r.violated() != "NoLoss":
                raise vlib.HarnessError("MC_LogFileConc_nolock should violate NoLoss (non-vacuity of the invariant)\n%s" % r.tail())
            d.engines.append("MC_LogFileConc_nolock: NoLoss violated as expected (log() without the lock loses a generation)")
            if not d.quick:   # the sequential model without replay, twice as deep (up to 4 rotations of a file)
                d.model("LogFile", "MC_LogFile_deep", workers=1, xmx="4g", timeout=2400)
        except BaseException as e:
            errs.append(e)

    vt = threading.Thread(target=go)
    vt.start()
    dsh = copy.copy(ctx)
    dt = None
    try:
        # R: exhaustive histories with the expected content of every file (thorough: also the small alphabet with the last
        # two calls kept in the VIEW)
        for k, cfg in enumerate(ctx.pick(["MC_LogFile_quick"], ["MC_LogFile_thorough", "MC_LogFile_pairs"])):
            emitted = os.path.join(ctx.tmp, "x01log.emitted")
            cases = os.path.join(ctx.tmp, "x01log.cases")
            ctx.model("LogFile", cfg, emit_to=emitted, workers=1, xmx="4g", timeout=ctx.pick(900, 2400))
            n, big, kept, kinds = _select(emitted, cases, ctx.pick(4, 1 + k), ctx.pick(32, 12 * (1 + k)), ctx.seed)
            os.unlink(emitted)
            if n == 0 or big == 0 or kept == 0 or min(kinds.values()) == 0:
                raise vlib.HarnessError("%s: vacuous generation (%d cases, %d with a 1 MB message, %s)" % (cfg, n, big, kinds))
            if dt is None:
                dt = threading.Thread(target=design, args=(dsh,))
                dt.start()
            label = "R/LogFile" if k == 0 else "R/LogFile-pairs"
            ctx.replay(rep, cases, label=label, jobs=4, timeout=ctx.pick(900, 2400), env={"X01_LOG_TMP": ctx.tmp})
            os.unlink(cases)
            ctx.extra["r_cases" if k == 0 else "r_cases_pairs"] = dict(kinds, emitted=n, with_1MB_message=big, replayed=kept)
            ctx.engines.append("%s cases: %d emitted (%d with a 1 MB message), %d replayed: %s" %
                               (label, n, big, kept, ", ".join("%d %s" % (v, k2) for k2, v in kinds.items())))
            vlib.log(ctx.engines[-1])
    finally:
        vt.join()
        if dt:
            dt.join()
    if errs:
        raise errs[0]
    for x in (sh, dsh):
        ctx.states += x.states - base[0]
        ctx.transitions += x.transitions - base[1]
        ctx.traces += x.traces - base[2]
        ctx.evaluations += x.evaluations - base[3]
        ctx.distinct += x.distinct - base[4]
    ctx.rule = ("R: one case per transition of the model (history of calls + expected lines of every file), distinct by content; "
                "V: recorded executions (reset to reset) of the real Log, distinct by seed")
    ctx.assumptions += [
        "log: the recorder reads the files back after a call returned (and after all threads were joined); line = "
        "[date][category] LABEL: message with the date projected to its shape; messages are m<id> padded with '_' to the "
        "length class, so a torn or mixed line cannot parse as a well-formed line of the expected length",
        "log: 'about 1 MB' is read as: no rotation while the file is <= 0.9 MB, rotation when a message is written to a file "
        "> 1.1 MB (recorded runs); the exhaustive part fixes 1000000 bytes as in Log.cpp",
        "log: the model's VIEW keeps the last call, so histories are replayed per abstract state and last call, not all of them; "
        "of the cases with a 1 MB message a seeded share is replayed (extra.log_r_cases)",
    ]


def replay(path, lib):
    base = os.path.basename(path)
    v_file = "LogFile" in base and (base.endswith(".ndjson") or base.startswith("rec-"))
    if not v_file:
        try:
            with open(path) as f:
                first = json.loads(f.readline())
        except Exception:
            return None
        if not isinstance(first, dict) or first.get("part") != "log":
            return None
    scratch = tempfile.mkdtemp(prefix="x01log-replay-")      # the harnesses work below it; nothing is left after a crash
    old = os.environ.get("X01_LOG_TMP")
    os.environ["X01_LOG_TMP"] = scratch
    try:
        if v_file:
            return vlib.replay_recorded(os.path.abspath(path), lib, REC[0], REC[1], "Trace_LogFile", "Trace_LogFile", xss="64m")
        exe = vlib.build_harness(lib, *REP)
        p = subprocess.run(["timeout", "600", exe, "--single", path], env=vlib.run_env())
        return p.returncode if p.returncode in (0, 1) else 2
    finally:
        if old is None:
            os.environ.pop("X01_LOG_TMP", None)
        else:
            os.environ["X01_LOG_TMP"] = old
        shutil.rmtree(scratch, ignore_errors=True)
