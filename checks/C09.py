"""C09 - HTTP request parsing is total and safe and never yields a path containing '..' (spec/HttpRequest*.tla)."""
import os
import subprocess
import vlib

META = {
    "engine": "HttpRequest.tla, HttpRequestTargets.tla, HttpRequestStreams.tla, HttpRequestUrl.tla, Trace_HttpRequest.tla",
    "technique": "TLC exhaustive enumeration of request targets (NoDotDot decided on the spec in two formulations), of request "
                 "streams with every cut offset (generator vs. recognizer cross-checked) and of URL strings; every state "
                 "replayed on the real HttpServer request reader over a socketpair under ASan/LSan with a time bound; "
                 "recorded random mutated streams validated against the recognizer of the same spec",
    "design_ref": "DESIGN.md section 6, C09",
    "level_text": "TLC decides on HttpRequest.tla that the decoded, normalised path of every target over {. / %2e %2E %2f %25 a "
                  "%00 ? #} up to the configured length is free of '..' (two independent formulations agree) and that the "
                  "request generator and the strict recognizer agree on every cut of every generated stream; each state is "
                  "executed on the real request reader (handler observations, file server confinement, ASan, 8 s bound) "
                  "and recorded mutated streams are accepted only if every dispatch is the request the recognizer finds.",
    "level_note": "Bounded (constants in spec/MC_HttpRequest*_*.cfg); beyond them randomized (seeded) recorded streams. Memory "
                  "errors and termination are observed (ASan/LSan, time bound), not decided by the model. Outside the strict "
                  "grammar (bare-LF line ends, folded lines, invalid escapes, malformed tails) the spec leaves the result open "
                  "and only the universal clauses (no '..', no memory error, prompt return, bounds) are checked. Lines stay "
                  "below the 16000-byte cap of Socket::readLine (the cap itself is not modelled); input timing is varied "
                  "only in the recorded runs (dribbled input), not enumerated.",
}


def _cases(ctx, spec, cfg, name, timeout, single_action=False):
    path = os.path.join(ctx.tmp, name)
    # -coverage costs a factor 2.4 on the recursive operators; a specification with one action besides Init is not vacuous
    # as soon as it has more than its initial states
    r = ctx.model(spec, cfg, emit_to=path, timeout=timeout, xmx="8g", must_cover=not single_action)
    if single_action and r.distinct < 100:
        raise vlib.HarnessError("%s/%s: only %d states" % (spec, cfg, r.distinct))
    return path


def run(ctx):
    lib = vlib.build_lib("asan")
    rep = vlib.build_harness(lib, "c09_replay", ["c09_replay.cpp"])
    rec = vlib.build_harness(lib, "c09_record", ["c09_record.cpp"])
    tier = "quick" if ctx.quick else "thorough"
    ctx.exhaustive = True
    ctx.rule = ("one case per state of HttpRequestTargets (a request target), HttpRequestStreams (a request stream cut at "
                "one offset) and HttpRequestUrl (a URL string); non-trivial = non-empty input; distinct = distinct case lines")
    args = ["--tmp", ctx.tmp, "--case-timeout-ms", "12000", "--batch", "400"]
    # R1: request streams x every cut offset (first: the defects that hang or crash are found on few cases)
    c = _cases(ctx, "HttpRequestStreams", "MC_HttpRequestStreams_" + tier, "c09-req.cases", ctx.pick(300, 1500))
    ctx.replay(rep, c, label="R/HttpRequestStreams", args=args, timeout=ctx.pick(600, 3000))
    os.unlink(c)
    # R2: URL strings
    c = _cases(ctx, "HttpRequestUrl", "MC_HttpRequestUrl_" + tier, "c09-url.cases", ctx.pick(300, 1500), single_action=True)
    ctx.replay(rep, c, label="R/HttpRequestUrl", args=args, timeout=ctx.pick(600, 3000))
    os.unlink(c)
    # R3: request targets (NoDotDot is decided by TLC on the spec; the real reader must produce exactly that path)
    # (_dots: only '.' and one other byte matter to the removal of '..', so paths over {'.', 'a'} are enumerated much deeper)
    cfgs = ["MC_HttpRequestTargets_quick", "MC_HttpRequestTargets_dots14"] if ctx.quick else \
           ["MC_HttpRequestTargets_quick", "MC_HttpRequestTargets_dots", "MC_HttpRequestTargets_thorough", "MC_HttpRequestTargets_thorough6"]
    for cfg in cfgs:
        c = _cases(ctx, "HttpRequestTargets", cfg, "c09-tgt.cases", ctx.pick(300, 2400), single_action=True)
        ctx.replay(rep, c, label="R/" + cfg[3:], args=args, timeout=ctx.pick(600, 3000))
        os.unlink(c)
    # V: random mutated / cut / dribbled streams and URL strings, validated by the recognizer
    files = ctx.record(rec, ctx.pick(12, 48), ctx.pick(500, 2500), "V/HttpRequest", timeout=ctx.pick(300, 1200))
    ctx.validate_traces("Trace_HttpRequest", "Trace_HttpRequest", files, label="V/HttpRequest", timeout=ctx.pick(600, 3000), xss="64m")
    ctx.assumptions += [
        "exhaustive within the constants of spec/MC_HttpRequest{Targets,Streams,Url}_%s.cfg; beyond them only the recorded random streams apply" % tier,
        "memory errors, leaks and hangs are observed (ASan/LSan, 8 s per stream, peer always closes), not decided by the model",
        "outside the strict request grammar the result is unspecified except: no '..' in the path, no memory error, prompt return",
        "OPTIONS requests are answered by the server itself and are not generated",
    ]


def replay(path):
    lib = vlib.build_lib("asan")
    base = os.path.basename(path)
    if base.startswith("rec-") or path.endswith(".ndjson"):
        return vlib.replay_recorded(path, lib, "c09_record", ["c09_record.cpp"], "Trace_HttpRequest", "Trace_HttpRequest")
    rep = vlib.build_harness(lib, "c09_replay", ["c09_replay.cpp"])
    r = subprocess.run([rep, "--single", path, "--case-timeout-ms", "12000"], env=vlib.run_env())
    return 1 if r.returncode == 1 else (0 if r.returncode == 0 else 2)
