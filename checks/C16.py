"""C16 - endian-aware binary streams write canonical bytes and read them back (spec/EndianStream.tla)."""
import os
import subprocess
import threading
import vlib

META = {
    "engine": "EndianStream.tla",
    "technique": "TLC exhaustive enumeration of EndianStream.tla write histories (every scalar type, arrays of every element "
                 "type, strings, byte-order switches) with the read-back/length/append-only properties checked on the "
                 "specification; every transition replayed on StreamBuffer+StreamBufferReader, File and Socket "
                 "(socketpair) under ASan+LSan comparing the bytes on the sink and the values read back; a second enumeration "
                 "(SpecPool) over long-lived objects of the caller (scalar variable, Array<T>, String per element type) written "
                 "repeatedly between order switches and assignments, with the objects compared with the specification's "
                 "unchanged pool; recorded random executions (up to 64 values, arrays to length 100, arbitrary bit patterns, "
                 "up to 6 long-lived objects written repeatedly) validated by TLC against the same actions",
    "design_ref": "DESIGN.md section 6, C16",
    "level_text": "TLC enumerates every history of set-order / write-scalar / write-array / write-string calls up to the "
                  "configured bound on EndianStream.tla, checks on the specification that the stream holds sizeof(T) bytes "
                  "per scalar and length x sizeof(T) per array, that decoding item by item in the order each item was "
                  "written with returns the items, that a change of byte order never alters what was written before, and "
                  "that no stream call changes an object of the caller (a long-lived scalar/Array/String written again "
                  "contributes the bytes of its present value); "
                  "each transition is replayed on the three real stream classes with the bytes (buffer, file via POSIX, "
                  "wire via MSG_PEEK) and the read-back values compared; recorded random executions are accepted by TLC "
                  "only if every observed byte and every value read equals what the specification computes.",
    "level_note": "Bounded (constants in spec/MC_EndianStream_*.cfg); larger sequences/arrays/bit patterns only through the "
                  "recorded random executions. Values are opaque bit patterns (no floating-point reasoning is needed or "
                  "done). Native = LITTLE is asserted by the harnesses (the big-endian-host branch of the code is not "
                  "executed). Strings are read back as raw bytes (read(n)/readString(n)); the length-prefixed "
                  "File/Socket operator>>(String&) is not the inverse of operator<<(String) by design and is not used. "
                  "Trusted: TLC, clang ASan/LSan, the harness' memcpy-based projection of values to bit patterns.",
}


def run(ctx):
    lib = vlib.build_lib("asan")
    rep = vlib.build_harness(lib, "c16_replay", ["c16_replay.cpp"])
    cfg = "MC_EndianStream_quick" if ctx.quick else "MC_EndianStream_thorough"
    cases = os.path.join(ctx.tmp, "c16.cases")
    ctx.model("EndianStream", cfg, emit_to=cases, timeout=ctx.pick(600, 3000), xmx="8g")
    ctx.exhaustive = True
    ctx.rule = ("one case per transition of the EndianStream state graph (history of stream calls + expected bytes + the "
                "caller's objects as the specification leaves them), for Spec (temporaries) and SpecPool (long-lived objects "
                "written repeatedly), each run on StreamBuffer, File and Socket; non-trivial = history with >= 2 calls; "
                "distinct = distinct case lines (hash)")
    # histories over the caller's long-lived objects (SpecPool): the same scalar variable / Array<T> / String written
    # repeatedly, between byte-order switches and assignments by the caller; the objects are inputs and must stay as they are.
    # (TLC enumerates them while the first case file is being replayed.)
    pcfg = "MC_EndianStream_pool_quick" if ctx.quick else "MC_EndianStream_pool_thorough"
    pcases = os.path.join(ctx.tmp, "c16pool.cases")
    box = {}

    def pool_model():
        try:
            ctx.model("EndianStream", pcfg, emit_to=pcases, timeout=ctx.pick(600, 3000), xmx="8g", workers=8)
        except BaseException as e:  # re-raised in the main thread
            box["err"] = e
    th = threading.Thread(target=pool_model)
    th.start()
    try:
        ctx.replay(rep, cases, label="R/EndianStream", timeout=ctx.pick(900, 5400), env={"VERIF_TMP": ctx.tmp})
    finally:
        th.join()
    os.unlink(cases)
    if "err" in box:
        raise box["err"]
    ctx.replay(rep, pcases, label="R/EndianStreamPool", timeout=ctx.pick(900, 5400), env={"VERIF_TMP": ctx.tmp})
    os.unlink(pcases)
    rec = vlib.build_harness(lib, "c16_record", ["c16_record.cpp"])
    files = ctx.record(rec, ctx.pick(12, 48), ctx.pick(5000, 40000), "V/EndianStream", env={"VERIF_TMP": ctx.tmp})
    ctx.validate_traces("Trace_EndianStream", "Trace_EndianStream", files, label="V/EndianStream", timeout=ctx.pick(600, 3000))
    ctx.assumptions += [
        "exhaustive within the constants of spec/%s.cfg; beyond them only the recorded random executions apply" % cfg,
        "host byte order is little-endian (checked by the harnesses); ENDIAN_NATIVE = LITTLE in the configurations",
        "memory errors/leaks are observed by ASan/LSan on the replayed and recorded executions, not decided by the model",
        "bytes on the sink are observed without the library: buffer contents, POSIX read of the file, recv(MSG_PEEK) on the peer descriptor",
        "written values are inputs (pool of EndianStream.tla): the harnesses keep one real scalar variable / Array<T> (+ a handle "
        "sharing its buffer) / String (+ char buffer) per pool entry for the whole history and compare their projected values "
        "with the specification's pool (R: after the writes and after the reads of every case, i.e. after every call by prefix "
        "closure of the cases; V: after every write of an object and at random points); exhaustive within spec/%s.cfg" % pcfg,
    ]


def replay(path):
    lib = vlib.build_lib("asan")
    if os.path.basename(path).startswith("rec-") or path.endswith(".ndjson"):
        return vlib.replay_recorded(path, lib, "c16_record", ["c16_record.cpp"], "Trace_EndianStream", "Trace_EndianStream")
    rep = vlib.build_harness(lib, "c16_replay", ["c16_replay.cpp"])
    r = subprocess.run([rep, "--single", path], env=vlib.run_env())
    return 1 if r.returncode == 1 else (0 if r.returncode == 0 else 2)
