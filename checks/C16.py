"""C16 - endian-aware binary streams write canonical bytes and read them back (spec/EndianStream.tla)."""
import json
import os
import subprocess
import threading
import vlib

import copy
import time

# lanes kept in helper modules of their own (not property ids: they only run through this check): checks/c16_sock.py = Socket
# with partial delivery (EndianSocket.tla), checks/c16_text.py = TextFile's typed text streaming (TextStream.tla); each has
# lane(ctx, lib), META and replay(path)
import c16_sock
import c16_text
PARTS = [c16_sock, c16_text]

META = {
    "engine": "EndianStream.tla, EndianBuffer.tla, EndianFile.tla, Trace_EndianStream.tla, Trace_EndianBuffer.tla, Trace_EndianFile.tla",
    "technique": "TLC exhaustive enumeration of EndianStream.tla write histories (every scalar type, arrays of every element "
                 "type, strings, byte-order switches) with the read-back/length/append-only properties checked on the "
                 "specification; every transition replayed on StreamBuffer+StreamBufferReader, File and Socket "
                 "(socketpair) under ASan+LSan comparing the bytes on the sink and the values read back; a second enumeration "
                 "(SpecPool) over long-lived objects of the caller (scalar variable, Array<T>, String per element type) written "
                 "repeatedly between order switches and assignments, with the objects compared with the specification's "
                 "unchanged pool; recorded random executions (up to 64 values, arrays to length 100, arbitrary bit patterns, "
                 "up to 6 long-lived objects written repeatedly) validated by TLC against the same actions. "
                 "Growth (sibling modules that EXTEND EndianStream and reuse its wire format): EndianBuffer.tla = StreamBuffer and "
                 "StreamBufferReader as objects (constructors with their documented default order, setEndian on both sides, "
                 "write(ptr,n), << ByteArray, length, *buffer, clear, assignment of an Array<byte>, readers over a sub-range by "
                 "both constructors, >> / read<T>, read(n), read(), skip, length / operator bool / ptr / end, a ghost capacity "
                 "that classifies growth); EndianFile.tla = one File object as a positioned byte store (READ/WRITE/APPEND/RW, "
                 "seek/position/end/flush/error, typed << and >> at the position in either byte order, short reads at the end, the "
                 "stream operators in the wrong mode, the length-prefixed String convention of operator>>(String&), and other "
                 "File objects on the same path: content/size/firstBytes/put and a second reader with its own position and byte "
                 "order).  Both are enumerated by TLC (one case per transition, replayed by harness/c16_obj_replay) and validate "
                 "recorded random executions (harness/c16_obj_record, Trace_EndianBuffer / Trace_EndianFile).%s",
    "design_ref": "DESIGN.md section 6, C16",
    "level_text": "TLC enumerates every history of set-order / write-scalar / write-array / write-string calls up to the "
                  "configured bound on EndianStream.tla, checks on the specification that the stream holds sizeof(T) bytes "
                  "per scalar and length x sizeof(T) per array, that decoding item by item in the order each item was "
                  "written with returns the items, that a change of byte order never alters what was written before, and "
                  "that no stream call changes an object of the caller (a long-lived scalar/Array/String written again "
                  "contributes the bytes of its present value); "
                  "each transition is replayed on the three real stream classes with the bytes (buffer, file via POSIX, "
                  "wire via MSG_PEEK) and the read-back values compared; recorded random executions are accepted by TLC "
                  "only if every observed byte and every value read equals what the specification computes. "
                  "EndianBuffer.tla: the buffer's content is the concatenation of what was written since it was last cleared / "
                  "assigned (ContentOK); what a reader has delivered (values re-encoded in the order they were read with, raw "
                  "bytes, skipped bytes) is exactly the consumed prefix of its window (ReaderFaithful); exhaustion is reported "
                  "exactly when the window is used up (ExhaustionReported); reader and buffer are independent, the position only "
                  "moves forward, a change of order changes nothing that exists. EndianFile.tla: a typed write changes exactly "
                  "sizeof(T) / length x sizeof(T) bytes at the position (LocalWrite) and reading them there in the same order "
                  "returns the value (ReadBackAtPos); reads never change the file; a short typed read is flagged by end() "
                  "(ShortReadFlagged); a file opened for READ is never changed (ReadModeProtects); h << int(n) << s and "
                  "h >> String are inverse (LenStringInverse).%s",
    "level_note": "Bounded (constants in spec/MC_EndianStream_*.cfg, MC_EndianBuffer_*.cfg, MC_EndianFile_*.cfg); larger "
                  "sequences/arrays/bit patterns/contents only through the "
                  "recorded random executions. Values are opaque bit patterns (no floating-point reasoning is needed or "
                  "done). Native = LITTLE is asserted by the harnesses (the big-endian-host branch of the code is not "
                  "executed). Strings are read back as raw bytes (read(n)/readString(n)) in EndianStream; the length-prefixed "
                  "File operator>>(String&) is modelled in EndianFile on well-formed input only (it is undocumented; on a "
                  "length that is negative or larger than what follows the code resizes the String to that length all the same). "
                  "Reading beyond a StreamBufferReader's window is excluded by the documentation and never generated. The value "
                  "a File/Socket operator>> leaves in x when fewer than sizeof(T) bytes arrive is unspecified by the documentation "
                  "(the code byte-swaps the partly filled variable) and is left unconstrained: end() / error() must tell. "
                  "The array's growth policy is a ghost (not observable through the API): the check only makes sure the "
                  "enumerated and recorded histories cross its classes. "
                  "Trusted: TLC, clang ASan/LSan, the harness' memcpy-based projection of values to bit patterns.%s",
}
for _k, _i in (("engine", None), ("technique", 0), ("level_text", 1), ("level_note", 2)):
    if _i is None:
        META[_k] = ", ".join([META[_k]] + [m.META["engine"] for m in PARTS])
    else:
        META[_k] = META[_k] % "".join(" " + m.META[_k] for m in PARTS)


# at most this many TLC model-checking JVMs at a time (the lanes overlap TLC with replaying / recording, not TLC with TLC x 6:
# the machine is shared and the kernel kills JVMs when memory runs out)
_SLOTS = threading.BoundedSemaphore(4)


def _model(c, *a, **kw):
    with _SLOTS:
        try:
            return vlib.Ctx.model(c, *a, **kw)
        except vlib.HarnessError as e:
            # a JVM killed by the kernel (exit -9: the machine ran out of memory, other checks run next to this one) says
            # nothing about the model: once more, a little later
            if "TLC exit -9" not in str(e):
                raise
            vlib.log("C16: %s - TLC was killed (out of memory on the shared machine), running it again" % (a[1] if len(a) > 1 else a[0]))
            time.sleep(45)
            return vlib.Ctx.model(c, *a, **kw)


def _sub(ctx, name):
    """A private context for a lane that runs in its own thread (counters are merged afterwards)."""
    s = copy.copy(ctx)
    s.model = lambda *a, **kw: _model(s, *a, **kw)
    s.states = s.transitions = s.traces = s.evaluations = s.distinct = 0
    s.samples, s.assumptions, s.engines, s.violations = [], [], [], []
    s.known_hits, s.extra = {}, {}
    s._rec_exec = 0
    s.tmp = os.path.join(ctx.tmp, name)
    os.makedirs(s.tmp, exist_ok=True)
    return s


def _merge(ctx, s):
    ctx.states += s.states
    ctx.transitions += s.transitions
    ctx.traces += s.traces
    ctx.evaluations += s.evaluations
    ctx.distinct += s.distinct
    ctx.engines += s.engines
    ctx.violations += s.violations
    ctx.assumptions += s.assumptions
    ctx.add_samples(s.samples)
    ctx.extra.update(s.extra)
    for hz, n in s.known_hits.items():
        ctx.known_hit(hz, n)


def run(ctx):
    lib = vlib.build_lib("asan")
    ctx.exhaustive = True
    ctx.rule = ("one case per transition of the state graphs of EndianStream (Spec and SpecPool: history of stream calls + expected "
                "bytes + the caller's objects as the specification leaves them; each run on StreamBuffer, File and Socket), "
                "EndianBuffer, EndianFile, EndianSocket and TextStream (history of calls with the result each call must return + "
                "expected bytes of the buffer / the path / left on the wire); non-trivial = history with >= 2 calls; "
                "distinct = distinct case lines (hash)")
    # independent lanes, each in its own thread with a private sub-context: the property itself (core) and the API around it
    # (growth): StreamBuffer / StreamBufferReader as objects (buf), File as a positioned typed store (file), Socket with partial
    # delivery (sock), TextFile's typed text streaming (text).  Each lane overlaps its own TLC runs with replaying / recording.
    lanes = [("core", lane_core), ("buf", lane_buf), ("file", lane_file), ("sock", c16_sock.lane), ("text", c16_text.lane)]
    only = [x for x in os.environ.get("VERIF_C16_LANES", "").split(",") if x]      # (development: run some lanes only)
    if only:
        lanes = [(n, f) for n, f in lanes if n in only]
    global _SLOTS
    _SLOTS = threading.BoundedSemaphore(ctx.pick(4, 3))
    subs = [_sub(ctx, n) for n, _ in lanes]
    errors = []

    def guarded(f, c):
        try:
            f(c, lib)
        except BaseException as e:      # (the other lanes finish: their violations are still reported)
            errors.append(e)
    threads = [threading.Thread(target=guarded, args=(f, c)) for (_, f), c in zip(lanes, subs)]
    for t in threads:
        t.start()
    for t in threads:
        t.join()
    for c in subs:
        _merge(ctx, c)
    if errors:
        raise errors[0]


def lane_core(ctx, lib):
    """EndianStream.tla: the wire format on the three sinks (R over Spec and SpecPool, V)."""
    rep = vlib.build_harness(lib, "c16_replay", ["c16_replay.cpp"])
    cfg = "MC_EndianStream_quick" if ctx.quick else "MC_EndianStream_thorough"
    cases = os.path.join(ctx.tmp, "c16.cases")
    ctx.model("EndianStream", cfg, emit_to=cases, timeout=ctx.pick(600, 3000), xmx="8g", workers=8)
    # histories over the caller's long-lived objects (SpecPool): the same scalar variable / Array<T> / String written
    # repeatedly, between byte-order switches and assignments by the caller; the objects are inputs and must stay as they are.
    # (TLC enumerates them while the first case file is being replayed.)
    pcfg = "MC_EndianStream_pool_quick" if ctx.quick else "MC_EndianStream_pool_thorough"
    pcases = os.path.join(ctx.tmp, "c16pool.cases")
    box = {}

    def pool_model():
        try:
            ctx.model("EndianStream", pcfg, emit_to=pcases, timeout=ctx.pick(600, 3000), xmx="8g", workers=8)
        except BaseException as e:  # re-raised in the main thread
            box["err"] = e
    th = threading.Thread(target=pool_model)
    th.start()
    try:
        ctx.replay(rep, cases, label="R/EndianStream", timeout=ctx.pick(900, 5400), env={"VERIF_TMP": ctx.tmp}, jobs=12)
    finally:
        th.join()
    os.unlink(cases)
    if "err" in box:
        raise box["err"]
    ctx.replay(rep, pcases, label="R/EndianStreamPool", timeout=ctx.pick(900, 5400), env={"VERIF_TMP": ctx.tmp}, jobs=12)
    os.unlink(pcases)
    rec = vlib.build_harness(lib, "c16_record", ["c16_record.cpp"])
    files = ctx.record(rec, ctx.pick(12, 48), ctx.pick(5000, 40000), "V/EndianStream", env={"VERIF_TMP": ctx.tmp})
    ctx.validate_traces("Trace_EndianStream", "Trace_EndianStream", files, label="V/EndianStream", timeout=ctx.pick(600, 3000))
    ctx.assumptions += [
        "exhaustive within the constants of spec/%s.cfg; beyond them only the recorded random executions apply" % cfg,
        "host byte order is little-endian (checked by the harnesses); ENDIAN_NATIVE = LITTLE in the configurations",
        "memory errors/leaks are observed by ASan/LSan on the replayed and recorded executions, not decided by the model",
        "bytes on the sink are observed without the library: buffer contents, POSIX read of the file, recv(MSG_PEEK) on the peer descriptor",
        "written values are inputs (pool of EndianStream.tla): the harnesses keep one real scalar variable / Array<T> (+ a handle "
        "sharing its buffer) / String (+ char buffer) per pool entry for the whole history and compare their projected values "
        "with the specification's pool (R: after the writes and after the reads of every case, i.e. after every call by prefix "
        "closure of the cases; V: after every write of an object and at random points); exhaustive within spec/%s.cfg" % pcfg,
    ]


OBJ = (("EndianBuffer", "0", "StreamBuffer / StreamBufferReader objects"), ("EndianFile", "1", "File as a positioned typed store"))


def lane_buf(ctx, lib):
    """EndianBuffer.tla: StreamBuffer / StreamBufferReader as objects (R: one case per transition, V: recorded runs)."""
    lane_obj(ctx, lib, OBJ[:1])


def lane_file(ctx, lib):
    """EndianFile.tla: File as a positioned byte store with the typed operators (R: one case per transition, V: recorded runs)."""
    lane_obj(ctx, lib, OBJ[1:])
    ctx.assumptions += [
        "a typed File read that finds fewer than sizeof(T) bytes, and a bool read from a byte other than 0/1, have no specified "
        "value (the documentation is silent): only the position, end() and memory safety are checked for them",
        "File usage discipline: reads and writes of an RW file alternate with a seek()/flush() (C standard); other objects look "
        "at the path only after flush()/seek()/close(); position() after open(APPEND) is not asked before the first write or "
        "seek; operator>>(String&) only on well-formed input (int32 length in the order in force, followed by that many bytes)",
    ]


def lane_obj(ctx, lib, OBJ):
    rep = vlib.build_harness(lib, "c16_obj_replay", ["c16_obj_replay.cpp"])
    rec = vlib.build_harness(lib, "c16_obj_record", ["c16_obj_record.cpp"])
    tier = "quick" if ctx.quick else "thorough"
    env = {"VERIF_TMP": ctx.tmp}
    for mod, mode, what in OBJ:
        cases = os.path.join(ctx.tmp, "c16%s.cases" % mod)
        ctx.model("MC_" + mod, "MC_%s_%s" % (mod, tier), emit_to=cases, timeout=ctx.pick(600, 3000), xmx="4g", workers=ctx.pick(4, 6))
        ops = _ops(cases)
        need = NEED[mod]
        missing = sorted(k for k in need if not ops.get(k))
        if missing:
            raise vlib.HarnessError("MC_%s_%s: no case ends with the call(s) %s" % (mod, tier, ", ".join(missing)))
        ctx.extra["%s: cases by last call" % mod] = dict(sorted(ops.items()))
        ctx.replay(rep, cases, label="R/" + mod, timeout=ctx.pick(900, 5400), env=env, jobs=ctx.pick(6, 8))
        os.unlink(cases)
    for mod, mode, what in OBJ:
        files = ctx.record(rec, ctx.pick(6, 24), ctx.pick(2500, 12000), "V/" + mod, extra_args=("--mode", mode), env=env)
        ctx.validate_traces("Trace_" + mod, "Trace_" + mod, files, label="V/" + mod, timeout=ctx.pick(600, 3000))
        seen = _events(files)
        ctx.extra["%s: recorded events by call" % mod] = dict(sorted(seen.items()))
        if ctx.violations:      # (a recorder that died leaves fewer executions: the finding is reported, not the thin coverage)
            continue
        missing = sorted(k for k in NEED[mod] if not seen.get(k))
        if missing:
            raise vlib.HarnessError("V/%s: the recorded executions never made the call(s) %s" % (mod, ", ".join(missing)))
        if mod == "EndianBuffer":
            # ghost coverage of the array's growth: buffers that were seen to move, and buffers beyond 2 KiB (growth by realloc)
            ctx.extra["EndianBuffer: writes after which the buffer's storage had moved (recorded)"] = seen.get("#mv", 0)
            ctx.extra["EndianBuffer: largest recorded buffer (bytes)"] = seen.get("#maxlen", 0)
            if not seen.get("#mv") or seen.get("#maxlen", 0) <= 2048:
                raise vlib.HarnessError("V/EndianBuffer: the recorded executions did not make the buffer grow (moves %s, largest %s bytes)"
                                        % (seen.get("#mv"), seen.get("#maxlen")))
    ctx.assumptions += [
        "%s: exhaustive within the constants of spec/MC_%s_%s.cfg; beyond them only the recorded random executions apply" % (m, m, tier)
        for m, _, _ in OBJ]
    if OBJ[0][0] == "EndianBuffer":
        ctx.assumptions += [
            "StreamBufferReader is used within its documented precondition (no read or skip beyond the window); what is checked at "
            "the end of the window is that exhaustion is reported (length() = 0, operator bool false, ptr() = end())"]


# calls every configuration / every batch of recorded executions must contain (vacuity guard on the emitted cases / events)
NEED = {
    "EndianBuffer": ("set", "w", "wa", "ws", "wr", "len", "content", "clear", "assign", "ropen", "rset", "r", "rb", "rall", "skip", "rq"),
    "EndianFile": ("open", "close", "set", "w", "wa", "ws", "wr", "wls", "wdenied", "r", "rr", "rls", "rdenied", "seek", "pos", "end",
                   "err", "flush", "ocontent", "osize", "ofirst", "oput", "oread"),
}


def _ops(path):
    """number of cases per last call of the history"""
    n = {}
    with open(path) as fh:
        for ln in fh:
            try:
                op = json.loads(ln)["hist"][-1]["op"]
            except (ValueError, KeyError, IndexError):
                continue
            n[op] = n.get(op, 0) + 1
    return n


def _events(files):
    n = {}
    size = 0
    for f in files:
        with open(f) as fh:
            for ln in fh:
                try:
                    e = json.loads(ln)
                except ValueError:
                    continue
                op = e.get("op")
                n[op] = n.get(op, 0) + 1
                if e.get("mv"):
                    n["#mv"] = n.get("#mv", 0) + 1
                if op in ("reset", "clear"):
                    size = 0
                elif op == "assign":
                    size = len(e.get("d", []))
                elif "g" in e:
                    size += len(e["g"])
                    n["#maxlen"] = max(n.get("#maxlen", 0), size)
    return n


def _first_case(path):
    try:
        with open(path) as fh:
            return json.loads(fh.readline())
    except Exception:
        return {}


def replay(path):
    path = os.path.abspath(path)      # (TLC runs in spec/: a relative TRACE would read as an empty trace)
    lib = vlib.build_lib("asan")
    base = os.path.basename(path)
    if base.startswith("rec-") or path.endswith(".ndjson"):
        # V: a rejected trace (its name begins with the label) or the descriptor of a recorder that died
        info = {} if path.endswith(".ndjson") else json.load(open(path))
        recorder = info.get("recorder", "")
        if "EndianSocket" in base or recorder == "c16_sock_record":
            return c16_sock.replay(path)
        if "TextStream" in base or recorder == "c16_text_record":
            return c16_text.replay(path)
        for mod, mode, what in OBJ:
            if mod in base or (recorder == "c16_obj_record" and list(info.get("args", []))[-1:] == [mode]):
                return vlib.replay_recorded(path, lib, "c16_obj_record", ["c16_obj_record.cpp"], "Trace_" + mod, "Trace_" + mod)
        return vlib.replay_recorded(path, lib, "c16_record", ["c16_record.cpp"], "Trace_EndianStream", "Trace_EndianStream")
    first = _first_case(path)
    if "avail" in first:
        return c16_sock.replay(path)
    if "text" in first:
        return c16_text.replay(path)
    hname = "c16_obj_replay" if first.get("k") in ("buf", "file") else "c16_replay"
    rep = vlib.build_harness(lib, hname, [hname + ".cpp"])
    r = subprocess.run([rep, "--single", path], env=vlib.run_env())
    return 1 if r.returncode == 1 else (0 if r.returncode == 0 else 2)
