"""C15 - Base64, hex, percent-encoding and SHA-1 match their standards on all inputs (spec/Codecs.tla)."""
import json
import os
import shutil
import subprocess
import vlib

META = {
    "engine": "Codecs.tla,MC_Codecs.tla,Trace_Codecs.tla",
    "technique": "TLC model-checks the codec laws on Codecs.tla (RFC 4648 Base64 in two formulations + a character machine, "
                 "hex, percent-encoding, query strings, FIPS 180-4 SHA-1 on 16-bit limbs in two formulations) over "
                 "exhaustively enumerated small input spaces and emits every input with the value the standard prescribes; "
                 "the cases are replayed on asl under ASan+LSan; recorded runs of asl on large random and mutated inputs are "
                 "validated by TLC evaluating the same operators",
    "design_ref": "DESIGN.md section 6, C15",
    "level_text": "TLC enumerates (MC_Codecs.tla) every byte string over a boundary alphabet up to a bound, one pseudo-random "
                  "array per length 0..300 (thorough 0..1024), one SHA-1 message per length 0..260 (thorough 0..400), every "
                  "text up to length 6 (thorough 8) over {Base64 symbols, '=', white space, junk}, every hex / percent / query "
                  "text over small alphabets, and every small dictionary; it checks the round-trip laws, the RFC 4648 text "
                  "shape, white-space tolerance at every position, agreement of independent formulations and the published "
                  "test vectors on the specification, and emits each input with the prescribed outputs. Each case is executed "
                  "on encodeBase64/decodeBase64, encodeHex/decodeHex, Url::encode/decode/params/parseQuery and SHA1::hash; "
                  "for malformed text only 0 <= length <= bound is required. Recorded runs on arrays up to 32 KiB (thorough "
                  "480 KiB; SHA-1 up to 128 KiB) and on mutated texts are re-computed by TLC.",
    "level_note": "Bounded: exhaustive only within spec/MC_Codecs_*.cfg; larger inputs are seeded random samples. The property "
                  "samples lengths to 4 MiB (SHA-1 to 8 MiB); TLC recomputes at most 480 KiB (its sequences are limited to 10^6 elements; SHA-1 128 KiB, about 10-20 ms per "
                  "block) - larger messages are not decided. Url::encode is not compared with one fixed text: the "
                  "specification accepts any text that a strict percent-decoder maps back to the input and that leaves raw "
                  "only characters the mode allows (RFC 2396 unreserved, plus reserved in URI mode). Memory safety and "
                  "termination are observed (ASan/LSan, time limit), not decided by the model. The undocumented "
                  "decodeBase64(ptr, n) overload is exercised with n = strlen and with a longer buffer.",
}

HSRC = ["c15_record.cpp"]


def _sample(path, needle, limit=900):
    with open(path) as f:
        for ln in f:
            if needle in ln and 60 < len(ln) < limit:
                return ln.strip()
    return None


def run(ctx):
    lib = vlib.build_lib("asan")
    rep = vlib.build_harness(lib, "c15_replay", ["c15_replay.cpp"])
    rec = vlib.build_harness(lib, "c15_record", HSRC)
    cfg = "MC_Codecs_quick" if ctx.quick else "MC_Codecs_thorough"
    cases = os.path.join(ctx.tmp, "c15.cases")
    ctx.model("MC_Codecs", cfg, emit_to=cases, timeout=ctx.pick(600, 3000), xmx="10g", xss="1g")
    ctx.exhaustive = True
    ctx.rule = ("one case per state of MC_Codecs (an input of one codec with the prescribed outputs); non-trivial = non-empty "
                "input (texts: >= 2 characters); distinct = distinct case lines (hash)")
    ctx.add_samples([x for x in (_sample(cases, '"k":"sha"'), _sample(cases, '"k":"b64t"'), _sample(cases, '"k":"dict"')) if x])
    ctx.replay(rep, cases, label="R/Codecs", timeout=ctx.pick(600, 3000))
    os.unlink(cases)
    # V: asl's codecs on large / random / mutated inputs, every result recomputed by TLC from Codecs.tla
    maxkib = ctx.pick(32, 480)   # TLC refuses sequences above 10^6 elements: 2 hex digits per byte
    files = ctx.record(rec, ctx.pick(8, 32), ctx.pick(60, 150), "V/Codecs", extra_args=["--mode", str(maxkib)])
    if files:
        ctx.add_samples([x for x in (_sample(files[0], '"e":"junk"', 600),) if x])
    ctx.validate_traces("Trace_Codecs", "Trace_Codecs", files, label="V/Codecs", timeout=ctx.pick(600, 3000), xss="1g", xmx="8g",
                        parallel=ctx.pick(8, 6))
    ctx.extra["largest_array_bytes_recomputed_by_tlc"] = maxkib * 1024
    ctx.extra["largest_sha1_message_bytes_recomputed_by_tlc"] = min(maxkib, 128) * 1024
    ctx.assumptions += [
        "exhaustive within the constants of spec/%s.cfg; beyond them only the recorded random executions apply" % cfg,
        "SHA-1 of messages above %d KiB and arrays above %d KiB are not recomputed by TLC" % (min(maxkib, 128), maxkib),
        "memory errors, leaks and non-termination are observed by ASan/LSan and a 20 s limit per case, not decided by the model",
        "strings are NUL-free (asl::String is a C string); LC_ALL=C (Url::encode uses isalnum)",
        "binding demonstrated on mutated copies of the library (Base64 one-byte tail padding, white-space skipping, SHA-1 "
        "full-block loop bound, '%' left raw, '+' handled after decoding, uppercase hex) and on a corrupted trace field: all rejected",
    ]


def _replay_trace(path, lib):
    tmp = os.path.join(vlib.BUILD, "tmp", "replay-c15-%d" % os.getpid())
    os.makedirs(tmp, exist_ok=True)
    try:
        trace = path
        if not path.endswith(".ndjson"):
            info = json.load(open(path))
            exe = vlib.build_harness(lib, "c15_record", HSRC)
            trace = os.path.join(tmp, "t.ndjson")
            cmd = [exe, "--seed", str(info["seed"]), "--events", str(info["events"]), "--out", trace] + list(info.get("args", []))
            if info.get("avoid"):
                cmd += ["--avoid", ",".join(info["avoid"])]
            p = subprocess.run(["timeout", "900"] + cmd, env=vlib.run_env())
            if p.returncode != 0:
                print("recorder failed again with exit %d (seed %s): violation reproduced" % (p.returncode, info["seed"]))
                return 1
        r = vlib.tlc("Trace_Codecs", "Trace_Codecs", workers=1, timeout=1800, env={"TRACE": trace}, xss="1g", xmx="8g")
        if r.rc == 0:
            print("trace accepted by Trace_Codecs")
            return 0
        if r.violated() is None:
            print(r.tail(40))
            return 2
        print("trace rejected by Trace_Codecs near event %d" % r.depth)
        return 1
    finally:
        shutil.rmtree(tmp, ignore_errors=True)


def replay(path):
    lib = vlib.build_lib("asan")
    if os.path.basename(path).startswith("rec-") or path.endswith(".ndjson"):
        return _replay_trace(path, lib)
    rep = vlib.build_harness(lib, "c15_replay", ["c15_replay.cpp"])
    r = subprocess.run([rep, "--single", path], env=vlib.run_env())
    return 1 if r.returncode == 1 else (0 if r.returncode == 0 else 2)
