"""C15 - Base64, hex, percent-encoding and SHA-1 match their standards on all inputs (spec/Codecs.tla)."""
import os
import subprocess
import vlib

META = {
    "engine": "Codecs.tla,MC_Codecs.tla,Trace_Codecs.tla",
    "technique": "TLC model-checks the codec laws on Codecs.tla over exhaustively enumerated small input spaces and emits "
                 "every input with the value the standard prescribes; the cases are replayed on asl under ASan; recorded "
                 "runs of asl on large random inputs are validated by TLC evaluating the same operators",
    "design_ref": "DESIGN.md section 6, C15",
    "level_text": "pending",
    "level_note": "pending",
}


def run(ctx):
    lib = vlib.build_lib("asan")
    rep = vlib.build_harness(lib, "c15_replay", ["c15_replay.cpp"])
    cfg = "MC_Codecs_quick" if ctx.quick else "MC_Codecs_thorough"
    cases = os.path.join(ctx.tmp, "c15.cases")
    ctx.model("MC_Codecs", cfg, emit_to=cases, timeout=ctx.pick(600, 3000), xmx="8g", xss="1g")
    ctx.exhaustive = True
    ctx.replay(rep, cases, label="R/Codecs", timeout=ctx.pick(600, 3000))
    os.unlink(cases)
    # V: asl's codecs on large / random / mutated inputs, every result recomputed by TLC from Codecs.tla
    rec = vlib.build_harness(lib, "c15_record", ["c15_record.cpp"])
    files = ctx.record(rec, ctx.pick(8, 32), ctx.pick(60, 150), "V/Codecs", extra_args=["--mode", str(ctx.pick(8, 256))])
    ctx.validate_traces("Trace_Codecs", "Trace_Codecs", files, label="V/Codecs", timeout=ctx.pick(600, 3000), xss="1g", xmx="6g")


def replay(path):
    lib = vlib.build_lib("asan")
    if os.path.basename(path).startswith("rec-") or path.endswith(".ndjson"):
        return vlib.replay_recorded(path, lib, "c15_record", ["c15_record.cpp"], "Trace_Codecs", "Trace_Codecs")
    rep = vlib.build_harness(lib, "c15_replay", ["c15_replay.cpp"])
    r = subprocess.run([rep, "--single", path], env=vlib.run_env())
    return 1 if r.returncode == 1 else (0 if r.returncode == 0 else 2)
