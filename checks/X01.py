"""X01 - growth of the specification over library components no listed property touches: Process (child process with
three pipes and a life cycle), Log, Uuid/Random, Pointer/Factory/Singleton.  Not an entry of properties.jsonl; evidence goes
to extras/evidence/X01.json.  The check is assembled from parts (checks/x01_<part>.py), each with its own TLA+ modules,
configs and harnesses (harness/x01_*.cpp); the parts run concurrently on shadow contexts and are merged here."""
import copy
import importlib
import os
import threading
import vlib

HERE = os.path.dirname(os.path.abspath(__file__))
# a part exists iff checks/x01_<part>.py exists (fixed list, fixed order)
PARTS = [p for p in ("proc", "log", "ident", "registry") if os.path.exists(os.path.join(HERE, "x01_%s.py" % p))]


def _parts():
    sel = os.environ.get("X01_PARTS")          # development only: run a subset of the parts
    names = [p for p in PARTS if not sel or p in sel.split(",")]
    return [(n, importlib.import_module("x01_" + n)) for n in names]


def _meta():
    eng, tech, lvl, note = [], [], [], []
    for n in PARTS:
        m = importlib.import_module("x01_" + n)
        eng.append(m.ENGINE)
        tech.append(m.TECHNIQUE)
        lvl.append(m.LEVEL_TEXT)
        note.append(m.LEVEL_NOTE)
    return {
        "engine": ", ".join(eng),
        "technique": " | ".join(tech),
        "design_ref": "DESIGN.md section 6 / 13.2 (X01: unlisted components)",
        "level_text": " | ".join(lvl),
        "level_note": " | ".join(note),
    }


META = _meta()


def run(ctx):
    lib = vlib.build_lib("asan")
    parts = _parts()
    shadows, errs, threads = [], [], []
    base = (ctx.states, ctx.transitions, ctx.traces, ctx.evaluations, ctx.distinct)

    def go(mod, sh):
        try:
            mod.run(sh, lib)
        except BaseException as e:  # re-raised on the main thread
            errs.append(e)

    for name, mod in parts:
        sh = copy.copy(ctx)          # lists (engines, violations, samples, assumptions) and dicts are shared; ints are merged below
        sh.extra = {}
        sh.rule = ""
        shadows.append((name, sh))
        t = threading.Thread(target=go, args=(mod, sh))
        threads.append(t)
        t.start()
    for t in threads:
        t.join()
    if errs:
        raise errs[0]
    rules = []
    for name, sh in shadows:
        ctx.states += sh.states - base[0]
        ctx.transitions += sh.transitions - base[1]
        ctx.traces += sh.traces - base[2]
        ctx.evaluations += sh.evaluations - base[3]
        ctx.distinct += sh.distinct - base[4]
        if sh.rule:
            rules.append("%s: %s" % (name, sh.rule))
        for k, v in sh.extra.items():
            ctx.extra["%s_%s" % (name, k)] = v
    ctx.rule = " || ".join(rules)


def replay(path):
    lib = vlib.build_lib("asan")
    for name, mod in _parts():
        r = mod.replay(path, lib)
        if r is not None:
            return r
    print("no part of X01 recognises %s" % path)
    return 2
