"""X01 part `registry` - asl::Factory<T> (name -> class registry), asl::Singleton<T> (one instance, also under concurrent
first use) and asl::Shared<T> (reference-counted ownership): spec/Registry.tla, RegistryShared.tla, Trace_Registry.tla."""
import json
import os
import subprocess
import vlib

ENGINE = "Registry.tla, RegistryShared.tla, Trace_Registry.tla"
TECHNIQUE = ("TLC explores RegistryShared.tla (an abstract heap: pointer variables of two static types referring to objects of "
             "two classes; one action per Shared<T> call) and Registry.tla (Factory: name -> set of registered classes, "
             "information dictionaries) exhaustively up to a history bound, checks alive <=> referenced, destroyed exactly once "
             "and never early, monotone registration, and emits every transition as a call history with the observation "
             "required after each call; the histories are executed on asl::Shared / asl::Factory with constructor- and "
             "destructor-counting classes under ASan+LSan; recorded runs - long random call sequences on Shared<T>, Shared<T> "
             "copied and dropped by concurrent threads, Singleton<T>::instance() first used by free-running jittered threads - "
             "are validated by TLC against the same actions")
LEVEL_TEXT = ("Shared<T>: every history of up to 6 (thorough 7) calls out of new (operator=(T*) / from a temporary), assign (same "
              "type incl. self, Base <- Derived converting operator=, Derived <- Base through as<Derived>()), copy construction "
              "(same type, converting, from as<>()), release and a temporary copy, over 3 (4) pointer variables and 2 (3) "
              "objects, covering every reachable abstract state; after each call the referent of every variable (operator->, "
              "get(), operator*), operator bool/!, refcount(), aliveness and destructor count of every object are compared, and "
              "at the end every object was constructed and destroyed once. Factory<T>: every history of up to 3 (4) calls out "
              "of add / create / has / catalog / setClassInfo / classInfo over names registered by ASL_FACTORY_REGISTER, "
              "ASL_FACTORY_REGISTER_AS, at run time, and unknown names: create gives a new object of a class registered under "
              "the name or null for an unknown name, catalog is exactly the set of registered names. Singleton<T>: in every "
              "recorded first use by 2-8 threads all threads got one address, one constructor run, a completely constructed "
              "object.")
LEVEL_NOTE = ("Bounded by spec/MC_Registry*_*.cfg; longer Shared<T> sequences only through the recorded runs. Pointer.h is "
              "undocumented: required is what reference-counted shared ownership means; get()/refcount()/as<>()/operator T* on "
              "an empty Shared (they dereference a null control block) are not generated, nor multiple inheritance, nor "
              "handing one raw pointer to two Shared. Registering a name twice is not documented: the specification accepts an "
              "object of any class registered under the name. The Factory is one per process and cannot forget, so histories "
              "are kept apart by unique run-time names and never re-register a static name; Factory::add(void*) / the "
              "import/export macros (dynamic libraries) are not covered. Concurrency is sampled (free-running threads with "
              "seeded jitter), not decided: thread safety of Singleton::instance() rests on C++11 static initialisation. The "
              "deprecated Pointer<T> is not covered.")

HREP = ("x01_registry_replay", ["x01_registry_replay.cpp"])
HREC = ("x01_registry_record", ["x01_registry_record.cpp"])


def _sample(path, needle, limit=900):
    with open(path) as f:
        for ln in f:
            if needle in ln and 200 < len(ln) < limit:
                return ln.strip()
    return None


def run(ctx, lib):
    rep = vlib.build_harness(lib, *HREP)
    rec = vlib.build_harness(lib, *HREC)
    tier = ctx.pick("quick", "thorough")
    cases = os.path.join(ctx.tmp, "x01_registry.cases")
    part = os.path.join(ctx.tmp, "x01_registry.part")
    with open(cases, "w") as out:
        for spec in ("RegistryShared", "Registry"):
            ctx.model(spec, "MC_%s_%s" % (spec, tier), emit_to=part, timeout=ctx.pick(300, 1500), workers=4, xmx="3g")
            with open(part) as f:
                for ln in f:
                    out.write(ln)
            os.unlink(part)
    ctx.exhaustive = True
    ctx.rule = ("one case per transition of RegistryShared / Registry (a call history with the observation required after every "
                "call); non-trivial = at least two calls; distinct = distinct case lines (hash)")
    ctx.add_samples([x for x in (_sample(cases, '"k":"shared"'), _sample(cases, '"k":"factory"')) if x])
    ctx.replay(rep, cases, label="R/Registry", timeout=ctx.pick(300, 1500), jobs=4)
    os.unlink(cases)
    files = ctx.record(rec, ctx.pick(3, 32), ctx.pick(250, 800), "V/Registry")
    if files:
        ctx.add_samples([x for x in (_sample(files[0], '"e":"single"', 400), _sample(files[0], '"e":"sharedmt"', 400)) if x])
        n = {"single": 0, "sharedmt": 0, "sh": 0}
        for f in files:
            with open(f) as fh:
                for ln in fh:
                    for k in n:
                        if ln.startswith('{"e":"%s"' % k):
                            n[k] += 1
        ctx.extra["recorded_singleton_first_uses"] = n["single"]
        ctx.extra["recorded_concurrent_shared_runs"] = n["sharedmt"]
        ctx.extra["recorded_shared_calls"] = n["sh"]
        if n["single"] == 0 or n["sharedmt"] == 0:
            raise vlib.HarnessError("V/Registry: no concurrent Singleton / Shared event was recorded")
    ctx.validate_traces("Trace_Registry", "Trace_Registry", files, label="V/Registry", timeout=ctx.pick(300, 1500), xmx="2g", parallel=3)
    ctx.assumptions += [
        "registry: exhaustive within the constants of spec/MC_RegistryShared_%s.cfg and spec/MC_Registry_%s.cfg" % (tier, tier),
        "registry: single inheritance with a virtual destructor; calls on an empty Shared that need a referent are not generated",
        "registry: concurrent behaviour (Singleton first use, Shared between threads) is sampled by free-running threads",
        "registry: binding demonstrated on mutated copies of the library (Shared assignment not releasing the old referent, as<>() "
        "without adding a reference, ASL_FACTORY_REGISTER_AS registering the class name, create() returning an object for unknown "
        "names, Singleton instance per thread) and on corrupted trace fields (instance id, constructor count, destructor count, "
        "reference count, call argument): all rejected",
    ]


def replay(path, lib):
    base = os.path.basename(path)
    if "Registry" in base:
        return vlib.replay_recorded(path, lib, HREC[0], HREC[1], "Trace_Registry", "Trace_Registry")
    if base.startswith("rec-") or path.endswith(".ndjson"):
        return None
    try:
        with open(path) as f:
            first = json.loads(f.readline())
        if not isinstance(first, dict) or first.get("part") != "registry":
            return None
    except (ValueError, OSError):
        return None
    rep = vlib.build_harness(lib, *HREP)
    r = subprocess.run([rep, "--single", path], env=vlib.run_env())
    return 1 if r.returncode == 1 else (0 if r.returncode == 0 else 2)
