"""C16 (text lane) - TextFile typed text streaming: numbers and words written as text are read back (spec/TextStream.tla)."""
import json
import os
import subprocess
import vlib

META = {
    "engine": "TextStream.tla, MC_TextStream.tla, Trace_TextStream.tla",
    "technique": "TLC exhaustive enumeration of TextStream.tla histories: a TextFile object writes ints, unsigneds, doubles, "
                 "floats, words, characters, printf calls and explicit whitespace separators (space, tab, LF, CR LF, mixtures), "
                 "is closed, and a second TextFile object performs every sequence of reader calls (>> int/unsigned/double/float/"
                 "String/char, readLine, scanf, end) up to the bound, matching or not; the specification defines the decimal text "
                 "of 32-bit integers (limb arithmetic), printf's %g text of decimals, fscanf's integer/float/token scanning, the "
                 "position left behind and the end-of-file indicator; every transition is replayed on real TextFile objects under "
                 "ASan+LSan comparing the bytes of the file (POSIX read) and every value / unchanged variable / end() flag; "
                 "recorded random executions (longer sequences, random values and separators) validated by TLC against the same actions",
    "design_ref": "DESIGN.md section 6, C16 (text lane)",
    "level_text": "TLC checks on the specification that the whitespace-delimited tokens of the written text are the items' texts "
                  "and that reading from the start with the reader call of each item's type returns the items in order whenever "
                  "adjacent items were separated by >= 1 whitespace byte, that ParseInt(Dec(n)) = n and ParseDec(FmtG(d)) = d for "
                  "all generated values whatever follows them, that writer calls only append and reader calls never move backwards; "
                  "each transition (expected file bytes, expected result of every reader call) is replayed on the real class; "
                  "recorded executions are accepted by TLC only if every observed byte and value equals what the specification computes.",
    "level_note": "Bounded (constants in spec/MC_TextStream.tla / MC_TextStream_*.cfg). Floating point: only values with <= 15 "
                  "(double) / <= 6 (float) significant decimal digits; TLC decides equality on the decimal (sign, digits, exponent); "
                  "the harness converts with strtod and printf(\"%.14e\") of the C library (trusted, correctly rounded). "
                  "Floats written with << are further restricted to values a float holds exactly (integers < 10^7, k/2^j): "
                  "String(float) prints 7 digits (\"%.7g\"), so other 6-digit decimals show the binary rounding error "
                  "((float)9.8e9 -> \"9.799999e+09\"), which the decimal model cannot predict. Exponents outside the type's range are not constrained. "
                  "Left unconstrained (undocumented, not reachable from text written with <<): octal/hex prefixes accepted by \"%i\", "
                  "out-of-range numbers, lone signs, inf/nan, dangling exponents, the value of >> char at end of file, the return "
                  "value of readLine(String&) on a last line without LF. Tokens longer than 255 bytes: the split is specified, "
                  "generated only in the thorough tier / recorder. readLine/lines()/text() semantics proper belong to C17. "
                  "Trusted: TLC, clang ASan/LSan, glibc strtod/printf for the projection.",
}

READ_OPS = ("ri", "ru", "rd", "rf", "rs", "rc", "rl", "end", "sf")
WRITE_OPS = ("wi", "wu", "wd", "wf", "ws", "wc", "pf", "open", "close")


def _ops(path):
    """vacuity: the last call of every emitted case (TLC's -coverage cannot be used on this module: its cost model
    unfolds the recursive scanners until the JVM runs out of memory)."""
    n = {}
    with open(path) as f:
        for ln in f:
            c = json.loads(ln)
            op = c["hist"][-1]["op"]
            n[op] = n.get(op, 0) + 1
    return n


def lane(ctx, lib):
    rep = vlib.build_harness(lib, "c16_text_replay", ["c16_text_replay.cpp"])
    # quick: one bounded enumeration; thorough: two items per history over the medium value sets with every gluing and
    # every open mode + one item per history over the large value / format sets
    cfgs = ["MC_TextStream_quick"] if ctx.quick else ["MC_TextStream_thorough", "MC_TextStream_values"]
    ops = {}
    for cfg in cfgs:
        cases = os.path.join(ctx.tmp, "c16text-%s.cases" % cfg)
        # (-coverage is not usable on this module, see _ops: vacuity is decided on the emitted cases)
        ctx.model("MC_TextStream", cfg, emit_to=cases, timeout=ctx.pick(300, 1500), xmx="3g", xss="64m", workers=4, must_cover=False)
        for o, n in _ops(cases).items():
            ops[o] = ops.get(o, 0) + n
        ctx.replay(rep, cases, label="R/TextStream" if cfg == cfgs[0] else "R/TextStreamValues", timeout=ctx.pick(600, 3000),
                   jobs=6, env={"VERIF_TMP": ctx.tmp}, args=("--case-timeout-ms", "120000"))
        os.unlink(cases)
    missing = [o for o in READ_OPS + WRITE_OPS if not ops.get(o) and not (ctx.quick and o == "open")]   # quick: one writer object
    if missing:
        raise vlib.HarnessError("TextStream/%s: calls never generated (vacuous): %s" % ("+".join(cfgs), ", ".join(missing)))
    ctx.extra["text_ops"] = ops
    ctx.exhaustive = True
    cfg = " + ".join(cfgs)
    rec = vlib.build_harness(lib, "c16_text_record", ["c16_text_record.cpp"])
    files = ctx.record(rec, ctx.pick(4, 24), ctx.pick(1500, 4000), "V/TextStream", env={"VERIF_TMP": ctx.tmp}, timeout=ctx.pick(600, 1800))
    ctx.validate_traces("Trace_TextStream", "Trace_TextStream", files, label="V/TextStream", timeout=ctx.pick(600, 1800), xmx="2g", xss="64m", parallel=4)
    ctx.assumptions += [
        "text lane: exhaustive within the constants of spec/%s.cfg (values, separators, formats in spec/MC_TextStream.tla)" % cfg,
        "text lane: doubles/floats are decimals with <= 15 / <= 6 significant digits; harness projection through glibc strtod / printf(\"%.14e\")",
        "text lane: isspace() of the C locale (space, TAB, LF, VT, FF, CR); NUL-free texts",
        "text lane: bytes of the file observed with POSIX open/read after close() (and after flush() for histories that end while writing)",
    ]


# (no run(): this module is not a property id; checks/C16.py runs lane() in a sub-context and merges the counters)


def replay(path):
    lib = vlib.build_lib("asan")
    if os.path.basename(path).startswith("rec-") or path.endswith(".ndjson"):
        return vlib.replay_recorded(path, lib, "c16_text_record", ["c16_text_record.cpp"], "Trace_TextStream", "Trace_TextStream", xss="64m")
    rep = vlib.build_harness(lib, "c16_text_replay", ["c16_text_replay.cpp"])
    r = subprocess.run([rep, "--single", path], env=vlib.run_env())
    return 1 if r.returncode == 1 else (0 if r.returncode == 0 else 2)
