"""C17 - File and TextFile return exactly the bytes, text and lines that were written (spec/FileModel.tla)."""
import concurrent.futures as cf
import os
import threading
import time
import subprocess
import vlib

META = {
    "engine": "FileModel.tla,FileModelLineReader.tla,FileModelBig.tla,FileModelDir.tla,FileModelPath.tla,FileModelSeek.tla",
    "technique": "TLC exhaustive enumeration of FileModel.tla histories (put/write/append/stream/copy/move/remove through "
                 "temporaries, open/write/flush/close/read/readLine and size/exists/isFile/content/firstBytes/text/lines queries "
                 "through a long-lived object, between its own writes, closes and reopens) replayed on real File/"
                 "TextFile/Directory under ASan+LSan with the results of every call and the final observation of every "
                 "path (API through fresh objects, through the long-lived object itself where the specification enables it, "
                 "and POSIX) compared; TLC-generated line shapes at the real 255-byte chunk size and BOM texts; "
                 "the implementation-shaped chunked line reader checked against the property-level Lines in TLC; "
                 "recorded random executions (sizes to 200000, lines to 2000, BOM texts) validated by TLC; contents of "
                 "1..16 MiB validated against FileModelBig.tla (run-length contents, operators proved equal to the explicit ones "
                 "in small scope by TLC); growth round: FileModelDir.tla (a finite tree of directories and files with a current "
                 "directory: Directory::create/createOne/remove/removeRecursive/copy/move/change/current/createTemp, File::put/copy/"
                 "move/remove, items/files/subdirs with wildcard patterns, exists/isFile/isDirectory/size/content for every node "
                 "kind), FileModelPath.tla (the path algebra of asl::Path as pure operators on byte strings with its laws) and "
                 "FileModelSeek.tla (one object in the modes READ/WRITE/APPEND/RW with seek/position/end/read/write/readLine, size "
                 "after flush, modification times, File::temp, writers through other objects) - every transition / state emitted "
                 "by TLC replayed on the real classes (harness/c17_fs_replay), and recorded random executions of all three "
                 "(harness/c17_fs_record) validated by Trace_FileModelDir / Trace_FileModelSeek / Trace_FileModelPath",
    "design_ref": "DESIGN.md section 6, C17",
    "level_text": "TLC enumerates every history of write/append/reopen/read/copy/move calls up to the configured bound on "
                  "FileModel.tla (one path with a long-lived handle that is also queried itself in every order with its own "
                  "writes/closes, a second path and a directory target), checks the "
                  "spec's own properties (independence of paths, copy/move exactness, Lines well-formedness, decoder o "
                  "encoder = UTF-8 for the three BOM encodings) and every transition is replayed on the real classes; "
                  "FileModelLineReader.tla transcribes readLine()/lines() with a parametric chunk size and TLC checks it "
                  "equal to Lines for every text over {a,CR,LF} up to the bound and chunk sizes 2..4(5); recorded random "
                  "executions are accepted by TLC only if every returned byte, line and text equals what the "
                  "specification computes from the logged calls. "
                  "FileModelDir.tla: TLC enumerates every history of Directory/File calls up to the bound from an empty and a "
                  "populated tree, checks that failed calls change nothing, copy/move exactness (also onto the source itself), "
                  "locality of remove/removeRecursive, listings = children, and every transition is replayed: results of the calls, "
                  "the whole tree seen through POSIX, every node query and every items/files/subdirs listing must agree. "
                  "FileModelPath.tla: every path over {a,b,.,..,/,a.b,.x(,\\,B)} up to the bound (and pairs of them) is a state; TLC "
                  "decides the laws (directory()/name() and noExt()/extension() recompose, absolute() is canonical and idempotent, "
                  "equals() is compatible with operator/, removeDDots keeps the meaning) and the real Path must return exactly "
                  "the computed values. FileModelSeek.tla: TLC enumerates histories of open/seek/read/write/readLine/flush/close in "
                  "the four modes with writers through other objects, checks locality of writes, append-only, read exactness, "
                  "monotone modification time; every transition is replayed. Recorded random executions of the three are "
                  "accepted by TLC only if every logged result is the one the specification computes.",
    "level_note": "Bounded (constants in spec/MC_FileModel*.cfg). Contents above 200000 bytes are validated only for put/append/"
                  "write/copy/move/content/firstBytes/read/size/text on run-length coded contents (FileModelBig; contents made "
                  "of up to a few dozen runs; lines()/readLine are not exercised at that size); the largest content checked is "
                  "reported in the evidence. The usage discipline of the documented API is assumed: a path is "
                  "read back through a fresh object or after close()/flush(), and other objects do not write a path while "
                  "the long-lived object has it open (stdio buffering makes anything else unspecified); a File object keeps the "
                  "file information of its first size()/isFile()/content()/text() until close(), so the long-lived object is "
                  "asked those only while that information is still true or after close() (ghost hknown, guard InfoOK). text() folds CR LF "
                  "in UTF-16 files by design, generated UTF-16 texts contain no CR LF pair. Trusted: TLC, clang ASan/LSan, "
                  "POSIX read-back, the run-length coder of the harness. "
                  "Growth modules: outcomes the documentation (or POSIX rename) leaves open are not generated and accepted either "
                  "way when recorded (copy of a directory, move of a directory onto an existing directory, removal/renaming of the "
                  "current directory, the boolean of a copy/move onto itself, a copy/move source written with a trailing "
                  "separator, the text of operator/ when more than two separators meet and of removeDDots on relative paths - "
                  "there the relation is validated on the library's own answer -, paths beginning with //, the position after "
                  "open(APPEND) before the first write, readLine(String&)'s boolean for a last line without LF, size() of "
                  "directories, listing order). Times are whole seconds; 'now' is accepted within one second of the wall-clock "
                  "bracket of the execution. Not covered: symbolic links, permissions, cross-device moves, concurrent processes, "
                  "Windows drive letters / UNC paths, wildcard patterns with more than one '*' or with '?'. File::temp and "
                  "Directory::createTemp create below /tmp (hard-coded in the library); those are removed by the harness.",
}

HARNESS = ["c17_replay.cpp"]
# per-case time limit of the replayer: generous, the machine is shared (a hang is still found, just later)
CASE_LIMIT = ("--case-timeout-ms", "90000")


FS_HARNESS = ["c17_fs_replay.cpp"]


def run(ctx):
    lib = vlib.build_lib("asan")
    ctx.exhaustive = True
    ctx.rule = ("one case per transition of the FileModel / FileModelDir / FileModelSeek state graphs (history of File/TextFile/"
                "Directory calls with the results the calls must return + expected observation of all paths / of the whole tree) "
                "and one case per state of FileModelPath (a path or a pair of paths with every value Path must return); "
                "non-trivial = history with >= 2 calls / path of >= 2 bytes; distinct = distinct case lines (hash)")
    # independent lanes (the four FileModel lanes use the module under four names - MC_FileModel / MC_FileModelH, with and
    # without ".tla": vlib's TLC metadir is per name)
    global _SLOTS
    _SLOTS = threading.BoundedSemaphore(ctx.pick(6, 3))
    with cf.ThreadPoolExecutor(7) as ex:
        # (the lanes with the longest TLC runs first: they get the TLC slots first)
        lanes = [ex.submit(lane_histories, ctx, lib), ex.submit(lane_tree, ctx, lib), ex.submit(lane_path_seek, ctx, lib),
                 ex.submit(lane_handle, ctx, lib), ex.submit(lane_text_v, ctx, lib), ex.submit(lane_big, ctx, lib),
                 ex.submit(lane_tree_v, ctx, lib)]
        err = None
        for f in lanes:
            try:
                f.result()
            except Exception as e:      # (let the other lanes finish: their violations are still reported)
                err = err or e
        if err:
            raise err
    tier = "quick" if ctx.quick else "thorough"
    ctx.assumptions += [
        "exhaustive within the constants of spec/MC_FileModel_%s.cfg, MC_FileModel_handle_%s.cfg, MC_FileModel_text_%s.cfg, "
        "MC_FileModel_big_%s.cfg, MC_FileModelLineReader_%s.cfg, MC_FileModelDir_%s.cfg (thorough: + _wide), MC_FileModelPath_%s.cfg, "
        "MC_FileModelSeek_%s.cfg; beyond them only the recorded random executions apply"
        % ((tier,) * 8),
        "usage discipline of the documented API: read back through a fresh object or after close()/flush(); no writes to a "
        "path by other objects while the long-lived object has it open; the long-lived object is asked for size()/isFile()/"
        "content()/text() only while the file information it remembers from an earlier query (kept until close()) still "
        "describes the file (FileModel!InfoOK) - after close() every query must reflect the bytes of the path; reading and "
        "writing through one RW object alternate only with a seek()/flush() in between (C standard)",
        "contents of 1..16 MiB are sampled (recorder mode 1) as sequences of long runs and compared in run-length form",
        "the directory tree is finite (12 / 41 nodes enumerated, 84 nodes recorded; names a, b, a.b, .x; three levels); the "
        "current directory and its ancestors are never removed or renamed; single-process",
        "memory errors/leaks are observed by ASan/LSan on the replayed and recorded executions, not decided by the model",
    ]


W = lambda ctx: ctx.pick(6, 8)      # TLC workers per lane (the lanes share the machine)
# at most this many TLC model-checking JVMs at a time (the lanes overlap TLC with replaying / recording, not TLC with TLC x 7:
# the machine is shared and the kernel kills JVMs when memory runs out)
_SLOTS = threading.BoundedSemaphore(4)


def model(ctx, *a, **kw):
    with _SLOTS:
        try:
            return ctx.model(*a, **kw)
        except vlib.HarnessError as e:
            # a JVM killed by the kernel (exit -9: the machine ran out of memory, other checks run next to this one) says
            # nothing about the model: once more, a little later
            if "TLC exit -9" not in str(e):
                raise
            vlib.log("C17: %s - TLC was killed (out of memory on the shared machine), running it again" % (a[1] if len(a) > 1 else a[0]))
            time.sleep(45)
            return ctx.model(*a, **kw)


def lane_histories(ctx, lib):
    rep = vlib.build_harness(lib, "c17_replay", HARNESS)
    tier = "quick" if ctx.quick else "thorough"
    cases = os.path.join(ctx.tmp, "c17.cases")
    r = model(ctx, "MC_FileModel", "MC_FileModel_" + tier, emit_to=cases, timeout=ctx.pick(600, 3000), xmx="4g", workers=W(ctx),
                  ignore_cov=("MCPutShape", "MCPutEnc", "MCHLines", "MCHQuery", "MCHCloseClosed"))
    if r.coverage.get("MCHLines", (0, 0))[1] == 0:
        raise vlib.HarnessError("MC_FileModel_%s: action MCHLines never generated" % tier)
    ctx.replay(rep, cases, label="R/FileModel", args=CASE_LIMIT, timeout=ctx.pick(900, 5400), env={"VERIF_TMP": ctx.tmp})
    os.unlink(cases)


def lane_handle(ctx, lib):
    rep = vlib.build_harness(lib, "c17_replay", HARNESS)
    tier = "quick" if ctx.quick else "thorough"
    # (1) the implementation-shaped line reader refines Lines (pure TLC)
    model(ctx, "FileModelLineReader", "MC_FileModelLineReader_" + tier, timeout=ctx.pick(300, 1800), xmx="4g", workers=W(ctx))
    # (2b) handle histories: the long-lived object is asked itself (size / exists / isFile / content / firstBytes / text / lines /
    # readLine loop) between its own writes, closes and reopens and writes to its path by temporaries, in every order
    cases = os.path.join(ctx.tmp, "c17h.cases")
    r = model(ctx, "MC_FileModelH", "MC_FileModel_handle_" + tier, emit_to=cases, timeout=ctx.pick(600, 3000), xmx="4g", workers=W(ctx),
                  ignore_cov=("MCStream", "MCPutShape", "MCPutEnc", "MCHLines"))
    for act in ("MCHQuery", "MCHCloseClosed", "MCHLines"):
        if r.coverage.get(act, (0, 0))[1] == 0:
            raise vlib.HarnessError("MC_FileModel_handle_%s: action %s never generated" % (tier, act))
    ctx.replay(rep, cases, label="R/FileModel-handle", args=CASE_LIMIT, timeout=ctx.pick(900, 5400), env={"VERIF_TMP": ctx.tmp})
    os.unlink(cases)


def lane_big(ctx, lib):
    rep = vlib.build_harness(lib, "c17_replay", HARNESS)
    tier = "quick" if ctx.quick else "thorough"
    cases = os.path.join(ctx.tmp, "c17big.cases")
    # (3b) contents around the 65536-byte copy block through put / copy / move / handle writes
    model(ctx, "MC_FileModelH.tla", "MC_FileModel_big_" + tier, emit_to=cases, timeout=ctx.pick(600, 3000), xmx="8g", workers=ctx.pick(4, 8),
              ignore_cov=("MCPutText", "MCAppend", "MCStream", "MCHRead", "MCHLines", "MCPutShape", "MCPutEnc", "MCHQuery",
                          "MCHCloseClosed"))
    ctx.replay(rep, cases, label="R/FileModel-big", args=CASE_LIMIT, timeout=ctx.pick(900, 5400), env={"VERIF_TMP": ctx.tmp})
    os.unlink(cases)


def lane_text_v(ctx, lib):
    rep = vlib.build_harness(lib, "c17_replay", HARNESS)
    rec = vlib.build_harness(lib, "c17_record", ["c17_record.cpp"])
    tier = "quick" if ctx.quick else "thorough"
    env = {"VERIF_TMP": ctx.tmp}
    cases = os.path.join(ctx.tmp, "c17b.cases")
    # (3) line shapes at the real chunk size and BOM-encoded texts
    r = model(ctx, "MC_FileModel.tla", "MC_FileModel_text_" + tier, emit_to=cases, timeout=ctx.pick(600, 3000), xmx="4g", workers=ctx.pick(4, 8),
                  ignore_cov=("MCPutBin", "MCPutText", "MCAppend", "MCStream", "MCRemove", "MCCopy", "MCMove", "MCHWrite",
                              "MCHPut", "MCHFlush", "MCHClose", "MCHRead", "MCHLines", "MCHQuery", "MCHCloseClosed"))
    ctx.replay(rep, cases, label="R/FileModel-text", args=CASE_LIMIT, timeout=ctx.pick(900, 5400), env=env)
    os.unlink(cases)
    # (4) V
    files = ctx.record(rec, ctx.pick(12, 64), ctx.pick(2500, 12000), "V/FileModel", env=env)
    ctx.validate_traces("Trace_FileModel", "Trace_FileModel", files, label="V/FileModel", timeout=ctx.pick(600, 3000))
    largest = _largest(files)
    # (5) contents of 1 MiB .. 16 MiB: FileModelBig (run-length contents; equivalence with explicit sequences checked by TLC)
    model(ctx, "FileModelBig", "MC_FileModelBig", timeout=600, must_cover=False, workers=4)
    big = ctx.record(rec, ctx.pick(3, 12), ctx.pick(45, 200), "V/FileModelBig", extra_args=("--mode", "1"), env=env)
    ctx.validate_traces("Trace_FileModelBig", "Trace_FileModelBig", big, label="V/FileModelBig", timeout=ctx.pick(600, 3000))
    ctx.extra["largest_content_bytes_validated"] = max(largest, _largest(big, ("z", "r")))


def _kinds(path, field="k"):
    """how many emitted cases of each kind / whose last call is each op (vacuity of runs made without -coverage)"""
    import json, collections
    n = collections.Counter()
    with open(path) as fh:
        for ln in fh:
            try:
                e = json.loads(ln)
            except ValueError:
                continue
            n[e.get(field)] += 1
    return n


def _last_calls(path):
    """last call of every emitted history as "op:result" (1 / 0 / - for calls without a boolean)"""
    import json, collections
    n = collections.Counter()
    with open(path) as fh:
        for ln in fh:
            try:
                h = json.loads(ln).get("hist") or []
            except ValueError:
                continue
            if h:
                r = h[-1].get("r")
                n["%s:%s" % (h[-1].get("op"), "-" if not isinstance(r, bool) else int(r))] += 1
    return n


def lane_tree(ctx, lib):
    """FileModelDir: the directory tree.  R: every transition (V: lane_tree_v, recorded random executions on 84 nodes)."""
    fsrep = vlib.build_harness(lib, "c17_fs_replay", FS_HARNESS)
    tier = "quick" if ctx.quick else "thorough"
    env = {"VERIF_TMP": ctx.tmp}
    cases = os.path.join(ctx.tmp, "c17dir.cases")
    # quick: 12 nodes, histories of 2 calls from the empty and a populated tree; thorough: 3 calls from the populated tree, and
    # ("wide") 2 calls on the 41-node universe with all patterns
    runs = [("MC_FileModelDir_" + tier, "R/FileModelDir")] + ([] if ctx.quick else [("MC_FileModelDir_wide", "R/FileModelDir-wide")])
    for cfg, label in runs:
        # (-coverage makes this run several times slower; vacuity is decided on the emitted cases: every call, succeeding and failing)
        model(ctx, "MC_FileModelDir", cfg, emit_to=cases, timeout=ctx.pick(600, 3000), xmx="3g", workers=W(ctx), must_cover=False)
        seen = _last_calls(cases)
        need = {"create:1", "create:0", "createone:1", "createone:0", "put:1", "put:0", "remove:1", "remove:0", "rmrec:1", "rmrec:0",
                "copy:1", "copy:0", "move:1", "move:0", "change:1", "change:0", "temp:-"}
        if need - set(seen):
            raise vlib.HarnessError("%s: calls never generated: %s" % (cfg, sorted(need - set(seen))))
        ctx.replay(fsrep, cases, label=label, args=CASE_LIMIT + ("--batch", "300"), timeout=ctx.pick(900, 5400), env=env)
        os.unlink(cases)


def lane_tree_v(ctx, lib):
    fsrec = vlib.build_harness(lib, "c17_fs_record", ["c17_fs_record.cpp"])
    env = {"VERIF_TMP": ctx.tmp}
    files = ctx.record(fsrec, ctx.pick(8, 32), ctx.pick(1500, 6000), "V/FileModelDir", extra_args=("--mode", "0"), env=env)
    ctx.validate_traces("Trace_FileModelDir", "Trace_FileModelDir", files, label="V/FileModelDir", timeout=ctx.pick(600, 3000))


def lane_path_seek(ctx, lib):
    """FileModelPath (pure operators, every state a case) and FileModelSeek (one object with a position)."""
    import json
    fsrep = vlib.build_harness(lib, "c17_fs_replay", FS_HARNESS)
    fsrec = vlib.build_harness(lib, "c17_fs_record", ["c17_fs_record.cpp"])
    tier = "quick" if ctx.quick else "thorough"
    env = {"VERIF_TMP": ctx.tmp}
    # the current directory of the path cases: a real directory whose bytes TLC reads (so that absolute() has complete expected values)
    cwd = os.path.realpath(os.path.join(ctx.tmp, "pcwd", "c", "d"))
    os.makedirs(cwd, exist_ok=True)
    cwdfile = os.path.join(ctx.tmp, "pcwd.json")
    with open(cwdfile, "w") as f:
        json.dump({"cwd": list(cwd.encode())}, f)
        f.write("\n")
    cases = os.path.join(ctx.tmp, "c17path.cases")
    model(ctx, "FileModelPath", "MC_FileModelPath_" + tier, emit_to=cases, timeout=ctx.pick(600, 3000), xmx="3g", workers=W(ctx),
              must_cover=False, env={"C17_CWD": cwdfile})
    n = _kinds(cases)
    if not n.get("path") or not n.get("pair"):
        raise vlib.HarnessError("MC_FileModelPath_%s: no path / pair cases emitted (%s)" % (tier, dict(n)))
    ctx.replay(fsrep, cases, label="R/FileModelPath", args=CASE_LIMIT + ("--batch", "300"), timeout=ctx.pick(900, 5400), env=env)
    os.unlink(cases)
    cases = os.path.join(ctx.tmp, "c17seek.cases")
    model(ctx, "MC_FileModelSeek", "MC_FileModelSeek_" + tier, emit_to=cases, timeout=ctx.pick(600, 3000), xmx="3g", workers=W(ctx))
    ctx.replay(fsrep, cases, label="R/FileModelSeek", args=CASE_LIMIT + ("--batch", "300"), timeout=ctx.pick(900, 5400), env=env)
    os.unlink(cases)
    files = ctx.record(fsrec, ctx.pick(8, 32), ctx.pick(1500, 6000), "V/FileModelSeek", extra_args=("--mode", "1"), env=env)
    ctx.validate_traces("Trace_FileModelSeek", "Trace_FileModelSeek", files, label="V/FileModelSeek", timeout=ctx.pick(600, 3000))
    files = ctx.record(fsrec, ctx.pick(4, 16), ctx.pick(1000, 4000), "V/FileModelPath", extra_args=("--mode", "2"), env=env)
    ctx.validate_traces("Trace_FileModelPath", "Trace_FileModelPath", files, label="V/FileModelPath", timeout=ctx.pick(600, 3000))


def _largest(files, keys=("d", "r")):
    import json
    mx = 0
    for f in files:
        with open(f) as fh:
            for ln in fh:
                try:
                    e = json.loads(ln)
                except ValueError:
                    continue
                for k in keys:
                    v = e.get(k)
                    if isinstance(v, list) and v and not isinstance(v[0], list):
                        mx = max(mx, sum(v[1::2]))
    return mx


def replay(path):
    import json
    lib = vlib.build_lib("asan")
    base = os.path.basename(path)
    if base.startswith("rec-") or path.endswith(".ndjson"):
        # V: a rejected trace (name begins with the label) or a recorder crash descriptor
        grow = {"FileModelDir": ("Trace_FileModelDir", "0"), "FileModelSeek": ("Trace_FileModelSeek", "1"), "FileModelPath": ("Trace_FileModelPath", "2")}
        info = {} if path.endswith(".ndjson") else json.load(open(path))
        for key, (spec, mode) in grow.items():
            if key in base or (info.get("recorder") == "c17_fs_record" and info.get("args", [])[-1:] == [mode]):
                return vlib.replay_recorded(os.path.abspath(path), lib, "c17_fs_record", ["c17_fs_record.cpp"], spec, spec)
        big = "FileModelBig" in base or "--mode" in info.get("args", [])
        spec = "Trace_FileModelBig" if big else "Trace_FileModel"
        return vlib.replay_recorded(os.path.abspath(path), lib, "c17_record", ["c17_record.cpp"], spec, spec)
    with open(path) as fh:
        first = fh.readline()
    grow = '"k":"dir"' in first or '"k":"seek"' in first or '"k":"path"' in first or '"k":"pair"' in first
    rep = vlib.build_harness(lib, "c17_fs_replay", FS_HARNESS) if grow else vlib.build_harness(lib, "c17_replay", HARNESS)
    r = subprocess.run([rep, "--single", path], env=vlib.run_env())
    return 1 if r.returncode == 1 else (0 if r.returncode == 0 else 2)
