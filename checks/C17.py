"""C17 - File and TextFile return exactly the bytes, text and lines that were written (spec/FileModel.tla)."""
import os
import subprocess
import vlib

META = {
    "engine": "FileModel.tla,FileModelLineReader.tla,FileModelBig.tla",
    "technique": "TLC exhaustive enumeration of FileModel.tla histories (put/write/append/stream/copy/move/remove through "
                 "temporaries, open/write/flush/close/read/readLine and size/exists/isFile/content/firstBytes/text/lines queries "
                 "through a long-lived object, between its own writes, closes and reopens) replayed on real File/"
                 "TextFile/Directory under ASan+LSan with the results of every call and the final observation of every "
                 "path (API through fresh objects, through the long-lived object itself where the specification enables it, "
                 "and POSIX) compared; TLC-generated line shapes at the real 255-byte chunk size and BOM texts; "
                 "the implementation-shaped chunked line reader checked against the property-level Lines in TLC; "
                 "recorded random executions (sizes to 200000, lines to 2000, BOM texts) validated by TLC; contents of "
                 "1..16 MiB validated against FileModelBig.tla (run-length contents, operators proved equal to the explicit ones "
                 "in small scope by TLC)",
    "design_ref": "DESIGN.md section 6, C17",
    "level_text": "TLC enumerates every history of write/append/reopen/read/copy/move calls up to the configured bound on "
                  "FileModel.tla (one path with a long-lived handle that is also queried itself in every order with its own "
                  "writes/closes, a second path and a directory target), checks the "
                  "spec's own properties (independence of paths, copy/move exactness, Lines well-formedness, decoder o "
                  "encoder = UTF-8 for the three BOM encodings) and every transition is replayed on the real classes; "
                  "FileModelLineReader.tla transcribes readLine()/lines() with a parametric chunk size and TLC checks it "
                  "equal to Lines for every text over {a,CR,LF} up to the bound and chunk sizes 2..4(5); recorded random "
                  "executions are accepted by TLC only if every returned byte, line and text equals what the "
                  "specification computes from the logged calls.",
    "level_note": "Bounded (constants in spec/MC_FileModel*.cfg). Contents above 200000 bytes are validated only for put/append/"
                  "write/copy/move/content/firstBytes/read/size/text on run-length coded contents (FileModelBig; contents made "
                  "of up to a few dozen runs; lines()/readLine are not exercised at that size); the largest content checked is "
                  "reported in the evidence. The usage discipline of the documented API is assumed: a path is "
                  "read back through a fresh object or after close()/flush(), and other objects do not write a path while "
                  "the long-lived object has it open (stdio buffering makes anything else unspecified); a File object keeps the "
                  "file information of its first size()/isFile()/content()/text() until close(), so the long-lived object is "
                  "asked those only while that information is still true or after close() (ghost hknown, guard InfoOK). text() folds CR LF "
                  "in UTF-16 files by design, generated UTF-16 texts contain no CR LF pair. Trusted: TLC, clang ASan/LSan, "
                  "POSIX read-back, the run-length coder of the harness.",
}

HARNESS = ["c17_replay.cpp"]
# per-case time limit of the replayer: generous, the machine is shared (a hang is still found, just later)
CASE_LIMIT = ("--case-timeout-ms", "90000")


def run(ctx):
    lib = vlib.build_lib("asan")
    rep = vlib.build_harness(lib, "c17_replay", HARNESS)
    rec = vlib.build_harness(lib, "c17_record", ["c17_record.cpp"])
    tier = "quick" if ctx.quick else "thorough"
    # (1) the implementation-shaped line reader refines Lines (pure TLC)
    ctx.model("FileModelLineReader", "MC_FileModelLineReader_" + tier, timeout=ctx.pick(300, 1800), xmx="8g")
    # (2) histories
    cases = os.path.join(ctx.tmp, "c17.cases")
    r = ctx.model("MC_FileModel", "MC_FileModel_" + tier, emit_to=cases, timeout=ctx.pick(600, 3000), xmx="8g",
                  ignore_cov=("MCPutShape", "MCPutEnc", "MCHLines", "MCHQuery", "MCHCloseClosed"))
    if r.coverage.get("MCHLines", (0, 0))[1] == 0:
        raise vlib.HarnessError("MC_FileModel_%s: action MCHLines never generated" % tier)
    ctx.exhaustive = True
    ctx.rule = ("one case per transition of the FileModel state graph (history of File/TextFile/Directory calls with the results "
                "the calls must return + expected observation of all paths); non-trivial = history with >= 2 calls; "
                "distinct = distinct case lines (hash)")
    ctx.replay(rep, cases, label="R/FileModel", args=CASE_LIMIT, timeout=ctx.pick(900, 5400), env={"VERIF_TMP": ctx.tmp})
    os.unlink(cases)
    # (2b) handle histories: the long-lived object is asked itself (size / exists / isFile / content / firstBytes / text / lines /
    # readLine loop) between its own writes, closes and reopens and writes to its path by temporaries, in every order
    r = ctx.model("MC_FileModel", "MC_FileModel_handle_" + tier, emit_to=cases, timeout=ctx.pick(600, 3000), xmx="8g",
                  ignore_cov=("MCStream", "MCPutShape", "MCPutEnc", "MCHLines"))
    for act in ("MCHQuery", "MCHCloseClosed", "MCHLines"):
        if r.coverage.get(act, (0, 0))[1] == 0:
            raise vlib.HarnessError("MC_FileModel_handle_%s: action %s never generated" % (tier, act))
    ctx.replay(rep, cases, label="R/FileModel-handle", args=CASE_LIMIT, timeout=ctx.pick(900, 5400), env={"VERIF_TMP": ctx.tmp})
    os.unlink(cases)
    # (3) line shapes at the real chunk size and BOM-encoded texts
    r = ctx.model("MC_FileModel", "MC_FileModel_text_" + tier, emit_to=cases, timeout=ctx.pick(600, 3000), xmx="8g",
                  ignore_cov=("MCPutBin", "MCPutText", "MCAppend", "MCStream", "MCRemove", "MCCopy", "MCMove", "MCHWrite",
                              "MCHPut", "MCHFlush", "MCHClose", "MCHRead", "MCHLines", "MCHQuery", "MCHCloseClosed"))
    ctx.replay(rep, cases, label="R/FileModel-text", args=CASE_LIMIT, timeout=ctx.pick(900, 5400), env={"VERIF_TMP": ctx.tmp})
    os.unlink(cases)
    # (3b) contents around the 65536-byte copy block through put / copy / move / handle writes
    ctx.model("MC_FileModel", "MC_FileModel_big_" + tier, emit_to=cases, timeout=ctx.pick(600, 3000), xmx="8g",
              ignore_cov=("MCPutText", "MCAppend", "MCStream", "MCHRead", "MCHLines", "MCPutShape", "MCPutEnc", "MCHQuery",
                          "MCHCloseClosed"))
    ctx.replay(rep, cases, label="R/FileModel-big", args=CASE_LIMIT, timeout=ctx.pick(900, 5400), env={"VERIF_TMP": ctx.tmp})
    os.unlink(cases)
    # (4) V
    files = ctx.record(rec, ctx.pick(12, 64), ctx.pick(2500, 12000), "V/FileModel", env={"VERIF_TMP": ctx.tmp})
    ctx.validate_traces("Trace_FileModel", "Trace_FileModel", files, label="V/FileModel", timeout=ctx.pick(600, 3000))
    largest = _largest(files)
    # (5) contents of 1 MiB .. 16 MiB: FileModelBig (run-length contents; equivalence with explicit sequences checked by TLC)
    ctx.model("FileModelBig", "MC_FileModelBig", timeout=600, must_cover=False)
    big = ctx.record(rec, ctx.pick(3, 12), ctx.pick(45, 200), "V/FileModelBig", extra_args=("--mode", "1"), env={"VERIF_TMP": ctx.tmp})
    ctx.validate_traces("Trace_FileModelBig", "Trace_FileModelBig", big, label="V/FileModelBig", timeout=ctx.pick(600, 3000))
    ctx.extra["largest_content_bytes_validated"] = max(largest, _largest(big, ("z", "r")))
    ctx.assumptions += [
        "exhaustive within the constants of spec/MC_FileModel_%s.cfg, MC_FileModel_handle_%s.cfg, MC_FileModel_text_%s.cfg, "
        "MC_FileModel_big_%s.cfg, MC_FileModelLineReader_%s.cfg; beyond them only the recorded random executions apply"
        % (tier, tier, tier, tier, tier),
        "usage discipline of the documented API: read back through a fresh object or after close()/flush(); no writes to a "
        "path by other objects while the long-lived object has it open; the long-lived object is asked for size()/isFile()/"
        "content()/text() only while the file information it remembers from an earlier query (kept until close()) still "
        "describes the file (FileModel!InfoOK) - after close() every query must reflect the bytes of the path",
        "contents of 1..16 MiB are sampled (recorder mode 1) as sequences of long runs and compared in run-length form",
        "memory errors/leaks are observed by ASan/LSan on the replayed and recorded executions, not decided by the model",
    ]


def _largest(files, keys=("d", "r")):
    import json
    mx = 0
    for f in files:
        with open(f) as fh:
            for ln in fh:
                try:
                    e = json.loads(ln)
                except ValueError:
                    continue
                for k in keys:
                    v = e.get(k)
                    if isinstance(v, list) and v and not isinstance(v[0], list):
                        mx = max(mx, sum(v[1::2]))
    return mx


def replay(path):
    lib = vlib.build_lib("asan")
    if os.path.basename(path).startswith("rec-") or path.endswith(".ndjson"):
        big = "FileModelBig" in os.path.basename(path)
        if not big and not path.endswith(".ndjson"):
            import json
            big = "--mode" in json.load(open(path)).get("args", [])
        spec = "Trace_FileModelBig" if big else "Trace_FileModel"
        return vlib.replay_recorded(path, lib, "c17_record", ["c17_record.cpp"], spec, spec)
    rep = vlib.build_harness(lib, "c17_replay", HARNESS)
    r = subprocess.run([rep, "--single", path], env=vlib.run_env())
    return 1 if r.returncode == 1 else (0 if r.returncode == 0 else 2)
