"""C11 - WebSocket messages arrive intact and in order for every size and direction (spec/WsFrame*.tla, Codecs.tla)."""
import os
import subprocess
import vlib

META = {
    "engine": "WsFrame.tla, WsFrameStreams.tla, WsFrameSizes.tla, WsFrameHs.tla, Trace_WsFrame.tla, Codecs.tla",
    "technique": "TLC exhaustive enumeration of RFC 6455 frame streams (fragments, interleaved control frames, close, hostile "
                 "headers, every cut offset), of payload sizes around the header boundaries and of handshakes, with the "
                 "encoder checked against an independent recognizer and the reassembly machine; every state replayed on the "
                 "real asl::WebSocket / WebSocketServer over a socketpair (both roles) under ASan/LSan; recorded library "
                 "output (wire bytes, client<->server exchanges, handshakes) validated against the same operators",
    "design_ref": "DESIGN.md section 6, C11",
    "level_text": "TLC checks on WsFrame*.tla that Decode(Encode(f)) = f, that every message split into up to MaxFrag fragments "
                  "with pings in between is delivered exactly once, identical and in order, that the three header length "
                  "classes change at 125/126 and 65535/65536, and the RFC's accept-key example; each state is executed on "
                  "the real receiver/sender in both roles (deliveries, pongs, accept value compared; ASan, time bound), and "
                  "recorded sends, library-to-library exchanges and handshakes are accepted only if TLC finds them allowed.",
    "level_note": "Bounded (constants in spec/MC_WsFrame*_*.cfg); lengths beyond them are sampled (seeded, to 4 MiB in the "
                  "thorough tier). Large payloads are (len, seed) descriptors expanded by a trusted helper; library<->library "
                  "bodies are compared by length + 64-bit hash. Memory errors are observed (ASan/LSan), not decided. A stream "
                  "that ends inside a frame or message may produce one trailing partial/garbage delivery (the property only "
                  "forbids memory errors and negative lengths there); SHA-1 is evaluated for 60-byte inputs only.",
}

ASAN = vlib.SAN_ENV["ASAN_OPTIONS"].replace("max_allocation_size_mb=4096", "max_allocation_size_mb=64")
ENV = {"ASAN_OPTIONS": ASAN}


def _cases(ctx, spec, cfg, name, timeout, **kw):
    path = os.path.join(ctx.tmp, name)
    ctx.model(spec, cfg, emit_to=path, timeout=timeout, xmx="8g", **kw)
    return path


def run(ctx):
    lib = vlib.build_lib("asan")
    rep = vlib.build_harness(lib, "c11_replay", ["c11_replay.cpp"])
    rec = vlib.build_harness(lib, "c11_record", ["c11_record.cpp"])
    tier = "quick" if ctx.quick else "thorough"
    ctx.exhaustive = True
    ctx.rule = ("one case per state of WsFrameStreams (a frame stream, possibly cut or hostile, for one role), WsFrameSizes "
                "(a message size / fragmentation / key, as receiver and as sender) and WsFrameHs (a handshake); "
                "non-trivial = non-empty stream; distinct = distinct case lines")
    args = ["--case-timeout-ms", "15000", "--batch", "400"]
    c = _cases(ctx, "WsFrameHs", "MC_WsFrameHs_" + tier, "c11-hs.cases", ctx.pick(300, 1200), xss="512m", must_cover=False)
    ctx.replay(rep, c, label="R/WsFrameHs", args=args, timeout=ctx.pick(300, 1200), env=ENV, jobs=4)
    os.unlink(c)
    c = _cases(ctx, "WsFrameSizes", "MC_WsFrameSizes_" + tier, "c11-size.cases", ctx.pick(300, 1200), must_cover=False)
    ctx.replay(rep, c, label="R/WsFrameSizes", args=args, timeout=ctx.pick(600, 2400), env=ENV)
    os.unlink(c)
    c = _cases(ctx, "WsFrameStreams", "MC_WsFrameStreams_" + tier, "c11-ws.cases", ctx.pick(600, 3000))
    ctx.replay(rep, c, label="R/WsFrameStreams", args=args, timeout=ctx.pick(600, 3000), env=ENV)
    os.unlink(c)
    # deeper fragmentation (4 fragments with control frames in every gap), without cuts and hostile frames
    deep = ctx.pick("MC_WsFrameStreams_deep5", "MC_WsFrameStreams_deep")
    c = _cases(ctx, "WsFrameStreams", deep, "c11-wsd.cases", ctx.pick(600, 3000), ignore_cov=("Cut", "GoHostile", "Next"))
    ctx.replay(rep, c, label="R/" + deep[3:], args=args, timeout=ctx.pick(600, 3000), env=ENV)
    os.unlink(c)
    # V: what the library itself puts on the wire, library <-> library, handshakes, long random streams
    files = ctx.record(rec, ctx.pick(12, 48), ctx.pick(250, 1200), "V/WsFrame", extra_args=["--mode", "0" if ctx.quick else "1"],
                       timeout=ctx.pick(300, 1800), env=ENV)
    ctx.validate_traces("Trace_WsFrame", "Trace_WsFrame", files, label="V/WsFrame", timeout=ctx.pick(600, 3000), xss="512m")
    ctx.assumptions += [
        "exhaustive within the constants of spec/MC_WsFrame{Streams,Sizes,Hs}_%s.cfg; other lengths are sampled by the recorder" % tier,
        "memory errors are observed by ASan/LSan on the executed streams (allocations above 64 MiB are refused so that absurd length fields cannot exhaust the machine)",
        "messages have non-zero length (the library ignores empty sends and the application cannot tell an empty receive() result from a control frame)",
        "no server threads: the library objects are attached to socketpairs through WebSocket(Socket, isclient) and SocketServer::serve(Socket); connect() runs against a raw loopback listener",
    ]


def _replay_recorded(path, lib):
    """like vlib.replay_recorded, but the trace spec evaluates SHA-1 (deep recursion): TLC needs -Xss"""
    import json
    import shutil
    tmp = os.path.join(vlib.BUILD, "tmp", "replay-%d" % os.getpid())
    os.makedirs(tmp, exist_ok=True)
    try:
        trace = path
        if not path.endswith(".ndjson"):
            info = json.load(open(path))
            exe = vlib.build_harness(lib, "c11_record", ["c11_record.cpp"])
            trace = os.path.join(tmp, "t.ndjson")
            cmd = [exe, "--seed", str(info["seed"]), "--events", str(info["events"]), "--out", trace] + list(info.get("args", []))
            p = subprocess.run(["timeout", "900"] + cmd, env=vlib.run_env(ENV))
            if p.returncode != 0:
                print("recorder failed again with exit %d (seed %s): violation reproduced" % (p.returncode, info["seed"]))
                return 1
        r = vlib.tlc("Trace_WsFrame", "Trace_WsFrame", workers=1, timeout=1800, env={"TRACE": trace}, xss="512m")
        if r.rc == 0:
            print("trace accepted by Trace_WsFrame")
            return 0
        if r.violated() is None:
            print(r.tail(40))
            return 2
        print("trace rejected by Trace_WsFrame near event %d: %s" % (r.depth, vlib._nth_line(trace, r.depth)))
        return 1
    finally:
        shutil.rmtree(tmp, ignore_errors=True)


def replay(path):
    lib = vlib.build_lib("asan")
    base = os.path.basename(path)
    if base.startswith("rec-") or path.endswith(".ndjson"):
        return _replay_recorded(path, lib)
    rep = vlib.build_harness(lib, "c11_replay", ["c11_replay.cpp"])
    r = subprocess.run([rep, "--single", path, "--case-timeout-ms", "15000"], env=vlib.run_env(ENV))
    return 1 if r.returncode == 1 else (0 if r.returncode == 0 else 2)
