"""C11 - WebSocket messages arrive intact and in order for every size and direction (spec/WsFrame*.tla, Codecs.tla)."""
import concurrent.futures as cf
import os
import subprocess
import vlib

META = {
    "engine": "WsFrame.tla, WsFrameStreams.tla, WsFrameSizes.tla, WsFrameHs.tla, Trace_WsFrame.tla, Codecs.tla, "
              "WsConn.tla, WsHub.tla, Trace_WsHub.tla",
    "technique": "TLC exhaustive enumeration of RFC 6455 frame streams (fragments, interleaved control frames, close, hostile "
                 "headers, every cut offset), of payload sizes around the header boundaries and of handshakes, with the "
                 "encoder checked against an independent recognizer and the reassembly machine; every state replayed on the "
                 "real asl::WebSocket / WebSocketServer over a socketpair (both roles) under ASan/LSan; recorded library "
                 "output (wire bytes, client<->server exchanges, handshakes) validated against the same operators.  Beyond the "
                 "frames, three more modules are model-checked and bound in both directions: WsConn.tla (the life cycle of one "
                 "connection as a transition system - CONNECTING/OPEN/CLOSING/CLOSED per end, a FIFO of messages, pings, pongs "
                 "and close frames per direction, TCP close and reset - with every public call of WebSocket.h as an action: "
                 "send, ping, close frame, close(), receive(), wait(t), hasInput(), closed()/connected(), code(); invariants "
                 "PrefixDelivery, NoLoss, PongsAnswerPings, properties Monotone, QuietAfterClose), WsHub.tla (one "
                 "WebSocketServer with N clients: isolation, clients(), broadcast under mutex(), close from either end; "
                 "invariants Isolation, NoLoss, Registered, property BroadcastAll) and the grown WsFrameHs.tla (client role: "
                 "accept value right / of another key / missing, non-101, missing Upgrade, server closing after every byte of "
                 "its response, refused port; server role: sub-protocol offers; a WebSocketServer linked to an HttpServer).  "
                 "R: every transition TLC prints is a script that harness/c11_conn_run.h executes over loopback TCP between "
                 "library ends (connect() against a WebSocketServer started with bind()+start(true), commands executed inside "
                 "the library's connection threads) and raw scripted peers, comparing every result and the exact bytes the "
                 "library wrote; V: harness/c11_hub_record.cpp runs up to 24 clients in threads against one server with a "
                 "broadcaster, pings, wait/closed/receive loops and closes from either end, and Trace_WsHub.tla validates the "
                 "linearised log (per-connection FIFOs, lost wake-ups, causes of wake-ups, no loss before a graceful close, "
                 "clients() bounds, client accept check with SHA-1/Base64 evaluated by TLC)",
    "design_ref": "DESIGN.md section 6, C11",
    "level_text": "TLC checks on WsFrame*.tla that Decode(Encode(f)) = f, that every message split into up to MaxFrag fragments "
                  "with pings in between is delivered exactly once, identical and in order, that the three header length "
                  "classes change at 125/126 and 65535/65536, and the RFC's accept-key example; each state is executed on "
                  "the real receiver/sender in both roles (deliveries, pongs, accept value compared; ASan, time bound), and "
                  "recorded sends, library-to-library exchanges and handshakes are accepted only if TLC finds them allowed.  "
                  "Model checking of the connection life cycle (WsConn.tla: delivered is a prefix of sent, nothing sent before a "
                  "graceful close is lost, CLOSED is final and silent, every ping is answered with its payload) and of a server "
                  "with N clients (WsHub.tla: isolation, broadcast reaches exactly the registered connections, clients() = "
                  "connections inside serve()), with every transition replayed as a script between real library ends and raw "
                  "peers over loopback TCP, plus trace validation of recorded concurrent runs (1..24 clients, concurrent "
                  "senders in both directions, sizes across the header boundaries, broadcaster) against Trace_WsHub.tla.",
    "level_note": "Bounded (constants in spec/MC_WsFrame*_*.cfg, MC_WsConn_*.cfg, MC_WsHub_*.cfg); lengths beyond them are sampled "
                  "(seeded, to 4 MiB in the thorough tier). Large payloads are (len, seed) descriptors expanded by a trusted helper; "
                  "library<->library bodies are compared by length + 64-bit hash. Memory errors are observed (ASan/LSan), not decided. "
                  "A stream that ends inside a frame or message may produce one trailing partial/garbage delivery (the property only "
                  "forbids memory errors and negative lengths there); SHA-1 is evaluated for 60-byte inputs only. The raw server of "
                  "the client-handshake cases computes accept values with an independent SHA-1/Base64 helper, which TLC validates "
                  "on every recorded 'chs' event. OS interleavings of the concurrent runs are sampled; wait(t) = false counts as a "
                  "lost wake-up only for t >= 1 s. Left unconstrained because the library's documentation does not define them: "
                  "the view of an end whose connection was reset (the peer called close() - a plain TCP close, there is no closing "
                  "handshake - with unread input or with a ping unanswered: messages sent before that close can be lost; only "
                  "'delivered is a prefix of sent' is required), what receive() returns for a control frame, code() after a close "
                  "without status code, whether a close frame is echoed, the close reason handed over as a last message, two "
                  "threads sending on one WebSocket (an automatic pong is not under mutex()), response header names in another "
                  "capitalisation (connect() may refuse them), a response that only lacks its last LF.",
}

ASAN = vlib.SAN_ENV["ASAN_OPTIONS"].replace("max_allocation_size_mb=4096", "max_allocation_size_mb=64")
ENV = {"ASAN_OPTIONS": ASAN}


def _cases(ctx, spec, cfg, name, timeout, xmx="8g", **kw):
    path = os.path.join(ctx.tmp, name)
    ctx.model(spec, cfg, emit_to=path, timeout=timeout, xmx=xmx, **kw)
    return path


CONN_PAIRS = (("rl", "raw client <-> library server"), ("lr", "library client <-> raw server"), ("ll", "library <-> library"))
CONN_ASPECTS = ("data", "ctl", "closing")


def run(ctx):
    lib = vlib.build_lib("asan")
    rep = vlib.build_harness(lib, "c11_replay", ["c11_replay.cpp"])
    rec = vlib.build_harness(lib, "c11_record", ["c11_record.cpp"])
    hrec = vlib.build_harness(lib, "c11_hub_record", ["c11_hub_record.cpp"])
    ctx.exhaustive = True
    ctx.rule = ("one case per state of WsFrameStreams (a frame stream, possibly cut or hostile, for one role), WsFrameSizes "
                "(a message size / fragmentation / key, as receiver and as sender), WsFrameHs (a handshake in either role, a "
                "linked HTTP port) and per transition of WsConn (a script of calls on the two ends of a connection) and WsHub "
                "(a script over N connections of one server); non-trivial = non-empty stream / script; distinct = distinct case lines")
    # independent lanes (TLC runs and replays overlap): the frame codec (two lanes), handshakes + sizes + recorded wire,
    # the connection life cycle / the server with N clients (R), the same recorded from concurrent runs (V)
    # (thorough tier: at most three TLC JVMs at a time - the big frame models need their 8 GB each)
    def frames():
        streams(ctx, lib, rep)
        deep(ctx, lib, rep)

    def around():
        small(ctx, lib, rep)
        grow_r(ctx, rep)

    jobs = [lambda: streams(ctx, lib, rep), lambda: deep(ctx, lib, rep), lambda: small(ctx, lib, rep), lambda: grow_r(ctx, rep),
            lambda: recorded(ctx, rec, hrec)] if ctx.quick else [frames, around, lambda: recorded(ctx, rec, hrec)]
    with cf.ThreadPoolExecutor(len(jobs)) as ex:
        for f in [ex.submit(j) for j in jobs]:
            f.result()
    tier = "quick" if ctx.quick else "thorough"
    ctx.assumptions += [
        "exhaustive within the constants of spec/MC_WsFrame{Streams,Sizes,Hs}_%s.cfg, MC_WsConn_*_%s.cfg and MC_WsHub_%s.cfg; other lengths are sampled by the recorders" % (tier, tier, tier),
        "memory errors are observed by ASan/LSan on the executed streams (allocations above 64 MiB are refused so that absurd length fields cannot exhaust the machine)",
        "messages have non-zero length (the library ignores empty sends and the application cannot tell an empty receive() result from a control frame)",
        "frame-level cases attach the library objects to socketpairs through WebSocket(Socket, isclient) and SocketServer::serve(Socket); "
        "life-cycle, hub, linked-port and client-handshake cases run over loopback TCP against a WebSocketServer / HttpServer started with "
        "bind() + start(true) (the library's own accept and connection threads) or against a raw scripted peer",
        "OS interleavings of the concurrent runs are sampled, not enumerated; a wait(t) that returns false is only judged a lost wake-up for t >= 1 s",
        "the view of an end whose connection was reset under it (peer closed with unread input, or with an unanswered ping) is left open: only "
        "'delivered is a prefix of sent' is required there",
    ]


ARGS = ["--case-timeout-ms", "30000", "--batch", "400"]


def streams(ctx, lib, rep):
    tier = "quick" if ctx.quick else "thorough"
    c = _cases(ctx, "WsFrameStreams", "MC_WsFrameStreams_" + tier, "c11-ws.cases", ctx.pick(600, 3000), workers=ctx.pick(6, 16))
    ctx.replay(rep, c, label="R/WsFrameStreams", args=ARGS, timeout=ctx.pick(600, 3000), env=ENV)
    os.unlink(c)


def deep(ctx, lib, rep):
    # deeper fragmentation (4 fragments with control frames in every gap), without cuts and hostile frames
    deep = ctx.pick("MC_WsFrameStreams_deep5", "MC_WsFrameStreams_deep")
    c = _cases(ctx, "WsFrameStreams.tla", deep, "c11-wsd.cases", ctx.pick(600, 3000), ignore_cov=("Cut", "GoHostile", "Next"), workers=ctx.pick(4, 16))
    ctx.replay(rep, c, label="R/" + deep[3:], args=ARGS, timeout=ctx.pick(600, 3000), env=ENV)
    os.unlink(c)


def small(ctx, lib, rep):
    tier = "quick" if ctx.quick else "thorough"
    c = _cases(ctx, "WsFrameHs", "MC_WsFrameHs_" + tier, "c11-hs.cases", ctx.pick(300, 1200), xmx="2g", xss="512m", must_cover=False, workers=2)
    ctx.replay(rep, c, label="R/WsFrameHs", args=ARGS, timeout=ctx.pick(300, 1200), env=ENV, jobs=4)
    os.unlink(c)
    c = _cases(ctx, "WsFrameSizes", "MC_WsFrameSizes_" + tier, "c11-size.cases", ctx.pick(300, 1200), xmx="2g", must_cover=False, workers=2)
    ctx.replay(rep, c, label="R/WsFrameSizes", args=ARGS, timeout=ctx.pick(600, 2400), env=ENV, jobs=ctx.pick(8, 16))
    os.unlink(c)


def recorded(ctx, rec, hrec):
    wire_v(ctx, rec)
    grow_v(ctx, hrec)


def wire_v(ctx, rec):
    # V: what the library itself puts on the wire, library <-> library, handshakes, long random streams
    files = ctx.record(rec, ctx.pick(12, 48), ctx.pick(250, 1200), "V/WsFrame", extra_args=["--mode", "0" if ctx.quick else "1"],
                       timeout=ctx.pick(300, 1800), env=ENV)
    ctx.validate_traces("Trace_WsFrame", "Trace_WsFrame", files, label="V/WsFrame", timeout=ctx.pick(600, 3000), xss="512m", xmx="2g", parallel=ctx.pick(6, 8))


def grow_r(ctx, rep):
    """R for the life cycle of a connection (WsConn.tla: three pairs of ends x three aspects) and for a server with N clients
    (WsHub.tla): every transition TLC prints is a script executed over loopback TCP with the library's own server threads."""
    tier = "quick" if ctx.quick else "thorough"
    # actions a configuration cannot take by construction (no raw end, no library client, aspect switched off) may stay uncovered
    off = {"rl": {"PreSend", "PreClosed"}, "lr": set(), "ll": {"RawSend", "RawFinish"},
           "data": {"SendCtl", "Poll", "SendClose"}, "ctl": {"SendClose"}, "closing": {"SendCtl", "Poll"}}
    runs = [("WsConn" if i % 2 else "WsConn.tla", "MC_WsConn_%s_%s_%s" % (p, a, tier), "R/WsConn.%s.%s" % (p, a), tuple(sorted(off[p] | off[a])))
            for i, (p, a) in enumerate((p, a) for p, _ in CONN_PAIRS for a in CONN_ASPECTS)]
    runs.append(("WsHub", "MC_WsHub_" + tier, "R/WsHub", ()))

    def gen(run):
        spec, cfg, label, ignore = run
        cases = os.path.join(ctx.tmp, cfg + ".cases")
        ctx.model(spec, cfg, emit_to=cases, workers=ctx.pick(2, 6), timeout=ctx.pick(300, 2400), xmx="2g", ignore_cov=ignore)
        return cases

    with cf.ThreadPoolExecutor(ctx.pick(4, 2)) as ex:
        files = list(ex.map(gen, runs))
    merged = os.path.join(ctx.tmp, "conn.cases")
    with open(merged, "w") as out:
        for (spec, cfg, label, ignore), cases in zip(runs, files):
            n = 0
            with open(cases) as f:
                for ln in f:
                    out.write(ln)
                    n += 1
            ctx.engines.append("%s: %d scripts printed by %s" % (label, n, cfg))
            os.unlink(cases)
    ctx.replay(rep, merged, label="R/WsConn+WsHub", args=ARGS, timeout=ctx.pick(900, 3000), env=ENV)
    os.unlink(merged)


def grow_v(ctx, hrec):
    """V: concurrent runs (a real WebSocketServer, up to 8 / 24 library clients in threads, broadcaster, pings, waits, closes from
    either end, connect() against a raw server with right / wrong / missing accept values) validated by Trace_WsHub.tla."""
    files = ctx.record(hrec, ctx.pick(8, 32), ctx.pick(2500, 12000), "V/WsHub", extra_args=["--mode", "0" if ctx.quick else "1"],
                       timeout=ctx.pick(300, 1800), env=ENV)
    ctx.validate_traces("Trace_WsHub", "Trace_WsHub", files, label="V/WsHub", timeout=ctx.pick(600, 3000), xss="512m", xmx="2g", parallel=ctx.pick(4, 8))


def _replay_recorded(path, lib, hub):
    """like vlib.replay_recorded, but the trace specs evaluate SHA-1 (deep recursion): TLC needs -Xss"""
    import json
    import shutil
    recname, tspec = ("c11_hub_record", "Trace_WsHub") if hub else ("c11_record", "Trace_WsFrame")
    tmp = os.path.join(vlib.BUILD, "tmp", "replay-%d" % os.getpid())
    os.makedirs(tmp, exist_ok=True)
    try:
        trace = path
        if not path.endswith(".ndjson"):
            info = json.load(open(path))
            exe = vlib.build_harness(lib, recname, [recname + ".cpp"])
            trace = os.path.join(tmp, "t.ndjson")
            cmd = [exe, "--seed", str(info["seed"]), "--events", str(info["events"]), "--out", trace] + list(info.get("args", []))
            if info.get("avoid"):
                cmd += ["--avoid", ",".join(info["avoid"])]
            p = subprocess.run(["timeout", "900"] + cmd, env=vlib.run_env(ENV))
            if p.returncode != 0:
                print("recorder failed again with exit %d (seed %s): violation reproduced" % (p.returncode, info["seed"]))
                return 1
        r = vlib.tlc(tspec, tspec, workers=1, timeout=1800, env={"TRACE": trace}, xss="512m")
        if r.rc == 0:
            print("trace accepted by " + tspec)
            return 0
        if r.violated() is None:
            print(r.tail(40))
            return 2
        print("trace rejected by %s near event %d: %s" % (tspec, r.depth, vlib._nth_line(trace, r.depth)))
        return 1
    finally:
        shutil.rmtree(tmp, ignore_errors=True)


def replay(path):
    path = os.path.abspath(path)      # (TLC runs in spec/)
    lib = vlib.build_lib("asan")
    base = os.path.basename(path)
    if base.startswith("rec-") or path.endswith(".ndjson"):
        return _replay_recorded(path, lib, "WsHub" in base)
    rep = vlib.build_harness(lib, "c11_replay", ["c11_replay.cpp"])
    r = subprocess.run([rep, "--single", path, "--case-timeout-ms", "30000"], env=vlib.run_env(ENV))
    return 1 if r.returncode == 1 else (0 if r.returncode == 0 else 2)
