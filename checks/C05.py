"""C05 - JSON and XDL encoding round-trips every Var exactly
(spec/JsonText.tla, JsonTextVar.tla, XdlWriter.tla + XdlWriterEnum.tla (the writer: every Json::Mode flag, text-exact),
XdlFile.tla (Xdl::read design, file contents), Trace_JsonTextEnc.tla; shares the build and the text specification with C06)."""
import json
import os
import re
import subprocess
import vlib

META = {
    "engine": "JsonText.tla,JsonTextVar.tla,XdlWriter.tla,XdlWriterEnum.tla,XdlFile.tla,XdlSM.tla,Trace_JsonTextEnc.tla,Trace_XdlWriterDev.tla",
    "technique": "TLC enumerates Var trees (boundary scalars x small shapes, every byte as string/key, pretty-printer line "
                 "rules) with the bit patterns decoding must give; they are built, encoded in every Json/Xdl mode, written to "
                 "files (chunk boundary swept over the value's text) and decoded by the real code under ASan/LSan (R). "
                 "Recorded round trips of random trees are validated by TLC: the strict RFC 8259 recognizer written in TLA+ "
                 "must accept the encoder's text with the tree's value (doubles/floats: bignum half-ulp test on the token) and "
                 "the decoded projection must equal the tree bit for bit (V). The writer itself is specified as a serializer "
                 "operator Ser(tree, mode) in TLA+ (XdlWriter.tla: every Json::Mode flag, PRETTY line-break/indentation rules, "
                 "XDL dialect with class names and Y/N, %g number formatting from digit tables proved by bignum arithmetic, "
                 "NaN/infinity/NONE exceptions); TLC proves on the enumerated (tree, mode) pairs that Ser's output is inside the "
                 "RFC 8259 recognizer (JSON) / accepted by the parser design XdlSM (XDL) with the tree's value, and the real "
                 "encoder's texts (also through Json::write/Xdl::write) are decoded by the real decoder and compared with Ser (R), "
                 "recorded random trees likewise with number tokens as holes (V); the exact layout is not demanded - a text that "
                 "differs from Ser is a counted deviation and is judged by TLC on the real text (recognizer / XdlSM accept it with "
                 "the tree's value, digits law of the mode, documented flag promises; Trace_XdlWriterDev.tla, Trace_JsonTextEnc.tla). Xdl::read's BOM probe / chunk loop is a TLA+ design proved equal "
                 "to decoding the contents for every buffer size, and enumerated file contents (marks, CR LF, short files, "
                 "text after the value) are read by the real code (R)",
    "design_ref": "DESIGN.md section 6, C05/C06",
    "level_text": "TLC checks the round-trip law Recognize(Encode(tree)) = tree on the specification's reference encoder for every "
                  "enumerated tree, replays every enumerated tree through the real encoder/decoder in 8 string modes, 4 file modes "
                  "and the chunk-boundary sweep, and validates recorded (tree, text, decoded) triples of random trees with the "
                  "recognizer and exact decimal/IEEE arithmetic on 16-bit limbs (no floating point in the oracle). "
                  "XdlWriter/XdlWriterEnum: the encoder's output is compared with the specification's serializer (equal bytes = proved "
                  "texts; different bytes = layout deviation judged by TLC on the real text, not a violation) "
                  "for every enumerated tree in every flag combination (16 documented combinations + 4 with the undocumented "
                  "COMPACT/EXACT bits in the quick tier, all 64 mode values in the thorough tier) after TLC has proved the "
                  "serializer's texts valid and value-preserving (JsonLaw, XdlLaw, LayoutLaw, ModeLaw); XdlFile: FileLaw/PadLaw "
                  "proved by TLC for buffer sizes 1..40, the pre-fix BOM probe refuted, 4800 file contents read by the real code.",
    "level_note": "Bounded enumeration (spec/JsonTextVar.tla tables) plus seeded random trees. TLC has no floating point: IEEE "
                  "patterns are opaque limbs; that a token denotes a double is decided by an exact bignum test (|token - double| <= "
                  "half an ulp, ties to even), which covers what any correctly rounding reader returns; that libc's strtod is "
                  "correctly rounding is observed through the decoded bit patterns, not proved. In the reduced-precision modes "
                  "(SIMPLE/NICE, Xdl::encode's default) only structure, strings, ints and number-ness are demanded. NONE-typed "
                  "members and non-finite numbers are outside the property's domain; the writer specification states what "
                  "happens to them (XdlWriter!Lossy: NaN and NONE become null, NONE members are dropped, +-infinity is written "
                  "as +-1e400 which only readers that overflow to infinity recover). The writer's exact layout (rows of 16 items, TAB, "
                  "', ' / ': ', final newline, when an array goes multi-line) is the present implementation, not a requirement: "
                  "differences are deviations (evidence: layout_deviations_R / _V_lines); required of every real text are validity in "
                  "the dialect, the value, the digits law and the documented promises of the flags (XdlWriter!ModePromises). Results for file contents that are not one RFC 8259 document "
                  "(text after the value, several values, partial byte-order marks) are only required to equal decoding the same "
                  "contents from a string. Memory safety is observed (ASan/LSan).",
}

ACT_RE = re.compile(r'"act":"([^"]*)"')


def run(ctx):
    lib = vlib.build_lib("asan")
    rep = vlib.build_harness(lib, "c05_replay", ["c05_replay.cpp"])
    rec = vlib.build_harness(lib, "c05_record", ["c05_record.cpp"])
    tier = "quick" if ctx.quick else "thorough"
    ctx.rule = ("R: one case per enumerated Var tree (executed in 8 encode modes, 4 file modes, flagged ones in the chunk "
                "boundary sweep), per (tree, mode) pair of the writer enumeration and per file content; non-trivial = the tree "
                "is an array or object / the file has >= 3 bytes; V: one event per recorded round trip")
    import concurrent.futures as cf

    def generate(spec, need):
        """One enumerating module: TLC prints one case per transition (the laws of the module are its invariants); vacuity is
        measured on the ghost act field of the printed cases.  Returns (case file, number of cases)."""
        seen = {}

        def tally(line):
            m = ACT_RE.search(line)
            if m:
                seen[m.group(1)] = seen.get(m.group(1), 0) + 1
            return line

        out = os.path.join(ctx.tmp, spec + ".cases")
        ctx.model(spec, "MC_%s_%s" % (spec, tier), emit_to=out, timeout=ctx.pick(300, 1200), workers=4, xmx="4g", xss="256m",
                  must_cover=False, emit_filter=tally)
        missing = [a for a in need if a not in seen]
        if missing:
            raise vlib.HarnessError("%s: vacuous run, never produced: %s" % (spec, missing))
        return out, sum(seen.values())

    def file_defect():
        # the pre-fix BOM probe (no seek back on files shorter than 3 bytes) must be refuted by TLC itself
        r = vlib.tlc("XdlFile", "MC_XdlFile_defect", timeout=600, xss="256m", xmx="4g", workers=2)
        if r.violated() != "FileLaw":
            raise vlib.HarnessError("XdlFile/defect: TLC did not refute the BOM probe without rewind (%s)\n%s" % (r.violated(), r.tail()))

    # the three enumerations are independent TLC runs: side by side, then replayed one after the other
    #   JsonTextVar   - Var trees with the bit patterns decoding must give (round trip in 8 string modes, 4 file modes, chunk sweep)
    #   XdlWriterEnum - Ser(tree, mode) of spec/XdlWriter.tla for every flag combination, text-exact against the real encoder
    #   XdlFile       - the design of Xdl::read proved equal to decoding the contents for every buffer size; file contents
    with cf.ThreadPoolExecutor(4) as ex:
        jv = ex.submit(generate, "JsonTextVar", ("Scalar", "Pair", "Byte", "Key", "Special"))
        jw = ex.submit(generate, "XdlWriterEnum", ("WScalar", "WArray", "WObject", "WJsonKeys"))
        jf = ex.submit(generate, "XdlFile", ("Bom", "Short", "Plain"))
        jd = ex.submit(file_defect)
        (cases, ntrees), (wcases, nwriter), (fcases, nfiles) = jv.result(), jw.result(), jf.result()
        jd.result()
    ctx.engines.append("XdlFile/MC_XdlFile_defect: BOM probe that does not seek back on files shorter than 3 bytes refuted by TLC (FileLaw) as expected")
    ctx.exhaustive = True
    # layout deviations of the writer (not violations): real texts that are not byte for byte Ser(tree, mode) are logged by
    # the replayer and judged by TLC on the text itself (Trace_XdlWriterDev: language + value + digits + documented promises)
    devlog = os.path.join(ctx.tmp, "XdlWriterDev.ndjson")
    with open(devlog, "w") as fh:
        fh.write('{"e":"reset"}\n')
    os.environ["C05_DEVLOG"] = devlog
    try:
        for label, path in (("R/JsonTextVar", cases), ("R/XdlWriterEnum", wcases), ("R/XdlFile", fcases)):
            ctx.replay(rep, path, label=label, args=("--tmpdir", ctx.tmp), timeout=ctx.pick(600, 3000))
            os.unlink(path)
    finally:
        os.environ.pop("C05_DEVLOG", None)
    rdev = {}
    with open(devlog, errors="replace") as fh:
        for ln in fh:
            m = re.search(r'"via":"([^"]*)"', ln)
            if m:
                rdev[m.group(1)] = rdev.get(m.group(1), 0) + 1
    if rdev:
        ctx.validate_traces("Trace_XdlWriterDev", "Trace_XdlWriterDev", [devlog], label="V/XdlWriterDev", timeout=ctx.pick(900, 3000),
                            xss="512m", xmx="4g")
    # V: random trees through the real encoder/decoder, judged by TLC
    files = ctx.record(rec, ctx.pick(8, 24), ctx.pick(450, 1200), "V/JsonTextEnc")
    ctx.validate_traces("Trace_JsonTextEnc", "Trace_JsonTextEnc", files, label="V/JsonTextEnc", timeout=ctx.pick(600, 3000),
                        xss="512m", xmx="4g")
    vdev = vlines = 0
    for f in files:
        try:
            d = json.load(open(f + ".dev"))
            vdev += int(d["dev"])
            vlines += int(d["lines"])
        except (OSError, ValueError, KeyError):
            pass                      # a rejected trace has no count; the rejection is reported by validate_traces
    ctx.extra["layout_deviations_R"] = rdev
    ctx.extra["layout_deviations_V_lines"] = vdev
    vlib.log("layout deviations from Ser (not violations): R %s of %d writer cases, V %d of %d recorded lines"
             % (rdev or "none", nwriter, vdev, vlines))
    if not ctx.quick:
        # documents of one to several MB through Json::write/read and Xdl::write/read (hundreds of chunk boundaries and flushes)
        big = ctx.record(rec, 2, 1, "V/JsonTextEnc-huge", extra_args=("--mode", "1"))
        ctx.validate_traces("Trace_JsonTextEnc", "Trace_JsonTextEnc", big, label="V/JsonTextEnc-huge", timeout=3000, xss="1g", xmx="8g")
    ctx.assumptions += [
        "the exact layout of the writer is not part of C05: a real text that differs from the specification's serializer Ser(tree, mode) "
        "is a deviation, not a violation, provided TLC finds the real text itself inside the reader's language (strict RFC 8259 "
        "recognizer / parser design XdlSM) with the tree's value, its number tokens within the digits law of the mode, and the "
        "promises include/asl/JSON.h documents for the flags kept (no line break or white space without PRETTY, indented lines with "
        "PRETTY, SIMPLE / SHORTF / exact digits); in this run %d replayed texts %s and %d of %d recorded lines deviated"
        % (sum(rdev.values()), rdev or "", vdev, vlines),
        "exhaustive over the tables of spec/JsonTextVar.tla (%d trees), spec/XdlWriterEnum.tla (%d tree x mode pairs) and "
        "spec/XdlFile.tla (%d file contents); beyond them seeded random trees" % (ntrees, nwriter, nfiles),
        "IEEE bit patterns are opaque to TLC; token <-> pattern is decided by exact bignum arithmetic (half-ulp test), not by floating point",
        "memory errors and leaks are observed by ASan/LSan on the executed round trips, not decided by the model",
        "strings and keys are NUL-free byte strings; XDL round trips use identifier keys ([A-Za-z_][A-Za-z0-9_]*)",
    ]


def _replay_recorded(path, lib, hname, hsrcs, trace_spec):
    """--replay for V-direction violations (like vlib.replay_recorded, but with the deep Java stack the bignum operators
    need): a stored rejected trace is validated again; a recorder crash descriptor is re-recorded first."""
    import json
    import shutil
    tmp = os.path.join(vlib.BUILD, "tmp", "replay-%s-%d" % (hname, os.getpid()))
    os.makedirs(tmp, exist_ok=True)
    try:
        trace = os.path.abspath(path)
        if not path.endswith(".ndjson"):
            info = json.load(open(path))
            exe = vlib.build_harness(lib, hname, hsrcs)
            trace = os.path.join(tmp, "t.ndjson")
            cmd = [exe, "--seed", str(info["seed"]), "--events", str(info["events"]), "--out", trace] + list(info.get("args", []))
            if info.get("avoid"):
                cmd += ["--avoid", ",".join(info["avoid"])]
            p = subprocess.run(["timeout", "900"] + cmd, env=vlib.run_env())
            if p.returncode != 0:
                print("recorder failed again with exit %d (seed %s): violation reproduced" % (p.returncode, info["seed"]))
                return 1
        r = vlib.tlc(trace_spec, trace_spec, workers=1, timeout=3000, env={"TRACE": trace}, xss="1g", xmx="8g")
        if r.rc == 0:
            print("trace accepted by %s" % trace_spec)
            return 0
        if r.violated() is None:
            print(r.tail(40))
            return 2
        print("trace rejected by %s near event %d: %s" % (trace_spec, r.depth, vlib._nth_line(trace, r.depth)))
        return 1
    finally:
        shutil.rmtree(tmp, ignore_errors=True)


def replay(path):
    lib = vlib.build_lib("asan")
    if "XdlWriterDev" in os.path.basename(path):       # logged layout deviations of the writer, judged by TLC
        return _replay_recorded(path, lib, "c05_replay", ["c05_replay.cpp"], "Trace_XdlWriterDev")
    if os.path.basename(path).startswith("rec-") or path.endswith(".ndjson"):
        return _replay_recorded(path, lib, "c05_record", ["c05_record.cpp"], "Trace_JsonTextEnc")
    rep = vlib.build_harness(lib, "c05_replay", ["c05_replay.cpp"])
    tmp = os.path.join(vlib.BUILD, "tmp", "c05-replay-%d" % os.getpid())
    os.makedirs(tmp, exist_ok=True)
    try:
        r = subprocess.run([rep, "--single", path, "--tmpdir", tmp], env=vlib.run_env())
    finally:
        import shutil
        shutil.rmtree(tmp, ignore_errors=True)
    return 1 if r.returncode == 1 else (0 if r.returncode == 0 else 2)
