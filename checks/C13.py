"""C13 - Thread start/join/copy/restart/destroy, ThreadGroup, parallel_for, Semaphore/Mutex/Condition incl. timed and
non-blocking variants (spec/ThreadLife.tla, ThreadGroupLife.tla, ThreadObjLife.tla, ParFor.tla, SyncPrims.tla,
Trace_SyncPrims.tla)."""
import concurrent.futures as cf
import copy
import os
import subprocess
import threading
import vlib

META = {
    "engine": "ThreadLife.tla, ThreadGroupLife.tla, ThreadObjLife.tla, ParFor.tla, SyncPrims.tla, Trace_SyncPrims.tla",
    "technique": "TLC enumerates all creator/worker interleavings of ThreadLife.tla / ThreadGroupLife.tla and all creator programs "
                 "x interleavings of ThreadObjLife.tla (thread objects copied, restarted, destroyed; invariants + termination "
                 "under fairness); each behaviour is forced onto real asl::Thread objects by a token-passing scheduler at the "
                 "library's hook points and compared step by step; ParFor.tla's partition theorem (also composed for nested "
                 "loops) is checked over the whole index grid and each grid point replayed on Thread::parallel_for; SyncPrims.tla "
                 "is the design model of Semaphore / Mutex / Condition incl. wait(timeout), trywait, trylock (safety + liveness); "
                 "recorded executions of the real primitives are validated against Trace_SyncPrims.tla, which keeps sound lower "
                 "and upper bounds of every semaphore / mutex from the begin/end events of each call",
    "design_ref": "DESIGN.md section 6, C13",
    "level_text": "Exhaustive model checking of the hand-over design (all interleavings of the hook-level steps, both thread "
                  "flavours), of the thread-object life cycle (all programs of <= 4 (quick) / 6 (thorough) operations from "
                  "{start, lambda-construct, copy, join, destroy} x all interleavings, 2 objects, 2 runs) and of the "
                  "synchronisation design model (semaphore hand-off with timed/try waits and interrupts; condition protocol with "
                  "timed waiters and a trylock poller; liveness under fairness); exhaustive grid -3..40 x 1..12 for parallel_for "
                  "and 4 x 4 x 3 x 3 for nested parallel_for; bound to the code by scheduler-forced replay (R) and by validation "
                  "of recorded free-running executions with jitter (V), all under ASan.",
    "level_note": "Interleavings are those of the hook points compiled in with -DASL_VERIF (hardware reorderings below that "
                  "granularity are not explored). Liveness of Semaphore/Condition is observed as termination within a time bound. "
                  "A time-out / refusal is judged a lost post only when the log proves that a unit was available during the whole "
                  "call (lower bound > 0); shorter overlaps cannot be decided from a log. The Win32 branch of Mutex.h (non-atomic "
                  "Condition::wait) is model-checked only (SyncPrims AtomicWait = FALSE loses a signal), it cannot be executed here. "
                  "Destroying the object of a thread that is still running (destructor detaches, worker then stores into the dead "
                  "object) is outside the documented usage: shown on the model (ThreadObjLife DestroyRunning), not replayed.",
}

SRC = ["c13_threads.cpp"]


def _run_models(ctx, jobs):
    """jobs: list of lists; every inner list is a sequence of (spec, cfg, kwargs) run one after the other (same module),
    the inner lists run concurrently.  Returns {(spec, cfg): TlcResult}.  No access to ctx from the worker threads."""
    res = {}
    lock = threading.Lock()

    def chain(seq):
        for spec, cfg, kw in seq:
            r = vlib.tlc(spec, cfg, **kw)
            with lock:
                res[(spec[:-4] if spec.endswith(".tla") else spec, cfg)] = r

    with cf.ThreadPoolExecutor(len(jobs)) as ex:
        for f in [ex.submit(chain, seq) for seq in jobs]:
            f.result()
    return res


def _accept(ctx, res, spec, cfg, must_cover=True, ignore_cov=()):
    r = res[(spec, cfg)]
    what = "%s/%s" % (spec, cfg)
    vlib.tlc_expect_ok(r, what)
    if must_cover:
        z = vlib.zero_coverage(r, ignore_cov)
        if z:
            raise vlib.HarnessError("%s: vacuous run, actions never taken: %s" % (what, z))
    ctx.count(states=r.distinct, transitions=r.generated)
    ctx.engines.append("%s: %d distinct states, %d transitions, depth %d, %.1fs" % (what, r.distinct, r.generated, r.depth, r.wall))
    vlib.log(ctx.engines[-1])
    return r


def _expect_violation(ctx, res, spec, cfg, name, why):
    r = res[(spec, cfg)]
    v = r.violated()
    if v is None and any(("Temporal property %s was violated" % name) in ln for ln in r.lines):
        v = name
    if v != name:
        raise vlib.HarnessError("%s/%s should violate %s (%s), got %s\n%s" % (spec, cfg, name, why, v, r.tail()))
    ctx.engines.append("%s/%s: %s violated as expected (%s)" % (spec, cfg, name, why))


def run(ctx):
    lib = vlib.build_lib("asan")
    rep = vlib.build_harness(lib, "c13_threads", SRC)
    rec = vlib.build_harness(lib, "c13_record", ["c13_record.cpp"])
    tmp = ctx.tmp
    life = ctx.pick("q", "t")

    # V recording runs in the background while TLC works on the models (ctx is only touched by this thread until it is joined)
    rec_out = {}

    def record():
        rec_out["files"] = ctx.record(rec, ctx.pick(8, 32), ctx.pick(20000, 150000), "V/SyncPrims", timeout=ctx.pick(1200, 3600))

    rec_err = []

    def record_guarded():
        try:
            record()
        except BaseException as e:  # re-raised on the main thread
            rec_err.append(e)

    rt = threading.Thread(target=record_guarded)
    rt.start()

    def emit(name):
        return os.path.join(tmp, name + ".cases")

    w = ctx.pick(2, 4)
    tg = ctx.pick("MC_ThreadGroupLife_2", "MC_ThreadGroupLife_3")
    sem_cfg = ctx.pick("MC_SyncPrims_sem", "MC_SyncPrims_sem_thorough")
    cond_cfg = ctx.pick("MC_SyncPrims_cond", "MC_SyncPrims_cond_thorough")
    # (two chains of one module run concurrently under two spellings of its name: vlib keys TLC's metadir by it)
    jobs = [
        [("ThreadLife", "MC_ThreadLife_lambda", dict(emit_to=emit("tl-lambda"), workers=1, timeout=300, coverage=True)),
         ("ThreadLife", "MC_ThreadLife_subclass", dict(emit_to=emit("tl-subclass"), workers=1, timeout=300, coverage=True)),
         ("ThreadLife", "MC_ThreadLife_lambda_asis", dict(workers=1, timeout=300)),
         ("ThreadGroupLife", tg, dict(emit_to=emit("tg"), workers=ctx.pick(2, 8), timeout=ctx.pick(300, 1800), coverage=True))],
        [("ThreadObjLife", "MC_ThreadObjLife_subclass_" + life, dict(emit_to=emit("life-sub"), workers=w, timeout=ctx.pick(300, 1800), coverage=True)),
         ("ThreadObjLife", "MC_ThreadObjLife_asis", dict(workers=1, timeout=300))],
        [("ThreadObjLife.tla", "MC_ThreadObjLife_lambda_" + life, dict(emit_to=emit("life-lam"), workers=w, timeout=ctx.pick(300, 1800), coverage=True)),
         ("ThreadObjLife.tla", "MC_ThreadObjLife_detach", dict(workers=1, timeout=300))],
        [("ParFor", "MC_ParFor_quick", dict(emit_to=emit("pfor"), workers=1, timeout=600))],
        [("SyncPrims", sem_cfg, dict(workers=ctx.pick(2, 8), timeout=ctx.pick(600, 1800), coverage=True)),
         ("SyncPrims", "MC_SyncPrims_eintr", dict(workers=1, timeout=300))],
        [("SyncPrims.tla", cond_cfg, dict(workers=w, timeout=ctx.pick(600, 1800), coverage=True)),
         ("SyncPrims.tla", "MC_SyncPrims", dict(workers=w, timeout=600, coverage=True)),
         ("SyncPrims.tla", "MC_SyncPrims_pulse", dict(workers=1, timeout=300))],
    ]
    try:
        res = _run_models(ctx, jobs)
    finally:
        rt.join()
    if rec_err:
        raise rec_err[0]

    _accept(ctx, res, "ThreadLife", "MC_ThreadLife_lambda")
    _accept(ctx, res, "ThreadLife", "MC_ThreadLife_subclass", ignore_cov=("CSpin", "CSpun", "WBody"))
    _accept(ctx, res, "ThreadGroupLife", tg)
    # non-vacuity of the invariants: the pre-fix / out-of-envelope designs must be rejected by the models
    _expect_violation(ctx, res, "ThreadLife", "MC_ThreadLife_lambda_asis", "FinishedAfterJoin", "SelfCopy: pre-fix lambda constructor")
    _accept(ctx, res, "ThreadObjLife", "MC_ThreadObjLife_subclass_" + life, ignore_cov=("OpCtor", "CSpun"))
    _accept(ctx, res, "ThreadObjLife", "MC_ThreadObjLife_lambda_" + life, ignore_cov=("OpStart",))
    _expect_violation(ctx, res, "ThreadObjLife", "MC_ThreadObjLife_asis", "NoDeadAccess",
                      "ReadAfterFin: Thread::begin reads the object after the finished-flag store")
    _expect_violation(ctx, res, "ThreadObjLife", "MC_ThreadObjLife_detach", "NoDeadAccess",
                      "DestroyRunning: the worker stores the flag into a destroyed object")
    _accept(ctx, res, "ParFor", "MC_ParFor_quick", must_cover=False)
    _accept(ctx, res, "SyncPrims", sem_cfg, ignore_cov=("WLock", "WTest", "WSleep", "WTimeout", "WWake", "KTryOk", "KTryFail", "KLook"))
    _accept(ctx, res, "SyncPrims", cond_cfg, ignore_cov=("Publish", "Post", "WaitRet", "WaitFail", "Interrupt", "Take", "WSleep"))
    _accept(ctx, res, "SyncPrims", "MC_SyncPrims", ignore_cov=("WaitFail", "WSleep", "KTryOk", "KTryFail", "KLook"))
    _expect_violation(ctx, res, "SyncPrims", "MC_SyncPrims_eintr", "NoPhantomWake", "EintrReturns: wait() returns when a signal handler interrupts it")
    _expect_violation(ctx, res, "SyncPrims", "MC_SyncPrims_pulse", "AllWoken", "AtomicWait = FALSE: unlock and sleep as two steps lose a signal (Win32 shape)")

    cases = os.path.join(tmp, "c13.cases")
    with open(cases, "w") as out:
        for name in ("tl-lambda", "tl-subclass", "tg", "life-sub", "life-lam", "pfor"):
            out.write(open(emit(name)).read())
    ctx.exhaustive = True
    ctx.rule = ("cases = every terminal behaviour of ThreadLife.tla / ThreadGroupLife.tla / ThreadObjLife.tla (schedule + expected "
                "observables per step) and every grid point of ParFor.tla; non-trivial = schedule cases and non-empty ranges; "
                "distinct by case line")
    # V: the recorded free-running executions are validated while the replay runs (on a shallow copy of ctx, merged afterwards:
    # the counters are plain ints)
    shadow = copy.copy(ctx)
    base = (ctx.states, ctx.transitions, ctx.traces)
    verr = []

    def validate():
        try:
            shadow.validate_traces("Trace_SyncPrims", "Trace_SyncPrims", rec_out["files"], label="V/SyncPrims", timeout=ctx.pick(600, 2400))
        except BaseException as e:
            verr.append(e)

    vt = threading.Thread(target=validate)
    vt.start()
    try:
        ctx.replay(rep, cases, label="R/ThreadLife+ThreadObjLife+ParFor", args=["--batch", "200"], timeout=ctx.pick(600, 1800))
    finally:
        vt.join()
    if verr:
        raise verr[0]
    ctx.states += shadow.states - base[0]
    ctx.transitions += shadow.transitions - base[1]
    ctx.traces += shadow.traces - base[2]
    ctx.assumptions += [
        "schedule points are the ASL_VERIF hook points of Thread.h plus a user point after every creator operation; each step runs from one point to the next",
        "parallel_for grid: -3 <= i0,i1 <= 40, 1 <= n <= 12 (exhaustive); nested: ranges 0..3 x 0..3, 1..3 x 1..3 threads; free-running OS scheduling",
        "recorder events bracket every call that has no hook inside the library (begin before, end after); glibc semantics of "
        "sem_trywait / sem_timedwait / pthread_mutex_trylock: they fail only if the value was 0 / the mutex was held at some instant of the call",
        "time-outs: clock slack 2 ms between the library's gettimeofday deadline and the recorder's monotonic measurement",
    ]


def replay(path):
    lib = vlib.build_lib("asan")
    if os.path.basename(path).startswith("rec-") or path.endswith(".ndjson"):
        return vlib.replay_recorded(path, lib, "c13_record", ["c13_record.cpp"], "Trace_SyncPrims", "Trace_SyncPrims")
    rep = vlib.build_harness(lib, "c13_threads", SRC)
    r = subprocess.run([rep, "--single", path], env=vlib.run_env())
    return 1 if r.returncode == 1 else (0 if r.returncode == 0 else 2)
