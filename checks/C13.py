"""C13 - Thread start/join, ThreadGroup, parallel_for, Semaphore/Condition (spec/ThreadLife.tla, ParFor.tla, SyncPrims.tla)."""
import os
import subprocess
import vlib

META = {
    "engine": "ThreadLife.tla, ThreadGroupLife.tla, ParFor.tla, SyncPrims.tla, Trace_SyncPrims.tla",
    "technique": "TLC enumerates all creator/worker interleavings of ThreadLife.tla (invariants + termination under fairness); "
                 "each is forced onto real asl::Thread objects by a token-passing scheduler at the library's hook points and "
                 "compared step by step; ParFor.tla's partition theorem is checked over the whole index grid and each grid "
                 "point replayed on Thread::parallel_for; recorded semaphore/condition executions validated against SyncPrims.tla",
    "design_ref": "DESIGN.md section 6, C13",
    "level_text": "Exhaustive model checking of the hand-over design (all interleavings of the hook-level steps, both thread "
                  "flavours), exhaustive grid -3..40 x 1..12 for parallel_for, bound to the code by scheduler-forced replay (R) "
                  "and by validation of recorded free-running executions with jitter (V), all under ASan.",
    "level_note": "Interleavings are those of the hook points compiled in with -DASL_VERIF (hardware reorderings below that "
                  "granularity are not explored). Liveness of Semaphore/Condition is observed as termination within a time bound.",
}

SRC = ["c13_threads.cpp"]


def run(ctx):
    lib = vlib.build_lib("asan")
    rep = vlib.build_harness(lib, "c13_threads", SRC)
    cases = os.path.join(ctx.tmp, "c13.cases")
    parts = []
    for fl in ("lambda", "subclass"):
        p = os.path.join(ctx.tmp, "tl-%s.cases" % fl)
        ctx.model("ThreadLife", "MC_ThreadLife_" + fl, emit_to=p, workers=1, timeout=300, must_cover=True,
                  ignore_cov=("CSpin", "CSpun", "WBody") if fl == "subclass" else ())
        parts.append(p)
    p = os.path.join(ctx.tmp, "tg.cases")
    ctx.model("ThreadGroupLife", ctx.pick("MC_ThreadGroupLife_2", "MC_ThreadGroupLife_3"), emit_to=p, workers=ctx.pick(4, 16),
              timeout=ctx.pick(300, 1800), must_cover=True)
    parts.append(p)
    # non-vacuity of the invariants: the pre-fix design (SelfCopy) must be rejected by the model
    r = vlib.tlc("ThreadLife", "MC_ThreadLife_lambda_asis", workers=1, timeout=300)
    if r.violated() != "FinishedAfterJoin":
        raise vlib.HarnessError("ThreadLife: the as-is (SelfCopy) variant should violate FinishedAfterJoin\n" + r.tail())
    ctx.engines.append("ThreadLife/SelfCopy variant: FinishedAfterJoin violated as expected (invariant is not vacuous)")
    p = os.path.join(ctx.tmp, "pfor.cases")
    ctx.model("ParFor", "MC_ParFor_quick", emit_to=p, workers=1, timeout=600, must_cover=False)
    parts.append(p)
    with open(cases, "w") as out:
        for p in parts:
            out.write(open(p).read())
    ctx.exhaustive = True
    ctx.rule = ("cases = every terminal behaviour of ThreadLife.tla (schedule + expected observables per step) and every grid point "
                "of ParFor.tla; non-trivial = schedule cases and non-empty ranges; distinct by case line")
    ctx.replay(rep, cases, label="R/ThreadLife+ParFor", args=["--batch", "200"], timeout=ctx.pick(600, 1800))
    # design model of the synchronisation primitives (safety + liveness under fairness)
    ctx.model("SyncPrims", "MC_SyncPrims", workers=8, timeout=600, must_cover=True)
    # V: recorded free-running executions with jitter
    rec = vlib.build_harness(lib, "c13_record", ["c13_record.cpp"])
    files = ctx.record(rec, ctx.pick(8, 32), ctx.pick(20000, 150000), "V/SyncPrims", timeout=ctx.pick(1200, 3600))
    ctx.validate_traces("Trace_SyncPrims", "Trace_SyncPrims", files, label="V/SyncPrims", timeout=ctx.pick(600, 2400))
    ctx.assumptions += [
        "schedule points are the ASL_VERIF hook points of Thread.h; each step runs from one point to the next",
        "parallel_for grid: -3 <= i0,i1 <= 40, 1 <= n <= 12 (exhaustive), free-running OS scheduling",
    ]


def replay(path):
    lib = vlib.build_lib("asan")
    if os.path.basename(path).startswith("rec-") or path.endswith(".ndjson"):
        return vlib.replay_recorded(path, lib, "c13_record", ["c13_record.cpp"], "Trace_SyncPrims", "Trace_SyncPrims")
    rep = vlib.build_harness(lib, "c13_threads", SRC)
    r = subprocess.run([rep, "--single", path], env=vlib.run_env())
    return 1 if r.returncode == 1 else (0 if r.returncode == 0 else 2)
