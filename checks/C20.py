"""C20 - Matrix inverse, determinant, solve and rotation conversions are correct (spec/LinAlg*.tla)."""
import concurrent.futures as cf
import json
import os
import subprocess
import vlib

META = {
    "engine": "LinAlg.tla, LinAlgGauss.tla, LinAlgCases.tla, LinAlgRot.tla, LinAlgGeom.tla, LinAlgRigid.tla, LinAlgNewton.tla, Trace_LinAlg.tla",
    "technique": "exact linear algebra over prime fields in TLA+: TLC model-checks an implementation-shaped model of solve_ "
                 "(permutation vector, every non-zero pivot choice) against the adjugate solution for all nonsingular systems "
                 "of a small field, generates every small matrix with determinant / inverse / solution / product / normal-equation "
                 "solution and exact rational rotations (Euler triples of all 12 axis orders x fixed/moving frames, rational unit "
                 "quaternions) for replay into the ASL templates (instantiated over a Z_p scalar type, resp. double/float), and "
                 "validates recorded executions over Z_32749 by evaluating the algebraic postconditions exactly; growth: the "
                 "geometry layer around the matrices (Vec2/3/4, Matrix4/Matrix3 as affine and projective transforms, quaternion "
                 "algebra, Pose, Complex as Z_p[i], the element-wise Matrix_ operations) as exact Z_p algebra with the laws as "
                 "invariants (LinAlgGeom), similarity transforms / 2-D transforms / slerp from exact rational rotations "
                 "(LinAlgRigid), and solveZero on polynomial systems whose complete rational root sets TLC proves (LinAlgNewton)",
    "design_ref": "DESIGN.md section 6, C20",
    "level_text": "TLC checks M adj(M) = det(M) I, det(AB) = det(A)det(B), Laplace = elimination determinant, A solve(A,b) = b for "
                  "every pivot choice and the normal equations on all matrices of the configured small fields, and the exact "
                  "rotation identities; every generated case is executed on Matrix3_/Matrix4_/Matrix_/Quaternion_ with exact "
                  "(Z_p) or toleranced (exact rational rotation vs double 1e-9 / float 1e-4) comparison; recorded random "
                  "executions over Z_32749 (systems up to 12x12, row exchanges, singular and least-squares ones) are accepted "
                  "by Trace_LinAlg.tla. Growth: LinAlgGeom.tla generates Vec3/Vec4/Vec2, affine / projective Matrix4 and Matrix3, "
                  "quaternion, Pose, Complex and Matrix_ cases over Z_32719 and Z_7 (Z_3) with all expected values and checks the "
                  "laws on each of them (Lagrange identity, triple product = determinant, compare agrees with ==, inverse transform "
                  "undoes the transform, (L|t)^-1 = (L^-1|-L^-1 t), quaternion product associative with multiplicative norm and "
                  "(q1 q2).matrix() = q1.matrix() q2.matrix(), Z_p[i] field laws, Matrix_ dimension rules); LinAlgRigid.tla does the "
                  "same over the rationals for translate * rotate * scale in 3-D and 2-D, Pose round trips, polar forms and slerp "
                  "(end points and the exact half-way quaternion on both arcs) compared in double/float; LinAlgNewton.tla proves for "
                  "every generated polynomial system that the stated rational roots are the complete, simple, separated root set "
                  "and publishes start points and thresholds against which solveZero (vector and scalar form, double and float) is "
                  "run: returned point within KX*maxerr of the root the start was placed at, residual within KF*maxerr, evaluation "
                  "budget 1 + maxiter (n + 1); recorded vec / aff / cplx / qalg events are validated by Trace_LinAlg.tla through "
                  "the operators of LinAlgGeom.tla.",
    "level_note": "The floating-point clause of the property (residuals within a small multiple of machine epsilon times the "
                  "condition number, for all well-conditioned float/double matrices) is outside what a TLA+ specification can "
                  "decide (no reals/floats in TLC; DESIGN.md section 8) and is NOT checked: only the exact algebraic identities "
                  "(polynomial identities hold over every field, so a wrong cofactor or elimination step shows over Z_p with "
                  "probability >= 1 - 16/p per random trial, and always on the exhaustive small fields up to coefficients that "
                  "are multiples of p) and exactly representable rotations (multiples of 90 degrees, Pythagorean angles, rational "
                  "unit quaternions; fixed generous tolerance) are. TLC integers are 32-bit, hence p = 32749 instead of 2^61-1. "
                  "Pivot choice: the code's max-|entry| rule is replaced by an arbitrary keyed order on Z_p; the spec allows any "
                  "non-zero pivot. q and -q are treated as the same rotation. Bounded scopes as in spec/MC_LinAlg*.cfg. "
                  "solveZero: TLC does not run the iteration (no reals); convergence is required only for linear systems (any "
                  "start; one Newton step in double) and for starts within 1/32 per coordinate of a simple root of the listed "
                  "families; float only for well-conditioned systems. Undocumented behaviour (division by a zero scalar, h2c with "
                  "w = 0, inverse of a singular matrix, solve with a singular A, non-converging starts) is left unconstrained.",
}


def _models(ctx, jobs, workers, parallel=8):
    """Run several TLC model-checking jobs side by side ((spec, cfg, emit path or None, timeout)), then do the same
    bookkeeping as Ctx.model for each (success required, no action left uncovered, state counters)."""
    def one(j):
        spec, cfg, emit, timeout = j[:4]
        return j, vlib.tlc(spec, cfg, emit_to=emit, timeout=timeout, workers=workers, xmx=(j[4] if len(j) > 4 else "6g"), coverage=True)

    # at most `parallel` JVMs at a time (the machine is shared: eleven 6 GB JVMs side by side have been OOM-killed)
    with cf.ThreadPoolExecutor(min(len(jobs), parallel)) as ex:
        results = list(ex.map(one, jobs))
    for j, r in results:
        spec, cfg, emit, timeout = j[:4]
        what = "%s/%s" % (spec, cfg)
        vlib.tlc_expect_ok(r, what)
        z = vlib.zero_coverage(r)
        if z:
            raise vlib.HarnessError("%s: vacuous run, actions never taken: %s" % (what, z))
        ctx.count(states=r.distinct, transitions=r.generated)
        ctx.engines.append("%s: %d distinct states, %d transitions, depth %d, %.1fs" % (what, r.distinct, r.generated, r.depth, r.wall))
        vlib.log(ctx.engines[-1])


# a sample per case kind, preferring an informative one (regular matrix, non-zero determinants, non-trivial rotation)
PREFER = {"newton": '"fam":"circle"', "slerp": '"dot":-', "aff": '"p":32719', "sq": '"inv":[1', "lsq": '"reg":1', "mul": '"detab":1', "euler": '"den":65', "quat": '"tie":0', "axis": '"den":45'}


def _first_of_kind(path, kinds):
    found, fallback = {}, {}
    with open(path) as f:
        for ln in f:
            for k in kinds:
                if k in found or ('"k":"%s"' % k) not in ln:
                    continue
                if PREFER.get(k, "") in ln:
                    found[k] = ln.strip()[:600]
                else:
                    fallback.setdefault(k, ln.strip()[:600])
            if len(found) == len(kinds):
                break
    return [found.get(k, fallback.get(k)) for k in kinds if k in found or k in fallback]


def run(ctx):
    lib = vlib.build_lib("asan")
    rep = vlib.build_harness(lib, "c20_replay", ["c20_replay.cpp"])
    grep = vlib.build_harness(lib, "c20_geom_replay", ["c20_geom_replay.cpp"])
    nrep = vlib.build_harness(lib, "c20_newton_replay", ["c20_newton_replay.cpp"])
    pose_broken = None
    try:
        rrep = vlib.build_harness(lib, "c20_rigid_replay", ["c20_rigid_replay.cpp"])
    except vlib.HarnessError as e:
        # the only member the full harness instantiates and the reduced one does not is Pose_::interpolate: if the reduced
        # harness builds, the library member itself cannot be compiled - a finding, not a machinery failure
        rrep = vlib.build_harness(lib, "c20_rigid_replay_nopose", ["c20_rigid_replay.cpp"], extra=("-DC20_NO_POSE_INTERPOLATE",))
        pose_broken = str(e)
    rec = vlib.build_harness(lib, "c20_record", ["c20_record.cpp"])
    ctx.exhaustive = True
    ctx.rule = ("one case per generated matrix / matrix pair / least-squares system / Euler triple x convention / unit quaternion "
                "(each carries its TLC-computed results); non-trivial = nonsingular square systems, products, regular "
                "least-squares systems and all rotations; recorded events are counted as evaluations")
    alg = os.path.join(ctx.tmp, "c20-alg")
    rot = os.path.join(ctx.tmp, "c20-rot.cases")
    if ctx.quick:
        gauss = ["MC_LinAlgGauss_q33", "MC_LinAlgGauss_q23"]
        cases = ["MC_LinAlgCases_q3", "MC_LinAlgCases_q4"]
    else:
        gauss = ["MC_LinAlgGauss_t33", "MC_LinAlgGauss_t24", "MC_LinAlgGauss_t52", "MC_LinAlgGauss_t72"]
        cases = ["MC_LinAlgCases_t3", "MC_LinAlgCases_t4", "MC_LinAlgCases_t5", "MC_LinAlgCases_t34"]
    to = ctx.pick(900, 5400)
    jobs = [("LinAlgGauss", g, None, to) for g in gauss]
    jobs += [("LinAlgCases", c, "%s-%d.cases" % (alg, i), to) for i, c in enumerate(cases)]
    jobs += [("LinAlgRot", ctx.pick("MC_LinAlgRot_quick", "MC_LinAlgRot_thorough"), rot, to)]
    # growth: the geometry layer (vectors, affine / projective transforms, quaternion algebra, Complex, Matrix_ element-wise)
    geom = ctx.pick(["MC_LinAlgGeom_quick", "MC_LinAlgGeom_q7"], ["MC_LinAlgGeom_thorough", "MC_LinAlgGeom_t7", "MC_LinAlgGeom_t3"])
    jobs += [("LinAlgGeom", g, "%s-geom-%d.cases" % (alg, i), to, "3g") for i, g in enumerate(geom)]
    newton = os.path.join(ctx.tmp, "c20-newton.cases")
    rigid = os.path.join(ctx.tmp, "c20-rigid.cases")
    jobs += [("LinAlgNewton", "MC_LinAlgNewton", newton, to, "3g")]
    jobs += [("LinAlgRigid", ctx.pick("MC_LinAlgRigid_quick", "MC_LinAlgRigid_thorough"), rigid, to, "3g")]
    # 1. model checking: the elimination model under every pivot choice; the case generators with their identities
    _models(ctx, jobs, workers=ctx.pick(4, 6), parallel=ctx.pick(8, 6))
    samples = []
    # 2. R: every generated case on the real templates
    for i, c in enumerate(cases):
        path = "%s-%d.cases" % (alg, i)
        samples += _first_of_kind(path, ["sq", "lsq"] if i == 0 else ["mul"])
        ctx.replay(rep, path, label="R/" + c.replace("MC_", ""), timeout=ctx.pick(900, 3000))
        os.unlink(path)
    for i, g in enumerate(geom):
        path = "%s-geom-%d.cases" % (alg, i)
        if i == 0:
            samples += [x[:400] for x in _first_of_kind(path, ["aff"])]
        ctx.replay(grep, path, label="R/" + g.replace("MC_", ""), timeout=ctx.pick(900, 3000))
        os.unlink(path)
    samples += [x[:400] for x in _first_of_kind(newton, ["newton"]) + _first_of_kind(rigid, ["slerp"])]
    ctx.replay(nrep, newton, label="R/LinAlgNewton", timeout=ctx.pick(900, 3000))
    os.unlink(newton)
    if pose_broken:
        ctx.violation("Pose_<T>::interpolate cannot be instantiated: harness/c20_rigid_replay.cpp compiles only with "
                      "-DC20_NO_POSE_INTERPOLATE (spec/LinAlgRigid.tla, kind \"slerp\": Pose interpolation at t = 0, 1/2, 1)",
                      content=json.dumps({"k": "pose-interpolate-compile", "log": pose_broken[-3000:]}) + "\n")
    ctx.replay(rrep, rigid, label="R/LinAlgRigid", timeout=ctx.pick(900, 3000))
    os.unlink(rigid)
    samples += _first_of_kind(rot, ["euler", "quat", "axis"])
    ctx.replay(rep, rot, label="R/LinAlgRot", timeout=ctx.pick(900, 3000))
    os.unlink(rot)
    # 3. V: recorded executions over Z_32749 validated by TLC
    files = ctx.record(rec, ctx.pick(10, 48), ctx.pick(1900, 7500), "V/LinAlg")   # (23% of the events are the growth kinds vec / aff / cplx / qalg)
    if files:
        with open(files[0]) as f:
            for ln in f:
                if '"e":"solve"' in ln and '"dz":0' in ln and '"n":3,' in ln:
                    samples.append(ln.strip())
                    break
    ctx.validate_traces("Trace_LinAlg", "Trace_LinAlg", files, label="V/LinAlg", timeout=ctx.pick(900, 3000), xss="512m")
    ctx.samples = samples[:8] + ctx.samples[:2]
    ctx.assumptions += [
        "NOT decided: the floating-point residual clause (eps * condition number bounds) - outside TLA+ (DESIGN.md section 8)",
        "exact identities are checked over Z_2, Z_3, Z_5 (exhaustive / enumerated) and Z_32749 (random); TLC integers are 32-bit, "
        "so the 2^61-1 field of the property text is replaced by 32749",
        "the templates are instantiated over the harness scalar type Zp (harness/c20_zp.h): fabs() is a keyed bijection of Z_p, "
        "so solve_ follows an arbitrary non-zero-pivot order; division by zero is flagged, singular systems are decided by the spec",
        "rotations: only exactly representable ones (multiples of 90 degrees, Pythagorean angles, rational unit quaternions); "
        "double/float results are compared with the exact rational matrix within 1e-9 / 1e-4 (x10 after a round trip); "
        "q and -q are the same rotation",
        "growth (LinAlgGeom / LinAlgRigid / LinAlgNewton): Z_p values of the generated cases come from a fixed scattering function "
        "(every fifth case from {0, 1, -1, 2}); Complex is exercised over Z_p[i] (a field for p = 32719, 7, 3 = 3 mod 4; over "
        "Z_32749 in recorded traces division is required only when |y|^2 != 0); solveZero thresholds KX = KF = 100 times maxerr "
        "(the method stops on a small residual or a small step, hence condition-number factors); root sets are complete by the "
        "Bezout bound (checked by TLC per system)",
        "3 x 3 products whose right operand is not affine (last row other than 0 0 1) carry the spec-level hazard tag "
        "Matrix3GeneralProduct (Matrix3_::operator* ignored that row before fixes/C20-matrix3-product)",
    ]


def replay(path):
    lib = vlib.build_lib("asan")
    if os.path.basename(path).startswith("rec-") or path.endswith(".ndjson"):
        # (Trace_LinAlg needs a deep Java stack for 12 x 12 systems)
        if path.endswith(".ndjson"):
            r = vlib.tlc("Trace_LinAlg", "Trace_LinAlg", workers=1, timeout=1800, env={"TRACE": path}, xss="512m")
            if r.rc == 0:
                print("trace accepted by Trace_LinAlg")
                return 0
            if r.violated() is None:
                print(r.tail(40))
                return 2
            print("trace rejected by Trace_LinAlg near event %d" % r.depth)
            return 1
        info = json.load(open(path))
        exe = vlib.build_harness(lib, "c20_record", ["c20_record.cpp"])
        p = subprocess.run(["timeout", "900", exe, "--seed", str(info["seed"]), "--events", str(info["events"]), "--out", os.devnull],
                           env=vlib.run_env())
        print("recorder exit %d" % p.returncode)
        return 1 if p.returncode != 0 else 0
    head = open(path).readline()
    hname = "c20_replay"
    if 'pose-interpolate-compile' in head:
        try:
            vlib.build_harness(lib, "c20_rigid_replay", ["c20_rigid_replay.cpp"])
        except vlib.HarnessError as e:
            print("Pose_::interpolate still does not compile:\n" + str(e)[-1500:])
            return 1
        print("harness/c20_rigid_replay.cpp (with Pose_::interpolate) builds")
        return 0
    for kinds, name in ((('"k":"vec"', '"k":"aff"', '"k":"cplx"', '"k":"dyn"', '"q1":'), "c20_geom_replay"),
                        (('"k":"newton"', '"k":"secant"'), "c20_newton_replay"),
                        (('"k":"rigid"', '"k":"plane"', '"k":"slerp"'), "c20_rigid_replay")):
        if any(k in head for k in kinds) and '"k":"rel"' not in head:   # ("rel" cases of LinAlgRot carry q1/q2 too)
            hname = name
    rep = vlib.build_harness(lib, hname, [hname + ".cpp"])
    r = subprocess.run([rep, "--single", path], env=vlib.run_env())
    return 1 if r.returncode == 1 else (0 if r.returncode == 0 else 2)
