"""C20 - Matrix inverse, determinant, solve and rotation conversions are correct (spec/LinAlg*.tla)."""
import concurrent.futures as cf
import json
import os
import subprocess
import vlib

META = {
    "engine": "LinAlg.tla, LinAlgGauss.tla, LinAlgCases.tla, LinAlgRot.tla, Trace_LinAlg.tla",
    "technique": "exact linear algebra over prime fields in TLA+: TLC model-checks an implementation-shaped model of solve_ "
                 "(permutation vector, every non-zero pivot choice) against the adjugate solution for all nonsingular systems "
                 "of a small field, generates every small matrix with determinant / inverse / solution / product / normal-equation "
                 "solution and exact rational rotations (Euler triples of all 12 axis orders x fixed/moving frames, rational unit "
                 "quaternions) for replay into the ASL templates (instantiated over a Z_p scalar type, resp. double/float), and "
                 "validates recorded executions over Z_32749 by evaluating the algebraic postconditions exactly",
    "design_ref": "DESIGN.md section 6, C20",
    "level_text": "TLC checks M adj(M) = det(M) I, det(AB) = det(A)det(B), Laplace = elimination determinant, A solve(A,b) = b for "
                  "every pivot choice and the normal equations on all matrices of the configured small fields, and the exact "
                  "rotation identities; every generated case is executed on Matrix3_/Matrix4_/Matrix_/Quaternion_ with exact "
                  "(Z_p) or toleranced (exact rational rotation vs double 1e-9 / float 1e-4) comparison; recorded random "
                  "executions over Z_32749 (systems up to 12x12, row exchanges, singular and least-squares ones) are accepted "
                  "by Trace_LinAlg.tla.",
    "level_note": "The floating-point clause of the property (residuals within a small multiple of machine epsilon times the "
                  "condition number, for all well-conditioned float/double matrices) is outside what a TLA+ specification can "
                  "decide (no reals/floats in TLC; DESIGN.md section 8) and is NOT checked: only the exact algebraic identities "
                  "(polynomial identities hold over every field, so a wrong cofactor or elimination step shows over Z_p with "
                  "probability >= 1 - 16/p per random trial, and always on the exhaustive small fields up to coefficients that "
                  "are multiples of p) and exactly representable rotations (multiples of 90 degrees, Pythagorean angles, rational "
                  "unit quaternions; fixed generous tolerance) are. TLC integers are 32-bit, hence p = 32749 instead of 2^61-1. "
                  "Pivot choice: the code's max-|entry| rule is replaced by an arbitrary keyed order on Z_p; the spec allows any "
                  "non-zero pivot. q and -q are treated as the same rotation. Bounded scopes as in spec/MC_LinAlg*.cfg.",
}


def _models(ctx, jobs, workers):
    """Run several TLC model-checking jobs side by side ((spec, cfg, emit path or None, timeout)), then do the same
    bookkeeping as Ctx.model for each (success required, no action left uncovered, state counters)."""
    def one(j):
        spec, cfg, emit, timeout = j
        return j, vlib.tlc(spec, cfg, emit_to=emit, timeout=timeout, workers=workers, xmx="6g", coverage=True)

    with cf.ThreadPoolExecutor(len(jobs)) as ex:
        results = list(ex.map(one, jobs))
    for (spec, cfg, emit, timeout), r in results:
        what = "%s/%s" % (spec, cfg)
        vlib.tlc_expect_ok(r, what)
        z = vlib.zero_coverage(r)
        if z:
            raise vlib.HarnessError("%s: vacuous run, actions never taken: %s" % (what, z))
        ctx.states += r.distinct
        ctx.transitions += r.generated
        ctx.engines.append("%s: %d distinct states, %d transitions, depth %d, %.1fs" % (what, r.distinct, r.generated, r.depth, r.wall))
        vlib.log(ctx.engines[-1])


# a sample per case kind, preferring an informative one (regular matrix, non-zero determinants, non-trivial rotation)
PREFER = {"sq": '"inv":[1', "lsq": '"reg":1', "mul": '"detab":1', "euler": '"den":65', "quat": '"tie":0', "axis": '"den":45'}


def _first_of_kind(path, kinds):
    found, fallback = {}, {}
    with open(path) as f:
        for ln in f:
            for k in kinds:
                if k in found or ('"k":"%s"' % k) not in ln:
                    continue
                if PREFER.get(k, "") in ln:
                    found[k] = ln.strip()[:600]
                else:
                    fallback.setdefault(k, ln.strip()[:600])
            if len(found) == len(kinds):
                break
    return [found.get(k, fallback.get(k)) for k in kinds if k in found or k in fallback]


def run(ctx):
    lib = vlib.build_lib("asan")
    rep = vlib.build_harness(lib, "c20_replay", ["c20_replay.cpp"])
    rec = vlib.build_harness(lib, "c20_record", ["c20_record.cpp"])
    ctx.exhaustive = True
    ctx.rule = ("one case per generated matrix / matrix pair / least-squares system / Euler triple x convention / unit quaternion "
                "(each carries its TLC-computed results); non-trivial = nonsingular square systems, products, regular "
                "least-squares systems and all rotations; recorded events are counted as evaluations")
    alg = os.path.join(ctx.tmp, "c20-alg")
    rot = os.path.join(ctx.tmp, "c20-rot.cases")
    if ctx.quick:
        gauss = ["MC_LinAlgGauss_q33", "MC_LinAlgGauss_q23"]
        cases = ["MC_LinAlgCases_q3", "MC_LinAlgCases_q4"]
    else:
        gauss = ["MC_LinAlgGauss_t33", "MC_LinAlgGauss_t24", "MC_LinAlgGauss_t52", "MC_LinAlgGauss_t72"]
        cases = ["MC_LinAlgCases_t3", "MC_LinAlgCases_t4", "MC_LinAlgCases_t5", "MC_LinAlgCases_t34"]
    to = ctx.pick(900, 5400)
    jobs = [("LinAlgGauss", g, None, to) for g in gauss]
    jobs += [("LinAlgCases", c, "%s-%d.cases" % (alg, i), to) for i, c in enumerate(cases)]
    jobs += [("LinAlgRot", ctx.pick("MC_LinAlgRot_quick", "MC_LinAlgRot_thorough"), rot, to)]
    # 1. model checking: the elimination model under every pivot choice; the case generators with their identities
    _models(ctx, jobs, workers=ctx.pick(4, 6))
    samples = []
    # 2. R: every generated case on the real templates
    for i, c in enumerate(cases):
        path = "%s-%d.cases" % (alg, i)
        samples += _first_of_kind(path, ["sq", "lsq"] if i == 0 else ["mul"])
        ctx.replay(rep, path, label="R/" + c.replace("MC_", ""), timeout=ctx.pick(900, 3000))
        os.unlink(path)
    samples += _first_of_kind(rot, ["euler", "quat", "axis"])
    ctx.replay(rep, rot, label="R/LinAlgRot", timeout=ctx.pick(900, 3000))
    os.unlink(rot)
    # 3. V: recorded executions over Z_32749 validated by TLC
    files = ctx.record(rec, ctx.pick(10, 48), ctx.pick(1500, 6000), "V/LinAlg")
    if files:
        with open(files[0]) as f:
            for ln in f:
                if '"e":"solve"' in ln and '"dz":0' in ln and '"n":3,' in ln:
                    samples.append(ln.strip())
                    break
    ctx.validate_traces("Trace_LinAlg", "Trace_LinAlg", files, label="V/LinAlg", timeout=ctx.pick(900, 3000), xss="512m")
    ctx.samples = samples[:8] + ctx.samples[:2]
    ctx.assumptions += [
        "NOT decided: the floating-point residual clause (eps * condition number bounds) - outside TLA+ (DESIGN.md section 8)",
        "exact identities are checked over Z_2, Z_3, Z_5 (exhaustive / enumerated) and Z_32749 (random); TLC integers are 32-bit, "
        "so the 2^61-1 field of the property text is replaced by 32749",
        "the templates are instantiated over the harness scalar type Zp (harness/c20_zp.h): fabs() is a keyed bijection of Z_p, "
        "so solve_ follows an arbitrary non-zero-pivot order; division by zero is flagged, singular systems are decided by the spec",
        "rotations: only exactly representable ones (multiples of 90 degrees, Pythagorean angles, rational unit quaternions); "
        "double/float results are compared with the exact rational matrix within 1e-9 / 1e-4 (x10 after a round trip); "
        "q and -q are the same rotation",
        "3 x 3 products whose right operand is not affine (last row other than 0 0 1) carry the spec-level hazard tag "
        "Matrix3GeneralProduct (Matrix3_::operator* ignored that row before fixes/C20-matrix3-product)",
    ]


def replay(path):
    lib = vlib.build_lib("asan")
    if os.path.basename(path).startswith("rec-") or path.endswith(".ndjson"):
        # (Trace_LinAlg needs a deep Java stack for 12 x 12 systems)
        if path.endswith(".ndjson"):
            r = vlib.tlc("Trace_LinAlg", "Trace_LinAlg", workers=1, timeout=1800, env={"TRACE": path}, xss="512m")
            if r.rc == 0:
                print("trace accepted by Trace_LinAlg")
                return 0
            if r.violated() is None:
                print(r.tail(40))
                return 2
            print("trace rejected by Trace_LinAlg near event %d" % r.depth)
            return 1
        info = json.load(open(path))
        exe = vlib.build_harness(lib, "c20_record", ["c20_record.cpp"])
        p = subprocess.run(["timeout", "900", exe, "--seed", str(info["seed"]), "--events", str(info["events"]), "--out", os.devnull],
                           env=vlib.run_env())
        print("recorder exit %d" % p.returncode)
        return 1 if p.returncode != 0 else 0
    rep = vlib.build_harness(lib, "c20_replay", ["c20_replay.cpp"])
    r = subprocess.run([rep, "--single", path], env=vlib.run_env())
    return 1 if r.returncode == 1 else (0 if r.returncode == 0 else 2)
