"""C14 - SocketServer serves each accepted connection exactly once and stops cleanly (spec/SockServer.tla)."""
import os
import vlib

META = {
    "engine": "SockServer.tla, Trace_SockServer.tla",
    "technique": "TLC model-checks the accept-loop / handler-thread / stop(true) / destructor design of SockServer.tla (safety + "
                 "liveness, both modes; the two pre-fix designs are rejected); hook-level event logs of real servers under "
                 "seeded jitter and targeted hand-over delays are validated against the same transition rules, under ASan",
    "design_ref": "DESIGN.md section 6, C14",
    "level_text": "Exhaustive model checking of the server life-cycle design for 3 connections (all interleavings of accept loop, "
                  "handlers, stopper and destructor), bound to the code by trace validation of recorded loopback and Unix-socket "
                  "runs (0..200 connections, early client closes, stop(true) at seeded moments, destruction) whose library threads "
                  "are held at the hand-over hook points so that a missing wait shows up as a sanitizer report.",
    "level_note": "OS scheduling is sampled (jitter + targeted busy delays at hooks 35/41), not enumerated; touches of freed "
                  "objects are observed by ASan, not decided by the model. A failed accept() (descriptor -1) is not a connection.",
}


def run(ctx):
    lib = vlib.build_lib("asan")
    for cfg in ("MC_SockServer_conc", "MC_SockServer_seq"):
        ctx.model("SockServer", cfg, workers=8, timeout=600, ignore_cov=("InlineDone",) if cfg.endswith("conc") else
                  ("HServe", "HServeEnd", "HClose", "HDec", "HFin"))
    for cfg, inv in (("MC_SockServer_asis_selfdelete", "NoTouchAfterFree"), ("MC_SockServer_asis_nojoin", "NoTouchAfterFree")):
        r = vlib.tlc("SockServer", cfg, workers=4, timeout=300)
        if r.violated() != inv:
            raise vlib.HarnessError("%s should violate %s (non-vacuity of the invariant)\n%s" % (cfg, inv, r.tail()))
        ctx.engines.append("%s: %s violated as expected (the pre-fix design is rejected by the model)" % (cfg, inv))
    rec = vlib.build_harness(lib, "c14_record", ["c14_record.cpp"])
    os.makedirs(os.path.join(vlib.BUILD, "tmp"), exist_ok=True)
    files = ctx.record(rec, ctx.pick(16, 48), ctx.pick(2500, 12000), "V/SockServer", timeout=ctx.pick(400, 1800))
    ctx.validate_traces("Trace_SockServer", "Trace_SockServer", files, label="V/SockServer", timeout=ctx.pick(600, 2400), xss="64m")
    ctx.rule = ("recorded executions of a real SocketServer (mode, listeners, client count/behaviour, stop moment, hook delays all "
                "seeded); non-trivial = executions with at least one connection; distinct by seed")
    ctx.distinct = ctx.traces
    ctx.assumptions += [
        "log order = order of appending under the recorder's lock; hooks fire before releasing steps and harness events after "
        "returning calls, so every rejection is a real ordering violation (see Trace_SockServer.tla)",
        "each run pays up to one 2 s select() timeout of the accept loop at stop(true)",
    ]


def replay(path):
    lib = vlib.build_lib("asan")
    return vlib.replay_recorded(path, lib, "c14_record", ["c14_record.cpp"], "Trace_SockServer", "Trace_SockServer", xss="64m")
