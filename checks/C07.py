"""C07 - XML decoding is total and safe; encode then decode preserves the tree (spec/XmlText.tla); the DOM editing
and query API on top of it (spec/XmlDom.tla)."""
import concurrent.futures as cf
import json
import os
import shutil
import subprocess
import time
import vlib

META = {
    "engine": "XmlText.tla,XmlTextSM.tla,Trace_XmlText.tla,XmlDom.tla,Trace_XmlDom.tla",
    "technique": "TLC model-checks XmlText.tla (document generator vs. strict recursive-descent recognizer vs. serializer, "
                 "all generated documents / prefixes / surplus and mismatched end tags) and emits one case per transition; "
                 "the cases are replayed on Xml::decode / Xml::encode under ASan+LSan with the normalized tree compared; "
                 "recorded encode/decode runs of random trees, mutated documents and random bytes are validated by TLC "
                 "with the recognizer as the independent parser. Growth: XmlDom.tla models the editing / query API of asl::Xml "
                 "as a state machine over a heap of shared nodes behind reference-counted handles (one action per public "
                 "call); TLC enumerates all histories within the bounds and emits one case per transition (history + every "
                 "live node + the results of all queries on every handle), replayed on real Xml handles under ASan/LSan; "
                 "recorded random edit scripts are validated by TLC against the same actions (Trace_XmlDom.tla)",
    "design_ref": "DESIGN.md section 6, C07",
    "level_text": "TLC explores every state of the XmlText.tla document generator within the configured bounds (prolog, "
                  "DOCTYPE with nested <>, comments, PIs, both quote styles, white space in tags, named/decimal/hex "
                  "references, raw non-ASCII bytes, surplus and mismatched end tags) and checks that generator, recognizer "
                  "and serializer agree up to Normalize (GenRecAgree, PrefixNotDoc, BadRejected, EncodeRoundTrip), and that "
                  "XmlTextSM.tla - a transcription of Xml::decode's 21-state character machine - returns the same trees and "
                  "never pops its anonymous root (SMRefines, SMTotal, SMRoundTrip). Every "
                  "transition is one replay case: complete documents must decode to the specification's normalized tree, "
                  "all their byte prefixes and all faulty documents must decode to null or a tree with consistent parent "
                  "links, and the generated trees must survive Xml::encode (compact; indented when text is a sole child) "
                  "followed by Xml::decode. Recorded runs on random trees up to depth 12 and on mutated / random inputs "
                  "are judged by TLC evaluating Recognize/Normalize on the logged bytes and node tables. "
                  "DOM API (XmlDom.tla, INSTANCE of XmlText for trees / Normalize / Enc / Recognize): 25 actions - constructors "
                  "(tag; tag+value; tag+attributes; tag+children), handle copy / assignment (also x = x, x = x.child(i)) / "
                  "destruction, child / parent / operator()(tag, i) / findOne, operator<<(Xml) / insert / operator<<(String) / "
                  "remove(int) / remove(Xml) / clear / put(value) / put(name, value), setAttr / removeAttr / setTag, clone, and "
                  "decode(encode()) - over a DAG of nodes shared by reference (a subtree appended twice or under two parents). "
                  "Invariants: TypeOK, NoGarbage (a node lives exactly while a handle reaches it), Acyclic, AmbSound, "
                  "ParentInverse (parent() is the inverse of children(): the containing element, null for roots; unconstrained "
                  "only for a node attached while already a child), EditRoundTrip (after any history the serialization of what a "
                  "handle denotes is recognized as that tree up to Normalize, indented form when text is a sole child); action "
                  "properties CloneSeparate (clone / reparse share no node with anything else and leave the source untouched), "
                  "EditLocal (an edit changes only the node it goes through), NavigationPure. Every transition is one replay "
                  "case: node identities (what is shared / separate), kind, tag, text, attributes, child order and parent() of "
                  "every live node, and on every handle text(), value<int>(), count / children(tag) / operator()(tag, i), "
                  "find / findOne / traverse, has / operator[], decode(encode()) compact and indented against TLC's values. "
                  "Recorded scripts (8 handles, trees up to 70 nodes, arbitrary bytes in text and values) are validated call by "
                  "call; their check events are accepted iff the implementation's node graph is isomorphic to the specification's heap.",
    "level_note": "Bounded: exhaustive only within the constants of spec/MC_XmlText_*.cfg; beyond them seeded random "
                  "sampling (V). Totality and memory safety are observed (ASan/LSan, 20 s per case), not decided by the model. "
                  "Exact trees are demanded only for documents of the specification's XML subset (no CDATA, no white space "
                  "in end tags, no angle brackets inside DOCTYPE literals, PI targets starting with a letter); for every "
                  "other byte string only 'null or a tree with consistent parent links' is required, as the property says. "
                  "parent() of the returned root is not inspected. TLC's -coverage cannot be used on this module (its cost "
                  "model unfolds the recursive recognizer until out of memory); non-vacuity is checked from the action "
                  "label carried by every emitted case. DOM part: bounded by spec/MC_XmlDom_*.cfg (3 handles, 6-7 nodes, histories "
                  "of 4-6 calls; two configurations: structure / content); not modelled: cycles (a << a), indices out of range, "
                  "insert at numChildren() (ignored by the code, undocumented), text() when the first child is an element and "
                  "parent() of a node attached twice (both left unconstrained: null or a container), the order of find() "
                  "(compared as a bag), value<T> other than int, attribute maps / child arrays shared with the caller through the "
                  "Map / Array constructors or children() / attribs() references (C01/C02 container semantics), Xml::read / write.",
}

ACTIONS = {"XmlDecl", "Doctype", "TopMisc", "Open", "Attr", "CloseStart", "SelfClose", "Text", "InMisc", "End",
           "ExtraEnd", "MismatchEnd", "BadTail"}
HSRC = ["c07_record.cpp"]
DOM_OPS = {"newElem", "newText", "newVal", "newAttr", "newKids", "copy", "assign", "drop", "child", "parent", "get", "findOne",
           "append", "insert", "appendText", "removeAt", "removeNode", "clear", "putText", "putNamed", "setAttr", "removeAttr",
           "setTag", "clone", "reparse"}
DOM_REC = ["c07_dom_record.cpp"]


def _actions_seen(path):
    seen = set()
    with open(path) as f:
        for ln in f:
            i = ln.rfind('"act":"')
            if i >= 0:
                seen.add(ln[i + 7:ln.index('"', i + 7)])
    return seen


def _sample(path, needle, limit=900):
    with open(path) as f:
        for ln in f:
            if needle in ln and len(ln) < limit:
                return ln.strip()
    return None


def _dom_ops_seen(path):
    """last call of every emitted history (the action that produced the transition)"""
    seen = set()
    with open(path) as f:
        for ln in f:
            i = ln.find('],"nodes":')
            j = ln.rfind('"op":"', 0, i)
            if j >= 0:
                seen.add(ln[j + 6:ln.index('"', j + 6)])
    return seen


def _dom(ctx, lib):
    """growth: the DOM editing / query API (XmlDom.tla).  R: two exhaustive configurations (structure: sharing, moving,
    removing, handles, parent links; content: text, attributes, names, tag queries, codec), run side by side under two
    spellings of the module name (vlib's TLC scratch directories); V: recorded random edit scripts."""
    rep = vlib.build_harness(lib, "c07_dom_replay", ["c07_dom_replay.cpp"])
    rec = vlib.build_harness(lib, "c07_dom_record", DOM_REC)
    seen = set()
    wk = max(2, vlib.NCPU // 3)

    def r_side(spec, cfg):
        cases = os.path.join(ctx.tmp, cfg + ".cases")
        ctx.model(spec, cfg, emit_to=cases, timeout=ctx.pick(600, 3600), workers=wk, xmx="3g", xss="64m", must_cover=False)
        ops = _dom_ops_seen(cases)
        if not ctx.samples or '"nodes"' not in " ".join(ctx.samples):
            ctx.add_samples([x for x in (_sample(cases, '"op":"append"', 1500),) if x])
        ctx.replay(rep, cases, label="R/" + cfg, timeout=ctx.pick(900, 5400), jobs=max(2, vlib.NCPU // 2), args=("--batch", "300"))
        os.unlink(cases)
        return ops

    def v_side():
        files = ctx.record(rec, ctx.pick(6, 24), ctx.pick(130, 600), "V/XmlDom")
        ctx.validate_traces("Trace_XmlDom", "Trace_XmlDom", files, label="V/XmlDom", timeout=ctx.pick(600, 3000), xss="1g", xmx="2g",
                            parallel=max(2, vlib.NCPU // 3))

    with cf.ThreadPoolExecutor(3) as ex:
        f1 = ex.submit(r_side, "XmlDom", "MC_XmlDom_" + ctx.tier)
        time.sleep(0.7)
        f2 = ex.submit(r_side, "XmlDom.tla", "MC_XmlDom_%s2" % ctx.tier)
        time.sleep(0.7)
        f3 = ex.submit(v_side)
        seen = f1.result() | f2.result()
        f3.result()
    missing = DOM_OPS - seen
    if missing:
        raise vlib.HarnessError("XmlDom: vacuous run, actions never taken: %s" % sorted(missing))


def run(ctx):
    lib = vlib.build_lib("asan")
    if ctx.quick:
        with cf.ThreadPoolExecutor(2) as ex:
            fa = ex.submit(_xmltext, ctx, lib)
            time.sleep(1.5)
            fb = ex.submit(_dom, ctx, lib)
            fa.result()
            fb.result()
    else:
        # thorough: one after the other (the XmlTextSM model alone needs a 10 GB heap; side by side with the three DOM lanes the
        # check was killed under a 16 GB memory limit)
        _xmltext(ctx, lib)
        _dom(ctx, lib)
    ctx.exhaustive = True
    ctx.rule = ("one case per transition of the XmlText generator (document / prefix / faulty document, with the expected "
                "normalized tree for documents) and of the XmlDom state graph (history of public calls + every live node + "
                "the results of all queries); non-trivial = document whose tree has a child or an attribute, non-document "
                "text of >= 4 bytes, history of >= 2 calls; distinct = distinct case lines (hash)")
    ctx.assumptions += [
        "exhaustive within the constants of spec/MC_XmlText_%s*.cfg and spec/MC_XmlDom_%s*.cfg; beyond them only the recorded random executions apply" % (ctx.tier, ctx.tier),
        "memory errors, leaks and non-termination are observed by ASan/LSan and a 20 s limit per case on the replayed and recorded executions",
        "inputs are NUL-free byte strings (Xml::decode takes a C string); the root's own parent() is never called on decoded documents "
        "(the DOM part calls parent() on every live node, roots included)",
        "binding demonstrated on mutated copies of the library (missing parent link, wrong reference base, unescaped quote in "
        "attribute values, newline before sole text in indented output; DOM: clone sharing its text nodes, insert off by one, "
        "remove(Xml) removing the last occurrence, count() counting text nodes) and on corrupted trace fields: all rejected",
        "node identity in the DOM part is the API's handle comparison (operator==); handles are C++ objects created and destroyed by the harness",
    ]


def _xmltext(ctx, lib):
    rep = vlib.build_harness(lib, "c07_replay", ["c07_replay.cpp"])
    rec = vlib.build_harness(lib, "c07_record", HSRC)
    # R: two exhaustive configurations: lexical variety on small trees, and structure (depth, mixed content) with one
    # spelling per token.  -coverage is unusable here (see level_note): the vacuity check reads the action labels.
    seen = set()
    for cfg in ctx.pick(["MC_XmlText_quick", "MC_XmlText_quick2"], ["MC_XmlText_thorough", "MC_XmlText_thorough2"]):
        cases = os.path.join(ctx.tmp, cfg + ".cases")
        ctx.model("XmlTextSM", cfg, emit_to=cases, timeout=ctx.pick(600, 3000), xmx="10g", xss="64m", must_cover=False)
        seen |= _actions_seen(cases)
        ctx.add_samples([x for x in (_sample(cases, '"kind":"doc"' if len(ctx.samples) == 0 else '"kind":"bad"'),) if x])
        ctx.replay(rep, cases, label="R/" + cfg, timeout=ctx.pick(900, 5400))
        os.unlink(cases)
    # design level: the decoder's state machine without the end-tag guard pops its anonymous root on "</>" - TLC finds
    # it on the specification alone (documents the defect repaired by fixes/C07-close-anonymous-root)
    r = vlib.tlc("XmlTextSM", "MC_XmlTextSM_unguarded", workers=2, timeout=300, xmx="2g", xss="64m")
    if r.violated() != "SMTotal":
        raise vlib.HarnessError("XmlTextSM/MC_XmlTextSM_unguarded: expected the counterexample to SMTotal, got exit %s\n%s" % (r.rc, r.tail(30)))
    ctx.engines.append("XmlTextSM/MC_XmlTextSM_unguarded: SMTotal violated as expected (</> pops the anonymous root), %d states" % r.generated)
    missing = ACTIONS - seen
    if missing:
        raise vlib.HarnessError("XmlText: vacuous run, generator actions never taken: %s" % sorted(missing))
    # V: random trees through encode/decode, mutated documents and random bytes through decode; TLC judges every event
    files = ctx.record(rec, ctx.pick(8, 32), ctx.pick(250, 800), "V/XmlText")
    if files:
        ctx.add_samples([x for x in (_sample(files[0], '"e":"rt"', 1500),) if x])
    ctx.validate_traces("Trace_XmlText", "Trace_XmlText", files, label="V/XmlText", timeout=ctx.pick(600, 3000), xss="1g", xmx="4g")


def _replay_trace(path, lib):
    """stored (rejected) trace, or a recorder crash descriptor: re-record and validate (TLC needs -Xss for the recognizer)"""
    tmp = os.path.join(vlib.BUILD, "tmp", "replay-c07-%d" % os.getpid())
    os.makedirs(tmp, exist_ok=True)
    try:
        trace = path
        dom = "XmlDom" in os.path.basename(path)
        if not path.endswith(".ndjson"):
            info = json.load(open(path))
            dom = "dom" in str(info.get("recorder", "")) or dom
            exe = vlib.build_harness(lib, "c07_dom_record", DOM_REC) if dom else vlib.build_harness(lib, "c07_record", HSRC)
            trace = os.path.join(tmp, "t.ndjson")
            cmd = [exe, "--seed", str(info["seed"]), "--events", str(info["events"]), "--out", trace] + list(info.get("args", []))
            if info.get("avoid"):
                cmd += ["--avoid", ",".join(info["avoid"])]
            p = subprocess.run(["timeout", "900"] + cmd, env=vlib.run_env())
            if p.returncode != 0:
                print("recorder failed again with exit %d (seed %s): violation reproduced" % (p.returncode, info["seed"]))
                return 1
        tspec = "Trace_XmlDom" if dom else "Trace_XmlText"
        r = vlib.tlc(tspec, tspec, workers=1, timeout=1800, env={"TRACE": trace}, xss="1g", xmx="4g")
        if r.rc == 0:
            print("trace accepted by " + tspec)
            return 0
        if r.violated() is None:
            print(r.tail(40))
            return 2
        print("trace rejected by %s near event %d" % (tspec, r.depth))
        return 1
    finally:
        shutil.rmtree(tmp, ignore_errors=True)


def replay(path):
    lib = vlib.build_lib("asan")
    if os.path.basename(path).startswith("rec-") or path.endswith(".ndjson"):
        return _replay_trace(path, lib)
    with open(path) as f:
        head = f.read(400)
    if '"hist"' in head:        # a history of XmlDom.tla
        rep = vlib.build_harness(lib, "c07_dom_replay", ["c07_dom_replay.cpp"])
    else:
        rep = vlib.build_harness(lib, "c07_replay", ["c07_replay.cpp"])
    r = subprocess.run([rep, "--single", path], env=vlib.run_env())
    return 1 if r.returncode == 1 else (0 if r.returncode == 0 else 2)
