"""C07 - XML decoding is total and safe; encode then decode preserves the tree (spec/XmlText.tla)."""
import json
import os
import shutil
import subprocess
import vlib

META = {
    "engine": "XmlText.tla,XmlTextSM.tla,Trace_XmlText.tla",
    "technique": "TLC model-checks XmlText.tla (document generator vs. strict recursive-descent recognizer vs. serializer, "
                 "all generated documents / prefixes / surplus and mismatched end tags) and emits one case per transition; "
                 "the cases are replayed on Xml::decode / Xml::encode under ASan+LSan with the normalized tree compared; "
                 "recorded encode/decode runs of random trees, mutated documents and random bytes are validated by TLC "
                 "with the recognizer as the independent parser",
    "design_ref": "DESIGN.md section 6, C07",
    "level_text": "TLC explores every state of the XmlText.tla document generator within the configured bounds (prolog, "
                  "DOCTYPE with nested <>, comments, PIs, both quote styles, white space in tags, named/decimal/hex "
                  "references, raw non-ASCII bytes, surplus and mismatched end tags) and checks that generator, recognizer "
                  "and serializer agree up to Normalize (GenRecAgree, PrefixNotDoc, BadRejected, EncodeRoundTrip), and that "
                  "XmlTextSM.tla - a transcription of Xml::decode's 21-state character machine - returns the same trees and "
                  "never pops its anonymous root (SMRefines, SMTotal, SMRoundTrip). Every "
                  "transition is one replay case: complete documents must decode to the specification's normalized tree, "
                  "all their byte prefixes and all faulty documents must decode to null or a tree with consistent parent "
                  "links, and the generated trees must survive Xml::encode (compact; indented when text is a sole child) "
                  "followed by Xml::decode. Recorded runs on random trees up to depth 12 and on mutated / random inputs "
                  "are judged by TLC evaluating Recognize/Normalize on the logged bytes and node tables.",
    "level_note": "Bounded: exhaustive only within the constants of spec/MC_XmlText_*.cfg; beyond them seeded random "
                  "sampling (V). Totality and memory safety are observed (ASan/LSan, 20 s per case), not decided by the model. "
                  "Exact trees are demanded only for documents of the specification's XML subset (no CDATA, no white space "
                  "in end tags, no angle brackets inside DOCTYPE literals, PI targets starting with a letter); for every "
                  "other byte string only 'null or a tree with consistent parent links' is required, as the property says. "
                  "parent() of the returned root is not inspected. TLC's -coverage cannot be used on this module (its cost "
                  "model unfolds the recursive recognizer until out of memory); non-vacuity is checked from the action "
                  "label carried by every emitted case.",
}

ACTIONS = {"XmlDecl", "Doctype", "TopMisc", "Open", "Attr", "CloseStart", "SelfClose", "Text", "InMisc", "End",
           "ExtraEnd", "MismatchEnd", "BadTail"}
HSRC = ["c07_record.cpp"]


def _actions_seen(path):
    seen = set()
    with open(path) as f:
        for ln in f:
            i = ln.rfind('"act":"')
            if i >= 0:
                seen.add(ln[i + 7:ln.index('"', i + 7)])
    return seen


def _sample(path, needle, limit=900):
    with open(path) as f:
        for ln in f:
            if needle in ln and len(ln) < limit:
                return ln.strip()
    return None


def run(ctx):
    lib = vlib.build_lib("asan")
    rep = vlib.build_harness(lib, "c07_replay", ["c07_replay.cpp"])
    rec = vlib.build_harness(lib, "c07_record", HSRC)
    # R: two exhaustive configurations: lexical variety on small trees, and structure (depth, mixed content) with one
    # spelling per token.  -coverage is unusable here (see level_note): the vacuity check reads the action labels.
    seen = set()
    for cfg in ctx.pick(["MC_XmlText_quick", "MC_XmlText_quick2"], ["MC_XmlText_thorough", "MC_XmlText_thorough2"]):
        cases = os.path.join(ctx.tmp, cfg + ".cases")
        ctx.model("XmlTextSM", cfg, emit_to=cases, timeout=ctx.pick(600, 3000), xmx="10g", xss="64m", must_cover=False)
        seen |= _actions_seen(cases)
        ctx.add_samples([x for x in (_sample(cases, '"kind":"doc"' if len(ctx.samples) == 0 else '"kind":"bad"'),) if x])
        ctx.replay(rep, cases, label="R/" + cfg, timeout=ctx.pick(900, 5400))
        os.unlink(cases)
    # design level: the decoder's state machine without the end-tag guard pops its anonymous root on "</>" - TLC finds
    # it on the specification alone (documents the defect repaired by fixes/C07-close-anonymous-root)
    r = vlib.tlc("XmlTextSM", "MC_XmlTextSM_unguarded", workers=2, timeout=300, xmx="2g", xss="64m")
    if r.violated() != "SMTotal":
        raise vlib.HarnessError("XmlTextSM/MC_XmlTextSM_unguarded: expected the counterexample to SMTotal, got exit %s\n%s" % (r.rc, r.tail(30)))
    ctx.engines.append("XmlTextSM/MC_XmlTextSM_unguarded: SMTotal violated as expected (</> pops the anonymous root), %d states" % r.generated)
    missing = ACTIONS - seen
    if missing:
        raise vlib.HarnessError("XmlText: vacuous run, generator actions never taken: %s" % sorted(missing))
    ctx.exhaustive = True
    ctx.rule = ("one case per transition of the XmlText generator (document / prefix / faulty document, with the expected "
                "normalized tree for documents); non-trivial = document whose tree has a child or an attribute, or "
                "non-document text of >= 4 bytes; distinct = distinct case lines (hash)")
    # V: random trees through encode/decode, mutated documents and random bytes through decode; TLC judges every event
    files = ctx.record(rec, ctx.pick(8, 32), ctx.pick(250, 800), "V/XmlText")
    if files:
        ctx.add_samples([x for x in (_sample(files[0], '"e":"rt"', 1500),) if x])
    ctx.validate_traces("Trace_XmlText", "Trace_XmlText", files, label="V/XmlText", timeout=ctx.pick(600, 3000), xss="1g", xmx="4g")
    ctx.assumptions += [
        "exhaustive within the constants of spec/MC_XmlText_%s*.cfg; beyond them only the recorded random executions apply" % ctx.tier,
        "memory errors, leaks and non-termination are observed by ASan/LSan and a 20 s limit per case on the replayed and recorded executions",
        "inputs are NUL-free byte strings (Xml::decode takes a C string); the root's own parent() is never called",
        "binding demonstrated on mutated copies of the library (missing parent link, wrong reference base, unescaped quote in "
        "attribute values, newline before sole text in indented output) and on a corrupted trace field: all rejected",
    ]


def _replay_trace(path, lib):
    """stored (rejected) trace, or a recorder crash descriptor: re-record and validate (TLC needs -Xss for the recognizer)"""
    tmp = os.path.join(vlib.BUILD, "tmp", "replay-c07-%d" % os.getpid())
    os.makedirs(tmp, exist_ok=True)
    try:
        trace = path
        if not path.endswith(".ndjson"):
            info = json.load(open(path))
            exe = vlib.build_harness(lib, "c07_record", HSRC)
            trace = os.path.join(tmp, "t.ndjson")
            cmd = [exe, "--seed", str(info["seed"]), "--events", str(info["events"]), "--out", trace] + list(info.get("args", []))
            if info.get("avoid"):
                cmd += ["--avoid", ",".join(info["avoid"])]
            p = subprocess.run(["timeout", "900"] + cmd, env=vlib.run_env())
            if p.returncode != 0:
                print("recorder failed again with exit %d (seed %s): violation reproduced" % (p.returncode, info["seed"]))
                return 1
        r = vlib.tlc("Trace_XmlText", "Trace_XmlText", workers=1, timeout=1800, env={"TRACE": trace}, xss="1g", xmx="4g")
        if r.rc == 0:
            print("trace accepted by Trace_XmlText")
            return 0
        if r.violated() is None:
            print(r.tail(40))
            return 2
        print("trace rejected by Trace_XmlText near event %d" % r.depth)
        return 1
    finally:
        shutil.rmtree(tmp, ignore_errors=True)


def replay(path):
    lib = vlib.build_lib("asan")
    if os.path.basename(path).startswith("rec-") or path.endswith(".ndjson"):
        return _replay_trace(path, lib)
    rep = vlib.build_harness(lib, "c07_replay", ["c07_replay.cpp"])
    r = subprocess.run([rep, "--single", path], env=vlib.run_env())
    return 1 if r.returncode == 1 else (0 if r.returncode == 0 else 2)
