"""C18 - IniFile and TabularDataFile persist exactly what was set or written (spec/IniCsv.tla)."""
import glob
import json
import os
import subprocess
import vlib

META = {
    "engine": "IniCsv.tla",
    "technique": "TLC exhaustive enumeration over IniCsv.tla of INI texts (line alphabet x newline style x final newline) with "
                 "set() histories, and of CSV tables over a cell alphabet, with parser/requirement/reference-writer and "
                 "writer/reader agreement checked on the specification; every case executed on the real IniFile (explicit "
                 "write, destructor, operator[]) and TabularDataFile under ASan+LSan with the values compared, and the "
                 "files the real code wrote validated by TLC (values, relative order of comments and untouched entries, "
                 "specification's CSV reader on the written file); recorded random executions (texts to 40 lines, 20 set() "
                 "calls, tables to 30x8) validated by TLC the same way",
    "design_ref": "DESIGN.md section 6, C18",
    "level_text": "TLC enumerates every INI text of up to 3 lines over the configured line alphabet (sections, plain/indented/"
                  "spaced entries, comments, blank lines, empty values) in LF and CR LF, with and without a final newline, "
                  "followed by every history of up to 2 set() calls on existing keys, new keys, new sections and plain "
                  "names, and checks that parser, requirement (values + relative order) and a reference writer agree; it "
                  "enumerates every table up to the configured size over strings with separators/quotes/blanks and "
                  "numbers in all %.15g shapes and checks reader(writer(table)) = table on the specification. Every case "
                  "is executed on the real classes; TLC then evaluates the requirement on the bytes the real code wrote "
                  "and on the values/rows a fresh object returned.",
    "level_note": "Bounded (constants in spec/MC_IniCsv_*.cfg); longer texts/edit histories/tables only through the recorded "
                  "random executions. Numbers are decimal digit strings in the specification: that the double nearest to a "
                  "<=15-digit decimal prints back to the same 15 digits is a property of IEEE double/libc the specification "
                  "does not re-derive; cells are compared as their %.15g text. Strings that look like numbers to the reader "
                  "(digits, '-', '.', 'e' only - e.g. \"12\", \"-\", \".\", \"1-2\") are outside the generated alphabet: CSV carries "
                  "no type, the reader infers it. Duplicate keys within a section are generated only in the exhaustive part "
                  "(last one wins). Trusted: TLC, clang ASan/LSan, POSIX read-back, strtod/snprintf in the harness.",
}


def _count(cases):
    n = {"ini": 0, "ini_sets": 0, "ini_nofinal": 0, "csv": 0, "csv_quoted": 0, "csv_num": 0}
    with open(cases) as f:
        for ln in f:
            if ln.startswith('{"k":"ini"') or '"k":"ini"' in ln[:40]:
                n["ini"] += 1
                c = json.loads(ln)
                if c["sets"]:
                    n["ini_sets"] += 1
                if c["text"] and c["text"][-1] != 10:
                    n["ini_nofinal"] += 1
            else:
                n["csv"] += 1
                if "34,34" in ln or ",34," in ln:
                    n["csv_quoted"] += 1
                if '"t":"n"' in ln:
                    n["csv_num"] += 1
    return n


def _validate_logs(ctx, base, label, chunks):
    """hand the executions logged by the replayer (one ndjson event each) to TLC"""
    parts = sorted(glob.glob(base + ".*"))
    outs = [open(os.path.join(ctx.tmp, "%s-%d.ndjson" % (label.replace("/", "_"), k)), "w") for k in range(chunks)]
    n = 0
    for p in parts:
        with open(p) as f:
            for ln in f:
                if ln.endswith("}\n"):
                    outs[n % chunks].write(ln)
                    n += 1
        os.unlink(p)
    files = []
    for o in outs:
        o.close()
        if os.path.getsize(o.name) > 0:
            files.append(o.name)
        else:
            os.unlink(o.name)
    if n == 0:
        raise vlib.HarnessError("%s: the replayer logged no execution" % label)
    ctx.validate_traces("Trace_IniCsv", "Trace_IniCsv", files, label=label, timeout=ctx.pick(900, 5400))
    ctx.evaluations += n
    ctx.engines.append("%s: %d executions of the real code logged by the replayer, validated by TLC" % (label, n))
    for f in files:
        if os.path.exists(f):
            os.unlink(f)
    return n


def run(ctx):
    lib = vlib.build_lib("asan")
    rep = vlib.build_harness(lib, "c18_replay", ["c18_replay.cpp"])
    rec = vlib.build_harness(lib, "c18_record", ["c18_record.cpp"])
    tier = "quick" if ctx.quick else "thorough"
    cases = os.path.join(ctx.tmp, "c18.cases")
    logbase = os.path.join(ctx.tmp, "c18log")
    # coverage instrumentation makes TLC ~60x slower on this module (nested CHOOSE/set expressions): vacuity is checked
    # on the emitted cases instead
    ctx.model("MC_IniCsv", "MC_IniCsv_ini_" + tier, emit_to=cases, timeout=ctx.pick(900, 5400), xmx="8g", must_cover=False)
    n = _count(cases)
    if n["ini"] == 0 or n["ini_sets"] == 0 or n["ini_nofinal"] == 0:
        raise vlib.HarnessError("MC_IniCsv_ini_%s: vacuous generation %s" % (tier, n))
    ctx.exhaustive = True
    ctx.rule = ("one case per transition of the IniCsv generators (INI text + set() history + expected lookups; CSV table + "
                "expected file text), executed 4 (INI: write/destructor/operator[]/write(name)) resp. 4+1 (CSV: int/double, cell-wise/"
                "row-wise, data()/nextRow(), specification's text) times on the real classes (INI: two of the four per case, chosen "
                "by a hash; CSV quick tier: two of the four); non-trivial = at least one set() / two cells; "
                "distinct = distinct case lines (hash)")
    renv = {"C18_LOG": logbase, "VERIF_TMP": ctx.tmp}
    renv["C18_HALF_INI"] = "1"      # two of the four write paths per INI case, chosen by a hash of the case (both tiers)
    if ctx.quick:
        renv["C18_HALF_CSV"] = "1"  # two of the four CSV variants per table (all four in the thorough tier)
    ctx.replay(rep, cases, label="R/IniCsv-ini", timeout=ctx.pick(900, 5400), env=renv)
    os.unlink(cases)
    _validate_logs(ctx, logbase, "V/IniCsv-ini-replayed", ctx.pick(8, 16))
    ctx.model("MC_IniCsv", "MC_IniCsv_csv_" + tier, emit_to=cases, timeout=ctx.pick(900, 5400), xmx="8g", must_cover=False)
    n2 = _count(cases)
    if n2["csv"] == 0 or n2["csv_quoted"] == 0 or n2["csv_num"] == 0:
        raise vlib.HarnessError("MC_IniCsv_csv_%s: vacuous generation %s" % (tier, n2))
    ctx.replay(rep, cases, label="R/IniCsv-csv", timeout=ctx.pick(900, 5400), env=renv)
    os.unlink(cases)
    _validate_logs(ctx, logbase, "V/IniCsv-csv-replayed", ctx.pick(6, 16))
    ctx.extra["generated"] = {**n, **{k: v for k, v in n2.items() if k.startswith("csv")}}
    # random executions
    files = ctx.record(rec, ctx.pick(8, 64), ctx.pick(2000, 12000), "V/IniCsv", env={"VERIF_TMP": ctx.tmp})
    ctx.validate_traces("Trace_IniCsv", "Trace_IniCsv", files, label="V/IniCsv", timeout=ctx.pick(600, 3000))
    ctx.assumptions += [
        "exhaustive within the constants of spec/MC_IniCsv_ini_%s.cfg and MC_IniCsv_csv_%s.cfg; beyond them only the recorded "
        "random executions apply" % (tier, tier),
        "numbers are compared as their %.15g text (what the property states); decimal-to-double conversion itself is libc's",
        "INI texts are drawn from the language the property names (headers at column 0, identifier-like keys, '#'/';' comments); "
        "values have no leading/trailing blanks",
        "memory errors/leaks are observed by ASan/LSan on the executions, not decided by the model",
    ]


def replay(path):
    lib = vlib.build_lib("asan")
    if os.path.basename(path).startswith("rec-") or path.endswith(".ndjson"):
        return vlib.replay_recorded(path, lib, "c18_record", ["c18_record.cpp"], "Trace_IniCsv", "Trace_IniCsv")
    rep = vlib.build_harness(lib, "c18_replay", ["c18_replay.cpp"])
    r = subprocess.run([rep, "--single", path], env=vlib.run_env())
    return 1 if r.returncode == 1 else (0 if r.returncode == 0 else 2)
