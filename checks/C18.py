"""C18 - IniFile and TabularDataFile persist exactly what was set or written (spec/IniCsv.tla)."""
import concurrent.futures as cf
import glob
import json
import os
import subprocess
import vlib

META = {
    "engine": "IniCsv.tla, CmdArgs.tla",
    "technique": "TLC exhaustive enumeration over IniCsv.tla of INI texts (line alphabet x newline style x final newline) with "
                 "set() histories, and of CSV tables over a cell alphabet, with parser/requirement/reference-writer and "
                 "writer/reader agreement checked on the specification; every case executed on the real IniFile (explicit "
                 "write, destructor, operator[]) and TabularDataFile under ASan+LSan with the values compared, and the "
                 "files the real code wrote validated by TLC (values, relative order of comments and untouched entries, "
                 "specification's CSV reader on the written file); recorded random executions (texts to 40 lines, 20 set() "
                 "calls, tables to 30x8) validated by TLC the same way",
    "design_ref": "DESIGN.md section 6, C18",
    "level_text": "TLC enumerates every INI text of up to 3 lines over the configured line alphabet (sections, plain/indented/"
                  "spaced entries, comments, blank lines, empty values) in LF and CR LF, with and without a final newline, "
                  "followed by every history of up to 2 set() calls on existing keys, new keys, new sections and plain "
                  "names, and checks that parser, requirement (values + relative order) and a reference writer agree; it "
                  "enumerates every table up to the configured size over strings with separators/quotes/blanks and "
                  "numbers in all %.15g shapes and checks reader(writer(table)) = table on the specification. Every case "
                  "is executed on the real classes; TLC then evaluates the requirement on the bytes the real code wrote "
                  "and on the values/rows a fresh object returned. Growth: every sequence of up to 3 calls out of 15 (19) on an "
                  "IniFile object opened on 7 (10) files (existing / missing / empty, byte order mark, CR LF without final newline, "
                  "sections and keys given twice, Qt array, shouldwrite = false), with the reference writer checked against the "
                  "whole write requirement (values, order, no key nobody set, sections kept); every table of up to 4 cells "
                  "over 7 (11) cell kinds incl. short rows for 7 (11) option sets of the writer, with reader(writer) = table by "
                  "inference where the documentation says it is inferable; every file of up to 3 (4) lines per dialect alphabet x "
                  "LF / CR LF x final newline x byte order mark, with the law that these do not change what is read; every "
                  "command line of up to 4 tokens over 7 (15) tokens x 2 specification strings with all laws, followed by every "
                  "ascending pair of queries. Every case is executed on the real classes and the logged executions are validated "
                  "by TLC.",
    "level_note": "Bounded (constants in spec/MC_IniCsv_*.cfg); longer texts/edit histories/tables only through the recorded "
                  "random executions. Numbers are decimal digit strings in the specification: that the double nearest to a "
                  "<=15-digit decimal prints back to the same 15 digits is a property of IEEE double/libc the specification "
                  "does not re-derive; cells are compared as their %.15g text. Strings that look like numbers to the reader "
                  "(digits, '-', '.', 'e' only - e.g. \"12\", \"-\", \".\", \"1-2\") are outside the generated alphabet: CSV carries "
                  "no type, the reader infers it. Duplicate keys within a section are generated only in the exhaustive part "
                  "(last one wins). Left unconstrained because the documentation is silent (generated only for memory safety or not at "
                  "all): what plain names address in a file with sections and no top-level entries before section() is called, "
                  "the spelling of top-level entries in values(), has() of a key set to nothing, whether names only read show up in "
                  "sectionNames(), write(name) without modification, explicit write() with shouldwrite = false, keys containing '/', "
                  "values with line breaks, whether destroying an object opened on a file that gives a key twice rewrites it, CSV "
                  "cells with line breaks, quoted or separator-containing column names, empty lines as rows, the column names of a "
                  "file without header line, a quote in the middle of an unquoted cell, readAs on fields of another type, CmdArgs "
                  "tokens '-', '--x', '-5', an option that needs a value without one, is() for other values than 1/true/yes/0/"
                  "false/no. Trusted: TLC, clang ASan/LSan, POSIX read-back, strtod/snprintf in the harness.",
}


def _count(cases):
    n = {"ini": 0, "ini_sets": 0, "ini_nofinal": 0, "csv": 0, "csv_quoted": 0, "csv_num": 0}
    with open(cases) as f:
        for ln in f:
            if ln.startswith('{"k":"ini"') or '"k":"ini"' in ln[:40]:
                n["ini"] += 1
                c = json.loads(ln)
                if c["sets"]:
                    n["ini_sets"] += 1
                if c["text"] and c["text"][-1] != 10:
                    n["ini_nofinal"] += 1
            else:
                n["csv"] += 1
                if "34,34" in ln or ",34," in ln:
                    n["csv_quoted"] += 1
                if '"t":"n"' in ln:
                    n["csv_num"] += 1
    return n


def _validate_logs(ctx, base, label, chunks):
    """hand the executions logged by the replayer to TLC: one ndjson event per execution (ini, csv, csvw, csvr) or per call
    (a.*: the events of one session on an IniFile object stay together and in order)"""
    parts = sorted(glob.glob(base + ".*"))
    outs = [open(os.path.join(ctx.tmp, "%s-%d.ndjson" % (label.replace("/", "_"), k)), "w") for k in range(chunks)]
    n = 0
    sessions = 0
    k = 0
    for p in parts:
        with open(p) as f:
            for ln in f:
                if not ln.endswith("}\n"):
                    continue
                if not ln.startswith('{"op":"a.') or ln.startswith('{"op":"a.new"'):
                    k = (k + 1) % chunks                        # a new execution / session: next chunk
                    sessions += 1
                outs[k].write(ln)
                n += 1
        os.unlink(p)
    files = []
    for o in outs:
        o.close()
        if os.path.getsize(o.name) > 0:
            files.append(o.name)
        else:
            os.unlink(o.name)
    if n == 0:
        raise vlib.HarnessError("%s: the replayer logged no execution" % label)
    ctx.validate_traces("Trace_IniCsv", "Trace_IniCsv", files, label=label, timeout=ctx.pick(900, 5400), parallel=len(files))
    ctx.count(evaluations=n)
    ctx.engines.append("%s: %d executions of the real code (%d events) logged by the replayer, validated by TLC" % (label, sessions, n))
    for f in files:
        if os.path.exists(f):
            os.unlink(f)
    return n


def _lines(path):
    with open(path) as f:
        return sum(1 for _ in f)


def core(ctx, lib, rep, rec):
    """the two relations of the property: INI text + set() history, CSV table (as before the growth round), and the recorder"""
    tier = "quick" if ctx.quick else "thorough"
    cases = os.path.join(ctx.tmp, "c18.cases")
    logbase = os.path.join(ctx.tmp, "c18log")
    # coverage instrumentation makes TLC ~60x slower on this module (nested CHOOSE/set expressions): vacuity is checked
    # on the emitted cases instead
    ctx.model("MC_IniCsv", "MC_IniCsv_ini_" + tier, emit_to=cases, timeout=ctx.pick(900, 5400), xmx="4g", must_cover=False)
    n = _count(cases)
    if n["ini"] == 0 or n["ini_sets"] == 0 or n["ini_nofinal"] == 0:
        raise vlib.HarnessError("MC_IniCsv_ini_%s: vacuous generation %s" % (tier, n))
    renv = {"C18_LOG": logbase, "VERIF_TMP": ctx.tmp}
    renv["C18_HALF_INI"] = "1"      # two of the four write paths per INI case, chosen by a hash of the case (both tiers)
    if ctx.quick:
        renv["C18_HALF_CSV"] = "1"  # two of the four CSV variants per table (all four in the thorough tier)
    ctx.replay(rep, cases, label="R/IniCsv-ini", timeout=ctx.pick(900, 5400), env=renv, jobs=ctx.pick(8, 16))
    os.unlink(cases)
    _validate_logs(ctx, logbase, "V/IniCsv-ini-replayed", ctx.pick(8, 16))
    ctx.model("MC_IniCsv", "MC_IniCsv_csv_" + tier, emit_to=cases, timeout=ctx.pick(900, 5400), xmx="4g", must_cover=False)
    n2 = _count(cases)
    if n2["csv"] == 0 or n2["csv_quoted"] == 0 or n2["csv_num"] == 0:
        raise vlib.HarnessError("MC_IniCsv_csv_%s: vacuous generation %s" % (tier, n2))
    ctx.replay(rep, cases, label="R/IniCsv-csv", timeout=ctx.pick(900, 5400), env=renv, jobs=ctx.pick(8, 16))
    os.unlink(cases)
    _validate_logs(ctx, logbase, "V/IniCsv-csv-replayed", ctx.pick(6, 16))
    ctx.extra["generated"] = {**n, **{k: v for k, v in n2.items() if k.startswith("csv")}}
    # random executions (half of them growth executions: sessions on an IniFile object, tables with options, foreign files)
    files = ctx.record(rec, ctx.pick(8, 32), ctx.pick(2000, 6000), "V/IniCsv", env={"VERIF_TMP": ctx.tmp})
    ctx.validate_traces("Trace_IniCsv", "Trace_IniCsv", files, label="V/IniCsv", timeout=ctx.pick(600, 3000))


def growth(ctx, lib, rep):
    """growth: the IniFile object, TabularDataFile with options, files of other tools (parts "api", "csvw", "csvr" of IniCsv.tla)"""
    tier = "quick" if ctx.quick else "thorough"
    logbase = os.path.join(ctx.tmp, "c18glog")
    renv = {"C18_LOG": logbase, "VERIF_TMP": ctx.tmp}
    if ctx.quick:
        renv["C18_HALF_CSV"] = "1"  # one of the three ways of naming columns / passing rows per table (all in the thorough tier)
    runs = (("MC_IniCsvG.tla", "MC_IniCsv_api_" + tier, "api"), ("MC_IniCsvG", "MC_IniCsv_csvw_" + tier, "csvw"),
            ("MC_IniCsvG", "MC_IniCsv_csvr_" + tier, "csvr"))

    def gen(run):
        spec, cfg, part = run
        out = os.path.join(ctx.tmp, "c18-%s.cases" % part)
        # (one module, three concurrent TLC runs: vlib keys its metadir on the spelling of the module name)
        # (one module, up to three concurrent TLC runs: vlib keys its metadir on pid, a counter and the name of the module as spelled,
        #  the counter is not thread-safe - the core lane says "MC_IniCsv", this lane "MC_IniCsvG.tla" and "MC_IniCsvG")
        ctx.model(spec, cfg, what="MC_IniCsv/" + cfg, emit_to=out, timeout=ctx.pick(900, 5400),
                  xmx="3g", must_cover=False, workers=ctx.pick(4, 8))
        return out

    # (the api generator next to the two csv generators, those one after the other: three spellings would be needed otherwise)
    with cf.ThreadPoolExecutor(2) as ex:
        fa = ex.submit(gen, runs[0])
        fb = ex.submit(lambda: [gen(runs[1]), gen(runs[2])])
        outs = [fa.result()] + fb.result()
    counts = {}
    for (spec, cfg, part), out in zip(runs, outs):
        counts[part] = _lines(out)
        if counts[part] == 0:
            raise vlib.HarnessError("%s: vacuous generation" % cfg)
    # vacuity on the emitted cases: every kind of call / option / dialect must occur
    with open(outs[0]) as f:
        text = f.read()
    for need in ('"m":"set"', '"m":"get"', '"m":"cur"', '"m":"asize"', '"m":"aget"', '"m":"write"', '"m":"writeTo"', '"m":"writeBad"',
                 '"m":"reopen"', '"exists":false', '"sw":false', '"has":"u"', '"BomFirstLine"', '"ReadPersisted"', '"FailedWriteLines"'):
        if need not in text:
            raise vlib.HarnessError("MC_IniCsv_api_%s: no generated case contains %s" % (tier, need))
    del text
    with open(outs[1]) as f:
        text = f.read()
    for need in ('"sep":59', '"sep":9', '"q":true', '"arff":true', '"early":[true', '"readable":false', '"flush":2'):
        if need not in text:
            raise vlib.HarnessError("MC_IniCsv_csvw_%s: no generated case contains %s" % (tier, need))
    del text
    with open(outs[2]) as f:
        text = f.read()
    for need in ('"hdr":true', '"hdr":false', '"types":[105', '"unspec":true', '"LastRowNoNewline"', '"file":[239,187,191'):
        if need not in text:
            raise vlib.HarnessError("MC_IniCsv_csvr_%s: no generated case contains %s" % (tier, need))
    del text
    ctx.extra["generated_growth"] = counts
    ctx.replay(rep, outs[0], label="R/IniCsv-api", timeout=ctx.pick(900, 5400), env=renv, jobs=ctx.pick(8, 16), args=["--case-timeout-ms", "120000"])
    _validate_logs(ctx, logbase, "V/IniCsv-api-replayed", ctx.pick(3, 16))
    merged = os.path.join(ctx.tmp, "c18-csvx.cases")
    with open(merged, "w") as o:
        for p in outs[1:]:
            with open(p) as f:
                for ln in f:
                    o.write(ln)
    ctx.replay(rep, merged, label="R/IniCsv-csvw+csvr", timeout=ctx.pick(900, 5400), env=renv, jobs=ctx.pick(8, 16),
               args=["--case-timeout-ms", "120000"])
    _validate_logs(ctx, logbase, "V/IniCsv-csvw+csvr-replayed", ctx.pick(3, 16))
    for p in outs + [merged]:
        os.unlink(p)


def cmdargs(ctx, lib):
    """growth: asl::CmdArgs (CmdArgs.tla): R over the token alphabet (argc/argv and the process's own arguments), V on recorded sessions"""
    rep = vlib.build_harness(lib, "c18_cmdargs_replay", ["c18_cmdargs_replay.cpp"])
    rec = vlib.build_harness(lib, "c18_cmdargs_record", ["c18_cmdargs_record.cpp"])
    cases = os.path.join(ctx.tmp, "c18-cmdargs.cases")
    long_ = os.path.join(ctx.tmp, "c18-cmdargs-long.cases")
    ctx.model("MC_CmdArgs", "MC_CmdArgs_" + ("quick" if ctx.quick else "thorough"), emit_to=cases, timeout=ctx.pick(600, 3600), xmx="3g",
              workers=ctx.pick(4, 8))
    ctx.model("MC_CmdArgs.tla", "MC_CmdArgs_long", emit_to=long_, timeout=600, xmx="2g", workers=2, ignore_cov=("Query",))
    with open(cases, "a") as o, open(long_) as f:
        for ln in f:
            o.write(ln)
    os.unlink(long_)
    ctx.replay(rep, cases, label="R/CmdArgs", timeout=ctx.pick(900, 3600), jobs=ctx.pick(6, 16),
               env={"C18A_SELF_EVERY": str(ctx.pick(40, 25))}, args=["--batch", "1500", "--case-timeout-ms", "180000"])
    os.unlink(cases)
    files = ctx.record(rec, ctx.pick(1, 16), ctx.pick(8000, 20000), "V/CmdArgs")
    ctx.validate_traces("Trace_CmdArgs", "Trace_CmdArgs", files, label="V/CmdArgs", timeout=ctx.pick(600, 3000))


def run(ctx):
    lib = vlib.build_lib("asan")
    rep = vlib.build_harness(lib, "c18_replay", ["c18_replay.cpp"])
    rec = vlib.build_harness(lib, "c18_record", ["c18_record.cpp"])
    tier = "quick" if ctx.quick else "thorough"
    ctx.exhaustive = True
    ctx.rule = ("one case per transition of the IniCsv generators (INI text + set() history + expected lookups; CSV table + "
                "expected file text), executed 4 (INI: write/destructor/operator[]/write(name)) resp. 4+1 (CSV: int/double, cell-wise/"
                "row-wise, data()/nextRow(), specification's text) times on the real classes (INI: two of the four per case, chosen "
                "by a hash; CSV quick tier: two of the four); growth: one case per transition of the generators \"api\" (calls on an "
                "IniFile object + expected results and const queries), \"csvw\" (options + table), \"csvr\" (file of another tool + "
                "expected rows) and of CmdArgs.tla (command line + expected answers; command line + queries); non-trivial = at least "
                "one set() / call / two cells / one token; distinct = distinct case lines (hash)")
    # three independent lanes (thorough tier: two at a time - several TLC heaps next to other people's runs got this one killed)
    with cf.ThreadPoolExecutor(ctx.pick(3, 2)) as ex:
        lanes = [ex.submit(core, ctx, lib, rep, rec), ex.submit(growth, ctx, lib, rep), ex.submit(cmdargs, ctx, lib)]
        err = None
        for f in lanes:
            try:
                f.result()
            except Exception as e:      # let the other lanes finish (their TLC / replayer processes would be orphaned)
                err = err or e
        if err:
            raise err
    ctx.assumptions += [
        "exhaustive within the constants of spec/MC_IniCsv_{ini,csv,api,csvw,csvr}_%s.cfg and MC_CmdArgs_%s.cfg / MC_CmdArgs_long.cfg; "
        "beyond them only the recorded random executions apply" % (tier, tier),
        "numbers are compared as their %.15g text (what the property states); decimal-to-double conversion itself is libc's",
        "INI texts are drawn from the language the property names (headers at column 0, identifier-like keys, '#'/';' comments); "
        "values have no line breaks; blanks around a value are not part of it",
        "CSV files of other tools: numbers in the shape %.15g produces (with the dialect's decimal symbol), strings that no dialect takes "
        "for a number, the dialect visible in the first line (what the documentation says is inferred)",
        "CmdArgs: option names start with a letter; the program name is not part of the command line",
        "memory errors/leaks are observed by ASan/LSan on the executions, not decided by the model",
    ]


def replay(path):
    path = os.path.abspath(path)        # (TLC runs in spec/)
    lib = vlib.build_lib("asan")
    if os.path.basename(path).startswith("rec-") or path.endswith(".ndjson"):
        if "CmdArgs" in os.path.basename(path):
            return vlib.replay_recorded(path, lib, "c18_cmdargs_record", ["c18_cmdargs_record.cpp"], "Trace_CmdArgs", "Trace_CmdArgs")
        return vlib.replay_recorded(path, lib, "c18_record", ["c18_record.cpp"], "Trace_IniCsv", "Trace_IniCsv")
    with open(path) as f:
        head = f.read(4000)
    if '"k":"args"' in head or '"k":"query"' in head:
        rep = vlib.build_harness(lib, "c18_cmdargs_replay", ["c18_cmdargs_replay.cpp"])
    else:
        rep = vlib.build_harness(lib, "c18_replay", ["c18_replay.cpp"])
    r = subprocess.run([rep, "--single", path], env=vlib.run_env())
    return 1 if r.returncode == 1 else (0 if r.returncode == 0 else 2)
