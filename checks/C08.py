"""C08 - UTF-8/16/32 conversions are lossless on valid text and safe on any bytes (spec/Utf.tla)."""
import concurrent.futures as cf
import json
import os
import re
import shutil
import subprocess
import vlib

META = {
    "engine": "Utf.tla, MC_UtfScalars.tla, MC_UtfBytes.tla, Trace_Utf.tla",
    "technique": "TLC evaluates the Unicode encoding forms written as TLA+ operators: every scalar value and boundary "
                 "sequences (round-trip invariants, two formulations), every byte string over the boundary alphabet "
                 "(well-formedness table vs. automaton); the printed tables are replayed on the real conversions, "
                 "count(), chars(), iteration and case functions under ASan with inputs flush against the end of heap "
                 "blocks; recorded runs on random text / random and exhaustive short byte strings are validated by TLC",
    "design_ref": "DESIGN.md section 6, C08",
    "level_text": "Exhaustive over all 1,112,064 Unicode scalar values and over all byte strings up to the configured "
                  "length over the boundary alphabet (TLC invariants on Utf.tla; each table row executed on the real "
                  "library in three storage placements under ASan and compared); exhaustive byte strings of length <= 3 "
                  "(thorough) and random longer text validated as recorded traces against the same operators.",
    "level_note": "Memory safety is observed (ASan, end-of-allocation placement), not decided by the model. Results on "
                  "ill-formed input are only bounded (lengths), as in the property. Correctness of non-ASCII case "
                  "mapping is not part of the property; only its length bound and the equalsNocase/lower-case relation "
                  "are checked. U+0000 is the terminator of the NUL-terminated API and cannot occur inside text.",
}

NSCALARS = 1112064
_ROW = re.compile(r"\[\d+,\[")      # start of a table row [c,[utf8...],[utf16...]...]


def _count_filter(counter):
    seen = set()

    def f(line):
        h = hash(line)
        if h in seen:
            return None
        seen.add(h)
        if line.startswith('{"k":"blk"'):
            counter["scalars"] += len(_ROW.findall(line))
            counter["blk"] += 1
        elif line.startswith('{"k":"seq"'):
            counter["seq"] += 1
        return line
    return f


def _record_jobs(ctx, exe, jobs, timeout=1800):
    """Like ctx.record, for a list of (label, extra_args) recorder invocations that run side by side (the exhaustive
    enumerations are split by first byte).  A dying recorder is a violation with a replay descriptor."""
    def one(job):
        label, args = job
        slabel = re.sub(r"[^A-Za-z0-9_.-]", "_", label)
        seed = vlib.derive_seed(ctx.seed, label, 0)
        out = os.path.join(ctx.tmp, slabel + ".ndjson")
        cmd = [exe, "--seed", str(seed), "--events", "0", "--out", out] + list(args)
        if ctx.known:
            cmd += ["--avoid", ",".join(sorted(ctx.known))]
        p = subprocess.run(["timeout", "-k", "5", str(timeout)] + cmd, env=vlib.run_env(), stdout=subprocess.PIPE,
                           stderr=subprocess.PIPE, text=True, errors="replace")
        return label, slabel, seed, out, args, p

    files, nev = [], 0
    with cf.ThreadPoolExecutor(vlib.NCPU) as ex:
        for label, slabel, seed, out, args, p in ex.map(one, jobs):
            if p.returncode != 0:
                path = os.path.join(ctx.replay_dir, "rec-%s-%d.json" % (slabel, seed))
                with open(path, "w") as f:
                    json.dump({"recorder": "c08_record", "seed": seed, "events": 0, "args": list(args), "exit": p.returncode, "avoid": sorted(ctx.known)}, f)
                    f.write("\n")
                ctx.violation("%s: recorder died with exit %s\n%s" % (label, p.returncode, (p.stderr or "")[-3500:]), path=path)
                continue
            files.append(out)
            with open(out, "rb") as fh:
                nev += sum(1 for _ in fh)
    ctx.evaluations += nev
    ctx._rec_exec = getattr(ctx, "_rec_exec", 0) + len(files)
    ctx.engines.append("V/Utf-exhaustive: %d recorder runs, %d events" % (len(files), nev))
    vlib.log(ctx.engines[-1])
    return files


def run(ctx):
    lib = vlib.build_lib("asan")
    rep = vlib.build_harness(lib, "c08_replay", ["c08_replay.cpp"])
    tier = "quick" if ctx.quick else "thorough"

    # R1: every scalar value + boundary sequences
    cases = os.path.join(ctx.tmp, "c08-scalars.cases")
    cnt = {"scalars": 0, "blk": 0, "seq": 0}
    # coverage instrumentation triples the run time of this walk; vacuity is excluded by counting the emitted rows
    r = ctx.model("MC_UtfScalars", "MC_UtfScalars_" + tier, emit_to=cases, timeout=ctx.pick(300, 1200), xmx="8g",
                  must_cover=False, emit_filter=_count_filter(cnt))
    ctx.extra["scalar_values_emitted"] = cnt["scalars"]
    ctx.extra["boundary_sequences_emitted"] = cnt["seq"]
    ctx.replay(rep, cases, label="R/UtfScalars", timeout=ctx.pick(600, 2400))
    os.unlink(cases)

    # R2: every byte string over the boundary alphabet
    # (second run: the alphabet extended by the bytes that delimit the second-byte ranges of table 3-7: 8F 90 9F A0 C1 E1 ED EE F1 F5)
    for cfg, label in (("MC_UtfBytes_" + tier, "R/UtfBytes"), ("MC_UtfBytes_ext_" + tier, "R/UtfBytes-ext")):
        cases = os.path.join(ctx.tmp, "c08-bytes.cases")
        ctx.model("MC_UtfBytes", cfg, emit_to=cases, timeout=ctx.pick(300, 1800), xmx="8g")
        ctx.replay(rep, cases, label=label, timeout=ctx.pick(600, 2400))
        os.unlink(cases)
    # V: recorded executions validated by TLC against the same operators
    rec = vlib.build_harness(lib, "c08_record", ["c08_record.cpp"])
    files = []
    files += ctx.record(rec, ctx.pick(4, 16), ctx.pick(1200, 6000), "V/Utf-text", extra_args=["--mode", "0"])
    files += ctx.record(rec, ctx.pick(4, 16), ctx.pick(2500, 12000), "V/Utf-bytes", extra_args=["--mode", "1"])
    # every byte string of length 0, 1, 2: one fully logged event each
    jobs = []
    for ln, shards in ((0, 1), (1, 1), (2, 8)):
        for k in range(shards):
            jobs.append(("V/Utf-all-len%d-%d" % (ln, k), ["--mode", "2", "--len", str(ln), "--full", "1", "--shard", "%d/%d" % (k, shards)]))
    # every byte string of length 3 (thorough; quick: first byte from the boundary alphabet), bounds in aggregate
    firsts = [127, 128, 191, 192, 194, 223, 224, 239, 240, 244, 247, 248, 255, 65, 97] if ctx.quick else list(range(1, 256))
    per = 1 if ctx.quick else 8
    groups = [firsts[i:i + per] for i in range(0, len(firsts), per)]
    nstr = 0
    for g in groups:
        jobs.append(("V/Utf-all-len3-%d" % g[0], ["--mode", "2", "--len", "3", "--first", ",".join(map(str, g))]))
        nstr += 255 * 255 * len(g)
    files += _record_jobs(ctx, rec, jobs)
    ctx.extra["byte_strings_len3_run_flush_in_3_placements"] = nstr
    ctx.validate_traces("Trace_Utf", "Trace_Utf", files, label="V/Utf", timeout=ctx.pick(600, 2400), xss="512m")
    if cnt["scalars"] != NSCALARS:
        raise vlib.HarnessError("scalar table incomplete: %d rows instead of %d" % (cnt["scalars"], NSCALARS))
    ctx.exhaustive = True
    ctx.assumptions += [
        "all 1,112,064 scalar values and all byte strings over the boundary alphabet up to the length in spec/MC_UtfBytes_%s.cfg "
        "are exhaustive; %s byte strings of length 3 (all 255^2 tails of %d first bytes) and all of length <= 2 were executed; "
        "longer inputs are random (seeded)" % (tier, nstr, len(firsts)),
        "U+0000 terminates text in this API: its encoding is checked in the specification, the library is only required to treat it as the end",
        "ill-formed input: only termination, memory safety (ASan, inputs flush against the end of their allocation, three "
        "String storage placements) and the length bounds are required, as in the property",
    ]
    ctx.rule = ("R: one case per block of 64 scalar values / per boundary sequence / per byte string over the boundary alphabet "
                "(distinct C strings); non-trivial = non-empty input; V: one event per recorded string")


def _replay_recorded(path, lib, hname, hsrcs, trace_spec, cfg):
    """vlib.replay_recorded with a larger TLC stack (the operators recurse over strings of > 1000 bytes): a stored
    (rejected) trace is validated again; a recorder-crash descriptor {seed, events, args} is re-recorded first."""
    tmp = os.path.join(vlib.BUILD, "tmp", "replay-%d" % os.getpid())
    os.makedirs(tmp, exist_ok=True)
    try:
        trace = path
        if not path.endswith(".ndjson"):
            info = json.load(open(path))
            exe = vlib.build_harness(lib, hname, hsrcs)
            trace = os.path.join(tmp, "t.ndjson")
            cmd = [exe, "--seed", str(info["seed"]), "--events", str(info["events"]), "--out", trace] + list(info.get("args", []))
            if info.get("avoid"):
                cmd += ["--avoid", ",".join(info["avoid"])]
            p = subprocess.run(["timeout", "1800"] + cmd, env=vlib.run_env())
            if p.returncode != 0:
                print("recorder failed again with exit %d (seed %s): violation reproduced" % (p.returncode, info["seed"]))
                return 1
        r = vlib.tlc(trace_spec, cfg, workers=1, timeout=1800, env={"TRACE": trace}, xss="512m")
        if r.rc == 0:
            print("trace accepted by %s" % trace_spec)
            return 0
        if r.violated() is None:
            print(r.tail(40))
            return 2
        print("trace rejected by %s near event %d: %s" % (trace_spec, r.depth, vlib._nth_line(trace, r.depth)))
        return 1
    finally:
        shutil.rmtree(tmp, ignore_errors=True)


def replay(path):
    lib = vlib.build_lib("asan")
    if os.path.basename(path).startswith("rec-") or path.endswith(".ndjson"):
        return _replay_recorded(path, lib, "c08_record", ["c08_record.cpp"], "Trace_Utf", "Trace_Utf")
    rep = vlib.build_harness(lib, "c08_replay", ["c08_replay.cpp"])
    r = subprocess.run([rep, "--single", path], env=vlib.run_env())
    return 1 if r.returncode == 1 else (0 if r.returncode == 0 else 2)
