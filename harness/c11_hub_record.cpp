// C11 (growth) recorder (V): concurrent runs of a real WebSocketServer (bind + start(true): the library's accept thread and one
// thread per connection) with N library clients (one thread each) over loopback, validated by spec/Trace_WsHub.tla.
//
// A round: N clients connect; on every connection both ends run an actor in its own thread: it sends its messages (random
// sizes across the 125/126 and 65535/65536 header boundaries, large ones in one direction per connection), the client also
// pings, both read with wait(t) / closed() / receive(); a broadcaster thread sends to everybody through clients() under
// mutex(); each end finishes with a "bye" message; then one end (random) calls close() - with nothing unread, so that TCP
// closes gracefully - and the other end must get everything sent before the close and then see closed().  Some closers call
// send() once more after close().  Events (one ndjson line each, written under a mutex, so the file is a linearisation):
//   conn   {c}                 connect() is about to be called            open {c, ok}     it returned
//   sreg   {c}                 serve() running, hello received             sunreg {c}       serve() about to return
//   snd    {c, d, k, len, h}   a send is about to be made in direction d (k: "m" message, "p" ping)   sndd {c, d}  it returned
//   rcv    {c, d, len, h, cl}  receive() returned (len 0: an empty message; cl: closed() afterwards)
//   wb     {c, s, t}           wait(t ms) about to be called by end s      we {c, s, r}     it returned r
//   cls    {c, s}              close() about to be called                  clsd {c, s}      it returned
//   sndx   {c, s, len}         send() after close()
//   seen   {c, s}              closed() returned true at an end that did not close itself
//   cntb / cnte {v}            clients().length() read under mutex()
//   chs    {key, accept, variant, ok}   connect() against a raw server that answers with the given accept value
#include "c11_conn.h"
#include "vrec.h"
#include <signal.h>

using namespace c11;
using namespace vrec;

static Log* LOG;
static pthread_mutex_t logMutex = PTHREAD_MUTEX_INITIALIZER;
static int g_mode = 0;
static int g_fail = 0;

static void logLine(const std::string& s)
{
	pthread_mutex_lock(&logMutex);
	LOG->line(s);
	pthread_mutex_unlock(&logMutex);
}

static std::string limbs(unsigned long long h)
{
	char b[96];
	snprintf(b, sizeof b, "[%llu,%llu,%llu,%llu]", (h >> 48) & 0xffff, (h >> 32) & 0xffff, (h >> 16) & 0xffff, h & 0xffff);
	return b;
}

static std::string ev(const char* e, int c) { return std::string("{\"e\":\"") + e + "\"," + kv("c", c); }

// message bytes: a 16-byte tag (connection, direction, number) followed by a (len, seed) payload
static std::string makeMsg(int conn, char dir, int seq, long len, long seed)
{
	char tag[32];
	int n = snprintf(tag, sizeof tag, "%08d%c%06d|", conn, dir, seq);
	std::string s(tag, (size_t)n);
	if ((long)s.size() > len) s.resize((size_t)len);
	else expand(s, len - (long)s.size(), seed);
	return s;
}

static long pickLen(Rng& r, bool big)
{
	int k = r.below(100);
	if (!big) return k < 30 ? r.range(1, 16) : k < 60 ? r.range(120, 132) : r.range(1, 4000);
	if (k < 15) return r.range(1, 16);
	if (k < 40) return r.range(120, 132);
	if (k < 70) return r.range(65528, 65544);
	if (k < 90 || g_mode == 0) return r.range(1, 70000);
	return r.range(70000, 300000);
}

struct Plan
{
	int conn;               // connection id (unique in the file)
	bool clientCloses, sendAfterClose, pings, bigFromClient;
	std::vector<std::pair<long, long> > cs, sc; // (len, seed) of the messages of each direction, without the bye
	int nbroadcast;
	uint64_t seedC, seedS;
};

struct Round;
static Round* g_round = 0;

struct Actor
{
	WebSocket* ws;
	Plan* plan;
	bool isClient;
	Rng rng;
	Mutex* sendLock; // the server's mutex(): server-side sends are serialised with the broadcaster
	volatile bool* broadcastsDone;
	Actor(WebSocket* w, Plan* p, bool cl, uint64_t seed) : ws(w), plan(p), isClient(cl), rng(seed), sendLock(0), broadcastsDone(0) {}
	const char* outDir() const { return isClient ? "cs" : "sc"; }
	const char* inDir() const { return isClient ? "sc" : "cs"; }
	const char* side() const { return isClient ? "c" : "s"; }

	void sendMsg(const std::string& m, int seq)
	{
		if (sendLock) sendLock->lock();
		logLine(ev("snd", plan->conn) + ",\"d\":\"" + outDir() + "\",\"k\":\"m\"," + kv("len", (long long)m.size()) + ",\"h\":" + limbs(fnv64((const unsigned char*)m.data(), m.size())) + "}");
		if (seq % 2) ws->send(ByteArray((const byte*)m.data(), (int)m.size()));
		else ws->send(String(m.data(), (int)m.size()));
		logLine(ev("sndd", plan->conn) + ",\"d\":\"" + outDir() + "\"}");
		if (sendLock) sendLock->unlock();
	}
	void sendPing(int n)
	{
		std::string p;
		expand(p, 1 + n % 5, 40 + n);
		logLine(ev("snd", plan->conn) + ",\"d\":\"" + outDir() + "\",\"k\":\"p\"," + kv("len", (long long)p.size()) + ",\"h\":" + limbs(0) + "}");
		ws->send((const byte*)p.data(), (int)p.size(), WebSocket::FRAME_PING);
		logLine(ev("sndd", plan->conn) + ",\"d\":\"" + outDir() + "\"}");
	}
	// one wait + (closed / receive); returns 0 nothing, 1 message (in msg), 2 empty return, 3 the peer has closed
	int readStep(int timeoutMs, std::string& msg)
	{
		logLine(ev("wb", plan->conn) + ",\"s\":\"" + side() + "\"," + kv("t", timeoutMs) + "}");
		bool r = ws->wait(timeoutMs / 1000.0);
		logLine(ev("we", plan->conn) + ",\"s\":\"" + side() + "\",\"r\":" + (r ? "true" : "false") + "}");
		if (!r) return 0;
		if (ws->closed())
		{
			logLine(ev("seen", plan->conn) + ",\"s\":\"" + side() + "\"}");
			return 3;
		}
		WebSocketMsg m = ws->receive();
		int n = m.length();
		bool cl = false;
		if (n <= 0) cl = ws->closed();
		unsigned long long h = n > 0 ? fnv64((const unsigned char*)*m, (size_t)n) : 0;
		logLine(ev("rcv", plan->conn) + ",\"d\":\"" + inDir() + "\"," + kv("len", n) + ",\"h\":" + limbs(h) + ",\"cl\":" + (cl ? "true" : "false") + "}");
		if (n < 0) { g_fail = 1; return 3; }
		if (n == 0) return cl ? 3 : 2;
		msg.assign(*m, (size_t)n);
		return 1;
	}
	std::string byeMsg(bool mineNotPeers) const
	{
		bool c = mineNotPeers ? isClient : !isClient;
		return makeMsg(plan->conn, c ? 'C' : 'S', 0, 16, 0) + "bye";
	}
	void run()
	{
		const std::vector<std::pair<long, long> >& mine = isClient ? plan->cs : plan->sc;
		size_t next = 0;
		int pingsSent = 0, emptyReturns = 0, pingBudget = (isClient && plan->pings) ? rng.range(1, 3) : 0;
		bool byeSent = false, byeSeen = false, peerClosed = false;
		double t0 = nowSec();
		while (!(byeSent && byeSeen) && !peerClosed)
		{
			if (nowSec() - t0 > 60.0) { g_fail = 2; return; }
			bool msgsLeft = next < mine.size(), pingsLeft = pingsSent < pingBudget;
			// every pong must be back before the bye, so that nothing is on its way to an end that is about to close
			bool pongsBack = emptyReturns >= pingsSent;
			bool others = isClient || !broadcastsDone || *broadcastsDone; // the server end's bye comes after the last broadcast
			bool canBye = !byeSent && !msgsLeft && !pingsLeft && pongsBack && others;
			if ((msgsLeft || pingsLeft || canBye) && rng.chance(60))
			{
				if (msgsLeft && (!pingsLeft || rng.chance(70)))
				{
					sendMsg(makeMsg(plan->conn, isClient ? 'C' : 'S', (int)next + 1, mine[next].first, mine[next].second), (int)next);
					next++;
				}
				else if (pingsLeft) sendPing(++pingsSent);
				else { sendMsg(byeMsg(true), 0); byeSent = true; }
				continue;
			}
			// read: a long wait when something is certainly on its way (the peer's bye, a pong), else a short probe
			bool due = byeSent || (!msgsLeft && !pingsLeft && !pongsBack);
			int t = due ? 3000 : rng.chance(50) ? 0 : rng.range(1, 15);
			std::string m;
			int r = readStep(t, m);
			if (r == 1 && m == byeMsg(false)) byeSeen = true;
			else if (r == 2) emptyReturns++;
			else if (r == 3) peerClosed = true;
		}
		if (peerClosed) return; // (not in this protocol before both byes; recorded as it happened, the specification decides)
		if (plan->clientCloses == isClient)
		{
			logLine(ev("cls", plan->conn) + ",\"s\":\"" + side() + "\"}");
			ws->close();
			logLine(ev("clsd", plan->conn) + ",\"s\":\"" + side() + "\"}");
			if (plan->sendAfterClose)
			{
				logLine(ev("sndx", plan->conn) + ",\"s\":\"" + side() + "\"," + kv("len", 21) + "}");
				ws->send(String("sent after close ...."));
			}
		}
		else
		{
			// the documented loop until the peer's close is seen
			for (;;)
			{
				if (nowSec() - t0 > 90.0) { g_fail = 3; return; }
				std::string m;
				if (readStep(3000, m) == 3) break;
			}
		}
	}
};

struct Round
{
	std::vector<Plan> plans;
	pthread_mutex_t mu;
	std::map<int, WebSocket*> registered; // conn id -> server-side object (under the server's mutex())
	volatile bool broadcastsDone;
	int nreg;
	Round() : broadcastsDone(false), nreg(0) { pthread_mutex_init(&mu, 0); }
	Plan* find(int conn)
	{
		for (size_t i = 0; i < plans.size(); i++)
			if (plans[i].conn == conn) return &plans[i];
		return 0;
	}
};

struct HubServer : public WebSocketServer
{
	int port;
	void serve(WebSocket& ws)
	{
		// the first message names the connection
		int conn = -1;
		for (int i = 0; i < 100 && conn < 0; i++)
		{
			if (!ws.wait(5.0) || ws.closed()) return;
			WebSocketMsg m = ws.receive();
			if (m.length() >= 14 && memcmp(*m, "hello ", 6) == 0) conn = atoi(*m + 6);
		}
		Round* R = g_round;
		Plan* p = R ? R->find(conn) : 0;
		if (!p) return;
		{
			Lock l(mutex());
			R->registered[conn] = &ws;
			R->nreg++;
		}
		logLine(ev("sreg", conn) + "}");
		Actor a(&ws, p, false, p->seedS);
		a.sendLock = &mutex();
		a.broadcastsDone = &R->broadcastsDone;
		a.run();
		{
			Lock l(mutex());
			R->registered.erase(conn);
		}
		logLine(ev("sunreg", conn) + "}");
	}
};

static HubServer* g_srv = 0;

struct ClientThread
{
	Plan* plan;
	pthread_t th;
	static void* run(void* p)
	{
		ClientThread* self = (ClientThread*)p;
		Plan* pl = self->plan;
		WebSocket ws;
		char url[64];
		snprintf(url, sizeof url, "ws://127.0.0.1:%d/r%d", g_srv->port, pl->conn);
		logLine(ev("conn", pl->conn) + "}");
		bool ok = ws.connect(url);
		logLine(ev("open", pl->conn) + ",\"ok\":" + (ok ? "true" : "false") + "}");
		if (!ok) { g_fail = 4; return 0; }
		char hello[32];
		snprintf(hello, sizeof hello, "hello %08d", pl->conn);
		ws.send(String(hello)); // (not part of the validated traffic: it tells the server end which connection it is)
		Actor a(&ws, pl, true, pl->seedC);
		a.run();
		return 0;
	}
};

static void countEvent()
{
	logLine("{\"e\":\"cntb\"}");
	int v;
	{
		Lock l(g_srv->mutex());
		v = g_srv->clients().length();
	}
	logLine(std::string("{\"e\":\"cnte\",") + kv("v", v) + "}");
}

static void* broadcaster(void* p)
{
	Round* R = (Round*)p;
	int n = (int)R->plans.size(), B = R->plans[0].nbroadcast;
	// wait until everybody is registered
	for (int i = 0; i < 20000; i++)
	{
		int k;
		{ Lock l(g_srv->mutex()); k = R->nreg; }
		if (k >= n) break;
		usleep(500);
	}
	for (int b = 0; b < B; b++)
	{
		std::string m = makeMsg(0, 'B', b + 1, 16 + 37 * b + (b % 2 ? 110 : 0), 200 + b);
		{
			Lock l(g_srv->mutex());
			const Array<WebSocket*>& cs = g_srv->clients();
			for (int i = 0; i < cs.length(); i++)
			{
				int conn = -1;
				for (std::map<int, WebSocket*>::iterator it = R->registered.begin(); it != R->registered.end(); ++it)
					if (it->second == cs[i]) conn = it->first;
				if (conn < 0) continue;
				logLine(ev("snd", conn) + ",\"d\":\"sc\",\"k\":\"m\"," + kv("len", (long long)m.size()) + ",\"h\":" + limbs(fnv64((const unsigned char*)m.data(), m.size())) + "}");
				cs[i]->send(String(m.data(), (int)m.size()));
				logLine(ev("sndd", conn) + ",\"d\":\"sc\"}");
			}
		}
		countEvent();
		usleep(300);
	}
	R->broadcastsDone = true;
	return 0;
}

static int g_nextConn = 1;

static void runRound(Rng& rng)
{
	Round R;
	int n = g_mode == 0 ? rng.range(1, 8) : rng.range(1, 24);
	int B = rng.chance(60) ? rng.range(1, 3) : 0;
	for (int i = 0; i < n; i++)
	{
		Plan p;
		p.conn = g_nextConn++;
		p.clientCloses = rng.chance(50);
		p.sendAfterClose = rng.chance(40);
		p.pings = B == 0 && rng.chance(60); // (no pings while a broadcaster shares the server ends: an automatic pong is not under mutex())
		p.bigFromClient = rng.chance(50);
		int a = rng.range(0, 6), b = rng.range(0, 6);
		for (int k = 0; k < a; k++) p.cs.push_back(std::make_pair(pickLen(rng, p.bigFromClient), (long)rng.below(256)));
		for (int k = 0; k < b; k++) p.sc.push_back(std::make_pair(pickLen(rng, !p.bigFromClient), (long)rng.below(256)));
		p.nbroadcast = B;
		p.seedC = rng.next();
		p.seedS = rng.next();
		R.plans.push_back(p);
	}
	g_round = &R;
	logLine(std::string("{\"e\":\"round\",") + kv("n", n) + "," + kv("b", B) + "}");
	std::vector<ClientThread> cts((size_t)n);
	pthread_t bt;
	bool haveB = B > 0;
	if (haveB && pthread_create(&bt, 0, broadcaster, &R) != 0) { perror("pthread_create"); exit(2); }
	if (!haveB) R.broadcastsDone = true;
	for (int i = 0; i < n; i++)
	{
		cts[(size_t)i].plan = &R.plans[(size_t)i];
		if (pthread_create(&cts[(size_t)i].th, 0, ClientThread::run, &cts[(size_t)i]) != 0) { perror("pthread_create"); exit(2); }
		if (rng.chance(30)) countEvent();
	}
	for (int i = 0; i < n; i++) pthread_join(cts[(size_t)i].th, 0);
	if (haveB) pthread_join(bt, 0);
	// every serve() returns once its connection is over: clients() must become empty
	int v = -1;
	for (int i = 0; i < 20000; i++)
	{
		{ Lock l(g_srv->mutex()); v = g_srv->clients().length(); }
		if (v == 0) break;
		usleep(500);
	}
	logLine(std::string("{\"e\":\"roundend\",") + kv("v", v) + "}");
	g_round = 0;
}

// ---- chs: connect() against a raw server; the accept value is right, wrong or missing ----------------------------------------
static void evChs(Rng& rng)
{
	RawAcceptor* acc = theAcceptor();
	RawAcceptor::Job job;
	int variant = rng.below(4); // 0, 1: right   2: another key's accept value   3: no accept header
	if (variant == 2) job.response = "HTTP/1.1 101 Switching Protocols\r\nUpgrade: websocket\r\nConnection: Upgrade\r\nSec-WebSocket-Accept: s3pPLMBiTxaQ9kYGzzhZRbK+xOo=\r\n\r\n";
	if (variant == 3) job.response = "HTTP/1.1 101 Switching Protocols\r\nUpgrade: websocket\r\nConnection: Upgrade\r\n\r\n";
	acc->start(job);
	bool ok;
	{
		WebSocket ws;
		char url[64];
		snprintf(url, sizeof url, "ws://127.0.0.1:%d/k%d", acc->port, rng.below(1000));
		ok = ws.connect(url);
		ws.close();
	}
	acc->join(job);
	if (job.fd >= 0) close(job.fd);
	std::string sent = variant <= 1 ? acceptFor(job.key) : variant == 2 ? std::string("s3pPLMBiTxaQ9kYGzzhZRbK+xOo=") : std::string();
	logLine("{\"e\":\"chs\",\"key\":" + vj::codes(job.key) + ",\"accept\":" + vj::codes(sent) + "," + kv("variant", variant) + ",\"ok\":" + (ok ? "true" : "false") + "}");
}

static void onAlarm(int)
{
	const char m[] = "\nc11_hub_record: a round did not finish within 120 s\n";
	if (write(2, m, sizeof m - 1)) {}
	_exit(96);
}

int main(int argc, char** argv)
{
	Args args(argc, argv);
	Rng rng(args.seed);
	Log log(args.out);
	LOG = &log;
	g_mode = args.mode;
	bool avoidAccept = args.avoid.count("ClientAcceptUnchecked") > 0;
	signal(SIGPIPE, SIG_IGN);
	signal(SIGALRM, onAlarm);
	g_srv = new HubServer;
	g_srv->port = bindFreePort(g_srv);
	g_srv->start(true);
	logLine("{\"e\":\"reset\"}");
	while (log.lines < args.events && !g_fail)
	{
		alarm(120);
		if (rng.chance(25))
		{
			if (!avoidAccept) evChs(rng);
		}
		else runRound(rng);
		alarm(0);
	}
	if (g_fail)
	{
		fprintf(stderr, "c11_hub_record: run aborted (%s)\n", g_fail == 1 ? "negative length" : g_fail == 2 ? "an exchange did not finish within 60 s: something sent never arrived" :
		        g_fail == 3 ? "the peer's close was not seen within 30 s" : "connect() to the server failed");
		return 1;
	}
	return 0;
}
