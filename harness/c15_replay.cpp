// C15 replayer (R): runs the cases TLC generates from spec/MC_Codecs.tla (inputs + the values Codecs.tla prescribes) on
// asl's encodeBase64/decodeBase64, encodeHex/decodeHex, Url::encode/decode/params/parseQuery and SHA1::hash under ASan.
// Every expected value in a case was computed by TLC; this program only executes, projects and compares.
#include "c15_common.h"
#include "vrun.h"

using vrun::Outcome;

#define FAIL(...) do { char _b[700]; snprintf(_b, sizeof _b, __VA_ARGS__); return Outcome::fail(_b); } while (0)
#define EXPECT_BYTES(got, want, what) do { std::string _g = (got), _w = (want); if (_g != _w) FAIL("%s: got %s, specification says %s (input %s)", what, show(_g).c_str(), show(_w).c_str(), show(in).c_str()); } while (0)

static Outcome lenBound(int len, long bound, const char* what, const std::string& in)
{
	if (len < 0) FAIL("%s returned an array/string of negative length %d (input %s)", what, len, show(in).c_str());
	if (len > bound) FAIL("%s returned length %d, above the bound %ld of the specification (input %s)", what, len, bound, show(in).c_str());
	return Outcome();
}

static Outcome caseBytes(const vj::Value& c)
{
	std::string in = c["in"].bytes();
	std::string b64 = c["b64"].bytes(), b64ws = c["b64ws"].bytes(), hex = c["hex"].bytes(), hexu = c["hexu"].bytes();
	ByteArray a = toBytes(in);
	// Base64
	EXPECT_BYTES(fromStr(encodeBase64(a)), b64, "encodeBase64(ByteArray)");
	EXPECT_BYTES(fromStr(encodeBase64(a.data(), a.length())), b64, "encodeBase64(ptr,n)");
	EXPECT_BYTES(fromBytes(decodeBase64(toStr(b64))), in, "decodeBase64(encoded text)");
	EXPECT_BYTES(fromBytes(decodeBase64(b64.c_str())), in, "decodeBase64(const char*)");
	EXPECT_BYTES(fromBytes(decodeBase64(toStr(b64ws))), in, "decodeBase64(text with interleaved white space)");
	{
		// the (pointer, length) overload decodes exactly the first n characters of a longer buffer
		std::string buf = b64 + "QUJDQUJD";
		EXPECT_BYTES(fromBytes(decodeBase64(buf.c_str(), (int)b64.size())), in, "decodeBase64(ptr, n) on a longer buffer");
	}
	if (b64.size() <= 24)
	{
		const char ws[] = { ' ', '\t', '\n', '\r' };
		for (size_t p = 0; p <= b64.size(); p++)
			for (int w = 0; w < 4; w++)
			{
				std::string t = b64.substr(0, p) + ws[w] + b64.substr(p);
				if (fromBytes(decodeBase64(toStr(t))) != in)
					FAIL("decodeBase64 with white space %d inserted at %d: got %s, specification says %s", (int)ws[w], (int)p,
					     show(fromBytes(decodeBase64(toStr(t)))).c_str(), show(in).c_str());
			}
	}
	// hex
	EXPECT_BYTES(fromStr(encodeHex(a)), hex, "encodeHex(ByteArray)");
	EXPECT_BYTES(fromStr(encodeHex(a.data(), a.length())), hex, "encodeHex(ptr,n)");
	EXPECT_BYTES(fromBytes(decodeHex(toStr(hex))), in, "decodeHex(lowercase text)");
	EXPECT_BYTES(fromBytes(decodeHex(toStr(hexu))), in, "decodeHex(uppercase text)");
	// percent-encoding (strings cannot hold NUL)
	if (c["nz"].b)
	{
		String s = toStr(in);
		EXPECT_BYTES(fromStr(encodeBase64(s)), b64, "encodeBase64(String)");
		for (int comp = 0; comp < 2; comp++)
		{
			String e = Url::encode(s, comp != 0);
			if (e.length() < s.length() || e.length() > 3 * s.length()) FAIL("Url::encode(mode %d) length %d for input length %d", comp, e.length(), s.length());
			EXPECT_BYTES(fromStr(Url::decode(e)), in, comp ? "Url::decode(Url::encode(s, true))" : "Url::decode(Url::encode(s, false))");
		}
		EXPECT_BYTES(fromStr(Url::decode(toStr(c["pc"].bytes()))), in, "Url::decode(component-mode text of the specification)");
		EXPECT_BYTES(fromStr(Url::decode(toStr(c["pu"].bytes()))), in, "Url::decode(URI-mode text of the specification)");
		EXPECT_BYTES(fromStr(Url::decode(toStr(c["pl"].bytes()))), in, "Url::decode(text with lowercase escapes)");
		EXPECT_BYTES(fromStr(Url::decode(toStr(c["pa"].bytes()))), in, "Url::decode(fully escaped text)");
	}
	Outcome o;
	o.nontrivial = in.size() >= 1;
	return o;
}

static Outcome caseSha(const vj::Value& c)
{
	std::string in = c["in"].bytes(), want = c["sha"].bytes();
	ByteArray a = toBytes(in);
	SHA1::Hash h = SHA1::hash(a);
	std::string got((const char*)&h[0], 20);
	EXPECT_BYTES(got, want, "SHA1::hash(ByteArray)");
	SHA1::Hash h2 = SHA1::hash((const byte*)in.data(), (int)in.size());
	EXPECT_BYTES(std::string((const char*)&h2[0], 20), want, "SHA1::hash(ptr,n)");
	if (!hasNul(in))
	{
		SHA1::Hash h3 = SHA1::hash(toStr(in));
		EXPECT_BYTES(std::string((const char*)&h3[0], 20), want, "SHA1::hash(String)");
	}
	Outcome o;
	o.nontrivial = in.size() >= 1;
	return o;
}

static Outcome caseText(const vj::Value& c, const std::string& k)
{
	std::string in = c["in"].bytes(), v = c["v"].bytes();
	bool ok = c["ok"].b;
	long bound = c["bound"].ll();
	Outcome o;
	o.nontrivial = in.size() >= 2;
	if (k == "b64t")
	{
		ByteArray r = decodeBase64(toStr(in));
		Outcome b = lenBound(r.length(), bound, "decodeBase64", in);
		if (!b.ok) return b;
		if (ok) EXPECT_BYTES(fromBytes(r), v, "decodeBase64(canonical text)");
		ByteArray r2 = decodeBase64(in.c_str());
		b = lenBound(r2.length(), bound, "decodeBase64(const char*)", in);
		if (!b.ok) return b;
		if (ok) EXPECT_BYTES(fromBytes(r2), v, "decodeBase64(const char*)");
		std::string buf = in + "QUJDQUJD";
		ByteArray r3 = decodeBase64(buf.c_str(), (int)in.size());
		b = lenBound(r3.length(), bound, "decodeBase64(ptr, n) on a longer buffer", in);
		if (!b.ok) return b;
		if (ok) EXPECT_BYTES(fromBytes(r3), v, "decodeBase64(ptr, n) on a longer buffer");
	}
	else if (k == "hext")
	{
		ByteArray r = decodeHex(toStr(in));
		Outcome b = lenBound(r.length(), bound, "decodeHex", in);
		if (!b.ok) return b;
		if (ok) EXPECT_BYTES(fromBytes(r), v, "decodeHex(valid text)");
	}
	else if (k == "pctt")
	{
		String r = Url::decode(toStr(in));
		Outcome b = lenBound(r.length(), bound, "Url::decode", in);
		if (!b.ok) return b;
		if (ok) EXPECT_BYTES(fromStr(r), v, "Url::decode(valid text)");
	}
	return o;
}

static Outcome caseQuery(const vj::Value& c)
{
	std::string in = c["in"].bytes();
	Dic<> q = Url::parseQuery(toStr(in));
	if (q.length() < 0 || q.length() > c["bound"].ll()) FAIL("Url::parseQuery returned %d entries for a text of %d characters", q.length(), (int)in.size());
	if (c["ok"].b)
	{
		Pairs want = pairsOf(c["v"]), got = fromDic(q);
		if (got != want) FAIL("Url::parseQuery(%s): got %s, specification says %s", show(in).c_str(), showPairs(got).c_str(), showPairs(want).c_str());
	}
	Outcome o;
	o.nontrivial = in.size() >= 3;
	return o;
}

static Outcome caseDict(const vj::Value& c)
{
	Pairs want = pairsOf(c["d"]);
	Dic<> d;
	for (size_t i = 0; i < want.size(); i++) d[toStr(want[i].first)] = toStr(want[i].second);
	String t = Url::params(d);
	Dic<> back = Url::parseQuery(t);
	if (fromDic(back) != want) FAIL("Url::parseQuery(Url::params(d)) = %s for d = %s (text %s)", showPairs(fromDic(back)).c_str(), showPairs(want).c_str(), show(fromStr(t)).c_str());
	Dic<> back2 = Url::parseQuery(toStr(c["text"].bytes()));
	if (fromDic(back2) != want) FAIL("Url::parseQuery(query text of the specification) = %s, specification says %s", showPairs(fromDic(back2)).c_str(), showPairs(want).c_str());
	Outcome o;
	o.nontrivial = want.size() >= 1;
	return o;
}

static Outcome runCase(const vj::Value& c)
{
	const std::string& k = c["k"].s();
	if (k == "bytes") return caseBytes(c);
	if (k == "sha") return caseSha(c);
	if (k == "b64t" || k == "hext" || k == "pctt") return caseText(c, k);
	if (k == "qry") return caseQuery(c);
	if (k == "dict") return caseDict(c);
	return Outcome::fail("harness: unknown case kind " + k);
}

int main(int argc, char** argv) { return vrun::run(argc, argv, runCase); }
