// Shared by the C04 replayer and recorder: path navigation on real asl::Var trees, execution of one specification-level
// call, the GrowWhileShared hazard predicate evaluated on the real rc()/cap(), and a few projection helpers.
// Values are described as in spec/VarHeap.tla: tag + integer (INT n; NUMBER/FLOAT in halves; STRING = index into the
// string table); selectors >= 0 are array indexes, selectors < 0 are minus the key id.
#ifndef C04_COMMON_H
#define C04_COMMON_H
#include <asl/Var.h>
#include <asl/Array.h>
#include <asl/Map.h>
#include <asl/String.h>
#include <string>
#include <vector>
#include <cmath>
#include <cstring>
using namespace asl;

struct Tables
{
	std::vector<std::string> strs; // 1-based ids
	std::vector<std::string> keys;
	const std::string& str(int id) const { return strs[(size_t)id - 1]; }
	const std::string& key(int id) const { return keys[(size_t)id - 1]; }
	int keyId(const String& k) const
	{
		for (size_t i = 0; i < keys.size(); i++)
			if ((int)keys[i].size() == k.length() && keys[i] == *k) return (int)i + 1;
		return 0;
	}
	int strId(const char* s) const
	{
		for (size_t i = 0; i < strs.size(); i++)
			if (strs[i] == s) return (int)i + 1;
		return 0;
	}
};

struct SVal { std::string t; int v; };

typedef std::vector<int> Path;

struct VarWorld
{
	std::vector<Var> roots; // 1-based
	Tables tb;
	explicit VarWorld(int nr) : roots((size_t)nr + 1) {}

	Var* slot(const Path& p)
	{
		Var* v = &roots[(size_t)p[0]];
		for (size_t i = 1; i < p.size(); i++)
		{
			if (p[i] >= 0) v = &(*v)[p[i]];
			else v = &(*v)[String(tb.key(-p[i]).c_str())];
		}
		return v;
	}
	const Var* cslot(const Path& p) const
	{
		const Var* v = &roots[(size_t)p[0]];
		for (size_t i = 1; i < p.size(); i++)
		{
			if (p[i] >= 0) v = &(*v)[p[i]];
			else v = &(*v)[String(tb.key(-p[i]).c_str())];
		}
		return v;
	}

	Var make(const SVal& x) const
	{
		if (x.t == "none") return Var();
		if (x.t == "nul") return Var(Var::NUL);
		if (x.t == "bool") return Var(x.v != 0);
		if (x.t == "int") return Var(x.v);
		if (x.t == "num") return Var(x.v / 2.0);
		if (x.t == "flt") return Var((float)(x.v / 2.0));
		return Var(tb.str(x.v).c_str());
	}
	// typed assignment; `alt` rotates between the overloads that reach the same value
	void assignScalar(Var& d, const SVal& x, int alt) const
	{
		if (alt % 3 == 2) { d = make(x); return; } // through a temporary Var: operator=(const Var&)
		if (x.t == "none") d = Var();
		else if (x.t == "nul") d = Var::NUL;
		else if (x.t == "bool") d = (x.v != 0);
		else if (x.t == "int") { if (alt % 3 == 0) d = x.v; else d = (long)x.v; }
		else if (x.t == "num") d = x.v / 2.0;
		else if (x.t == "flt") d = (float)(x.v / 2.0);
		else if (alt % 3 == 0) d = tb.str(x.v).c_str();
		else d = String(tb.str(x.v).c_str());
	}
	void assignNew(Var& d, int shape, int alt) const
	{
		if (shape == 0) { if (alt & 1) d = Var(Var::ARRAY); else d = Array<Var>(); }
		else if (shape == 1) { if (alt & 1) d = Var(Var::OBJ); else d = Dic<Var>(); }
		else if (shape == 2)
		{
			if (alt % 4 == 2) { d = (Var(), 1, 2, 3); return; }        // pseudo-literal built with operator,
			if (alt % 4 == 3)                                            // C++11 initializer lists
			{
				if (alt & 4) d = { 1, 2, 3 }; else if (alt & 8) d = Var::array({ 1, 2, 3 }); else { Var t = { 1, 2, 3 }; d = t; }
				return;
			}
			Array<Var> a;
			a << Var(1) << Var(2) << Var(3);
			if (alt & 1) d = Var(a); else d = a;
		}
		else
		{
			if (alt % 4 == 2)                                            // pseudo-literal built with Var(key, value)(key, value)...
			{
				d = Var(String(tb.key(1).c_str()), Var(1))(tb.key(2).c_str(), 2)(String(tb.key(3).c_str()), 3);
				return;
			}
			if (alt % 4 == 3)                                            // C++11 initializer list of key-value pairs
			{
				const char* k1 = tb.key(1).c_str();
				const char* k2 = tb.key(2).c_str();
				const char* k3 = tb.key(3).c_str();
				if (alt & 4) d = { { k3, 3 }, { k1, 1 }, { k2, 2 } }; else { Var t{ { k1, 1 }, { k2, 2 }, { k3, 3 } }; d = t; }
				return;
			}
			Dic<Var> o;
			for (int k = 1; k <= 3; k++) o[String(tb.key(k).c_str())] = k;
			if (alt & 1) d = Var(o); else d = o;
		}
	}
	// Var(Array<T>) / Var(Dic<T>) / var = Array<T> / var = Dic<T>; the element values are the specification's TypedVals
	template <class T, class G>
	void typedOf(Var& d, bool arr, int n, G get, int alt) const
	{
		if (arr)
		{
			Array<T> a;
			for (int j = 0; j < n; j++) a << get(j);
			if (alt & 1) d = Var(a); else d = a;
		}
		else
		{
			Dic<T> o;
			for (int j = 0; j < n; j++) o[String(tb.key(j + 1).c_str())] = get(j);
			if (alt & 1) d = Var(o); else d = o;
		}
	}
	struct GetI { const std::vector<int>& v; int operator()(int j) const { return v[(size_t)j]; } };
	struct GetD { const std::vector<int>& v; double operator()(int j) const { return v[(size_t)j] / 2.0; } };
	struct GetF { const std::vector<int>& v; float operator()(int j) const { return (float)(v[(size_t)j] / 2.0); } };
	struct GetB { const std::vector<int>& v; bool operator()(int j) const { return v[(size_t)j] != 0; } };
	struct GetS { const std::vector<int>& v; const Tables& tb; String operator()(int j) const { return String(tb.str(v[(size_t)j]).c_str()); } };
	void assignTyped(Var& d, const std::string& kind, const std::string& T, int n, const std::vector<int>& vals, int alt) const
	{
		bool arr = kind == "arr";
		if (T == "int") { GetI g = { vals }; typedOf<int>(d, arr, n, g, alt); }
		else if (T == "num") { GetD g = { vals }; typedOf<double>(d, arr, n, g, alt); }
		else if (T == "flt") { GetF g = { vals }; typedOf<float>(d, arr, n, g, alt); }
		else if (T == "bool") { GetB g = { vals }; typedOf<bool>(d, arr, n, g, alt); }
		else { GetS g = { vals, tb }; typedOf<String>(d, arr, n, g, alt); }
	}
	// Var(Var::Type) / var = Var::Type
	void assignKind(Var& d, int c, int alt) const
	{
		if (alt & 1) d = Var((Var::Type)c); else d = (Var::Type)c;
	}
	// the C++ number types that have no entry in the scalar table
	void assignC(Var& d, const std::string& ct, int n, int alt) const
	{
		bool ctor = (alt & 1) != 0;
		if (ct == "char") { if (ctor) d = Var((char)n); else d = (char)n; }
		else if (ct == "unsigned") { if (ctor) d = Var((unsigned)n); else d = (unsigned)n; }
		else if (ct == "long") { if (ctor) d = Var((long)n); else d = (long)n; }
		else if (ct == "ulong") { if (ctor) d = Var((unsigned long)n); else d = (unsigned long)n; }
		else if (ct == "Long") { if (ctor) d = Var((Long)n); else d = (Long)n; }
		else { if (ctor) d = Var((ULong)n); else d = (ULong)n; }
	}
};

// rc / cap of the storage behind a container Var, through the public accessors (the copies taken here count once)
inline void storageOf(const Var& v, int& rc, int& cap, int& len, const void*& ptr)
{
	rc = 0; cap = 0; len = 0; ptr = 0;
	if (v.type() == Var::ARRAY)
	{
		Array<Var> t = v.array();
		rc = t.rc() - 1; cap = t.cap(); len = t.length(); ptr = t.data();
	}
	else if (v.type() == Var::OBJ)
	{
		Dic<Var> t = v.object();
		rc = t.kv().rc() - 1; cap = t.kv().cap(); len = t.length(); ptr = t.kv().data();
	}
}
// GrowWhileShared: the call needs `need` elements in storage that holds `cap` and that other Vars share
inline bool growHazard(const Var& v, int need)
{
	int rc, cap, len;
	const void* p;
	storageOf(v, rc, cap, len, p);
	return rc > 1 && need > cap;
}

#endif
