// C17 recorder (V): seeded random driver of File / TextFile / Directory::copy,move working in a private scratch directory.
// It follows the usage discipline of spec/FileModel.tla (other objects write a path only while the long-lived object h
// is closed; a path is read back only when h holds no unflushed data) and logs one ndjson event per public call with
// arguments and results, byte strings run-length coded.  Sizes: 0..600 bytes mostly, around the 255-byte line chunk
// (253..256, 508..511), around the 65536-byte copy block and up to 200000 bytes; texts with LF / CR LF / lone CR, lines
// of 0..2000 characters, with and without a final newline; BOM-prefixed UTF-8 / UTF-16LE / UTF-16BE files of random
// scalar values.  The long-lived object is also asked itself ("hq": size, exists, isFile, content, firstBytes, text, lines,
// readLine loop) between its own writes, closes and reopens.  Every read-back is accompanied by a "disk" event: the file as plain POSIX read() finds it.
// spec/Trace_FileModel.tla recomputes every expected result from the logged arguments.
#include "c17_common.h"
#include "vrec.h"

using namespace vrec;
using namespace c17;

static TmpDir* g_tmpdir = 0;
static void die(const std::string& msg)
{
	fprintf(stderr, "VREC-FAIL: %s\n", msg.c_str());
	fflush(stderr);
	if (g_tmpdir) rmTree(g_tmpdir->path);
	_exit(3);
}

static const int EDGE[] = { 0, 1, 2, 3, 253, 254, 255, 256, 257, 508, 509, 510, 511, 1000, 2000 };
static const int BIGEDGE[] = { 65535, 65536, 65537, 65536 + 255, 131072, 131073, 200000 };

static int pickLen(Rng& rng, int scale)
{
	if (scale == 2 && rng.chance(50)) return BIGEDGE[rng.below(7)] - (rng.chance(30) ? rng.below(300) : 0);
	if (scale >= 1 && rng.chance(40)) return rng.chance(50) ? EDGE[rng.below(15)] : rng.below(2100);
	return rng.chance(35) ? EDGE[rng.below(9)] % 300 : rng.below(40);
}

// binary data of length n: runs of random bytes (NUL and 255 included), occasionally fully random for short data
static std::string genBin(Rng& rng, int n)
{
	std::string s;
	bool noisy = n <= 64 && rng.chance(60);
	while ((int)s.size() < n)
	{
		int left = n - (int)s.size();
		int k = noisy ? 1 : rng.chance(30) ? 1 : rng.range(1, left < 70000 ? left : 70000);
		if (k > left) k = left;
		int b = rng.chance(15) ? 0 : rng.chance(10) ? 255 : rng.chance(10) ? 10 : rng.below(256);
		s.append((size_t)k, (char)b);
	}
	return s;
}

// NUL-free text of about n bytes: lines of edge lengths, LF / CR LF / lone CR, with or without a final newline
static std::string genText(Rng& rng, int n)
{
	std::string s;
	while ((int)s.size() < n)
	{
		int left = n - (int)s.size();
		int len = rng.chance(50) ? EDGE[rng.below(15)] : rng.below(80);
		if (len > left) len = left;
		if (rng.chance(75)) s.append((size_t)len, (char)('a' + rng.below(26)));
		else for (int i = 0; i < len; i++) s += (char)(rng.chance(5) ? rng.range(128, 255) : rng.range(32, 126));
		int t = rng.below(10);
		if ((int)s.size() >= n && rng.chance(50)) break; // no final newline
		if (t < 5) s += '\n';
		else if (t < 8) s += "\r\n";
		else if (t < 9) s += '\r';
		else s += "\r\r\n";
	}
	return s;
}

static void enc8(std::string& o, unsigned c)
{
	if (c < 0x80) o += (char)c;
	else if (c < 0x800) { o += (char)(0xC0 | (c >> 6)); o += (char)(0x80 | (c & 63)); }
	else if (c < 0x10000) { o += (char)(0xE0 | (c >> 12)); o += (char)(0x80 | ((c >> 6) & 63)); o += (char)(0x80 | (c & 63)); }
	else { o += (char)(0xF0 | (c >> 18)); o += (char)(0x80 | ((c >> 12) & 63)); o += (char)(0x80 | ((c >> 6) & 63)); o += (char)(0x80 | (c & 63)); }
}
static void unit16(std::string& o, unsigned u, bool le)
{
	if (le) { o += (char)(u & 255); o += (char)(u >> 8); }
	else { o += (char)(u >> 8); o += (char)(u & 255); }
}
// a BOM-prefixed file of random non-zero scalar values (no CR LF pair: text() folds those in UTF-16 files by design)
static std::string genEncoded(Rng& rng, int nscalars)
{
	static const unsigned EDGES[] = { 1, 9, 10, 13, 32, 65, 127, 128, 233, 2047, 2048, 8364, 55295, 57344, 65279, 65533, 65535, 65536, 128512, 1114111 };
	int enc = rng.below(3);
	std::string o = enc == 0 ? "\xef\xbb\xbf" : enc == 1 ? "\xff\xfe" : "\xfe\xff";
	unsigned prev = 0;
	for (int i = 0; i < nscalars; i++)
	{
		unsigned c;
		int k = rng.below(10);
		if (k < 4) c = EDGES[rng.below(20)];
		else if (k < 6) c = (unsigned)rng.range(32, 126);
		else if (k < 7) c = (unsigned)rng.range(128, 2047);
		else if (k < 9) { c = (unsigned)rng.range(2048, 65535); if (c >= 0xD800 && c <= 0xDFFF) c = 0xE000; }
		else c = (unsigned)rng.range(65536, 1114111);
		if (c == 10 && prev == 13) c = 11;
		prev = c;
		if (enc == 0) enc8(o, c);
		else if (c < 0x10000) unit16(o, c, enc == 1);
		else { unit16(o, 0xD800 + ((c - 0x10000) >> 10), enc == 1); unit16(o, 0xDC00 + ((c - 0x10000) & 1023), enc == 1); }
	}
	return o;
}

static bool nulFree(const std::string& s) { return s.find('\0') == std::string::npos; }
static bool textDefined(const std::string& b)
{
	bool u16 = b.size() >= 2 && (((unsigned char)b[0] == 0xff && (unsigned char)b[1] == 0xfe) || ((unsigned char)b[0] == 0xfe && (unsigned char)b[1] == 0xff));
	if (!u16) return nulFree(b);
	// UTF-16: no zero unit, and well-formed surrogate pairs (text() is specified for encodings of scalar values; bytes
	// appended to such a file by the text calls generally are not)
	bool le = (unsigned char)b[0] == 0xff;
	bool wantTrail = false;
	for (size_t i = 2; i + 1 < b.size(); i += 2)
	{
		unsigned u = le ? (unsigned char)b[i] | ((unsigned char)b[i + 1] << 8) : (unsigned char)b[i + 1] | ((unsigned char)b[i] << 8);
		if (u == 0) return false;
		bool lead = u >= 0xD800 && u <= 0xDBFF, trail = u >= 0xDC00 && u <= 0xDFFF;
		if (wantTrail != trail) return false;
		wantTrail = lead;
	}
	return !wantTrail;
}

struct Exec
{
	Rng& rng;
	Log& log;
	Paths P;
	TextFile h;
	std::string hmode; // mirror of the handle state, kept from POSIX facts and the calls made
	bool dirty, heof;
	long hpos;
	long hknown; // the file size h has been told by an earlier query and keeps until close() (-1: none); FileModel!hknown
	int bias;    // > 0: the next steps are calls on the long-lived object (query - write - close - query orders)
	int scale;

	Exec(Rng& r, Log& l, const std::string& dir, int sc) : rng(r), log(l), P(dir), h(toStr(P.p)), hmode("closed"), dirty(false), heof(false), hpos(0), hknown(-1), bias(0), scale(sc) {}

	bool freePath(const std::string& x) const { return x != "p" || hmode == "closed"; }
	bool settled(const std::string& x) const { return x != "p" || !dirty; }
	long sizeOnDisk(const std::string& x) const
	{
		struct stat st;
		return stat(P.of(x).c_str(), &st) == 0 ? (long)st.st_size : -1;
	}
	std::string pickXY() { return rng.chance(55) ? "p" : "q"; }

	void disk(const std::string& x)
	{
		std::string b;
		bool ex = posixRead(P.of(x), b);
		log.line("{\"op\":\"disk\"," + ks("x", x) + ",\"ex\":" + (ex ? "true" : "false") + ",\"r\":" + rle(b) + "}");
	}

	std::vector<std::string> toVec(const Array<String>& a)
	{
		std::vector<std::string> v;
		for (int i = 0; i < a.length(); i++) v.push_back(fromStr(a[i]));
		return v;
	}

	void observe(const std::string& x)
	{
		if (!settled(x)) { disk(x); return; }
		std::string path = P.of(x), b;
		bool ex = posixRead(path, b);
		int k = rng.below(ex ? 9 : 3);
		if (k == 0) disk(x);
		else if (k == 1) log.line("{\"op\":\"size\"," + ks("x", x) + "," + kv("r", (long long)File(toStr(path)).size()) + "}");
		else if (k == 2) log.line("{\"op\":\"content\"," + ks("x", x) + ",\"n\":0,\"r\":" + rle(fromBytes(File(toStr(path)).content())) + "}");
		else if (k == 3 || k == 4)
		{
			int n = rng.chance(30) ? (int)b.size() + rng.range(-2, 3) : rng.chance(50) ? pickLen(rng, scale) : rng.below((int)b.size() + 2);
			if (n < 0) n = 0;
			log.line("{\"op\":\"first\"," + ks("x", x) + "," + kv("n", n) + ",\"r\":" + rle(fromBytes(File(toStr(path)).firstBytes(n))) + "}");
		}
		else if (k == 5)
		{
			if (!textDefined(b)) { disk(x); return; }
			log.line("{\"op\":\"text\"," + ks("x", x) + ",\"n\":0,\"r\":" + rle(fromStr(TextFile(toStr(path)).text())) + "}");
		}
		else if (k == 6)
		{
			if (!nulFree(b)) { disk(x); return; }
			log.line("{\"op\":\"lines\"," + ks("x", x) + ",\"r\":" + rleList(toVec(TextFile(toStr(path)).lines())) + "}");
		}
		else
		{
			if (!nulFree(b)) { disk(x); return; }
			Array<String> ls;
			TextFile f(toStr(path), File::READ);
			if (k == 7) while (!f.end()) ls << f.readLine();
			else while (!f.end()) { String s; f.readLine(s); ls << s; }
			log.line("{\"op\":\"readlines\"," + ks("x", x) + ",\"r\":" + rleList(toVec(ls)) + "}");
		}
	}

	static bool hasBom(const std::string& b)
	{
		if (b.size() >= 2 && (((unsigned char)b[0] == 0xff && (unsigned char)b[1] == 0xfe) || ((unsigned char)b[0] == 0xfe && (unsigned char)b[1] == 0xff))) return true;
		return b.size() >= 3 && (unsigned char)b[0] == 0xef && (unsigned char)b[1] == 0xbb && (unsigned char)b[2] == 0xbf;
	}

	// a query through the long-lived object itself, in whatever state its own earlier queries, writes and closes left it
	// (FileModel!HQuery).  Within the discipline: no unflushed data; what h remembers about the file, if anything, still
	// describes it (otherwise exists() - which looks the file up afresh - is asked instead).
	void hquery()
	{
		if (!settled("p")) return;
		std::string b;
		bool ex = posixRead(P.p, b);
		long sz = ex ? (long)b.size() : -1;
		bool infoOK = hknown == -1 || hknown == sz;
		bool atStart = hmode == "closed" || (hmode == "r" && hpos == 0 && !heof);
		int k = rng.below(10);
		std::string head = "{\"op\":\"hq\",";
		// k: 0 exists, 1 2 size, 3 isFile, 4 5 content, 6 text, 7 firstBytes, 8 9 lines / readLine loop
		bool needsInfo = k >= 1 && k <= 6, needsStart = k >= 4 && k <= 7, needsClosed = k >= 8;
		if ((needsInfo && !infoOK) || (needsStart && !atStart) || (needsClosed && hmode != "closed")) k = infoOK && rng.chance(50) ? 2 : 0;
		if (k == 0)
		{
			bool r = h.exists();
			hknown = sz;
			log.line(head + ks("k", "exists") + ",\"n\":0," + kv("r", (long long)(r ? 1 : 0)) + "}");
		}
		else if (k == 1 || k == 2) { long long r = h.size(); hknown = sz; log.line(head + ks("k", "size") + ",\"n\":0," + kv("r", r) + "}"); }
		else if (k == 3) { bool r = h.isFile(); hknown = sz; log.line(head + ks("k", "isfile") + ",\"n\":0," + kv("r", (long long)(r ? 1 : 0)) + "}"); }
		else if (k == 4 || k == 5)
		{
			std::string r = fromBytes(h.content());
			hknown = sz;
			if (ex) { hmode = "r"; hpos = sz; heof = false; }
			log.line(head + ks("k", "content") + ",\"n\":0,\"r\":" + rle(r) + "}");
		}
		else if (k == 6)
		{
			if (!textDefined(b)) return;
			std::string r = fromStr(h.text());
			hknown = sz;
			if (ex) { hmode = "r"; hpos = sz; heof = hasBom(b); }
			log.line(head + ks("k", "text") + ",\"n\":0,\"r\":" + rle(r) + "}");
		}
		else if (k == 7)
		{
			int n = rng.chance(30) ? (int)b.size() + rng.range(-2, 3) : rng.chance(50) ? pickLen(rng, scale) : rng.below((int)b.size() + 2);
			if (n < 0) n = 0;
			std::string r = fromBytes(h.firstBytes(n));
			if (ex) { hmode = "r"; hpos = n < sz ? n : sz; heof = n > sz; }
			log.line(head + ks("k", "first") + "," + kv("n", n) + ",\"r\":" + rle(r) + "}");
		}
		else
		{
			if (!nulFree(b)) return;
			Array<String> ls;
			int v = rng.below(3);
			if (v == 0) ls = h.lines();
			else if (v == 1) while (!h.end()) ls << h.readLine();
			else while (!h.end()) { String s; h.readLine(s); ls << s; }
			if (ex) { hmode = "r"; hpos = sz; heof = true; }
			log.line(head + ks("k", v == 0 ? "lines" : "loop") + ",\"n\":0,\"r\":" + rleList(toVec(ls)) + "}");
		}
		if (bias == 0 && rng.chance(60)) bias = rng.range(2, 6);
	}

	void step()
	{
		int r = rng.below(110);
		if (bias > 0)
		{
			bias--;
			r = rng.chance(65) ? 37 + rng.below(35) : 84 + rng.below(15);
		}
		if (r < 14) // put through a temporary
		{
			std::string x = pickXY();
			if (!freePath(x)) return;
			int k = rng.below(10);
			std::string d, api;
			if (k < 3) { d = genBin(rng, pickLen(rng, scale)); api = "bin"; }
			else if (k < 5) { d = genEncoded(rng, rng.chance(20) ? 0 : rng.range(1, 120)); api = "bin"; }
			else { d = genText(rng, pickLen(rng, scale)); api = k == 5 ? "put" : k == 6 ? "write" : k == 7 ? "printf" : "shl"; }
			bool ok = true;
			if (api == "bin") ok = File(toStr(P.of(x))).put(toBytes(d));
			else if (api == "put") ok = TextFile(toStr(P.of(x))).put(toStr(d));
			else if (api == "write") ok = TextFile(toStr(P.of(x))).write(toStr(d));
			else if (api == "printf") ok = TextFile(toStr(P.of(x))).printf("%s", d.c_str());
			else if (rng.chance(50)) TextFile(toStr(P.of(x))) << toStr(d);
			else TextFile(toStr(P.of(x))) << d.c_str();
			if (!ok) die("put (" + api + ") returned false");
			log.line("{\"op\":\"put\"," + ks("x", x) + "," + ks("api", api) + ",\"d\":" + rle(d) + "}");
		}
		else if (r < 22) // append through a temporary
		{
			std::string x = pickXY();
			if (!freePath(x)) return;
			std::string d = genText(rng, pickLen(rng, scale > 1 ? 1 : scale));
			if (!TextFile(toStr(P.of(x))).append(toStr(d))) die("append returned false");
			log.line("{\"op\":\"append\"," + ks("x", x) + ",\"d\":" + rle(d) + "}");
		}
		else if (r < 25)
		{
			std::string x = pickXY();
			if (!freePath(x)) return;
			std::string d = genText(rng, pickLen(rng, 0)), d2 = genText(rng, pickLen(rng, scale > 1 ? 1 : scale));
			TextFile(toStr(P.of(x))) << toStr(d) << d2.c_str();
			log.line("{\"op\":\"stream\"," + ks("x", x) + ",\"d\":" + rle(d) + ",\"d2\":" + rle(d2) + "}");
		}
		else if (r < 27)
		{
			std::string x = rng.chance(40) ? "r" : pickXY();
			if (!freePath(x) || sizeOnDisk(x) < 0) return;
			bool ok = rng.chance(50) ? File(toStr(P.of(x))).remove() : Directory::remove(toStr(P.of(x)));
			if (!ok) die("remove returned false");
			log.line("{\"op\":\"remove\"," + ks("x", x) + "}");
		}
		else if (r < 37) // copy / move
		{
			bool mv = rng.chance(40);
			std::string x = pickXY(), y = x == "p" ? (rng.chance(35) ? "d" : "q") : "p";
			std::string land = y == "d" ? "r" : y;
			if (sizeOnDisk(x) < 0 || !freePath(land)) return;
			if (mv ? !freePath(x) : !settled(x)) return;
			bool ok;
			if (mv) ok = rng.chance(50) ? Directory::move(toStr(P.of(x)), toStr(P.of(y))) : File(toStr(P.of(x))).move(toStr(P.of(y)));
			else ok = rng.chance(50) ? Directory::copy(toStr(P.of(x)), toStr(P.of(y))) : File(toStr(P.of(x))).copy(toStr(P.of(y)));
			log.line(std::string("{\"op\":\"") + (mv ? "move" : "copy") + "\"," + ks("x", x) + "," + ks("y", y) + ",\"r\":" + (ok ? "true" : "false") + "}");
			disk(land);
		}
		else if (r < 45) // open
		{
			if (hmode != "closed") return;
			int m = rng.below(3);
			File::OpenMode mode = m == 0 ? File::READ : m == 1 ? File::WRITE : File::APPEND;
			bool ok = rng.chance(50) ? h.open(mode) : h.File::open(toStr(P.p), mode);
			log.line(std::string("{\"op\":\"open\",") + ks("m", m == 0 ? "r" : m == 1 ? "w" : "a") + ",\"r\":" + (ok ? "true" : "false") + "}");
			if (ok) { hmode = m == 0 ? "r" : m == 1 ? "w" : "a"; hpos = 0; heof = false; dirty = false; }
		}
		else if (r < 55) // write through the open object
		{
			if (hmode != "w" && hmode != "a") return;
			int k = rng.below(5);
			std::string d, api;
			if (k == 0) { d = genBin(rng, pickLen(rng, scale)); api = "bin"; }
			else { d = genText(rng, pickLen(rng, scale > 1 ? 1 : scale)); api = k == 1 ? "write" : k == 2 ? "shl" : k == 3 ? "append" : "bin"; }
			if (api == "bin")
			{
				if (rng.chance(50)) { if (h.File::write(d.data(), (int)d.size()) != (int)d.size()) die("write returned a short count"); }
				else static_cast<File&>(h) << toBytes(d);
			}
			else if (api == "write") { if (!h.write(toStr(d))) die("write returned false"); }
			else if (api == "shl") { if (rng.chance(50)) h << toStr(d); else h << d.c_str(); }
			else if (!h.append(toStr(d))) die("append returned false");
			dirty = true;
			log.line("{\"op\":\"hwrite\"," + ks("api", api) + ",\"d\":" + rle(d) + "}");
		}
		else if (r < 60) // put/write/append on the closed object (opens it)
		{
			if (hmode != "closed") return;
			int k = rng.below(3);
			std::string d, api;
			bool ok;
			if (k == 0) { d = genBin(rng, pickLen(rng, scale)); api = "put"; ok = h.File::put(toBytes(d)); }
			else if (k == 1)
			{
				d = genText(rng, pickLen(rng, scale));
				api = "write";
				int v = rng.below(3);
				ok = v == 0 ? h.write(toStr(d)) : v == 1 ? h.put(toStr(d)) : h.printf("%s", d.c_str());
			}
			else { d = genText(rng, pickLen(rng, scale > 1 ? 1 : scale)); api = "append"; ok = h.append(toStr(d)); }
			if (!ok) die("hput (" + api + ") returned false");
			hmode = api == "append" ? "a" : "w";
			hpos = 0;
			heof = false;
			dirty = true;
			log.line("{\"op\":\"hput\"," + ks("api", api) + ",\"d\":" + rle(d) + "}");
		}
		else if (r < 64)
		{
			if (hmode != "w" && hmode != "a") return;
			h.flush();
			dirty = false;
			log.line("{\"op\":\"flush\"}");
		}
		else if (r < 72)
		{
			if (hmode == "closed") return;
			h.close();
			hmode = "closed";
			dirty = false;
			hpos = 0;
			heof = false;
			hknown = -1;
			log.line("{\"op\":\"close\"}");
		}
		else if (r < 80) // read(n) through the open object
		{
			if (hmode != "r") return;
			long rest = sizeOnDisk("p") - hpos;
			int n = rng.chance(25) ? (int)rest + rng.range(-1, 2) : rng.chance(50) ? pickLen(rng, scale) : rng.below((int)rest + 3);
			if (n < 0) n = 0;
			std::string buf((size_t)n + 1, '\0');
			int k = h.read(&buf[0], n);
			if (k < 0 || k > n) die("read returned " + std::to_string(k));
			hpos += k;
			if (n > rest) heof = true;
			log.line("{\"op\":\"hread\"," + kv("n", n) + ",\"r\":" + rle(buf.substr(0, (size_t)k)) + "}");
		}
		else if (r < 84) // rest of the file as lines through the open object
		{
			if (hmode != "r" || heof) return;
			std::string b;
			posixRead(P.p, b);
			if (!nulFree(b)) return;
			int k = rng.below(3);
			Array<String> ls;
			if (k == 0) ls = h.lines();
			else if (k == 1) while (!h.end()) ls << h.readLine();
			else while (!h.end()) { String s; h.readLine(s); ls << s; }
			hpos = (long)b.size();
			heof = true;
			log.line(std::string("{\"op\":\"hlines\",") + ks("api", k == 0 ? "lines" : "loop") + ",\"r\":" + rleList(toVec(ls)) + "}");
		}
		else if (r < 96) hquery();
		else if (r < 99) // close() on the object that is not open: it forgets what it knew about the file
		{
			if (hmode != "closed") return;
			h.close();
			hknown = -1;
			log.line("{\"op\":\"close\"}");
		}
		else observe(rng.chance(15) ? "r" : pickXY());
	}
};

// ---- mode 1: large contents (1 MiB .. 16 MiB), validated by spec/Trace_FileModelBig.tla on run-length coded contents ----
static std::string genBig(Rng& rng, size_t n, bool text)
{
	std::string s;
	s.reserve(n);
	int prev = -1;
	while (s.size() < n)
	{
		size_t left = n - s.size();
		size_t k = rng.chance(25) ? (size_t)rng.range(1, 3) : rng.chance(50) ? (size_t)rng.range(1, 70000) : (size_t)rng.range(1, 4000000);
		if (k > left) k = left;
		int b;
		do b = text ? (rng.chance(10) ? 10 : rng.chance(5) ? 13 : rng.range(32, 255)) : (rng.chance(15) ? 0 : rng.chance(10) ? 255 : rng.below(256));
		while (b == prev);
		prev = b;
		s.append(k, (char)b);
	}
	return s;
}

static size_t bigSize(Rng& rng, size_t cap)
{
	static const size_t EDGES[] = { 1u << 20, (1u << 20) + 1, 3u << 20, (4u << 20) - 1, 4u << 20, 5000000, 8u << 20, (16u << 20) - 65536, 16u << 20 };
	size_t n = rng.chance(60) ? EDGES[rng.below(9)] : (size_t)rng.range(1 << 20, 16 << 20);
	return n > cap ? cap - (size_t)rng.below(70000) : n;
}

static void bigExecution(Rng& rng, Log& log, const std::string& dir)
{
	Paths P(dir);
	log.line("{\"op\":\"reset\"}");
	size_t total = 0; // bytes currently on disk in this execution (kept below ~40 MiB)
	int steps = rng.range(6, 14);
	for (int i = 0; i < steps; i++)
	{
		int r = rng.below(100);
		std::string x = rng.chance(50) ? "p" : "q";
		std::string path = P.of(x), b;
		if (i == 0 || r < 18)
		{
			std::string d = genBig(rng, bigSize(rng, 16u << 20), false);
			if (!File(toStr(path)).put(toBytes(d))) die("put returned false");
			log.line("{\"op\":\"bput\"," + ks("x", x) + ",\"z\":" + rle(d) + "}");
		}
		else if (r < 26)
		{
			std::string d = genBig(rng, (size_t)rng.range(1, 3 << 20), true);
			struct stat st;
			if (stat(path.c_str(), &st) == 0 && (size_t)st.st_size + d.size() > (20u << 20)) continue;
			if (!TextFile(toStr(path)).append(toStr(d))) die("append returned false");
			log.line("{\"op\":\"bappend\"," + ks("x", x) + ",\"z\":" + rle(d) + "}");
		}
		else if (r < 34)
		{
			int np = rng.range(1, 3);
			std::string zs = "[";
			File f(toStr(path), File::WRITE);
			if (!f) die("cannot open for writing");
			for (int k = 0; k < np; k++)
			{
				std::string d = genBig(rng, (size_t)rng.range(1, 5 << 20), false);
				if (rng.chance(50)) { if (f.write(d.data(), (int)d.size()) != (int)d.size()) die("write returned a short count"); }
				else f << toBytes(d);
				zs += (k ? "," : "") + rle(d);
			}
			f.close();
			log.line("{\"op\":\"bwrite\"," + ks("x", x) + ",\"zs\":" + zs + "]}");
		}
		else if (r < 50)
		{
			bool mv = rng.chance(40);
			std::string y = x == "p" ? (rng.chance(35) ? "d" : "q") : "p";
			if (!posixExists(path)) continue;
			bool ok;
			if (mv) ok = rng.chance(50) ? Directory::move(toStr(path), toStr(P.of(y))) : File(toStr(path)).move(toStr(P.of(y)));
			else ok = rng.chance(50) ? Directory::copy(toStr(path), toStr(P.of(y))) : File(toStr(path)).copy(toStr(P.of(y)));
			log.line(std::string("{\"op\":\"") + (mv ? "bmove" : "bcopy") + "\"," + ks("x", x) + "," + ks("y", y) + ",\"r\":" + (ok ? "true" : "false") + "}");
			std::string land = y == "d" ? "r" : y;
			bool ex = posixRead(P.of(land), b);
			log.line("{\"op\":\"bdisk\"," + ks("x", land) + ",\"ex\":" + (ex ? "true" : "false") + ",\"r\":" + rle(b) + "}");
		}
		else if (r < 54)
		{
			if (!posixExists(path)) continue;
			if (!File(toStr(path)).remove()) die("remove returned false");
			log.line("{\"op\":\"bremove\"," + ks("x", x) + "}");
		}
		else
		{
			std::string xo = rng.chance(15) ? "r" : x;
			std::string po = P.of(xo);
			bool ex = posixRead(po, b);
			int k = rng.below(ex ? 6 : 2);
			if (k == 0) log.line("{\"op\":\"bdisk\"," + ks("x", xo) + ",\"ex\":" + (ex ? "true" : "false") + ",\"r\":" + rle(b) + "}");
			else if (k == 1) log.line("{\"op\":\"bsize\"," + ks("x", xo) + "," + kv("r", (long long)File(toStr(po)).size()) + "}");
			else if (k == 2) log.line("{\"op\":\"bcontent\"," + ks("x", xo) + ",\"r\":" + rle(fromBytes(File(toStr(po)).content())) + "}");
			else if (k == 3)
			{
				long n = rng.chance(40) ? (long)b.size() + rng.range(-1, 2) : rng.chance(50) ? rng.range(65535, 65537) : (long)rng.below((int)b.size() + 1);
				if (n < 0) n = 0;
				log.line("{\"op\":\"bfirst\"," + ks("x", xo) + "," + kv("n", n) + ",\"r\":" + rle(fromBytes(File(toStr(po)).firstBytes((int)n))) + "}");
			}
			else if (k == 4)
			{
				File f(toStr(po), File::READ);
				std::string all;
				int piece = rng.chance(50) ? 65536 : rng.range(100000, 3000000);
				std::string buf((size_t)piece, '\0');
				for (;;)
				{
					int got = f.read(&buf[0], piece);
					if (got < 0 || got > piece) die("read returned " + std::to_string(got));
					all.append(buf.data(), (size_t)got);
					if (got < piece) break;
				}
				log.line("{\"op\":\"bread\"," + ks("x", xo) + ",\"r\":" + rle(all) + "}");
			}
			else
			{
				// text() of a NUL-free content without byte-order mark is the content
				bool bom = b.size() >= 2 && (((unsigned char)b[0] == 0xff && (unsigned char)b[1] == 0xfe) || ((unsigned char)b[0] == 0xfe && (unsigned char)b[1] == 0xff) ||
				                             ((unsigned char)b[0] == 0xef && (unsigned char)b[1] == 0xbb));
				if (bom || !nulFree(b)) continue;
				log.line("{\"op\":\"btext\"," + ks("x", xo) + ",\"r\":" + rle(fromStr(TextFile(toStr(po)).text())) + "}");
			}
		}
		(void)total;
	}
}

int main(int argc, char** argv)
{
	Args args(argc, argv);
	Rng rng(args.seed);
	Log log(args.out);
	TmpDir tmp("c17");
	g_tmpdir = &tmp;
	if (args.mode == 1)
	{
		while (log.lines < args.events) bigExecution(rng, log, tmp.sub());
		return 0;
	}
	while (log.lines < args.events)
	{
		int sc = rng.below(100);
		int scale = sc < 70 ? 0 : sc < 90 ? 1 : 2;
		log.line("{\"op\":\"reset\"}");
		Exec ex(rng, log, tmp.sub(), scale);
		int steps = scale == 2 ? rng.range(8, 25) : rng.range(10, 80);
		for (int i = 0; i < steps; i++) ex.step();
		if (ex.hmode != "closed")
		{
			ex.h.close();
			ex.hmode = "closed";
			ex.dirty = false;
			ex.hknown = -1;
			log.line("{\"op\":\"close\"}");
		}
		ex.disk("p");
		ex.disk("q");
		ex.disk("r");
	}
	return 0;
}
