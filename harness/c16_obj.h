// C16 (growth): the real objects behind spec/EndianBuffer.tla (StreamBuffer + StreamBufferReader) and spec/EndianFile.tla
// (one File object with a position), wrapped so that the replayer and the recorder make the same public calls.
// Nothing here computes an expected value: the wrappers call the library and hand back what it returned.
#ifndef C16_OBJ_H
#define C16_OBJ_H
#include "c16_common.h"

namespace c16 {

inline std::string hexs(const std::string& s)
{
	std::string r;
	char b[4];
	for (size_t i = 0; i < s.size() && i < 40; i++) { snprintf(b, sizeof b, "%02x", (unsigned char)s[i]); r += b; }
	if (s.size() > 40) r += "...";
	return r + "(" + std::to_string(s.size()) + ")";
}

// ---- StreamBuffer + StreamBufferReader ---------------------------------------------------------------------------------
struct BufObj
{
	StreamBuffer* w;
	StreamBufferReader* r;
	ByteArray rdata;     // the bytes the reader refers to (its own copy: the reader does not own what it reads)
	const byte* rbase;   // start of the reader's window
	unsigned calls;
	BufObj() : w(0), r(0), rbase(0), calls(0) {}
	~BufObj() { delete r; delete w; }
	void ctor(const std::string& o)
	{
		delete w;
		w = o == "DEFAULT" ? new StreamBuffer() : new StreamBuffer(endianOf(o));
	}
	void wset(Endian e) { w->setEndian(e); }
	template <class T> void put(const T& x) { *w << x; }
	void putRaw(const char* p) { *w << p; }
	void writeRaw(const std::string& d, const std::string& api)
	{
		if (api == "raw") w->write(d.data(), (int)d.size());
		else *w << ByteArray((const byte*)d.data(), (int)d.size());
	}
	int length() const { return w->length(); }
	const void* where() const { return w->data(); }
	std::string content() const
	{
		ByteArray a = **w; // the content as an Array<byte> (shares the storage until it goes out of scope)
		return std::string((const char*)a.data(), (size_t)a.length());
	}
	std::string raw() const { return std::string((const char*)w->data(), (size_t)w->length()); }
	void clear() { w->clear(); }
	void assign(const std::string& d)
	{
		ByteArray a((const byte*)d.data(), (int)d.size());
		**w = a; // the caller's handle goes away at the end of this block: the buffer is the only owner again
	}
	bool openReader(const std::string& via, int lo, int n, const std::string& o)
	{
		if (lo < 0 || n < 0 || lo + n > w->length()) return false;
		delete r;
		r = 0;
		if (via == "array")
		{
			rdata = ByteArray(w->data() + lo, n);
			rbase = rdata.data();
			r = o == "DEFAULT" ? new StreamBufferReader(rdata) : new StreamBufferReader(rdata, endianOf(o));
		}
		else
		{
			rdata = (**w).clone(); // a sub-range (ptr + lo, n) of a larger block
			rbase = rdata.data() + lo;
			r = o == "DEFAULT" ? new StreamBufferReader(rbase, n) : new StreamBufferReader(rbase, n, endianOf(o));
		}
		return true;
	}
	void rset(Endian e) { r->setEndian(e); }
	template <class T> void get(T& x) { if (++calls & 1) *r >> x; else x = r->read<T>(); }
	std::string readBytes(int n)
	{
		ByteArray a = r->read(n);
		return std::string((const char*)a.data(), (size_t)a.length());
	}
	std::string readAll()
	{
		ByteArray a = r->read();
		return std::string((const char*)a.data(), (size_t)a.length());
	}
	void skip(int n) { r->skip(n); }
	int rlen() const { return r->length(); }
	bool rmore() const { return (bool)*r; }
	int rpos() const { return (int)(r->ptr() - rbase); }
	int rtoend() const { return (int)(r->end() - r->ptr()); }
};

}
#endif
