// C20 replayer (R) for spec/LinAlgRigid.tla: similarity / affine transforms assembled from exact rotations, 2-D transforms
// with Matrix3 / Vec2, the Pose round trip and quaternion interpolation, in double and float.  Every expected value is
// an integer numerator / denominator pair computed by TLC; the harness divides, converts exact (cos, sin) pairs into
// angles with atan2, calls the library and compares within a fixed tolerance (1e-9 double, 1e-4 float; x10 after a
// round trip through sqrt / acos / atan2).
//   {"k":"rigid","ord":[a0,a1,a2],"ang":[[c,s,d] x 3],"t":[3],"s":k,"pt":[3],"den":D,"r":[9],"m":[12],"mp":[3],"md":[3],
//    "minv":[12],"deninv":D2,"det":s^3}
//   {"k":"plane","ang":[c,s,d],"t":[2],"sx","sy","pt":[2],"den":D,"m":[6],"ap":[2],"ad":[2],"ainv":[6],"deninv":D2,"vrot":[2],"polar":[2]}
//   {"k":"slerp","p":[4],"np":n,"q":[4],"nq":n,"dot":d,"half":[4]|[],"nhalf":n,"x1":[3],"x2":[3],"xm":[3],"nxm":2}
// With -DC20_NO_POSE_INTERPOLATE the harness does not instantiate Pose_::interpolate (the check builds it that way when
// the member does not compile, and reports that as a violation).
#include <asl/Matrix3.h>
#include <asl/Matrix4.h>
#include <asl/Quaternion.h>
#include <asl/Pose.h>
#include <asl/Complex.h>
#include "vrun.h"
#include <cmath>
#include <stdarg.h>

using namespace asl;
using vrun::Outcome;

static std::string fm(const char* f, ...)
{
	char b[1200];
	va_list ap;
	va_start(ap, f);
	vsnprintf(b, sizeof b, f, ap);
	va_end(ap);
	return b;
}
#define CHECK(cond, ...) do { if (!(cond)) return Outcome::fail(fm(__VA_ARGS__)); } while (0)

template <class T> struct Tol { static double v() { return 1e-9; } };
template <> struct Tol<float> { static double v() { return 1e-4; } };

static std::vector<double> ratios(const vj::Value& v, double den)
{
	std::vector<double> r;
	for (size_t i = 0; i < v.size(); i++) r.push_back((double)v[i].ll() / den);
	return r;
}
static std::string showV(const std::vector<double>& v)
{
	std::string s = "[";
	for (size_t i = 0; i < v.size(); i++) s += fm(i ? " %.9g" : "%.9g", v[i]);
	return s + "]";
}
// largest deviation of the top 3 x 4 block (row-major) of a Matrix4 from 12 expected values, relative to their magnitude
template <class T>
static double dev34(const Matrix4_<T>& m, const std::vector<double>& e)
{
	double d = 0, scale = 1;
	for (size_t i = 0; i < 12; i++) scale = fmax(scale, fabs(e[i]));
	for (int i = 0; i < 3; i++)
		for (int j = 0; j < 4; j++) d = fmax(d, fabs((double)m(i, j) - e[(size_t)(i * 4 + j)]));
	d = fmax(d, fmax(fmax(fabs((double)m(3, 0)), fabs((double)m(3, 1))), fmax(fabs((double)m(3, 2)), fabs((double)m(3, 3) - 1))));
	return d / scale;
}
template <class T>
static std::vector<double> top34(const Matrix4_<T>& m)
{
	std::vector<double> v;
	for (int i = 0; i < 3; i++) for (int j = 0; j < 4; j++) v.push_back((double)m(i, j));
	return v;
}
template <class T>
static double dev3(const Vec3_<T>& v, const std::vector<double>& e)
{
	double scale = fmax(1.0, fmax(fabs(e[0]), fmax(fabs(e[1]), fabs(e[2]))));
	return fmax(fabs((double)v.x - e[0]), fmax(fabs((double)v.y - e[1]), fabs((double)v.z - e[2]))) / scale;
}
template <class T>
static double dev2(const Vec2_<T>& v, const std::vector<double>& e)
{
	double scale = fmax(1.0, fmax(fabs(e[0]), fabs(e[1])));
	return fmax(fabs((double)v.x - e[0]), fabs((double)v.y - e[1])) / scale;
}

template <class T>
static Outcome rigidT(const vj::Value& c, const char* tn)
{
	double tol = Tol<T>::v(), den = (double)c["den"].ll();
	const vj::Value& ord = c["ord"];
	const vj::Value& ang = c["ang"];
	T r[3];
	for (int i = 0; i < 3; i++) r[i] = (T)atan2((double)ang[i][1].ll(), (double)ang[i][0].ll());
	std::vector<double> t = ratios(c["t"], 1), pt = ratios(c["pt"], 1), m = ratios(c["m"], den), mp = ratios(c["mp"], den), md = ratios(c["md"], den),
	                    minv = ratios(c["minv"], (double)c["deninv"].ll());
	T s = (T)c["s"].i();
	Vec3_<T> tv((T)t[0], (T)t[1], (T)t[2]), p((T)pt[0], (T)pt[1], (T)pt[2]);
	Matrix4_<T> R = Matrix4_<T>::rotate(ord[0].i(), r[0]) * Matrix4_<T>::rotate(ord[1].i(), r[1]) * Matrix4_<T>::rotate(ord[2].i(), r[2]);
	Matrix4_<T> M = Matrix4_<T>::translate(tv) * R * Matrix4_<T>::scale(s);
	CHECK(dev34(M, m) <= tol, "%s translate(t) * rotate(%d,%g) * rotate(%d,%g) * rotate(%d,%g) * scale(%g) = %s, exact %s", tn, ord[0].i(), (double)r[0], ord[1].i(),
	      (double)r[1], ord[2].i(), (double)r[2], (double)s, showV(top34(M)).c_str(), showV(m).c_str());
	// the named elementary rotations and the character form of the axis are the same rotations
	{
		Matrix4_<T> e[3];
		for (int i = 0; i < 3; i++)
		{
			int a = ord[i].i();
			e[i] = a == 0 ? Matrix4_<T>::rotateX(r[i]) : a == 1 ? Matrix4_<T>::rotateY(r[i]) : Matrix4_<T>::rotateZ(r[i]);
			Matrix4_<T> byChar = Matrix4_<T>::rotate('X' + a, r[i]);
			CHECK(dev34(byChar, top34(e[i])) <= tol, "%s rotate('%c', %g) differs from rotate%c(%g)", tn, 'X' + a, (double)r[i], 'X' + a, (double)r[i]);
		}
		Matrix4_<T> M2 = Matrix4_<T>::translate(tv.x, tv.y, tv.z) * e[0] * e[1] * e[2] * Matrix4_<T>::scale(Vec3_<T>(s, s, s));
		CHECK(dev34(M2, m) <= tol, "%s translate(x,y,z) * rotateX/Y/Z... * scale(Vec3) = %s, exact %s", tn, showV(top34(M2)).c_str(), showV(m).c_str());
	}
	CHECK(dev3(M * p, mp) <= tol, "%s M * p = (%g,%g,%g), exact %s", tn, (double)(M * p).x, (double)(M * p).y, (double)(M * p).z, showV(mp).c_str());
	CHECK(dev3(M % p, md) <= tol, "%s M %% p = (%g,%g,%g), exact %s", tn, (double)(M % p).x, (double)(M % p).y, (double)(M % p).z, showV(md).c_str());
	CHECK(dev3(M.translation(), t) <= tol, "%s M.translation() differs from t", tn);
	Matrix4_<T> Mi = M.inverse();
	CHECK(dev34(Mi, minv) <= 10 * tol, "%s M.inverse() = %s, exact %s", tn, showV(top34(Mi)).c_str(), showV(minv).c_str());
	CHECK(dev3(Mi * (M * p), pt) <= 10 * tol, "%s M.inverse() * (M * p) differs from p", tn);
	CHECK(fabs((double)M.det() - (double)c["det"].i()) <= 10 * tol * c["det"].i(), "%s M.det() = %g, exact %d", tn, (double)M.det(), c["det"].i());
	// built from the exact numbers, the inverse is the same
	{
		Matrix4_<T> X((T)m[0], (T)m[1], (T)m[2], (T)m[3], (T)m[4], (T)m[5], (T)m[6], (T)m[7], (T)m[8], (T)m[9], (T)m[10], (T)m[11]);
		CHECK(dev34(X.inverse(), minv) <= 10 * tol, "%s inverse() of the exact matrix %s = %s, exact %s", tn, showV(m).c_str(), showV(top34(X.inverse())).c_str(), showV(minv).c_str());
		if (c["s"].i() == 1)
		{
			// rigid: round trip through Pose (position + orientation) and through rotation() / translation()
			Pose_<T> ps(X);
			CHECK(dev34(ps.matrix(), m) <= 10 * tol, "%s Pose(M).matrix() = %s, exact %s", tn, showV(top34(ps.matrix())).c_str(), showV(m).c_str());
			CHECK(dev3(ps.position(), t) <= tol, "%s Pose(M).position() differs from t", tn);
			Pose_<T> p2(X.translation(), X.rotation());
			CHECK(dev34(p2.matrix(), m) <= 10 * tol, "%s Pose(M.translation(), M.rotation()).matrix() = %s, exact %s", tn, showV(top34(p2.matrix())).c_str(), showV(m).c_str());
			Matrix4_<T> O = orthonormalize(X);
			CHECK(dev34(O, m) <= 10 * tol, "%s orthonormalize(M) of a rigid M = %s, exact %s", tn, showV(top34(O)).c_str(), showV(m).c_str());
			// the inverse of a rigid transform is (R^T | -R^T t)
			Matrix4_<T> Rt = X.transposed();
			Rt(3, 0) = Rt(3, 1) = Rt(3, 2) = 0;
			Rt.setTranslation(Vec3_<T>(0, 0, 0));
			Rt.setTranslation(-(Rt % tv));
			CHECK(dev34(Rt, minv) <= 10 * tol, "%s (R^T | -R^T t) = %s, exact inverse %s", tn, showV(top34(Rt)).c_str(), showV(minv).c_str());
		}
	}
	return Outcome();
}

template <class T>
static Outcome planeT(const vj::Value& c, const char* tn)
{
	double tol = Tol<T>::v(), den = (double)c["den"].ll();
	T a = (T)atan2((double)c["ang"][1].ll(), (double)c["ang"][0].ll());
	std::vector<double> t = ratios(c["t"], 1), pt = ratios(c["pt"], 1), m = ratios(c["m"], den), ap = ratios(c["ap"], den), ad = ratios(c["ad"], den),
	                    ainv = ratios(c["ainv"], (double)c["deninv"].ll()), vrot = ratios(c["vrot"], den), polar = ratios(c["polar"], den);
	T sx = (T)c["sx"].i(), sy = (T)c["sy"].i();
	Vec2_<T> tv((T)t[0], (T)t[1]), p((T)pt[0], (T)pt[1]);
	Matrix3_<T> A = Matrix3_<T>::translate(tv) * Matrix3_<T>::rotate(a) * Matrix3_<T>::scale(sx, sy);
	double scale = 1, d = 0;
	for (size_t i = 0; i < 6; i++) scale = fmax(scale, fabs(m[i]));
	for (int i = 0; i < 2; i++) for (int j = 0; j < 3; j++) d = fmax(d, fabs((double)A(i, j) - m[(size_t)(i * 3 + j)]));
	d = fmax(d, fmax(fabs((double)A(2, 0)), fmax(fabs((double)A(2, 1)), fabs((double)A(2, 2) - 1))));
	CHECK(d / scale <= tol, "%s translate(t) * rotate(%g) * scale(%g,%g) = [%g %g %g; %g %g %g; %g %g %g], exact %s", tn, (double)a, (double)sx, (double)sy, (double)A(0, 0),
	      (double)A(0, 1), (double)A(0, 2), (double)A(1, 0), (double)A(1, 1), (double)A(1, 2), (double)A(2, 0), (double)A(2, 1), (double)A(2, 2), showV(m).c_str());
	CHECK(dev2(A * p, ap) <= tol, "%s A * p = (%g,%g), exact %s", tn, (double)(A * p).x, (double)(A * p).y, showV(ap).c_str());
	CHECK(dev2(A % p, ad) <= tol, "%s A %% p = (%g,%g), exact %s", tn, (double)(A % p).x, (double)(A % p).y, showV(ad).c_str());
	CHECK(dev2(A.translation(), t) <= tol, "%s A.translation() differs from t", tn);
	Matrix3_<T> Ai = A.inverse();
	d = 0;
	scale = 1;
	for (size_t i = 0; i < 6; i++) scale = fmax(scale, fabs(ainv[i]));
	for (int i = 0; i < 2; i++) for (int j = 0; j < 3; j++) d = fmax(d, fabs((double)Ai(i, j) - ainv[(size_t)(i * 3 + j)]));
	CHECK(d / scale <= 10 * tol, "%s A.inverse() = [%g %g %g; %g %g %g], exact %s", tn, (double)Ai(0, 0), (double)Ai(0, 1), (double)Ai(0, 2), (double)Ai(1, 0), (double)Ai(1, 1),
	      (double)Ai(1, 2), showV(ainv).c_str());
	CHECK(dev2(Ai * (A * p), pt) <= 10 * tol, "%s A.inverse() * (A * p) differs from p", tn);
	// Vec2
	CHECK(dev2(p.rotate(a), vrot) <= tol, "%s Vec2(%g,%g).rotate(%g) = (%g,%g), exact %s", tn, pt[0], pt[1], (double)a, (double)p.rotate(a).x, (double)p.rotate(a).y, showV(vrot).c_str());
	CHECK(dev2(Vec2_<T>::polar(sx, a), polar) <= tol, "%s Vec2::polar(%g, %g) = (%g,%g), exact %s", tn, (double)sx, (double)a, (double)Vec2_<T>::polar(sx, a).x,
	      (double)Vec2_<T>::polar(sx, a).y, showV(polar).c_str());
	{
		// Complex in polar form: polar(m, angle), exp(i angle), z * exp(i angle) (= the rotated vector), angle(), magnitude()
		Complex<T> zp = Complex<T>::polar(sx, a), ze = exp(Complex<T>(0, a)), zr = Complex<T>((T)pt[0], (T)pt[1]).exp_i(a), zm = Complex<T>((T)pt[0], (T)pt[1]) * ze;
		CHECK(dev2(Vec2_<T>(zp.r, zp.i), polar) <= tol, "%s Complex::polar(%g, %g) = (%g,%g), exact %s", tn, (double)sx, (double)a, (double)zp.r, (double)zp.i, showV(polar).c_str());
		std::vector<double> unit;
		unit.push_back(polar[0] / (double)sx);
		unit.push_back(polar[1] / (double)sx);
		CHECK(dev2(Vec2_<T>(ze.r, ze.i), unit) <= tol, "%s exp(Complex(0, %g)) = (%g,%g), exact %s", tn, (double)a, (double)ze.r, (double)ze.i, showV(unit).c_str());
		CHECK(dev2(Vec2_<T>(zr.r, zr.i), vrot) <= tol && dev2(Vec2_<T>(zm.r, zm.i), vrot) <= tol, "%s Complex(%g,%g).exp_i(%g) = (%g,%g), z * exp(i a) = (%g,%g), exact %s", tn, pt[0],
		      pt[1], (double)a, (double)zr.r, (double)zr.i, (double)zm.r, (double)zm.i, showV(vrot).c_str());
		double dz = fabs((double)zp.angle() - (double)a);
		if (dz > 3.14159265358979) dz = fabs(dz - 2 * 3.14159265358979);
		CHECK(dz <= 10 * tol && fabs((double)zp.magnitude() - (double)sx) <= 10 * tol, "%s Complex::polar(%g, %g): angle() = %g, magnitude() = %g", tn, (double)sx, (double)a,
		      (double)zp.angle(), (double)zp.magnitude());
	}
	{
		// angle() of the exact direction, and rotation() of a rotation with uniform scale, give the angle back (mod 2 pi)
		Vec2_<T> u((T)polar[0], (T)polar[1]);
		double da = fabs((double)u.angle() - (double)a);
		if (da > 3.14159265358979) da = fabs(da - 2 * 3.14159265358979);
		CHECK(da <= 10 * tol, "%s Vec2(%g,%g).angle() = %g, exact %g", tn, polar[0], polar[1], (double)u.angle(), (double)a);
		Matrix3_<T> RS = Matrix3_<T>::rotate(a) * Matrix3_<T>::scale(sx);
		da = fabs((double)RS.rotation() - (double)a);
		if (da > 3.14159265358979) da = fabs(da - 2 * 3.14159265358979);
		CHECK(da <= 10 * tol, "%s (rotate(%g) * scale(%g)).rotation() = %g", tn, (double)a, (double)sx, (double)RS.rotation());
		std::vector<double> perp;
		perp.push_back(-pt[1]);
		perp.push_back(pt[0]);
		CHECK(dev2(p.rotate((T)atan2(1.0, 0.0)), perp) <= tol && dev2(p.perpend(), perp) == 0, "%s perpend() / rotate(pi/2) of (%g,%g)", tn, pt[0], pt[1]);
	}
	return Outcome();
}

template <class T>
static double qdist(const Quaternion_<T>& g, const std::vector<double>& w)
{
	double dp = fmax(fmax(fabs((double)g.w - w[0]), fabs((double)g.x - w[1])), fmax(fabs((double)g.y - w[2]), fabs((double)g.z - w[3])));
	double dn = fmax(fmax(fabs((double)g.w + w[0]), fabs((double)g.x + w[1])), fmax(fabs((double)g.y + w[2]), fabs((double)g.z + w[3])));
	return fmin(dp, dn); // q and -q are the same rotation
}
template <class T>
static std::string showQ(const Quaternion_<T>& g) { return fm("(%.9g,%.9g,%.9g,%.9g)", (double)g.w, (double)g.x, (double)g.y, (double)g.z); }

template <class T>
static Outcome slerpT(const vj::Value& c, const char* tn)
{
	double tol = Tol<T>::v();
	std::vector<double> p = ratios(c["p"], (double)c["np"].ll()), q = ratios(c["q"], (double)c["nq"].ll());
	Quaternion_<T> P((T)p[0], (T)p[1], (T)p[2], (T)p[3]), Q((T)q[0], (T)q[1], (T)q[2], (T)q[3]);
	Quaternion_<T> s0 = P.slerp(Q, (T)0), s1 = P.slerp(Q, (T)1), sh = P.slerp(Q, (T)0.5);
	CHECK(qdist(s0, p) <= 10 * tol, "%s slerp(%s, %s, 0) = %s, spec +-p", tn, showV(p).c_str(), showV(q).c_str(), showQ(s0).c_str());
	CHECK(qdist(s1, q) <= 10 * tol, "%s slerp(%s, %s, 1) = %s, spec +-q", tn, showV(p).c_str(), showV(q).c_str(), showQ(s1).c_str());
	bool haveHalf = c["half"].size() == 4;
	std::vector<double> h;
	if (haveHalf)
	{
		h = ratios(c["half"], (double)c["nhalf"].ll());
		// sqrt-like conditioning near the antipodal configuration: acos near 1 loses half of the digits
		CHECK(qdist(sh, h) <= (sizeof(T) == 4 ? 1e-3 : 1e-7), "%s slerp(%s, %s, 1/2) = %s, spec +-%s", tn, showV(p).c_str(), showV(q).c_str(), showQ(sh).c_str(), showV(h).c_str());
	}
	else
		CHECK(fabs((double)sh.length2() - 1) <= 100 * tol, "%s slerp(%s, %s, 1/2) = %s is not a unit quaternion", tn, showV(p).c_str(), showV(q).c_str(), showQ(sh).c_str());
#ifndef C20_NO_POSE_INTERPOLATE
	{
		std::vector<double> x1 = ratios(c["x1"], 1), x2 = ratios(c["x2"], 1), xm = ratios(c["xm"], (double)c["nxm"].ll());
		Pose_<T> a(Vec3_<T>((T)x1[0], (T)x1[1], (T)x1[2]), P), b(Vec3_<T>((T)x2[0], (T)x2[1], (T)x2[2]), Q);
		Pose_<T> mid = a.interpolate(b, (T)0.5);
		CHECK(dev3(mid.position(), xm) <= tol, "%s Pose::interpolate(.., 1/2).position() = (%g,%g,%g), exact %s", tn, (double)mid.position().x, (double)mid.position().y,
		      (double)mid.position().z, showV(xm).c_str());
		if (haveHalf)
			CHECK(qdist(mid.orientation(), h) <= (sizeof(T) == 4 ? 1e-3 : 1e-7), "%s Pose::interpolate(.., 1/2).orientation() = %s, spec +-%s", tn, showQ(mid.orientation()).c_str(), showV(h).c_str());
		Pose_<T> e0 = a.interpolate(b, (T)0), e1 = a.interpolate(b, (T)1);
		CHECK(dev3(e0.position(), x1) <= tol && dev3(e1.position(), x2) <= tol && qdist(e0.orientation(), p) <= 10 * tol && qdist(e1.orientation(), q) <= 10 * tol,
		      "%s Pose::interpolate end points differ from the poses", tn);
	}
#endif
	return Outcome();
}

static Outcome run(const vj::Value& c)
{
	const std::string& k = c["k"].s();
	Outcome o;
	if (k == "rigid") { o = rigidT<double>(c, "double"); return o.ok ? rigidT<float>(c, "float") : o; }
	if (k == "plane") { o = planeT<double>(c, "double"); return o.ok ? planeT<float>(c, "float") : o; }
	if (k == "slerp") { o = slerpT<double>(c, "double"); return o.ok ? slerpT<float>(c, "float") : o; }
	return Outcome::fail("harness: unknown case kind " + k);
}

int main(int argc, char** argv)
{
	return vrun::run(argc, argv, run);
}
