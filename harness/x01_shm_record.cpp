// X01 recorder (V) for spec/ProcShm.tla: seeded random sessions with up to three real asl::SharedMem objects in this
// process and short-lived ones in helper child processes (started through Process::execute), all of one size.
// Every read logs the bytes found; spec/Trace_ProcShm.tla decides whether they are the bytes the shared array holds.
#include "x01_proc_common.h"
#include "vrec.h"

using namespace asl;
using namespace vrec;

static const int SIZE = 64, NOBJ = 3, NNAMES = 40;

int main(int argc, char** argv)
{
	if (argc > 1 && !strcmp(argv[1], "helper")) return x01::helperMain(argc - 2, argv + 2);
	signal(SIGPIPE, SIG_IGN);
	Args a(argc, argv);
	Rng rng(a.seed);
	Log log(a.out);
	std::string self = x01::selfPath();
	SharedMem* obj[NOBJ + 1] = {0, 0, 0, 0};
	int nameOf[NOBJ + 1] = {0, 0, 0, 0};
	bool retired[NNAMES + 2];
	int epoch = 0, fd0 = 0;
	bool needReset = true;
	while (log.lines < a.events || obj[1] || obj[2] || obj[3])
	{
		bool closing = log.lines >= a.events;
		int live = 0;
		for (int o = 1; o <= NOBJ; o++) live += obj[o] ? 1 : 0;
		if (needReset)
		{
			epoch++;
			for (int i = 0; i <= NNAMES + 1; i++) retired[i] = false;
			fd0 = x01::countFds();
			log.line("{" + ks("e", "reset") + "}");
			needReset = false;
			continue;
		}
		int free = 0;
		for (int n = 1; n <= NNAMES; n++) free += retired[n] ? 0 : 1;
		int k = closing ? 95 : rng.below(100);
		int o = rng.range(1, NOBJ);
		char nm[96];
		if (k < 25 && !obj[o] && free > 0)
		{
			// a name not retired; prefer one that another object is attached to (sharing inside the process)
			int n = 0;
			if (rng.chance(45)) for (int p = 1; p <= NOBJ; p++) if (obj[p] && !retired[nameOf[p]]) n = nameOf[p];
			while (!n) { int c = rng.range(1, NNAMES); if (!retired[c]) n = c; }
			snprintf(nm, sizeof nm, "x01shm-%d-%d-%d", (int)getpid(), epoch, n);
			obj[o] = new SharedMem(nm, SIZE);
			nameOf[o] = n;
			log.line("{" + ks("e", "attach") + "," + kv("o", o) + "," + kv("n", n) + "," + kv("ok", obj[o]->ptr() ? 1 : 0) + "}");
			if (!obj[o]->ptr()) return 3;
		}
		else if (k < 50 && obj[o])
		{
			int len = rng.range(1, 8), off = rng.range(0, SIZE - len);
			std::string b;
			for (int i = 0; i < len; i++) b += (char)rng.range(0, 255);
			memcpy(obj[o]->ptr() + off, b.data(), (size_t)len);
			log.line("{" + ks("e", "put") + "," + kv("o", o) + "," + kv("off", off) + ",\"b\":" + vj::codes(b) + "}");
		}
		else if (k < 75 && obj[o])
		{
			int len = rng.chance(20) ? SIZE : rng.range(0, 12), off = rng.range(0, SIZE - len);
			std::string r((const char*)obj[o]->ptr() + off, (size_t)len);
			log.line("{" + ks("e", "get") + "," + kv("o", o) + "," + kv("off", off) + "," + kv("k", len) + ",\"r\":" + vj::codes(r) + "}");
		}
		else if (k < 85 && obj[o] && !retired[nameOf[o]])
		{
			int n = nameOf[o];
			int len = rng.range(0, 10), off = rng.range(0, SIZE - len), wlen = rng.range(0, 6), woff = rng.range(0, SIZE - wlen);
			std::string b, hex;
			for (int i = 0; i < wlen; i++) { b += (char)rng.range(0, 255); char h[3]; snprintf(h, 3, "%02x", (unsigned char)b[i]); hex += h; }
			snprintf(nm, sizeof nm, "x01shm-%d-%d-%d", (int)getpid(), epoch, n);
			Array<String> args;
			args << "helper" << "shm" << nm << String(SIZE) << String(off) << String(len) << String(woff) << (hex.empty() ? "-" : hex.c_str());
			Process q = Process::execute(self.c_str(), args);
			String out = q.output();
			if (q.exitStatus() != 0) { fprintf(stderr, "helper shm failed: status %d\n", q.exitStatus()); return 4; }
			retired[n] = true;
			log.line("{" + ks("e", "child") + "," + kv("n", n) + "," + kv("off", off) + "," + kv("k", len) + ",\"r\":" +
			         vj::codes(std::string(*out, (size_t)out.length())) + "," + kv("woff", woff) + ",\"b\":" + vj::codes(b) + "}");
		}
		else if (k >= 85 && live > 0)
		{
			while (!obj[o]) o = o % NOBJ + 1;
			delete obj[o];
			obj[o] = 0;
			retired[nameOf[o]] = true;
			log.line("{" + ks("e", "destroy") + "," + kv("o", o) + "}");
			if (live == 1)
			{
				log.line("{" + ks("e", "idlefds") + "," + kv("n", x01::countFds() - fd0) + "}");
				if (free < 6) needReset = true;
			}
		}
	}
	return 0;
}
