// C10 recorder (V): many concurrent exchanges between clients and a real HttpServer on loopback.
//   - library clients (Http::request) in 1..64 threads,
//   - raw POSIX clients that write HTTP/1.1 requests themselves, in arbitrary fragmentations, with keep-alive sequences
//     of several requests per connection and with chunked request bodies.
// Every request gets a unique id.  Events (one ndjson line each, appended under a lock):
//   send   {id, conn, seq, req descriptor, resp descriptor, target bytes, body hashes as 16-bit limbs}
//   handle {id, ms, view: what the handler observed}
//   recv   {id, ms, view: what the client observed}
// ms = wall milliseconds (monotonic clock) from just before the client's first byte of the exchange - on a raw kept-alive
// connection from just before its connect(), because HttpServer bounds the life of a connection, not of an exchange - until
// the client holds the whole response (or gave up); an exchange with ms >= C10_SLOW_MS may have run into the library's own
// time limits: the specification does not constrain its views and the raw client abandons the connection after it.
// spec/Trace_HttpExchange.tla checks handle.view = HandlerView(req), recv.view = ClientView(resp), the target bytes,
// exactly-once handling and per-connection order.
#include "c10_common.h"
#include "vrec.h"
#include <sys/socket.h>
#include <netinet/in.h>
#include <arpa/inet.h>
#include <poll.h>
#include <signal.h>

using namespace vrec;

static Log* g_log = 0;
static pthread_mutex_t g_logmu = PTHREAD_MUTEX_INITIALIZER;
static void logLine(const std::string& s)
{
	pthread_mutex_lock(&g_logmu);
	g_log->line(s);
	pthread_mutex_unlock(&g_logmu);
}

static std::string limbs(unsigned long long h)
{
	char b[64];
	snprintf(b, sizeof b, "[%u,%u,%u,%u]", (unsigned)(h >> 48) & 0xffff, (unsigned)(h >> 32) & 0xffff, (unsigned)(h >> 16) & 0xffff, (unsigned)h & 0xffff);
	return b;
}
static std::string pairsJson(const std::vector<std::pair<std::string, std::string> >& v)
{
	std::string s = "[";
	for (size_t i = 0; i < v.size(); i++) s += std::string(i ? "," : "") + "[" + vj::codes(v[i].first) + "," + vj::codes(v[i].second) + "]";
	return s + "]";
}

struct Desc
{
	long id;
	std::string method;
	std::vector<std::string> segs;
	std::vector<std::pair<std::string, std::string> > query, headers, rheaders;
	int blen; long bseed;
	int code, rblen; long rbseed;
	int fsize, fvar; // fsize >= 0: the response body is a file of that size (variant fvar)
	std::string target;
};

static std::string randText(Rng& r, int maxLen, bool headerSafe)
{
	static const char* special = " %?#&=+/:;,'\"~!*()[]{}<>|^`\\";
	int n = r.range(headerSafe ? 1 : 0, maxLen);
	std::string s;
	for (int i = 0; i < n; i++)
	{
		int k = r.below(10);
		if (k < 5) s += (char)('a' + r.below(26));
		else if (k < 6) s += (char)('0' + r.below(10));
		else if (k < 9) s += special[r.below((int)strlen(special))];
		else if (!headerSafe) { s += (char)0xC3; s += (char)(0xA0 + r.below(30)); }
		else s += 'Z';
	}
	if (headerSafe) { while (!s.empty() && s[0] == ' ') s.erase(0, 1); while (!s.empty() && s[s.size() - 1] == ' ') s.erase(s.size() - 1); if (s.empty()) s = "v"; }
	return s;
}

static Desc makeDesc(Rng& r, long id, bool bodyAllowed)
{
	static const char* M[] = { "GET", "POST", "PUT", "DELETE", "PATCH" };
	static const int L[] = { 0, 1, 2, 100, 255, 256, 15999, 16000, 16001, 65536, 127999, 128000, 128001, 300000 };
	Desc d;
	d.id = id;
	d.method = bodyAllowed ? M[r.below(5)] : "GET";
	int ns = r.range(0, 3);
	for (int i = 0; i < ns; i++) { std::string s = randText(r, 8, false); if (s.empty() || s.find("..") != std::string::npos) s = "p"; d.segs.push_back(s); }
	int nq = r.range(0, 3);
	for (int i = 0; i < nq; i++)
	{
		std::string k = "k" + std::to_string(i) + randText(r, 4, false);
		d.query.push_back(std::make_pair(k, randText(r, 10, false)));
	}
	int nh = r.range(0, 2);
	for (int i = 0; i < nh; i++) d.headers.push_back(std::make_pair(std::string(i ? "x-extra-hdr" : "X-Test-Hdr"), randText(r, 20, true)));
	bool hasBody = d.method == "POST" || d.method == "PUT" || d.method == "PATCH";
	d.blen = hasBody ? (r.chance(60) ? r.below(2000) : L[r.below(14)]) : 0;
	d.bseed = (long)r.below(1000000);
	static const int C[] = { 200, 201, 400, 404, 500 };
	d.code = C[r.below(5)];
	int nrh = r.range(0, 2);
	for (int i = 0; i < nrh; i++) d.rheaders.push_back(std::make_pair(std::string(i ? "x-reply-b" : "X-Reply-A"), randText(r, 20, true)));
	d.rblen = r.chance(60) ? r.below(3000) : L[r.below(14)];
	d.rbseed = (long)r.below(1000000);
	d.fsize = -1;
	d.fvar = 0;
	if (r.chance(30))
	{
		static const int F[] = { 0, 10, 1000, 15999, 16000, 16001, 48000, 70000, 300000, 1000000 };
		d.fsize = F[r.below(10)];
		d.fvar = r.range(1, 12);
		d.code = 200; // (the status of a file response is the server's business: 200 for a whole file)
	}
	// the request target as a user of the library builds it: Url::encode(component) per segment / key / value
	std::string t;
	if (d.segs.empty()) t = "/";
	// two spellings a user may send: Url::encode(component) per segment, or only what a path segment must escape
	bool lite = r.chance(40);
	for (size_t i = 0; i < d.segs.size(); i++)
	{
		if (!lite) { t += "/" + stdstr(Url::encode(String(d.segs[i].c_str()), true)); continue; }
		t += "/";
		for (size_t k = 0; k < d.segs[i].size(); k++)
		{
			unsigned char ch = (unsigned char)d.segs[i][k];
			if (isalnum(ch) || strchr("-._~!$&'()*+,;=:@", ch)) t += (char)ch;
			else { char b[8]; snprintf(b, sizeof b, "%%%02X", ch); t += b; }
		}
	}
	for (size_t i = 0; i < d.query.size(); i++)
		t += std::string(i ? "&" : "?") + stdstr(Url::encode(String(d.query[i].first.c_str()), true)) + "=" + stdstr(Url::encode(String(d.query[i].second.c_str()), true));
	d.target = t;
	return d;
}

static std::string descJson(const Desc& d, int conn, int seq, bool chunked)
{
	std::string segs = "[";
	for (size_t i = 0; i < d.segs.size(); i++) segs += (i ? "," : "") + vj::codes(d.segs[i]);
	segs += "]";
	ByteArray rb = makeBody(d.blen, d.bseed), pb = makeBody(d.rblen, d.rbseed);
	if (d.fsize >= 0)
	{
		pb.resize(d.fsize);
		for (int i = 0; i < d.fsize; i++) pb[i] = fileByte(d.fsize, i, d.fvar);
	}
	return "{\"e\":\"send\"," + kv("id", d.id) + "," + kv("conn", conn) + "," + kv("seq", seq) + "," + kv("chunked", chunked ? 1 : 0) +
	       ",\"req\":{\"method\":" + vj::quote(d.method) + ",\"segs\":" + segs + ",\"query\":" + pairsJson(d.query) + ",\"headers\":" + pairsJson(d.headers) +
	       "," + kv("blen", d.blen) + ",\"bh\":" + limbs(fnv64((const unsigned char*)rb.data(), (size_t)rb.length())) + "}" +
	       ",\"resp\":{" + kv("code", d.code) + ",\"headers\":" + pairsJson(d.rheaders) + "," + kv("blen", d.rblen) + "," + kv("fsize", d.fsize) +
	       ",\"bh\":" + limbs(fnv64((const unsigned char*)pb.data(), (size_t)pb.length())) + "},\"target\":" + vj::codes(d.target) + "}";
}

// vj-style case for the shared server handler (it answers from g_cases)
static vj::Value caseValue(const Desc& d)
{
	std::string segs = "[";
	for (size_t i = 0; i < d.segs.size(); i++) segs += (i ? "," : "") + vj::codes(d.segs[i]);
	segs += "]";
	std::string s = "{\"req\":{\"headers\":" + pairsJson(d.headers) + "},\"resp\":{" + kv("code", d.code) + ",\"headers\":" + pairsJson(d.rheaders) +
	                ",\"kind\":\"" + (d.fsize >= 0 ? "file" : "bytes") + "\"," + kv("blen", d.rblen) + "," + kv("bseed", d.rbseed) + "," +
	                kv("fsize", d.fsize) + "," + kv("fvar", d.fvar) + "}}";
	return vj::parse(s);
}

static void logHandle(long id, long ms, const Observed& o, const Desc& d)
{
	std::vector<std::pair<std::string, std::string> > q(o.query.begin(), o.query.end()), h;
	for (size_t i = 0; i < d.headers.size(); i++)
	{
		std::map<std::string, std::string>::const_iterator it = o.headers.find(d.headers[i].first);
		h.push_back(std::make_pair(d.headers[i].first, it == o.headers.end() ? std::string("\x01MISSING") : it->second));
	}
	logLine("{\"e\":\"handle\"," + kv("ms", ms) + "," + kv("id", id) + "," + kv("times", o.times) + ",\"view\":{\"method\":" + vj::quote(o.method) + ",\"path\":" + vj::codes(o.path) +
	        ",\"query\":" + pairsJson(q) + ",\"headers\":" + pairsJson(h) + "," + kv("blen", o.blen) + ",\"bh\":" + limbs(o.bhash) + "}}");
}

static void logRecv(long id, long ms, int code, const std::vector<std::pair<std::string, std::string> >& hs, long blen, unsigned long long bh)
{
	logLine("{\"e\":\"recv\"," + kv("ms", ms) + "," + kv("id", id) + ",\"view\":{" + kv("code", code) + ",\"headers\":" + pairsJson(hs) + "," + kv("blen", blen) + ",\"bh\":" + limbs(bh) + "}}");
}

static long g_nextId = 1;
static long newId() { return __sync_fetch_and_add(&g_nextId, 1); }

// ---- library client ---------------------------------------------------------------------------
struct LibJob { uint64_t seed; int n; };
static void* libClient(void* p)
{
	LibJob& j = *(LibJob*)p;
	Rng r(j.seed);
	for (int k = 0; k < j.n; k++)
	{
		Desc d = makeDesc(r, newId(), true);
		pthread_mutex_lock(&g_mu);
		g_cases[d.id].c = caseValue(d);
		g_cases[d.id].obs = Observed();
		pthread_mutex_unlock(&g_mu);
		logLine(descJson(d, 0, 0, false));
		String url = String::f("http://127.0.0.1:%i", g_port) + String(d.target.c_str());
		HttpRequest req(d.method.c_str(), url);
		req.setFollowRedirects(false);
		req.setHeader("X-Case", String((int)d.id));
		for (size_t i = 0; i < d.headers.size(); i++) req.setHeader(d.headers[i].first.c_str(), d.headers[i].second.c_str());
		if (d.blen > 0) req.put(makeBody(d.blen, d.bseed));
		long t0 = monoMs();
		HttpResponse res = Http::request(req);
		long ms = monoMs() - t0;
		pthread_mutex_lock(&g_mu);
		Observed o = g_cases[d.id].obs;
		g_cases.erase(d.id);
		pthread_mutex_unlock(&g_mu);
		logHandle(d.id, ms, o, d);
		std::vector<std::pair<std::string, std::string> > hs;
		for (size_t i = 0; i < d.rheaders.size(); i++)
		{
			std::string name = d.rheaders[i].first;
			String a = res.header(name.c_str()), l = res.header(lower(name).c_str());
			hs.push_back(std::make_pair(name, a == l ? stdstr(a) : std::string("\x01MISMATCH")));
		}
		logRecv(d.id, ms, res.code(), hs, res.body().length(), fnv64((const unsigned char*)res.body().data(), (size_t)res.body().length()));
	}
	return 0;
}

// ---- raw client: own request writer, arbitrary fragmentation, keep-alive, chunked bodies -------------
static bool sendFragmented(int fd, const std::string& data, Rng& r)
{
	size_t p = 0;
	int mode = r.below(4); // 0 whole, 1 tiny fragments at the start, 2 random fragments, 3 byte-wise for the head
	size_t stallAt = stallNow() ? data.size() / 2 : std::string::npos; // (demonstration only: an 11 s pause inside the request)
	while (p < data.size())
	{
		if (p == stallAt) { usleep(11000000); stallAt = std::string::npos; }
		size_t n = data.size() - p;
		if (mode == 1 && p < 200) n = (size_t)r.range(1, 7);
		else if (mode == 2) n = (size_t)r.range(1, 5000);
		else if (mode == 3 && p < 120) n = 1;
		if (n > data.size() - p) n = data.size() - p;
		if (p < stallAt && stallAt != std::string::npos && n > stallAt - p) n = stallAt - p;
		ssize_t w = send(fd, data.data() + p, n, MSG_NOSIGNAL);
		if (w <= 0) return false;
		p += (size_t)w;
		if (mode != 0 && r.chance(20)) usleep((useconds_t)r.below(1500));
	}
	return true;
}

// How long the raw client waits for input before it gives up.  poll() returns as soon as data or the end of the stream arrives,
// so this only bounds a silent peer; it is far above the library's own limits (5 s / 10 s) so that it is never the first to fire.
static const int RAW_WAIT_MS = 120000;
static bool readN(int fd, std::string& buf, size_t want, int timeoutMs)
{
	while (buf.size() < want)
	{
		struct pollfd pf = { fd, POLLIN, 0 };
		if (poll(&pf, 1, timeoutMs) <= 0) return false;
		char tmp[65536];
		ssize_t k = recv(fd, tmp, sizeof tmp, 0);
		if (k <= 0) return false;
		buf.append(tmp, (size_t)k);
	}
	return true;
}

struct RawJob { uint64_t seed; int conns; int connBase; };
static void* rawClient(void* p)
{
	RawJob& j = *(RawJob*)p;
	Rng r(j.seed);
	for (int cix = 0; cix < j.conns; cix++)
	{
		int conn = j.connBase + cix;
		int fd = socket(AF_INET, SOCK_STREAM, 0);
		struct sockaddr_in a;
		memset(&a, 0, sizeof a);
		a.sin_family = AF_INET;
		a.sin_port = htons((unsigned short)g_port);
		a.sin_addr.s_addr = htonl(INADDR_LOOPBACK);
		long t0 = monoMs(); // (the server counts the 10 s it grants a connection from its accept, which is not before this)
		if (connect(fd, (struct sockaddr*)&a, sizeof a) != 0) { close(fd); continue; }
		int nreq = r.range(1, 5);
		std::string inbuf;
		for (int seq = 1; seq <= nreq; seq++)
		{
			Desc d = makeDesc(r, newId(), true);
			bool chunked = d.blen > 0 && r.chance(40);
			bool last = seq == nreq;
			pthread_mutex_lock(&g_mu);
			g_cases[d.id].c = caseValue(d);
			g_cases[d.id].obs = Observed();
			pthread_mutex_unlock(&g_mu);
			logLine(descJson(d, conn, seq, chunked));
			ByteArray body = makeBody(d.blen, d.bseed);
			std::string msg = d.method + " " + d.target + " HTTP/1.1\r\n";
			// header capitalisation and spacing variants a real peer may use
			msg += (r.chance(50) ? "Host: " : "host: ") + std::string("127.0.0.1\r\n");
			msg += (r.chance(50) ? "X-Case: " : "x-case: ") + std::to_string(d.id) + "\r\n";
			for (size_t i = 0; i < d.headers.size(); i++)
			{
				std::string name = d.headers[i].first;
				int v = r.below(3);
				msg += (v == 0 ? name : v == 1 ? lower(name) : upper(name)) + ": " + d.headers[i].second + "\r\n";
			}
			msg += std::string("Connection: ") + (last ? "close" : "keep-alive") + "\r\n";
			if (chunked) msg += "Transfer-Encoding: chunked\r\n";
			else if (d.blen > 0 || r.chance(30)) msg += "Content-Length: " + std::to_string(d.blen) + "\r\n";
			msg += "\r\n";
			if (chunked)
			{
				int p0 = 0;
				while (p0 < d.blen)
				{
					int n = r.range(1, d.blen - p0 > 70000 ? 70000 : d.blen - p0);
					char hx[32];
					snprintf(hx, sizeof hx, r.chance(50) ? "%x\r\n" : "%X\r\n", n);
					msg += hx;
					msg.append((const char*)body.data() + p0, (size_t)n);
					msg += "\r\n";
					p0 += n;
				}
				msg += "0\r\n\r\n";
			}
			else
				msg.append((const char*)body.data(), (size_t)d.blen);
			bool sent = sendFragmented(fd, msg, r);
			// read the response: status line + headers + Content-Length body
			int code = -1;
			long clen = -1;
			std::vector<std::pair<std::string, std::string> > hs;
			std::string rbody;
			bool okResp = false;
			if (sent)
			{
				size_t hend;
				while ((hend = inbuf.find("\r\n\r\n")) == std::string::npos)
					if (!readN(fd, inbuf, inbuf.size() + 1, RAW_WAIT_MS)) break;
				if (hend != std::string::npos)
				{
					std::string head = inbuf.substr(0, hend);
					inbuf.erase(0, hend + 4);
					size_t sp = head.find(' ');
					if (sp != std::string::npos) code = atoi(head.c_str() + sp + 1);
					std::map<std::string, std::string> hm;
					size_t ls = head.find("\r\n");
					while (ls != std::string::npos)
					{
						size_t le = head.find("\r\n", ls + 2);
						std::string line = head.substr(ls + 2, le == std::string::npos ? std::string::npos : le - ls - 2);
						size_t c = line.find(':');
						if (c != std::string::npos)
						{
							std::string v = line.substr(c + 1);
							while (!v.empty() && v[0] == ' ') v.erase(0, 1);
							hm[lower(line.substr(0, c))] = v;
						}
						ls = le;
					}
					if (hm.count("content-length")) clen = atol(hm["content-length"].c_str());
					for (size_t i = 0; i < d.rheaders.size(); i++)
						hs.push_back(std::make_pair(d.rheaders[i].first, hm.count(lower(d.rheaders[i].first)) ? hm[lower(d.rheaders[i].first)] : std::string("\x01MISSING")));
					if (clen >= 0 && readN(fd, inbuf, (size_t)clen, RAW_WAIT_MS))
					{
						rbody = inbuf.substr(0, (size_t)clen);
						inbuf.erase(0, (size_t)clen);
						okResp = true;
					}
				}
			}
			pthread_mutex_lock(&g_mu);
			Observed o = g_cases[d.id].obs;
			g_cases.erase(d.id);
			pthread_mutex_unlock(&g_mu);
			long ms = monoMs() - t0;
			logHandle(d.id, ms, o, d);
			logRecv(d.id, ms, okResp ? code : -1, hs, okResp ? (long)rbody.size() : -1, fnv64((const unsigned char*)rbody.data(), rbody.size()));
			if (!okResp) break;
			if (ms >= C10_SLOW_MS) break; // what the server still does with this connection is uncertain: abandon it
		}
		close(fd);
	}
	return 0;
}

int main(int argc, char** argv)
{
	Args args(argc, argv);
	Rng rng(args.seed);
	signal(SIGPIPE, SIG_IGN);
	g_stallOn = true;
	Log log(args.out);
	g_log = &log;
	ensureServer((unsigned)args.seed);
	while (log.lines < args.events)
	{
		logLine("{\"e\":\"reset\"}");
		int nlib = rng.chance(15) ? rng.range(17, 64) : rng.range(1, 16), nraw = rng.range(0, 6);
		if (args.mode == 2) nlib = 0;
		std::vector<LibJob> lj((size_t)nlib);
		std::vector<RawJob> rj((size_t)nraw);
		std::vector<pthread_t> th((size_t)(nlib + nraw));
		for (int i = 0; i < nlib; i++) { LibJob j = { rng.next(), rng.range(1, 6) }; lj[i] = j; }
		for (int i = 0; i < nraw; i++) { RawJob j = { rng.next(), rng.range(1, 3), 1 + i * 10 }; rj[i] = j; }
		for (int i = 0; i < nlib; i++) pthread_create(&th[i], 0, libClient, &lj[i]);
		for (int i = 0; i < nraw; i++) pthread_create(&th[nlib + i], 0, rawClient, &rj[i]);
		for (int i = 0; i < nlib + nraw; i++) pthread_join(th[i], 0);
	}
	g_srv->stop(true);
	delete g_srv;
	std::string rm = "rm -rf " + g_dir;
	if (system(rm.c_str())) {}
	return 0;
}
