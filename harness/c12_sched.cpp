// C12 replayer: forces TLC-generated (programs x interleavings) of spec/RefCount.tla onto real threads that copy,
// assign and drop their own handles to shared Array / Map / HashMap / Shared<T> / SmartObject-class / Var container
// objects, using the token-passing scheduler at the library's atomic steps (ASL_VERIF hooks in atomicInc/atomicDec).
// Extended operations (RefCount.tla, Ext): null handles, self-assignment, as<>() + converting copy, clone().
// Destruction is observed through the payload's destructor (Probe) or, for Var containers, through the state of the
// storage block (freed blocks are poisoned by AddressSanitizer); the expected values come from the specification.
#include <asl/Array.h>
#include <asl/Map.h>
#include <asl/HashMap.h>
#include <asl/Shared.h>
#include <asl/Pointer.h>
#include <asl/Var.h>
#include <asl/Stack.h>
#include <asl/Queue.h>
#include <asl/Array2.h>
#include <sanitizer/asan_interface.h>
#include "vsched.h"
#include "vrun.h"

using namespace asl;
using vrun::Outcome;

static volatile int g_liveP[8]; // live payload instances per object id
static __thread int tl_cloneId;  // id given to the payload copy made by clone() (the specification names the new object)

struct Probe
{
	int id;
	int* heap;
	Probe() : id(0), heap(new int(0)) { g_liveP[0]++; }
	explicit Probe(int i) : id(i), heap(new int(i)) { g_liveP[id]++; }
	Probe(const Probe& o) : id(tl_cloneId ? tl_cloneId : o.id), heap(new int(o.id)) { g_liveP[id]++; }
	virtual Probe* clone() const { return new Probe(*this); }
	Probe& operator=(const Probe& o)
	{
		g_liveP[id]--;
		id = o.id;
		*heap = o.id;
		g_liveP[id]++;
		return *this;
	}
	virtual ~Probe() { delete heap; g_liveP[id]--; }
};
// class hierarchy behind Shared<Probe> handles: the objects are DProbe, nothing is a DOther
struct DProbe : public Probe
{
	explicit DProbe(int i) : Probe(i) {}
	Probe* clone() const { return new DProbe(*this); }
};
struct DOther : public Probe
{
	Probe* clone() const { return new DOther(*this); }
};

// SmartObject-based class (declared with the library's macros, like Socket)
namespace asl {
ASL_SMART_CLASS(Obj, SmartObject)
{
public:
	ASL_SMART_INNER_DEF(Obj);
	Probe probe;
	Obj_() {}
	Obj_(int id) : probe(id) {}
};
class Obj : public SmartObject
{
public:
	ASL_SMART_DEF(Obj, SmartObject);
	explicit Obj(int id) : ASL_SMART_INIT(id) {}
};
// derived SmartObject classes: the objects are DObj (used through Obj handles), nothing is a DOtherObj
ASL_SMART_CLASS(DObj, Obj)
{
public:
	ASL_SMART_INNER_DEF(DObj);
	DObj_() {}
	DObj_(int id) : Obj_(id) {}
};
class DObj : public Obj
{
public:
	ASL_SMART_DEF(DObj, Obj);
	explicit DObj(int id) : ASL_SMART_INIT(id) {}
};
ASL_SMART_CLASS(DOtherObj, Obj)
{
public:
	ASL_SMART_INNER_DEF(DOtherObj);
	DOtherObj_() {}
};
class DOtherObj : public Obj
{
public:
	ASL_SMART_DEF(DOtherObj, Obj);
};
}

// the part of the handle API that only some handle types have (RefCount.tla, Ext)
template <class C>
struct Api
{
	static C conv(const C& s, std::string&) { return s; }
	static C asOther(const C& s, std::string&) { return s; }
	static C clone(const C& s) { return s; }
	static C null() { return C(); }
	static bool isNull(const C&) { return false; }
	static bool comparable() { return false; }
	static bool same(const C&, const C&) { return false; }
};
template <>
struct Api<Shared<Probe> >
{
	typedef Shared<Probe> C;
	// as<Derived>() yields a temporary Shared<DProbe>; the converting constructor copies it into the result
	static C conv(const C& s, std::string& err)
	{
		C r(s.as<DProbe>());
		if (!r || r.get() != s.get()) err = "as<DProbe>() of a DProbe does not refer to the object";
		return r;
	}
	static C asOther(const C& s, std::string& err)
	{
		Shared<DOther> e = s.as<DOther>();
		if (e) err = "as<DOther>() of a DProbe is not null";
		return C(e); // converting copy of a null handle
	}
	static C clone(const C& s) { return s.clone(); }
	static C null() { return C(); }
	static bool isNull(const C& c) { return !c; }
	static bool comparable() { return true; }
	static bool same(const C& a, const C& b) { return a == b.get() && !(a != b.get()); }
};
template <>
struct Api<Obj>
{
	typedef Obj C;
	static C conv(const C& s, std::string& err) { if (!s.is<DObj>() || s.is<DOtherObj>()) err = "is<>() wrong for a DObj"; return C(s.as<DObj>()); }
	static C asOther(const C& s, std::string& err)
	{
		DOtherObj e = s.as<DOtherObj>();
		if (e) err = "as<DOtherObj>() of a DObj is not null";
		return C(e);
	}
	static C clone(const C& s) { return s.clone(); }
	static C null() { return C((Obj::Ptr)0); }
	static bool isNull(const C& c) { return !c || c.isnull(); }
	static bool comparable() { return true; }
	static bool same(const C& a, const C& b) { return a == b && a.is(b) && !(a != b); }
};
template <>
struct Api<Var>
{
	typedef Var C;
	static C conv(const C& s, std::string&) { return s; }
	static C asOther(const C& s, std::string&) { return s; }
	static C clone(const C& s) { return s; }
	static C null() { return C(); }
	static bool isNull(const C& c) { return c.is(Var::NONE); }
	static bool comparable() { return false; }
	static bool same(const C&, const C&) { return false; }
};

enum Mode { M_COPY, M_CONV, M_ASNULL, M_CLONE, M_NULL };

struct HandleBase
{
	virtual ~HandleBase() {}
	virtual HandleBase* make(Mode m, std::string& err) const = 0; // a new handle produced from this one
	virtual void assign(const HandleBase& o) = 0;
	virtual bool isNull() const = 0;
	virtual bool comparable() const = 0;
	virtual bool same(const HandleBase& o) const = 0;
};
template <class C>
struct HandleT : public HandleBase
{
	C c;
	explicit HandleT(const C& x) : c(x) {}
	// the handle is constructed in place from the API call's result (no extra copy: the counted steps are the library's)
	static C build(Mode m, const C& x, std::string& err)
	{
		switch (m)
		{
		case M_CONV: return Api<C>::conv(x, err);
		case M_ASNULL: return Api<C>::asOther(x, err);
		case M_CLONE: return Api<C>::clone(x);
		default: return Api<C>::null();
		}
	}
	HandleT(Mode m, const C& x, std::string& err) : c(build(m, x, err)) {}
	HandleBase* make(Mode m, std::string& err) const { return m == M_COPY ? new HandleT<C>(c) : new HandleT<C>(m, c, err); }
	void assign(const HandleBase& o) { c = static_cast<const HandleT<C>&>(o).c; }
	bool isNull() const { return Api<C>::isNull(c); }
	bool comparable() const { return Api<C>::comparable(); }
	bool same(const HandleBase& o) const { return Api<C>::same(c, static_cast<const HandleT<C>&>(o).c); }
};

template <class C> C makeObj(int id);
template <> Array<Probe> makeObj<Array<Probe> >(int id) { Array<Probe> a; a << Probe(id); return a; }
template <> Map<int, Probe> makeObj<Map<int, Probe> >(int id) { Map<int, Probe> m; m[7] = Probe(id); return m; }
template <> HashMap<int, Probe> makeObj<HashMap<int, Probe> >(int id) { HashMap<int, Probe> m; m[7] = Probe(id); return m; }
// the other containers built on one Array block (discipline "array") or on HashMap (discipline "hashmap")
template <> Dic<Probe> makeObj<Dic<Probe> >(int id) { Dic<Probe> m; m["k"] = Probe(id); return m; }
template <> Stack<Probe> makeObj<Stack<Probe> >(int id) { Stack<Probe> a; a.push(Probe(id)); return a; }
template <> Queue<Probe> makeObj<Queue<Probe> >(int id) { Queue<Probe> a; a.put(Probe(id)); return a; }
template <> Array2<Probe> makeObj<Array2<Probe> >(int id) { Array2<Probe> a(1, 1); a(0, 0) = Probe(id); return a; }
template <> HashDic<Probe> makeObj<HashDic<Probe> >(int id) { HashDic<Probe> m; m["k"] = Probe(id); return m; }
template <> Shared<Probe> makeObj<Shared<Probe> >(int id) { return Shared<Probe>(Shared<DProbe>(new DProbe(id))); }
template <> Obj makeObj<Obj>(int id) { return DObj(id); }

// Var containers: g_varObject selects array / object (Dic) Vars; embedded handles are added by the caller
static bool g_varObject;
static const void* g_block[8]; // an address inside the storage block of object o
template <> Var makeObj<Var>(int id)
{
	Var v(g_varObject ? Var::OBJ : Var::ARRAY);
	if (g_varObject) v["a"] = id; else v << id;
	return v;
}
static void embed(Var& parent, const Var& kid, int n)
{
	if (g_varObject) { char key[8]; snprintf(key, sizeof key, "k%d", n); parent[String(key)] = kid; } else parent << kid;
}
static const void* blockOf(const Var& v) { return g_varObject ? (const void*)&v["a"] : (const void*)&v[0]; }

struct Op { int k, i, j, o, m, null, n; int s[6]; }; // k: 0 copy, 1 drop, 2 assign, 3 conv, 4 asnull, 5 clone, 6 mknull, 7 exit (state check only)

static HandleBase* (*g_mkNull)();

struct Worker
{
	std::vector<Op> prog;
	HandleBase* slot[6];
	std::string err;
};

// the thread's own handles must be what the specification says they are: absent / null / referring to the same object
static void checkSlots(Worker& w, const Op& o, size_t n)
{
	char b[200];
	for (int a = 1; a <= o.n && w.err.empty(); a++)
	{
		bool absent = w.slot[a] == 0;
		if (absent != (o.s[a] == 0) || (!absent && w.slot[a]->isNull() != (o.s[a] == o.null)))
		{
			snprintf(b, sizeof b, "before operation %zu: slot %d is %s; the specification says %s", n + 1, a,
			         absent ? "absent" : w.slot[a]->isNull() ? "a null handle" : "a handle to an object",
			         o.s[a] == 0 ? "absent" : o.s[a] == o.null ? "null" : "a handle to an object");
			w.err = b;
		}
		for (int c = a + 1; c <= o.n && w.err.empty() && !absent && !w.slot[a]->isNull() && w.slot[a]->comparable(); c++)
			if (w.slot[c] && !w.slot[c]->isNull() && w.slot[a]->same(*w.slot[c]) != (o.s[a] == o.s[c]))
			{
				snprintf(b, sizeof b, "before operation %zu: handles %d and %d compare %s; the specification has them on objects %d and %d",
				         n + 1, a, c, o.s[a] == o.s[c] ? "different" : "equal", o.s[a], o.s[c]);
				w.err = b;
			}
	}
}

static void* workerMain(void* p)
{
	Worker& w = *(Worker*)p;
	for (size_t n = 0; n < w.prog.size(); n++)
	{
		const Op& o = w.prog[n];
		checkSlots(w, o, n);
		if (o.k == 7) break;
		if (o.m == 0) vsched::userPoint(0); // an operation without atomic step is a step of its own in the specification
		if (o.k == 1) { delete w.slot[o.i]; w.slot[o.i] = 0; }
		else if (o.k == 2) w.slot[o.i]->assign(*w.slot[o.j]);
		else if (o.k == 6) w.slot[o.i] = g_mkNull();
		else
		{
			tl_cloneId = o.k == 5 ? o.o : 0;
			w.slot[o.j] = w.slot[o.i]->make(o.k == 0 ? M_COPY : o.k == 3 ? M_CONV : o.k == 4 ? M_ASNULL : M_CLONE, w.err);
			tl_cloneId = 0;
		}
	}
	return 0;
}

struct ObsCtx
{
	const vj::Value* steps;
	int no;
	bool blocks; // Var containers: observe the storage blocks instead of payload destructors
	std::string err;
};
static void observe(int decision, void* arg)
{
	ObsCtx& oc = *(ObsCtx*)arg;
	if (decision == 0 || !oc.err.empty() || vsched::S().mismatches) return;
	size_t k = (size_t)decision - 1;
	if (k >= oc.steps->size()) return;
	const vj::Value& e = (*oc.steps)[k];
	const vj::Value& d = e["d"];
	const vj::Value& f = e["f"];
	const vj::Value& b = e["b"];
	char buf[200];
	for (int o = 1; o <= oc.no; o++)
	{
		if (!b[o - 1].i()) continue; // not created yet (a clone's payload may exist before its first reference is taken)
		if (oc.blocks)
		{
			int freed = __asan_address_is_poisoned(g_block[o]) ? 1 : 0;
			if (freed != f[o - 1].i())
			{
				snprintf(buf, sizeof buf, "after step %zu: the storage block of container %d is %s; specification says freed=%d", k + 1, o,
				         freed ? "freed" : "still allocated", f[o - 1].i());
				oc.err = buf;
			}
			continue;
		}
		int destroyed = g_liveP[o] == 0 ? 1 : 0;
		if (g_liveP[o] < 0 || g_liveP[o] > 1 + 1 || destroyed != d[o - 1].i())
		{
			snprintf(buf, sizeof buf, "after step %zu: object %d has %d live payload instance(s); specification says destroyed=%d", k + 1, o, g_liveP[o], d[o - 1].i());
			oc.err = buf;
		}
	}
}

template <class C> static bool isVar() { return false; }
template <> bool isVar<Var>() { return true; }
template <class C> static void embedKids(std::vector<C>&, const std::string&, int) {}
// handles embedded in containers (RefCount.tla, Kids): chain = o holds o+1, tree = 1 holds 2..nb
template <> void embedKids<Var>(std::vector<Var>& objs, const std::string& shape, int nb)
{
	if (shape == "chain") for (int o = nb - 1; o >= 1; o--) embed(objs[o - 1], objs[o], o + 1);
	if (shape == "tree") for (int o = 2; o <= nb; o++) embed(objs[0], objs[o - 1], o);
	for (int o = 1; o <= nb; o++) g_block[o] = blockOf(objs[o - 1]);
}
template <class C> static HandleBase* mkNull() { return new HandleT<C>(Api<C>::null()); }

template <class C>
static Outcome runTyped(const vj::Value& c, const char* tname)
{
	int nt = c["nt"].i(), no = c["no"].i(), ns = c["ns"].i(), nb = c["nb"].i();
	const vj::Value& steps = c["steps"];
	for (int o = 0; o < 8; o++) g_liveP[o] = 0;
	std::vector<Worker> ws((size_t)nt + 1);
	{
		std::vector<C> objs;
		for (int o = 1; o <= nb; o++) objs.push_back(makeObj<C>(o));
		embedKids<C>(objs, c["shape"].s(), nb);
		for (int t = 1; t <= nt; t++)
			for (int s = 0; s < 6; s++)
				ws[t].slot[s] = (s >= 1 && s <= ns && s <= nb) ? new HandleT<C>(objs[s - 1]) : 0;
	} // main's own handles are gone: the counters equal the number of worker handles (plus the embedded ones)
	std::vector<int> plan;
	for (size_t n = 0; n < steps.size(); n++)
	{
		const vj::Value& e = steps[n];
		plan.push_back(e["t"].i());
		const std::string& k = e["k"].s();
		static const char* names[] = { "copy", "drop", "assign", "conv", "asnull", "clone", "mknull", "exit" };
		for (int x = 0; x < 8; x++)
			if (k == names[x])
			{
				Op o;
				o.k = x; o.i = e["i"].i(); o.j = e["j"].i(); o.o = e["o"].i(); o.m = x == 7 ? 1 : e["m"].i(); o.null = no + 1; o.n = ns;
				for (int a = 1; a <= ns && a < 6; a++) o.s[a] = e["s"][a - 1].i();
				ws[e["t"].i()].prog.push_back(o);
			}
	}
	if (!isVar<C>())
		for (int o = 1; o <= nb; o++)
			if (g_liveP[o] != 1) return Outcome::fail(std::string(tname) + ": harness: setup left " + std::to_string(g_liveP[o]) + " payload instances");
	ObsCtx oc;
	oc.steps = &steps;
	oc.no = no;
	oc.blocks = isVar<C>();
	vsched::Sched& S = vsched::S();
	S.observer = observe;
	S.observerArg = &oc;
	g_mkNull = &mkNull<C>;
	static const int points[] = { vsched::PRE_INC, vsched::PRE_DEC, vsched::PRE_JOIN, vsched::USER };
	vsched::begin(plan, points, 4);
	std::vector<pthread_t> tids((size_t)nt + 1);
	for (int t = 1; t <= nt; t++) tids[t] = vsched::spawn(workerMain, &ws[t]);
	for (int t = 1; t <= nt; t++)
	{
		vsched::joinPoint(t);
		pthread_join(tids[t], 0);
	}
	vsched::end();
	S.observer = 0;
	int mism = S.mismatches;
	Outcome res;
	if (!oc.err.empty()) res = Outcome::fail(std::string(tname) + ": " + oc.err);
	for (int t = 1; t <= nt && res.ok; t++)
		if (!ws[t].err.empty()) res = Outcome::fail(std::string(tname) + ": thread " + std::to_string(t) + ": " + ws[t].err);
	// final: the payload is destroyed exactly when no handle is left
	for (int t = 1; t <= nt; t++) for (int s = 0; s < 6; s++) { delete ws[t].slot[s]; ws[t].slot[s] = 0; }
	for (int o = 1; o <= no && res.ok; o++)
	{
		if (isVar<C>())
		{
			if (o <= nb && !__asan_address_is_poisoned(g_block[o]))
				res = Outcome::fail(std::string(tname) + ": the storage block of container " + std::to_string(o) + " is still allocated after the last handle was dropped");
		}
		else if (g_liveP[o] != 0)
			res = Outcome::fail(std::string(tname) + ": object " + std::to_string(o) + " has " + std::to_string(g_liveP[o]) + " live payload instance(s) after the last handle was dropped");
	}
	// A schedule that cannot be followed means the operations no longer consist of the atomic steps RefCount.tla
	// describes (e.g. after a refactoring).  That alone is not a violation of the property: the step-by-step comparison
	// stops at the first mismatch, the outcome checks above and the sanitizer still apply, and the number is reported.
	if (mism) fprintf(stderr, "VRUN-NOTE schedule-mismatch %d\n", mism);
	// development aid: C12_STRICT=1 turns an unfollowable schedule into a failure (to check that spec and code agree step by step)
	if (mism && res.ok && getenv("C12_STRICT")) res = Outcome::fail(std::string(tname) + ": schedule could not be followed (" + std::to_string(mism) + " mismatches)");
	return res;
}

static Outcome runCase(const vj::Value& c)
{
	const std::string& ty = c["type"].s();
	Outcome r;
	// the derived container types follow the discipline of the block they hold: every case also runs on one of them
	// (chosen by the case's shape), or on all of them with C12_MORE_TYPES=all
	const char* more = getenv("C12_MORE_TYPES");
	bool all = more && std::string(more) == "all";
	size_t pick = c["steps"].size() + (size_t)c["steps"][c["steps"].size() / 2]["t"].i();
	if (ty == "array")
	{
		r = runTyped<Array<Probe> >(c, "Array<Probe>");
		if (!r.ok) return r;
		r = runTyped<Map<int, Probe> >(c, "Map<int,Probe>");
		if (r.ok && (all || pick % 4 == 0)) r = runTyped<Dic<Probe> >(c, "Dic<Probe>");
		if (r.ok && (all || pick % 4 == 1)) r = runTyped<Stack<Probe> >(c, "Stack<Probe>");
		if (r.ok && (all || pick % 4 == 2)) r = runTyped<Queue<Probe> >(c, "Queue<Probe>");
		if (r.ok && (all || pick % 4 == 3)) r = runTyped<Array2<Probe> >(c, "Array2<Probe>");
		return r;
	}
	if (ty == "hashmap")
	{
		r = runTyped<HashMap<int, Probe> >(c, "HashMap<int,Probe>");
		if (r.ok && (all || pick % 2 == 0)) r = runTyped<HashDic<Probe> >(c, "HashDic<Probe>");
		return r;
	}
	if (ty == "shared") return runTyped<Shared<Probe> >(c, "Shared<Probe>");
	if (ty == "smart") return runTyped<Obj>(c, "SmartObject class");
	if (ty == "var")
	{
		g_varObject = false;
		r = runTyped<Var>(c, "Var (array)");
		if (!r.ok) return r;
		g_varObject = true;
		return runTyped<Var>(c, "Var (object)");
	}
	return Outcome::fail("harness: unknown type " + ty);
}

int main(int argc, char** argv)
{
	vsched::install();
	return vrun::run(argc, argv, runCase);
}
