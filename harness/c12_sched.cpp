// C12 replayer: forces TLC-generated (programs x interleavings) of spec/RefCount.tla onto real threads that copy,
// assign and drop their own handles to shared Array / Map / HashMap / Shared<T> / SmartObject-class objects, using the
// token-passing scheduler at the library's atomic steps (ASL_VERIF hooks in atomicInc/atomicDec).
#include <asl/Array.h>
#include <asl/Map.h>
#include <asl/HashMap.h>
#include <asl/Shared.h>
#include <asl/Pointer.h>
#include "vsched.h"
#include "vrun.h"

using namespace asl;
using vrun::Outcome;

static volatile int g_liveP[8]; // live payload instances per object id

struct Probe
{
	int id;
	int* heap;
	Probe() : id(0), heap(new int(0)) { g_liveP[0]++; }
	explicit Probe(int i) : id(i), heap(new int(i)) { g_liveP[id]++; }
	Probe(const Probe& o) : id(o.id), heap(new int(o.id)) { g_liveP[id]++; }
	Probe& operator=(const Probe& o)
	{
		g_liveP[id]--;
		id = o.id;
		*heap = o.id;
		g_liveP[id]++;
		return *this;
	}
	~Probe() { delete heap; g_liveP[id]--; }
};

// SmartObject-based class (declared with the library's macros, like Socket)
namespace asl {
ASL_SMART_CLASS(Obj, SmartObject)
{
public:
	ASL_SMART_INNER_DEF(Obj);
	Probe probe;
	Obj_() {}
	Obj_(int id) : probe(id) {}
};
class Obj : public SmartObject
{
public:
	ASL_SMART_DEF(Obj, SmartObject);
	explicit Obj(int id) : ASL_SMART_INIT(id) {}
};
}

struct HandleBase
{
	virtual ~HandleBase() {}
	virtual HandleBase* copy() const = 0;
	virtual void assign(const HandleBase& o) = 0;
};
template <class C>
struct HandleT : public HandleBase
{
	C c;
	explicit HandleT(const C& x) : c(x) {}
	HandleBase* copy() const { return new HandleT<C>(c); }
	void assign(const HandleBase& o) { c = static_cast<const HandleT<C>&>(o).c; }
};

template <class C> C makeObj(int id);
template <> Array<Probe> makeObj<Array<Probe> >(int id) { Array<Probe> a; a << Probe(id); return a; }
template <> Map<int, Probe> makeObj<Map<int, Probe> >(int id) { Map<int, Probe> m; m[7] = Probe(id); return m; }
template <> HashMap<int, Probe> makeObj<HashMap<int, Probe> >(int id) { HashMap<int, Probe> m; m[7] = Probe(id); return m; }
template <> Shared<Probe> makeObj<Shared<Probe> >(int id) { return Shared<Probe>(new Probe(id)); }
template <> Obj makeObj<Obj>(int id) { return Obj(id); }

struct Op { int k, i, j; }; // k: 0 copy, 1 drop, 2 assign

struct Worker
{
	std::vector<Op> prog;
	HandleBase* slot[6];
};

static void* workerMain(void* p)
{
	Worker& w = *(Worker*)p;
	for (size_t n = 0; n < w.prog.size(); n++)
	{
		const Op& o = w.prog[n];
		if (o.k == 0) w.slot[o.j] = w.slot[o.i]->copy();
		else if (o.k == 1) { delete w.slot[o.i]; w.slot[o.i] = 0; }
		else w.slot[o.i]->assign(*w.slot[o.j]);
	}
	return 0;
}

struct ObsCtx
{
	const vj::Value* steps;
	int no;
	std::string err;
};
static void observe(int decision, void* arg)
{
	ObsCtx& oc = *(ObsCtx*)arg;
	if (decision == 0 || !oc.err.empty() || vsched::S().mismatches) return;
	size_t k = (size_t)decision - 1;
	if (k >= oc.steps->size()) return;
	const vj::Value& d = (*oc.steps)[k]["d"];
	for (int o = 1; o <= oc.no; o++)
	{
		int destroyed = g_liveP[o] == 0 ? 1 : 0;
		if (g_liveP[o] < 0 || g_liveP[o] > 1 + 1 || destroyed != d[o - 1].i())
		{
			char b[200];
			snprintf(b, sizeof b, "after step %zu: object %d has %d live payload instance(s); specification says destroyed=%d", k + 1, o, g_liveP[o], d[o - 1].i());
			oc.err = b;
		}
	}
}

template <class C>
static Outcome runTyped(const vj::Value& c, const char* tname)
{
	int nt = c["nt"].i(), no = c["no"].i(), ns = c["ns"].i();
	const vj::Value& steps = c["steps"];
	for (int o = 0; o < 8; o++) g_liveP[o] = 0;
	std::vector<Worker> ws((size_t)nt + 1);
	{
		std::vector<C> objs;
		for (int o = 1; o <= no; o++) objs.push_back(makeObj<C>(o));
		for (int t = 1; t <= nt; t++)
			for (int s = 0; s < 6; s++)
				ws[t].slot[s] = (s >= 1 && s <= ns && s <= no) ? new HandleT<C>(objs[s - 1]) : 0;
	} // main's own handles are gone: the counters equal the number of worker handles
	std::vector<int> plan;
	for (size_t n = 0; n < steps.size(); n++)
	{
		const vj::Value& e = steps[n];
		plan.push_back(e["t"].i());
		const std::string& k = e["k"].s();
		if (k == "copy" || k == "drop" || k == "assign")
		{
			Op o = { k == "copy" ? 0 : k == "drop" ? 1 : 2, e["i"].i(), e["j"].i() };
			ws[e["t"].i()].prog.push_back(o);
		}
	}
	for (int o = 1; o <= no; o++)
		if (g_liveP[o] != 1) return Outcome::fail(std::string(tname) + ": harness: setup left " + std::to_string(g_liveP[o]) + " payload instances");
	ObsCtx oc;
	oc.steps = &steps;
	oc.no = no;
	vsched::Sched& S = vsched::S();
	S.observer = observe;
	S.observerArg = &oc;
	static const int points[] = { vsched::PRE_INC, vsched::PRE_DEC, vsched::PRE_JOIN };
	vsched::begin(plan, points, 3);
	std::vector<pthread_t> tids((size_t)nt + 1);
	for (int t = 1; t <= nt; t++) tids[t] = vsched::spawn(workerMain, &ws[t]);
	for (int t = 1; t <= nt; t++)
	{
		vsched::joinPoint(t);
		pthread_join(tids[t], 0);
	}
	vsched::end();
	S.observer = 0;
	int mism = S.mismatches;
	Outcome res;
	if (!oc.err.empty()) res = Outcome::fail(std::string(tname) + ": " + oc.err);
	// final: the payload is destroyed exactly when no handle is left
	for (int o = 1; o <= no && res.ok; o++)
	{
		int handles = 0;
		// (which object a slot refers to is the specification's business; here: any handle left keeps *some* object alive)
		(void)handles;
	}
	int left = 0;
	for (int t = 1; t <= nt; t++) for (int s = 0; s < 6; s++) if (ws[t].slot[s]) left++;
	for (int t = 1; t <= nt; t++) for (int s = 0; s < 6; s++) { delete ws[t].slot[s]; ws[t].slot[s] = 0; }
	for (int o = 1; o <= no && res.ok; o++)
		if (g_liveP[o] != 0)
			res = Outcome::fail(std::string(tname) + ": object " + std::to_string(o) + " has " + std::to_string(g_liveP[o]) + " live payload instance(s) after the last handle was dropped");
	// A schedule that cannot be followed means the operations no longer consist of the atomic steps RefCount.tla
	// describes (e.g. after a refactoring).  That alone is not a violation of the property: the step-by-step comparison
	// stops at the first mismatch, the outcome checks above and the sanitizer still apply, and the number is reported.
	if (mism) fprintf(stderr, "VRUN-NOTE schedule-mismatch %d\n", mism);
	(void)left;
	return res;
}

static Outcome runCase(const vj::Value& c)
{
	const std::string& ty = c["type"].s();
	Outcome r;
	if (ty == "array")
	{
		r = runTyped<Array<Probe> >(c, "Array<Probe>");
		if (!r.ok) return r;
		return runTyped<Map<int, Probe> >(c, "Map<int,Probe>");
	}
	if (ty == "hashmap") return runTyped<HashMap<int, Probe> >(c, "HashMap<int,Probe>");
	if (ty == "shared") return runTyped<Shared<Probe> >(c, "Shared<Probe>");
	if (ty == "smart") return runTyped<Obj>(c, "SmartObject class");
	return Outcome::fail("harness: unknown type " + ty);
}

int main(int argc, char** argv)
{
	vsched::install();
	return vrun::run(argc, argv, runCase);
}
