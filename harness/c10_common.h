// Shared by the C10 replayer and recorder: a real HttpServer whose handler answers as a case descriptor dictates and
// records what it observed; deterministic body expansion; hashing; the JSON value table.
#ifndef C10_COMMON_H
#define C10_COMMON_H
#include <asl/HttpServer.h>
#include <asl/Http.h>
#include <asl/File.h>
#include <asl/Var.h>
#include "vjson.h"
#include <pthread.h>
#include <map>
#include <string>
#include <vector>
#include <sys/stat.h>
#include <unistd.h>
#include <time.h>

using namespace asl;

// ---- wall time of an exchange ("ms" of the recorded events) ----------------------------------------------------------------
// The library gives up by itself after fixed times (HttpServer::serve drops a connection 10 s after it accepted it and waits
// 5 s for data; HttpMessage::readBody stops after 10 s without input and hands over the truncated body).  Those are design
// decisions of asl which the property does not forbid, and on an overloaded machine they fire.  The recorders therefore log
// how long every exchange took (monotonic clock, from just before the client's first byte - for a kept-alive connection: from
// just before connect(), because the server's limit counts from there - until the observation is complete); the Trace_Http*
// specifications do not constrain the observation of an exchange that took SlowMs = C10_SLOW_MS or longer, and checks/C10.py
// bounds how many of those a recording may contain.
static const long C10_SLOW_MS = 4000;
static inline long monoMs()
{
	struct timespec ts;
	clock_gettime(CLOCK_MONOTONIC, &ts);
	return (long)(ts.tv_sec * 1000LL + ts.tv_nsec / 1000000);
}
// Artificial stalls for demonstrating the above (recorders only: they set g_stallOn): VERIF_C10_STALL=<permille> makes a
// handler sleep 11 s before it answers / a raw client pause 11 s inside a request with that probability.
static bool g_stallOn = false;
static inline bool stallNow()
{
	static int permille = -1;
	static unsigned long counter = 0;
	if (permille < 0) { const char* e = getenv("VERIF_C10_STALL"); permille = e ? atoi(e) : 0; }
	if (!g_stallOn || permille <= 0) return false;
	unsigned long long x = ((unsigned long long)__sync_add_and_fetch(&counter, 1) + (unsigned long long)getpid() * 1000003ULL) * 0x9E3779B97F4A7C15ULL;
	x ^= x >> 29; x *= 0xBF58476D1CE4E5B9ULL; x ^= x >> 32;
	return (int)(x % 1000) < permille;
}
static inline void maybeStall() { if (stallNow()) usleep(11000000); }

static inline unsigned long long fnv64(const unsigned char* p, size_t n)
{
	unsigned long long h = 1469598103934665603ULL;
	for (size_t i = 0; i < n; i++) { h ^= p[i]; h *= 1099511628211ULL; }
	return h;
}

// (len, seed) -> bytes; binary content including CR, LF, NUL and high bytes
static inline ByteArray makeBody(int len, long seed)
{
	ByteArray a(len);
	unsigned long long s = (unsigned long long)seed * 0x9E3779B97F4A7C15ULL + 77;
	for (int i = 0; i < len; i++)
	{
		s ^= s << 13; s ^= s >> 7; s ^= s << 17;
		unsigned r = (unsigned)(s >> 24);
		a[i] = (r % 11 == 0) ? (byte)"\r\n\0\n\r"[r % 5] : (byte)(r >> 3);
	}
	return a;
}

static inline Var jsonValue(int j)
{
	switch (j)
	{
	case 1: return Var(42);
	case 2: return Var("a\"b\\c\n/\xc3\xa9 end");
	case 3: { Var v = Var(Var::ARRAY); v << 1 << 2.5 << true << Var(Var::NUL) << "x"; return v; }
	case 4: { Var v; v["k"] = "v"; v["n"]["a"] = (Var(Var::ARRAY) << 1); Var o; o["b"] = -7; v["n"]["a"] << o; return v; }
	default: { Var v; String s; for (int i = 0; i < 3000; i++) s << (char)('a' + i % 26); v["text"] = s; v["list"] = Var(Var::ARRAY); for (int i = 0; i < 200; i++) v["list"] << i * 1.5; return v; }
	}
}

struct Observed
{
	bool seen;
	int times;
	std::string method, path;
	std::map<std::string, std::string> query;
	std::map<std::string, std::string> headers; // as asked for (exact name) -> value; "\x01MISMATCH" if capitalisations disagree
	long blen;
	unsigned long long bhash;
	std::string contentLength;
	Observed() : seen(false), times(0), blen(0), bhash(0) {}
};

struct CaseInfo
{
	vj::Value c;
	Observed obs;
};

static pthread_mutex_t g_mu = PTHREAD_MUTEX_INITIALIZER;
static std::map<long, CaseInfo> g_cases;
static std::string g_dir;

// file bodies: content is a function of (size, variant, offset) so that concurrent transfers of different files are distinguishable
static inline unsigned char fileByte(int size, int i, int var = 0)
{
	return size <= 10 && var == 0 ? (unsigned char)('0' + i) : (unsigned char)((i * 7 + 3 + var * 31 + (i >> 8) * (var + 1)) & 255);
}
static inline std::string filePath(int size, int var = 0)
{
	std::string p = g_dir + "/f" + std::to_string(size) + "_" + std::to_string(var);
	pthread_mutex_lock(&g_mu);
	struct stat st;
	if (stat(p.c_str(), &st) != 0)
	{
		std::string tmp = p + ".tmp";
		FILE* f = fopen(tmp.c_str(), "wb");
		for (int i = 0; i < size; i++) fputc(fileByte(size, i, var), f);
		fclose(f);
		rename(tmp.c_str(), p.c_str());
	}
	pthread_mutex_unlock(&g_mu);
	return p;
}

static inline std::string lower(std::string s) { for (size_t i = 0; i < s.size(); i++) s[i] = (char)tolower(s[i]); return s; }
static inline std::string upper(std::string s) { for (size_t i = 0; i < s.size(); i++) s[i] = (char)toupper(s[i]); return s; }
static inline std::string stdstr(const String& s) { return std::string(*s, (size_t)s.length()); }

struct TestHttpServer : public HttpServer
{
	void serve(HttpRequest& req, HttpResponse& resp)
	{
		long id = atol(*req.header("X-Case"));
		pthread_mutex_lock(&g_mu);
		std::map<long, CaseInfo>::iterator it = g_cases.find(id);
		if (it == g_cases.end())
		{
			pthread_mutex_unlock(&g_mu);
			resp.setCode(599);
			resp.put("unknown case");
			return;
		}
		vj::Value c = it->second.c;
		pthread_mutex_unlock(&g_mu);
		maybeStall();
		Observed o;
		o.seen = true;
		o.method = stdstr(req.method());
		o.path = stdstr(req.path());
		foreach2(String& k, const String& v, req.query()) o.query[stdstr(k)] = stdstr(v);
		const vj::Value& hs = c["req"]["headers"];
		for (size_t i = 0; i < hs.size(); i++)
		{
			std::string name = hs[i][0].bytes();
			String a = req.header(name.c_str()), b = req.header(lower(name).c_str()), u = req.header(upper(name).c_str());
			o.headers[name] = (a == b && b == u && req.hasHeader(lower(name).c_str())) ? stdstr(a) : std::string("\x01MISMATCH");
		}
		o.blen = req.body().length();
		o.bhash = fnv64((const unsigned char*)req.body().data(), (size_t)req.body().length());
		o.contentLength = stdstr(req.header("Content-Length"));
		pthread_mutex_lock(&g_mu);
		it = g_cases.find(id);
		if (it != g_cases.end()) { int n = it->second.obs.times; it->second.obs = o; it->second.obs.times = n + 1; }
		pthread_mutex_unlock(&g_mu);
		const vj::Value& r = c["resp"];
		resp.setCode(r["code"].i());
		const vj::Value& rh = r["headers"];
		for (size_t i = 0; i < rh.size(); i++) resp.setHeader(rh[i][0].bytes().c_str(), rh[i][1].bytes().c_str());
		const std::string& kind = r["kind"].s();
		if (kind == "bytes") resp.put(makeBody(r["blen"].i(), r["bseed"].ll()));
		else if (kind == "json") resp.put(jsonValue(r["json"].i()));
		else resp.put(File(filePath(r["fsize"].i(), r["fvar"].i()).c_str()));
	}
};

static TestHttpServer* g_srv = 0;
static int g_port = 0;

static inline void ensureServer(unsigned seed)
{
	if (g_srv) return;
	char tmpl[128];
	snprintf(tmpl, sizeof tmpl, "/verif/build/tmp/c10-XXXXXX");
	if (!mkdtemp(tmpl)) { perror("mkdtemp"); exit(2); }
	g_dir = tmpl;
	g_srv = new TestHttpServer;
	unsigned s = seed * 2654435761u + (unsigned)getpid();
	for (int tries = 0; tries < 100 && !g_port; tries++)
	{
		s = s * 1103515245u + 12345u;
		int port = 20000 + (int)((s >> 8) % 40000);
		if (g_srv->bind("127.0.0.1", port)) g_port = port;
	}
	if (!g_port) { fprintf(stderr, "harness: no free port\n"); exit(2); }
	g_srv->start(true);
}

// compares what the handler observed with the specification's HandlerView; "" = equal
static inline std::string compareHandler(const Observed& o, const vj::Value& hv)
{
	char b[300];
	if (!o.seen) return "the handler was never called for this request";
	if (o.times != 1) { snprintf(b, sizeof b, "the handler ran %d times for one request", o.times); return b; }
	if (o.method != hv["method"].s()) return "handler saw method '" + o.method + "', sent '" + hv["method"].s() + "'";
	if (o.path != hv["path"].bytes()) return "handler saw path '" + vj::quote(o.path) + "', specification says " + vj::quote(hv["path"].bytes());
	const vj::Value& q = hv["query"];
	if (o.query.size() != q.size()) { snprintf(b, sizeof b, "handler saw %zu query parameters, sent %zu", o.query.size(), q.size()); return b; }
	for (size_t i = 0; i < q.size(); i++)
	{
		std::map<std::string, std::string>::const_iterator it = o.query.find(q[i][0].bytes());
		if (it == o.query.end() || it->second != q[i][1].bytes())
			return "query parameter " + vj::quote(q[i][0].bytes()) + " is " + (it == o.query.end() ? std::string("missing") : vj::quote(it->second)) + ", sent " + vj::quote(q[i][1].bytes());
	}
	const vj::Value& hs = hv["headers"];
	for (size_t i = 0; i < hs.size(); i++)
	{
		std::map<std::string, std::string>::const_iterator it = o.headers.find(hs[i][0].bytes());
		if (it == o.headers.end() || it->second != hs[i][1].bytes())
			return "request header " + hs[i][0].bytes() + " seen as " + (it == o.headers.end() ? std::string("(missing)") : vj::quote(it->second)) + ", sent " + vj::quote(hs[i][1].bytes());
	}
	ByteArray want = makeBody(hv["blen"].i(), hv["bseed"].ll());
	if (o.blen != want.length()) { snprintf(b, sizeof b, "handler saw a body of %ld bytes, sent %d", o.blen, want.length()); return b; }
	if (o.bhash != fnv64((const unsigned char*)want.data(), (size_t)want.length())) return "handler saw different body bytes than were sent";
	return "";
}

// compares the client's response with the specification's ClientView; "" = equal
static inline std::string compareClient(HttpResponse& res, const vj::Value& cv)
{
	char b[300];
	if (res.code() != cv["code"].i()) { snprintf(b, sizeof b, "client saw status %d (%s), specification says %d", res.code(), *res.socketError(), cv["code"].i()); return b; }
	const vj::Value& hs = cv["headers"];
	for (size_t i = 0; i < hs.size(); i++)
	{
		std::string name = hs[i][0].bytes();
		String a = res.header(name.c_str()), l = res.header(lower(name).c_str()), u = res.header(upper(name).c_str());
		if (!(a == l && l == u) || stdstr(a) != hs[i][1].bytes())
			return "response header " + name + " seen as " + vj::quote(stdstr(a)) + ", handler set " + vj::quote(hs[i][1].bytes());
	}
	const std::string& kind = cv["kind"].s();
	const ByteArray& body = res.body();
	if (kind == "bytes")
	{
		ByteArray want = makeBody(cv["blen"].i(), cv["bseed"].ll());
		if (body.length() != want.length()) { snprintf(b, sizeof b, "client received %d body bytes, handler produced %d", body.length(), want.length()); return b; }
		if (memcmp(body.data(), want.data(), (size_t)want.length()) != 0) return "client received different body bytes than the handler produced";
	}
	else if (kind == "json")
	{
		Var want = jsonValue(cv["json"].i());
		if (!(res.json() == want)) return "client's json() differs from the value the handler put";
		if (stdstr(res.header("Content-Type")) != "application/json") return "JSON response without Content-Type: application/json";
	}
	else
	{
		int from = cv["from"].i(), n = cv["blen"].i(), size = cv["fsize"].i();
		if (body.length() != n) { snprintf(b, sizeof b, "client received %d bytes of the file, specification says %d (from %d of %d)", body.length(), n, from, size); return b; }
		for (int i = 0; i < n; i++)
			if (body[i] != fileByte(size, from + i)) { snprintf(b, sizeof b, "file byte %d differs", from + i); return b; }
		if (cv["code"].i() == 206)
		{
			char want[64];
			snprintf(want, sizeof want, "bytes %d-%d/%d", from, from + n - 1, size);
			if (stdstr(res.header("Content-Range")) != want) return std::string("Content-Range is '") + *res.header("Content-Range") + "', expected '" + want + "'";
		}
	}
	return "";
}

// performs one exchange described by case c with the library's client; returns "" or a description of the mismatch
static inline std::string exchangeWith(const vj::Value& c, long id, const char* targetField);
// one exchange per distinct spelling of the target the specification gives (canonical escapes; sub-delimiters left raw)
static inline std::string exchange(const vj::Value& c, long id)
{
	std::string e = exchangeWith(c, id, "target");
	if (e.empty() && c.has("target2") && c["target2"].bytes() != c["target"].bytes())
	{
		e = exchangeWith(c, id, "target2");
		if (!e.empty()) e = "(target with raw sub-delimiters) " + e;
	}
	return e;
}
static inline std::string exchangeWith(const vj::Value& c, long id, const char* targetField)
{
	const vj::Value& rq = c["req"];
	pthread_mutex_lock(&g_mu);
	g_cases[id].c = c;
	g_cases[id].obs = Observed();
	pthread_mutex_unlock(&g_mu);
	String url = String::f("http://127.0.0.1:%i", g_port) + String(c[targetField].bytes().c_str());
	HttpRequest req(rq["method"].s().c_str(), url);
	req.setFollowRedirects(false);
	req.setHeader("X-Case", String((int)id));
	const vj::Value& hs = rq["headers"];
	for (size_t i = 0; i < hs.size(); i++) req.setHeader(hs[i][0].bytes().c_str(), hs[i][1].bytes().c_str());
	if (rq["range"].size() == 2)
	{
		int b = rq["range"][0].i(), e = rq["range"][1].i();
		req.setHeader("Range", e < 0 ? String::f("bytes=%i-", b) : String::f("bytes=%i-%i", b, e));
	}
	if (rq["blen"].i() > 0) req.put(makeBody(rq["blen"].i(), rq["bseed"].ll()));
	HttpResponse res = Http::request(req);
	std::string err = compareClient(res, c["cview"]);
	pthread_mutex_lock(&g_mu);
	Observed o = g_cases[id].obs;
	g_cases.erase(id);
	pthread_mutex_unlock(&g_mu);
	if (err.empty()) err = compareHandler(o, c["hview"]);
	return err;
}

#endif
