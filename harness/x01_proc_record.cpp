// X01 recorder (V) for spec/ProcLife.tla: a seeded random driver of one real asl::Process at a time (constructor, run,
// writeInput, readOutput/readErrors/readOutputLine, outputAvailable, finished, wait, exitStatus, started, success,
// signal, destructor), of Process::execute (argument vectors, large outputs on both streams, missing program) and of
// user-owned descriptors opened while a Process exists.  Every call's result is logged; spec/Trace_ProcLife.tla
// decides whether the results are the ones the specification allows.  The driver only keeps the counts it needs in
// order not to issue a call that would block forever (bytes pending, child ending or not).
#include "x01_proc_common.h"
#include "vrec.h"

using namespace asl;
using namespace vrec;

static std::string self;
static Log* lg;

static std::string bytesOf(const std::string& s) { return vj::codes(s); }

struct Driver
{
	Rng& rng;
	Process* p;
	int st;          // 0 none, 1 fresh, 2 run
	int child;       // 0 norun, 1 alive, 2 dying
	bool lossy, reapedByObj, zombieSeen, det;
	std::string shOut;   // bytes expected to be pending on the child's stdout (driver bookkeeping only: which calls cannot block)
	long pendErr;
	int pid;
	std::vector<int> ufds;
	x01::FdMap fds;  // specification numbering of descriptors
	int fd0;         // open descriptors at reset

	Driver(Rng& r) : rng(r), p(0), st(0), child(0), lossy(false), reapedByObj(false), zombieSeen(false), det(false), pendErr(0), pid(-1) {}

	void ev(const std::string& s) { lg->line("{" + s + "}"); }

	void reset()
	{
		fds.init();
		fd0 = x01::countFds();
		unsetenv("X01_A");
		unsetenv("X01_B");
		ev(ks("e", "reset"));
	}

	void opNew()
	{
		p = new Process;
		st = 1; child = 0; lossy = false; reapedByObj = false; zombieSeen = false; det = false; shOut.clear(); pendErr = 0; pid = -1;
		ev(ks("e", "new") + "," + kv("ready", p->ready() ? 1 : 0));
	}

	void opRun()
	{
		int m = det ? rng.range(6, 9) : rng.below(10);
		if (m < 6)
		{
			p->run(self.c_str(), array<String>("helper", "echo"));
			child = 1;
			ev(ks("e", "run") + "," + ks("m", "echo"));
		}
		else if (m < 9)
		{
			static const int codes[] = {0, 1, 7, 42, 255};
			int c = codes[rng.below(5)];
			p->run(self.c_str(), array<String>("helper", "exit", String(c)));
			child = 2;
			ev(ks("e", "run") + "," + ks("m", "exit") + "," + kv("code", c));
		}
		else
		{
			p->run("/nonexistent/x01-no-such-program", array<String>("a"));
			child = 2;
			ev(ks("e", "run") + "," + ks("m", "noexec"));
		}
		st = 2;
		pid = p->pid();
	}

	std::string payload()
	{
		static const char* words[] = {"a", "hello", "two words", "line\n", "crlf\r\n", "\n", "x\ny\n", "tab\tq\"uote'", "\xc3\xbc\xe2\x82\xac", "0123456789abcdef0123456789abcdef"};
		std::string s = words[rng.below(10)];
		if (rng.chance(15))
		{
			s.clear();
			int n = rng.range(0, 200);
			for (int i = 0; i < n; i++) s += (char)rng.range(0, 255);
		}
		return s;
	}

	void opWrite()
	{
		int k = rng.below(100);
		std::string frame, extra;
		if (k < 45 || k >= 85)
		{
			bool rev = k >= 85;
			std::string pl = payload();
			if (shOut.size() + pl.size() > 3000) return;
			frame = std::string(1, rev ? 'R' : 'E') + (char)pl.size() + pl;
			shOut += rev ? std::string(pl.rbegin(), pl.rend()) : pl;
			extra = ks("k", rev ? "R" : "E") + ",\"p\":" + bytesOf(pl);
		}
		else if (k < 65)
		{
			int n = rng.chance(30) ? rng.range(0, 900) : rng.range(1, 40);
			if (pendErr + n > 3000) return;
			frame = std::string("S") + (char)2 + (char)(n / 256) + (char)(n % 256);
			pendErr += n;
			extra = ks("k", "S") + "," + kv("n", n) + ",\"p\":" + bytesOf(frame.substr(2));
		}
		else
		{
			static const int codes[] = {0, 0, 1, 3, 77, 200};
			int c = codes[rng.below(6)];
			frame = std::string("X") + (char)1 + (char)c;
			child = 2;
			extra = ks("k", "X") + "," + kv("code", c) + ",\"p\":" + bytesOf(frame.substr(2));
		}
		int ret = p->writeInput(frame.data(), (int)frame.size());
		ev(ks("e", "write") + "," + extra + "," + kv("ret", ret));
	}

	// read-exactly-n loop over readOutput / readErrors
	std::string readN(bool errs, int n)
	{
		std::string got;
		std::vector<char> b((size_t)n + 1);
		while ((int)got.size() < n)
		{
			int r = errs ? p->readErrors(b.data(), n - (int)got.size()) : p->readOutput(b.data(), n - (int)got.size());
			if (r <= 0) break;
			got.append(b.data(), (size_t)r);
		}
		return got;
	}

	void opRead(bool errs)
	{
		if (det) return;
		long pend = errs ? pendErr : (long)shOut.size();
		int n;
		if (child == 2 && rng.chance(40)) n = (int)pend + rng.range(1, 5);      // runs into EOF
		else
		{
			if (pend == 0) return;
			n = rng.chance(50) ? (int)pend : rng.range(1, (int)pend);
		}
		std::string r = readN(errs, n);
		bool eof = (int)r.size() < n;
		if (errs) pendErr = eof ? 0 : pendErr - (long)r.size();
		else if (eof) shOut.clear();
		else shOut.erase(0, r.size());
		ev(ks("e", errs ? "rderr" : "rdout") + "," + kv("n", n) + ",\"r\":" + bytesOf(r));
	}

	void opLine()
	{
		size_t lf = shOut.find('\n');
		if (det || lossy || !(lf != std::string::npos || child == 2)) return;
		String l = p->readOutputLine();
		std::string r(*l, (size_t)l.length());
		if (lf != std::string::npos) shOut.erase(0, lf + 1);
		else shOut.clear();
		ev(ks("e", "rdline") + ",\"r\":" + bytesOf(r));
	}

	void syncZombie()
	{
		for (int i = 0; i < 120000; i++)
		{
			char s = x01::procState(pid);
			if (s == 'Z' || s == 0) { zombieSeen = true; break; }
			usleep(500);
		}
		if (zombieSeen) ev(ks("e", "sync"));
	}

	void opDel()
	{
		bool needReap = st == 2;
		delete p;
		p = 0;
		ev(ks("e", "del"));
		if (needReap && pid > 0)
		{
			int s;
			waitpid(pid, &s, 0); // the object does not reap in its destructor (unspecified); keep the process table clean
		}
		st = 0; child = 0; pid = -1;
	}

	void opUOpen()
	{
		if (ufds.size() >= 3) return;
		int fd = open("/dev/null", O_RDONLY);
		ufds.push_back(fd);
		ev(ks("e", "uopen") + "," + kv("fd", fds.rel(fd)));
	}
	void opUClose()
	{
		if (ufds.empty()) return;
		int i = rng.below((int)ufds.size());
		int fd = ufds[i];
		ufds.erase(ufds.begin() + i);
		struct stat sb;
		if (fstat(fd, &sb) == 0) close(fd); // (a descriptor closed behind our back is reported by ucheck, not closed twice)
		ev(ks("e", "uclose") + "," + kv("fd", fds.rel(fd)));
	}
	void opUCheck()
	{
		struct stat nul, sb;
		stat("/dev/null", &nul);
		int ok = 1;
		for (size_t i = 0; i < ufds.size(); i++)
			if (fstat(ufds[i], &sb) != 0 || !S_ISCHR(sb.st_mode) || sb.st_rdev != nul.st_rdev) ok = 0;
		ev(ks("e", "ucheck") + "," + kv("ok", ok));
		ev(ks("e", "nfd") + "," + kv("n", x01::countFds() - fd0));
	}

	void opEnv()
	{
		static const char* names[] = {"X01_A", "X01_B"};
		static const char* vals[] = {"", "v", "two words", "a=b;c", "\xc3\xbc", "$X01_A", "'q' \"d\"", "0123456789012345678901234567890123456789"};
		const char* k = names[rng.below(2)];
		int w = rng.below(3);
		if (w == 0)
		{
			std::string v = vals[rng.below(8)];
			Process::setEnv(k, String(v.data(), (int)v.size()));
			ev(ks("e", "setenv") + "," + ks("k", k) + ",\"v\":" + bytesOf(v));
		}
		else if (w == 1)
		{
			String r = Process::env(k);
			ev(ks("e", "getenv") + "," + ks("k", k) + ",\"r\":" + bytesOf(std::string(*r, (size_t)r.length())));
		}
		else
		{
			Process q = Process::execute(self.c_str(), array<String>("helper", "env", k));
			String o = q.output();
			ev(ks("e", "exec") + "," + ks("m", "env") + "," + ks("k", k) + ",\"out\":" + bytesOf(std::string(*o, (size_t)o.length())) + "," + kv("status", q.exitStatus()));
		}
	}

	void opExec()
	{
		int k = rng.below(13);
		if (k >= 10) { opEnv(); return; }
		if (k < 5)
		{
			static const char* tab[] = {"", " ", "a b", "\"q\"", "'s'", "\\", "$HOME", "*", "a\nb", "\xc3\xbc", "-x", "  lead", "tail  ", "a\"b c\"d", "%s%n", ";ls", "`id`", "a\tb", "x=y", "#"};
			Array<String> args;
			args << "helper" << "args";
			std::string js = "[";
			int n = rng.range(0, 4);
			for (int i = 0; i < n; i++)
			{
				std::string a = tab[rng.below(20)];
				args << String(a.data(), (int)a.size());
				js += (i ? "," : "") + bytesOf(a);
			}
			js += "]";
			Process q = Process::execute(self.c_str(), args);
			String o = q.output(), e = q.errors();
			ev(ks("e", "exec") + "," + ks("m", "args") + ",\"args\":" + js + ",\"out\":" + bytesOf(std::string(*o, (size_t)o.length())) +
			   ",\"err\":" + bytesOf(std::string(*e, (size_t)e.length())) + "," + kv("status", q.exitStatus()) + "," + kv("ok", q.success() ? 1 : 0) +
			   "," + kv("st", q.started() ? 1 : 0));
		}
		else if (k < 9)
		{
			static const long sizes[] = {0, 1, 4095, 4096, 65536, 65537, 150000, 300000};
			static const int codes[] = {0, 0, 2, 9};
			long no = sizes[rng.below(8)], ne = sizes[rng.below(8)];
			int c = codes[rng.below(4)];
			Process q = Process::execute(self.c_str(), array<String>("helper", "spew", String((int)no), String((int)ne), String(c)));
			String o = q.output(), e = q.errors();
			long ob = 0, eb = 0;
			for (long i = 0; i < o.length() && !ob; i++) if ((unsigned char)o[(int)i] != x01::patternByte(i, 1)) ob = i + 1;
			for (long i = 0; i < e.length() && !eb; i++) if ((unsigned char)e[(int)i] != x01::patternByte(i, 2)) eb = i + 1;
			ev(ks("e", "exec") + "," + ks("m", "spew") + "," + kv("nout", no) + "," + kv("nerr", ne) + "," + kv("code", c) + "," +
			   kv("olen", o.length()) + "," + kv("obad", ob) + "," + kv("elen", e.length()) + "," + kv("ebad", eb) + "," +
			   kv("status", q.exitStatus()) + "," + kv("ok", q.success() ? 1 : 0) + "," + kv("st", q.started() ? 1 : 0));
		}
		else
		{
			Process q = Process::execute("/nonexistent/x01-no-such-program", array<String>("a"));
			String o = q.output();
			ev(ks("e", "exec") + "," + ks("m", "missing") + ",\"out\":" + bytesOf(std::string(*o, (size_t)o.length())) + "," +
			   kv("ok", q.success() ? 1 : 0) + "," + kv("st", q.started() ? 1 : 0));
		}
	}

	void step()
	{
		int k = rng.below(100);
		if (k < 6) { opUOpen(); return; }
		if (k < 10) { opUClose(); return; }
		if (k < 16) { opUCheck(); return; }
		if (st == 0)
		{
			if (k < 70) opNew(); else opExec();
			return;
		}
		if (st == 1)
		{
			if (k < 28 && !det) { p->detach(); det = true; ev(ks("e", "detach")); }
			else if (k < 88) opRun();
			else opDel();
			return;
		}
		// st == 2
		if (child == 1)
		{
			if (k < 40) opWrite();
			else if (k < 48) opRead(false);
			else if (k < 54) opLine();
			else if (k < 60) opRead(true);
			else if (k < 63) ev(ks("e", "avail") + "," + kv("r", p->outputAvailable()));
			else if (k < 66) ev(ks("e", "eavail") + "," + kv("r", p->errorsAvailable()));
			else if (k < 72) ev(ks("e", "fin") + "," + kv("r", p->finished() ? 1 : 0));
			else if (k < 76) ev(ks("e", "started") + "," + kv("r", p->started() ? 1 : 0));
			else if (k < 80) ev(ks("e", "success") + "," + kv("r", p->success() ? 1 : 0));
			else if (k < 84) ev(ks("e", "running") + "," + kv("r", p->running() ? 1 : 0));
			else if (k < 90)
			{
				int sig = rng.chance(50) ? SIGKILL : SIGTERM;
				p->signal(sig);
				child = 2; lossy = true;
				ev(ks("e", "kill") + "," + kv("sig", sig));
			}
			else if (k < 93) { Process other; bool f = other.finished(); ev(ks("e", "ofin") + "," + kv("r", f ? 1 : 0)); }
			else if (k < 97) opDel();
			else opUCheck();
			return;
		}
		// dying
		if (k < 30) { if (!zombieSeen) syncZombie(); else ev(ks("e", "fin") + "," + kv("r", p->finished() ? 1 : 0)); }
		else if (k < 40) ev(ks("e", "fin") + "," + kv("r", p->finished() ? 1 : 0));
		else if (k < 52) { int r = p->wait(); reapedByObj = true; ev(ks("e", "wait") + "," + kv("r", r)); }
		else if (k < 60) ev(ks("e", "status") + "," + kv("r", p->exitStatus()));
		else if (k < 66) ev(ks("e", "started") + "," + kv("r", p->started() ? 1 : 0));
		else if (k < 72) ev(ks("e", "success") + "," + kv("r", p->success() ? 1 : 0));
		else if (k < 74)
		{
			if (rng.chance(50)) ev(ks("e", "avail") + "," + kv("r", p->outputAvailable()));
			else ev(ks("e", "eavail") + "," + kv("r", p->errorsAvailable()));
		}
		else if (k < 77) opRead(false);
		else if (k < 81) opLine();
		else if (k < 86) opRead(true);
		else if (k < 89) { if (zombieSeen) { Process other; bool f = other.finished(); ev(ks("e", "ofin") + "," + kv("r", f ? 1 : 0)); } }
		else opDel();
	}
};

int main(int argc, char** argv)
{
	if (argc > 1 && !strcmp(argv[1], "helper")) return x01::helperMain(argc - 2, argv + 2);
	signal(SIGPIPE, SIG_IGN);
	Args a(argc, argv);
	Rng rng(a.seed);
	Log log(a.out);
	lg = &log;
	self = x01::selfPath();
	Driver d(rng);
	d.reset();
	while (log.lines < a.events) d.step();
	if (d.p) d.opDel();
	while (!d.ufds.empty()) d.opUClose();
	d.opUCheck();
	return 0;
}
