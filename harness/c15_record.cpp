// C15 recorder (V): seeded random driver of asl's codecs on inputs far larger than TLC's exhaustive scope (arrays up to
// --mode KiB, SHA-1 messages up to min(--mode, 128) KiB, lengths clustered around the 3-byte / 64-byte block edges) and on
// mutated / malformed texts.  It logs arguments and results as byte lists, one ndjson line per input;
// spec/Trace_Codecs.tla recomputes every expected value from spec/Codecs.tla.  Nothing is judged here.
#include "c15_common.h"
#include "vrec.h"
#include <map>

using namespace vrec;

static std::string randBytes(Rng& r, int n, bool noNul)
{
	std::string s((size_t)n, '\0');
	int style = r.below(6);
	for (int i = 0; i < n; i++)
	{
		int b;
		switch (style)
		{
		case 0: b = 0; break;
		case 1: b = 255; break;
		case 2: b = 32 + r.below(95); break;                       // printable ASCII
		case 3: { static const char sp[] = " %+&=/?#~'()*!-_.;:@$,<>\"\\^`{|}\x7f\x80\xfe\xff\x01\t\n"; b = (unsigned char)sp[r.below((int)sizeof sp - 1)]; } break;
		default: b = r.below(256);
		}
		if (noNul && b == 0) b = 1 + r.below(255);
		s[(size_t)i] = (char)b;
	}
	return s;
}

static int pickLen(Rng& r, int maxBytes, int block)
{
	int c = r.below(100);
	if (c < 45) return r.below(81);
	if (c < 70) { int k = r.below(6) * block + block; int d = r.range(-9, 1); return k + d < 0 ? 0 : k + d; }  // around block edges
	if (c < 92) return r.below(maxBytes < 4096 ? maxBytes + 1 : 4097);
	return r.below(maxBytes + 1);
}

static std::string sprinkle(Rng& r, const std::string& t)
{
	static const char ws[] = { ' ', '\t', '\n', '\r' };
	std::string o;
	int every = r.chance(50) ? 76 : 1 + r.below(9);
	if (r.chance(30)) o += ws[r.below(4)];
	for (size_t i = 0; i < t.size(); i++)
	{
		o += t[i];
		if ((int)((i + 1) % (size_t)every) == 0) { if (r.chance(50)) o += "\r\n"; else o += ws[r.below(4)]; }
		else if (r.chance(2)) o += ws[r.below(4)];
	}
	if (r.chance(50)) o += '\n';
	return o;
}

static std::string mutate(Rng& r, std::string t, const char* junk, int njunk)
{
	int n = 1 + r.below(3);
	for (int k = 0; k < n; k++)
	{
		size_t p = t.empty() ? 0 : (size_t)r.below((int)t.size() + 1);
		switch (r.below(6))
		{
		case 0: t = t.substr(0, p); break;                                         // truncate
		case 1: t.insert(p, 1, junk[r.below(njunk)]); break;                       // insert
		case 2: if (p < t.size()) t.erase(p, 1); break;                            // delete
		case 3: if (p < t.size()) t[p] = junk[r.below(njunk)]; break;              // replace
		case 4: t.insert(p, std::string((size_t)(1 + r.below(5)), junk[r.below(njunk)])); break; // run
		default: if (p < t.size()) t.insert(p, t.substr(p, (size_t)(1 + r.below(4)))); break;    // duplicate
		}
	}
	return t;
}

static std::string randomOver(Rng& r, const char* alpha, int na, int maxLen)
{
	std::string s;
	int n = r.below(maxLen + 1);
	for (int i = 0; i < n; i++) s += alpha[r.below(na)];
	return s;
}

int main(int argc, char** argv)
{
	Args args(argc, argv);
	Rng rng(args.seed);
	Log log(args.out);
	int maxKiB = args.mode > 0 ? args.mode : 64;
	int maxBytes = maxKiB * 1024;
	int maxSha = maxBytes < 131072 ? maxBytes : 131072;
	log.line("{\"e\":\"reset\"}");
	for (long ev = 0; ev < args.events; ev++)
	{
		int kind = rng.below(100);
		if (kind < 22)
		{
			std::string in = randBytes(rng, pickLen(rng, maxBytes, 3 * (1 + rng.below(8))), false);
			ByteArray a = toBytes(in);
			String enc = encodeBase64(a);
			ByteArray dec = decodeBase64(enc);
			std::string ws = sprinkle(rng, fromStr(enc));
			ByteArray decws = decodeBase64(toStr(ws));
			log.line("{\"e\":\"b64\",\"in\":" + vj::codes(in) + ",\"enc\":" + vj::codes(fromStr(enc)) + ",\"dec\":" + vj::codes(fromBytes(dec)) +
			         ",\"ws\":" + vj::codes(ws) + ",\"decws\":" + vj::codes(fromBytes(decws)) + "}");
		}
		else if (kind < 36)
		{
			std::string in = randBytes(rng, pickLen(rng, maxBytes, 16), false);
			ByteArray a = toBytes(in);
			String enc = encodeHex(a);
			ByteArray dec = decodeHex(enc);
			ByteArray decu = decodeHex(enc.toUpperCase());
			log.line("{\"e\":\"hex\",\"in\":" + vj::codes(in) + ",\"enc\":" + vj::codes(fromStr(enc)) + ",\"dec\":" + vj::codes(fromBytes(dec)) +
			         ",\"decu\":" + vj::codes(fromBytes(decu)) + "}");
		}
		else if (kind < 50)
		{
			std::string in = randBytes(rng, pickLen(rng, maxBytes / 4, 16), true);
			int comp = rng.below(2);
			String enc = Url::encode(toStr(in), comp != 0);
			String dec = Url::decode(enc);
			log.line("{\"e\":\"pct\",\"in\":" + vj::codes(in) + "," + kv("comp", comp) + ",\"enc\":" + vj::codes(fromStr(enc)) + ",\"dec\":" + vj::codes(fromStr(dec)) + "}");
		}
		else if (kind < 60)
		{
			std::map<std::string, std::string> m;
			int np = rng.below(8);
			for (int i = 0; i < np; i++) m[randBytes(rng, 1 + rng.below(10), true)] = randBytes(rng, rng.below(16), true);
			Dic<> d;
			std::string ds = "[";
			for (std::map<std::string, std::string>::iterator it = m.begin(); it != m.end(); ++it)
			{
				d[toStr(it->first)] = toStr(it->second);
				ds += (ds.size() > 1 ? "," : "") + std::string("[") + vj::codes(it->first) + "," + vj::codes(it->second) + "]";
			}
			ds += "]";
			String text = Url::params(d);
			Dic<> back = Url::parseQuery(text);
			std::string bs = "[";
			foreach2(String& k, const String& v, back)
				bs += (bs.size() > 1 ? "," : "") + std::string("[") + vj::codes(fromStr(k)) + "," + vj::codes(fromStr(v)) + "]";
			bs += "]";
			log.line("{\"e\":\"qry\",\"d\":" + ds + ",\"text\":" + vj::codes(fromStr(text)) + ",\"back\":" + bs + "}");
		}
		else if (kind < 76)
		{
			std::string in = randBytes(rng, pickLen(rng, maxSha, 64), false);
			SHA1::Hash h = SHA1::hash((const byte*)in.data(), (int)in.size());
			log.line("{\"e\":\"sha\",\"in\":" + vj::codes(in) + ",\"h\":" + vj::codes(std::string((const char*)&h[0], 20)) + "}");
		}
		else
		{
			int which = rng.below(3);
			std::string in, out;
			int len = 0;
			const char* kname = which == 0 ? "b64" : which == 1 ? "hex" : "pct";
			if (which == 0)
			{
				static const char junk[] = "=== \n\t\r!*-_.AZaz09+/";
				if (rng.chance(60)) in = mutate(rng, sprinkle(rng, fromStr(encodeBase64(toBytes(randBytes(rng, rng.below(40), false))))), junk, (int)sizeof junk - 1);
				else if (rng.chance(30)) in = std::string((size_t)rng.below(12), '=') + (rng.chance(50) ? " " : "");
				else in = randomOver(rng, junk, (int)sizeof junk - 1, 40);
				ByteArray r = decodeBase64(toStr(in));
				len = r.length();
				out = fromBytes(r);
			}
			else if (which == 1)
			{
				static const char junk[] = "0123456789abcdefABCDEFgGxX -+ \n";
				if (rng.chance(70)) in = mutate(rng, fromStr(encodeHex(toBytes(randBytes(rng, rng.below(130), false)))), junk, (int)sizeof junk - 1);
				else in = randomOver(rng, junk, (int)sizeof junk - 1, 70);
				ByteArray r = decodeHex(toStr(in));
				len = r.length();
				out = fromBytes(r);
			}
			else
			{
				static const char junk[] = "%%%0123456789abcdefABCDEFg+ /?&=";
				if (rng.chance(60)) in = mutate(rng, fromStr(Url::encode(toStr(randBytes(rng, rng.below(40), true)), rng.chance(50))), junk, (int)sizeof junk - 1);
				else in = randomOver(rng, junk, (int)sizeof junk - 1, 30);
				String r = Url::decode(toStr(in));
				len = r.length();
				out = fromStr(r);
			}
			log.line(std::string("{\"e\":\"junk\",\"k\":\"") + kname + "\",\"in\":" + vj::codes(in) + "," + kv("len", len) + ",\"out\":" + vj::codes(out) + "}");
		}
	}
	return 0;
}
