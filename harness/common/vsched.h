// Deterministic token-passing scheduler + event log driven by the ASL_VERIF hooks (DESIGN.md 3.6).
//
// Exactly one managed thread holds the token.  A *decision* is taken whenever the token holder parks at a
// schedule point (or ends): the next entry of the prescribed plan names the logical thread that runs next "from
// its current point to its next point"; when the plan is exhausted or names a thread that is not enabled (counted
// as a mismatch) a default policy takes over, so every run terminates.  Threads are numbered in creation order
// (main = 0).  Every hook call is also appended to an event log (kind, thread, object index, value), in token
// order when scheduling is on, under a mutex when it is off (free-running mode with optional seeded jitter).
#ifndef VSCHED_H
#define VSCHED_H
#include <pthread.h>
#include <sched.h>
#include <unistd.h>
#include <stdint.h>
#include <time.h>
#include <cstdio>
#include <cstdlib>
#include <cstring>
#include <vector>
#include <map>
#include <string>

extern "C" void (*asl_verif_hook)(int kind, const volatile void* obj, long val);

namespace vsched {

enum Kind
{
	PRE_INC = 1, POST_INC = 2, PRE_DEC = 3, POST_DEC = 4,
	PRE_CREATE = 10, POST_CREATE = 11, T_ENTRY = 12, T_EXIT = 13, PRE_JOIN = 14, POST_JOIN = 15, SPIN = 16,
	PRE_FIN = 17, READY = 18, SPIN_DONE = 19,
	PRE_LOCK = 20, POST_LOCK = 21, UNLOCK = 22, SEM_POST = 23, SEM_PRE_WAIT = 24, SEM_POST_WAIT = 25,
	COND_SIGNAL = 26, COND_PRE_WAIT = 27, COND_POST_WAIT = 28,
	SRV_ACCEPTED = 30, SRV_PRE_SERVE = 31, SRV_POST_SERVE = 32, SRV_CLOSED = 33, SRV_LOOP_END = 34, SRV_LOOP_EXIT = 35,
	SRV_STOP_ENTER = 36, SRV_STOP_POLL = 37, SRV_STOP_EXIT = 38, SRV_DTOR = 39, SRV_HANDLER_END = 41,
	USER = 100 // harness-defined events (val free)
};

struct Event { int kind, tid, obj; long val; };

struct Th
{
	int state; // 0 = not started, 1 = parked at a point, 2 = running, 3 = done
	int kind;  // point kind while parked
	int joinTarget;
	const volatile void* threadObj;
	Th() : state(0), kind(0), joinTarget(-1), threadObj(0) {}
};

struct Sched
{
	pthread_mutex_t mu;
	pthread_cond_t cv;
	bool scheduling;          // token passing on/off
	bool active;              // hooks record at all
	int current;
	std::vector<int> plan;
	size_t pos;
	int mismatches;
	std::vector<Th> th;
	std::vector<Event> log;
	std::map<const volatile void*, int> objIndex; // addresses -> small stable indices (first-seen order)
	std::map<const volatile void*, int> threadOf; // asl::Thread object -> logical id
	int pendingChild;
	bool pointKinds[128];
	void (*observer)(int decision, void* arg);
	void* observerArg;
	int decisions;
	uint64_t jitterSeed;
	int jitterPercent;
	int delayKind, delayMs;   // free-running mode: busy-wait (no cancellation point) at this hook kind
	bool deadlock;

	Sched() : scheduling(false), active(false), current(0), pos(0), mismatches(0), pendingChild(-1), observer(0),
	          observerArg(0), decisions(0), jitterSeed(0), jitterPercent(0), delayKind(0), delayMs(0), deadlock(false)
	{
		pthread_mutex_init(&mu, 0);
		pthread_cond_init(&cv, 0);
		memset(pointKinds, 0, sizeof pointKinds);
	}
};

inline Sched& S()
{
	static Sched* s = new Sched; // leaked on purpose: hooks may fire during static destruction
	return *s;
}

static __thread int tl_id = -1;

inline int objIdx(Sched& s, const volatile void* p)
{
	std::map<const volatile void*, int>::iterator it = s.objIndex.find(p);
	if (it != s.objIndex.end()) return it->second;
	int k = (int)s.objIndex.size();
	s.objIndex[p] = k;
	return k;
}

inline bool enabled(Sched& s, int t)
{
	Th& x = s.th[t];
	if (x.state != 1) return false;
	if (x.kind == PRE_JOIN)
	{
		if (x.joinTarget >= 0) return s.th[x.joinTarget].state == 3;
		for (size_t i = 1; i < s.th.size(); i++)
			if ((int)i != t && s.th[i].state != 3) return false;
		return true;
	}
	return true;
}

// mu held; chooses the next token holder
inline void decide(Sched& s)
{
	if (s.observer) s.observer(s.decisions, s.observerArg);
	s.decisions++;
	int next = -1;
	if (s.pos < s.plan.size())
	{
		int want = s.plan[s.pos++];
		if (want >= 0 && want < (int)s.th.size() && enabled(s, want)) next = want;
		else s.mismatches++;
	}
	if (next < 0)
	{
		// default policy: lowest-numbered enabled thread that is not spinning, else a spinning one
		for (size_t i = 0; i < s.th.size() && next < 0; i++)
			if (enabled(s, (int)i) && s.th[i].kind != SPIN) next = (int)i;
		for (size_t i = 0; i < s.th.size() && next < 0; i++)
			if (enabled(s, (int)i)) next = (int)i;
	}
	if (next < 0)
	{
		bool allDone = true;
		for (size_t i = 0; i < s.th.size(); i++) if (s.th[i].state != 3) allDone = false;
		if (!allDone) s.deadlock = true; // nobody can run: reported by the harness (time limit will fire)
	}
	s.current = next;
	pthread_cond_broadcast(&s.cv);
}

inline void park(Sched& s, int me, int kind)
{
	s.th[me].state = 1;
	s.th[me].kind = kind;
	pthread_cond_broadcast(&s.cv); // a creator may be waiting for this thread to register
	if (s.current == me) { s.current = -1; decide(s); }
	while (s.current != me) pthread_cond_wait(&s.cv, &s.mu);
	s.th[me].state = 2;
}

inline void jitter(Sched& s)
{
	if (!s.jitterPercent) return;
	uint64_t z = __sync_add_and_fetch(&s.jitterSeed, 0x9E3779B97F4A7C15ULL);
	z = (z ^ (z >> 30)) * 0xBF58476D1CE4E5B9ULL;
	z = (z ^ (z >> 27)) * 0x94D049BB133111EBULL;
	z ^= z >> 31;
	if ((int)(z % 100) < s.jitterPercent)
	{
		if ((z >> 8) % 4 == 0) usleep((useconds_t)((z >> 16) % 300));
		else sched_yield();
	}
}

inline void hook(int kind, const volatile void* obj, long val)
{
	Sched& s = S();
	if (!s.active) return;
	if (!s.scheduling)
	{
		if (kind == SPIN) return; // a busy-wait iteration: logging it would make the log length depend on machine load
		if (s.delayMs && kind == s.delayKind)
		{
			struct timespec t0, t1;
			clock_gettime(CLOCK_MONOTONIC, &t0);
			do clock_gettime(CLOCK_MONOTONIC, &t1);
			while ((t1.tv_sec - t0.tv_sec) * 1000 + (t1.tv_nsec - t0.tv_nsec) / 1000000 < s.delayMs);
		}
		if (kind == PRE_INC || kind == PRE_DEC || kind == PRE_LOCK || kind == PRE_FIN || kind == READY || kind == SEM_POST ||
		    kind == SEM_PRE_WAIT || kind == COND_SIGNAL || kind == SRV_LOOP_END || kind == SRV_HANDLER_END || kind == T_ENTRY)
			jitter(s);
		pthread_mutex_lock(&s.mu);
		if (tl_id < 0)
		{
			tl_id = (int)s.th.size();
			s.th.push_back(Th());
		}
		Event e = { kind, tl_id, objIdx(s, obj), val };
		s.log.push_back(e);
		pthread_mutex_unlock(&s.mu);
		return;
	}
	pthread_mutex_lock(&s.mu);
	if (tl_id < 0)
	{
		// a new managed thread: takes the id reserved by its creator
		if (s.pendingChild >= 0) { tl_id = s.pendingChild; s.pendingChild = -1; }
		else { tl_id = (int)s.th.size(); s.th.push_back(Th()); }
		if (kind == T_ENTRY) { s.th[tl_id].threadObj = obj; s.threadOf[obj] = tl_id; }
		pthread_cond_broadcast(&s.cv);
	}
	int me = tl_id;
	Event e = { kind, me, objIdx(s, obj), val };
	s.log.push_back(e);
	if (kind == PRE_CREATE)
	{
		s.pendingChild = (int)s.th.size();
		s.th.push_back(Th());
		s.threadOf[obj] = s.pendingChild;
	}
	else if (kind == POST_CREATE)
	{
		// wait (keeping the token) until the child has registered and parked at its entry point
		int child = s.threadOf[obj];
		while (s.th[child].state == 0) pthread_cond_wait(&s.cv, &s.mu);
	}
	if (kind == PRE_JOIN)
	{
		std::map<const volatile void*, int>::iterator it = s.threadOf.find(obj);
		s.th[me].joinTarget = it == s.threadOf.end() ? -1 : it->second;
	}
	if (kind < 128 && s.pointKinds[kind])
	{
		if (kind == T_EXIT)
		{
			park(s, me, kind);
			// granted: the thread function returns now; give the token away
			s.th[me].state = 3;
			s.current = -1;
			decide(s);
		}
		else
			park(s, me, kind);
	}
	pthread_mutex_unlock(&s.mu);
}

inline int indexOf(const volatile void* p)
{
	Sched& s = S();
	pthread_mutex_lock(&s.mu);
	int k = objIdx(s, p);
	pthread_mutex_unlock(&s.mu);
	return k;
}

// writes the event log as ndjson lines {"k":kind,"t":thread,"o":object index,"v":value}
inline void dumpLog(FILE* f)
{
	Sched& s = S();
	pthread_mutex_lock(&s.mu);
	for (size_t i = 0; i < s.log.size(); i++)
		fprintf(f, "{\"k\":%d,\"t\":%d,\"o\":%d,\"v\":%ld}\n", s.log[i].kind, s.log[i].tid, s.log[i].obj, s.log[i].val);
	pthread_mutex_unlock(&s.mu);
}

// writes one JSON line for the whole run with the events of kinds `kinds` grouped by object and, within an object,
// by thread (program order preserved within a thread):
// {"objs":[{"o":3,"ev":[[{"k":..,"v":..},...],[...]]},...]}
inline long dumpLogByObject(FILE* f, const int* kinds, int nk)
{
	Sched& s = S();
	pthread_mutex_lock(&s.mu);
	long n = 0;
	std::map<int, std::map<int, std::vector<size_t> > > g; // obj -> thread -> event indices
	for (size_t i = 0; i < s.log.size(); i++)
	{
		bool want = false;
		for (int k = 0; k < nk; k++) if (kinds[k] == s.log[i].kind) want = true;
		if (want) g[s.log[i].obj][s.log[i].tid].push_back(i);
	}
	fprintf(f, "{\"objs\":[");
	bool fo = true;
	for (std::map<int, std::map<int, std::vector<size_t> > >::iterator o = g.begin(); o != g.end(); ++o)
	{
		fprintf(f, "%s{\"o\":%d,\"ev\":[", fo ? "" : ",", o->first);
		fo = false;
		bool ft = true;
		for (std::map<int, std::vector<size_t> >::iterator t = o->second.begin(); t != o->second.end(); ++t)
		{
			fprintf(f, ft ? "[" : ",[");
			ft = false;
			for (size_t j = 0; j < t->second.size(); j++)
			{
				const Event& e = s.log[t->second[j]];
				fprintf(f, "%s{\"k\":%d,\"v\":%ld}", j ? "," : "", e.kind, e.val);
				n++;
			}
			fprintf(f, "]");
		}
		fprintf(f, "]}");
	}
	fprintf(f, "]}\n");
	pthread_mutex_unlock(&s.mu);
	return n;
}

// ---- harness API -------------------------------------------------------------------------------
inline void install() { asl_verif_hook = hook; }

// start a scheduled run on the calling thread (logical thread 0)
inline void begin(const std::vector<int>& plan, const int* points, int npoints)
{
	Sched& s = S();
	pthread_mutex_lock(&s.mu);
	s.plan = plan;
	s.pos = 0;
	s.mismatches = 0;
	s.decisions = 0;
	s.deadlock = false;
	s.th.clear();
	s.th.push_back(Th());
	s.th[0].state = 2;
	s.log.clear();
	s.objIndex.clear();
	s.threadOf.clear();
	s.pendingChild = -1;
	memset(s.pointKinds, 0, sizeof s.pointKinds);
	for (int i = 0; i < npoints; i++) s.pointKinds[points[i]] = true;
	s.pointKinds[T_ENTRY] = s.pointKinds[T_EXIT] = true; // a managed thread never runs without the token
	s.current = 0;
	tl_id = 0;
	s.scheduling = true;
	s.active = true;
	pthread_mutex_unlock(&s.mu);
}

// free-running recording (no token), optional jitter
inline void beginFree(uint64_t seed, int jitterPercent)
{
	Sched& s = S();
	pthread_mutex_lock(&s.mu);
	s.th.clear();
	s.th.push_back(Th());
	s.log.clear();
	s.objIndex.clear();
	s.threadOf.clear();
	tl_id = 0;
	s.scheduling = false;
	s.jitterSeed = seed;
	s.jitterPercent = jitterPercent;
	s.delayKind = s.delayMs = 0;
	s.active = true;
	pthread_mutex_unlock(&s.mu);
}

inline void end()
{
	Sched& s = S();
	pthread_mutex_lock(&s.mu);
	s.active = false;
	s.scheduling = false;
	s.th[0].state = 3;
	pthread_mutex_unlock(&s.mu);
}

// harness-created managed thread (for scenarios that do not use asl::Thread): the creator reserves the id and waits
// until the child is parked at its first point (kind USER); the child must call childEnter() first and childExit() last.
struct Spawn
{
	void* (*fn)(void*);
	void* arg;
};
inline void* spawnTramp(void* p)
{
	Spawn sp = *(Spawn*)p;
	delete (Spawn*)p;
	hook(T_ENTRY, 0, 0);
	void* r = sp.fn(sp.arg);
	hook(T_EXIT, 0, 0);
	return r;
}
inline pthread_t spawn(void* (*fn)(void*), void* arg)
{
	Sched& s = S();
	Spawn* sp = new Spawn;
	sp->fn = fn;
	sp->arg = arg;
	pthread_t t;
	int child = -1;
	if (s.scheduling)
	{
		pthread_mutex_lock(&s.mu);
		s.pendingChild = child = (int)s.th.size();
		s.th.push_back(Th());
		pthread_mutex_unlock(&s.mu);
	}
	pthread_create(&t, 0, spawnTramp, sp);
	if (s.scheduling)
	{
		pthread_mutex_lock(&s.mu);
		while (s.th[child].state == 0) pthread_cond_wait(&s.cv, &s.mu);
		pthread_mutex_unlock(&s.mu);
	}
	return t;
}
// the calling (token-holding) thread waits for logical thread `target` to end, as a schedule point
inline void joinPoint(int target)
{
	Sched& s = S();
	if (!s.scheduling) return;
	pthread_mutex_lock(&s.mu);
	s.th[tl_id].joinTarget = target;
	park(s, tl_id, PRE_JOIN);
	pthread_mutex_unlock(&s.mu);
}
// a plain schedule point of the harness itself
inline void userPoint(long val)
{
	Sched& s = S();
	if (!s.active) return;
	if (!s.scheduling) { hook(USER, 0, val); return; }
	pthread_mutex_lock(&s.mu);
	Event e = { USER, tl_id, 0, val };
	s.log.push_back(e);
	park(s, tl_id, USER);
	pthread_mutex_unlock(&s.mu);
}
inline void userEvent(int kind, long obj, long val)
{
	Sched& s = S();
	if (!s.active) return;
	pthread_mutex_lock(&s.mu);
	if (tl_id < 0) { tl_id = (int)s.th.size(); s.th.push_back(Th()); }
	Event e = { kind, tl_id, (int)obj, val };
	s.log.push_back(e);
	pthread_mutex_unlock(&s.mu);
}

}
#endif
