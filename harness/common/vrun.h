// Forked, crash-isolating case runner shared by all replayers (DESIGN.md 3.5).
//
//   exe --cases FILE --shard k/N --summary OUT --faildir DIR [--skip-hazards a,b] [--batch B] [--case-timeout-ms T]
//   exe --single FILE            (replay: run every line, no hazard skipping, exit 1 on failure)
//
// Each case is one JSON line.  Cases are sharded by a hash of the line (so duplicates meet in one shard and the
// distinct count is exact).  A child process runs a batch; progress is reported over a pipe, so when the child
// dies (sanitizer abort, signal, alarm) the parent knows which case killed it, records it with the child's
// stderr, and continues after it.  A recoverable LeakSanitizer pass runs at the end of each batch; a leaking batch
// is re-run one case per child to attribute the leak.
#ifndef VRUN_H
#define VRUN_H
#include "vjson.h"
#include <string>
#include <vector>
#include <set>
#include <map>
#include <cstdio>
#include <cstdlib>
#include <cstring>
#include <cerrno>
#include <unistd.h>
#include <signal.h>
#include <fcntl.h>
#include <sys/wait.h>
#include <sys/stat.h>
#include <sys/time.h>

extern "C" int __lsan_do_recoverable_leak_check() __attribute__((weak));

namespace vrun {

struct Outcome
{
	bool ok;
	bool nontrivial;
	std::string msg;
	std::string hazard; // non-empty: the case ran into an open known finding (decided on the real object); not a failure
	Outcome() : ok(true), nontrivial(true) {}
	static Outcome fail(const std::string& m) { Outcome o; o.ok = false; o.msg = m; return o; }
};

typedef Outcome (*CaseFn)(const vj::Value& c);

inline unsigned long long fnv(const std::string& s)
{
	unsigned long long h = 1469598103934665603ULL;
	for (size_t i = 0; i < s.size(); i++) { h ^= (unsigned char)s[i]; h *= 1099511628211ULL; }
	return h;
}

struct Failure { size_t idx; std::string msg; std::string replay; };

struct Runner
{
	CaseFn fn;
	std::vector<std::string> lines;
	std::set<std::string> skip;
	std::string faildir, summary;
	int batch, timeoutMs;
	bool single;
	size_t executed, nontrivial;
	std::map<std::string, size_t> skipped;
	std::vector<Failure> failures;
	std::vector<std::string> samples;

	Runner() : fn(0), batch(3000), timeoutMs(120000), single(false), executed(0), nontrivial(0) {}

	static void onAlarm(int)
	{
		const char m[] = "\n==VRUN== case timed out\n";
		if (write(2, m, sizeof m - 1)) {}
		_exit(96);
	}

	std::string readFile(const std::string& p, size_t maxTail)
	{
		FILE* f = fopen(p.c_str(), "rb");
		if (!f) return "";
		std::string s;
		char buf[4096];
		size_t n;
		while ((n = fread(buf, 1, sizeof buf, f)) > 0) s.append(buf, n);
		fclose(f);
		if (s.size() > maxTail) s = s.substr(0, maxTail / 2) + "\n...\n" + s.substr(s.size() - maxTail / 2);
		return s;
	}

	void recordFailure(size_t idx, const std::string& msg)
	{
		Failure f;
		f.idx = idx;
		f.msg = msg;
		char name[64];
		snprintf(name, sizeof name, "/case-%016llx.json", fnv(lines[idx]));
		f.replay = faildir + name;
		FILE* o = fopen(f.replay.c_str(), "w");
		if (o) { fputs(lines[idx].c_str(), o); fputc('\n', o); fclose(o); }
		failures.push_back(f);
	}

	// runs lines[a..b) in a child; returns index to continue from
	size_t runBatch(size_t a, size_t b, bool leakEach)
	{
		int fds[2];
		if (pipe(fds) != 0) { perror("pipe"); exit(2); }
		char errname[256];
		snprintf(errname, sizeof errname, "%s/.stderr-%d", faildir.c_str(), (int)getpid());
		fflush(stdout);
		fflush(stderr);
		pid_t pid = fork();
		if (pid < 0) { perror("fork"); exit(2); }
		if (pid == 0)
		{
			close(fds[0]);
			int efd = open(errname, O_WRONLY | O_CREAT | O_TRUNC, 0644);
			if (efd >= 0) { dup2(efd, 2); close(efd); }
			signal(SIGALRM, onAlarm);
			signal(SIGPIPE, SIG_IGN);
			FILE* w = fdopen(fds[1], "w");
			for (size_t i = a; i < b; i++)
			{
				fprintf(w, "S %zu\n", i);
				fflush(w);
				Outcome o;
				std::string hz;
				try
				{
					vj::Value c = vj::parse(lines[i]);
					if (!single && !skip.empty())
					{
						const vj::Value& h = c["hz"];
						for (size_t k = 0; k < h.size(); k++)
							if (skip.count(h[k].str)) { hz = h[k].str; break; }
					}
					if (hz.empty())
					{
						struct itimerval tv;
						memset(&tv, 0, sizeof tv);
						tv.it_value.tv_sec = timeoutMs / 1000;
						tv.it_value.tv_usec = (timeoutMs % 1000) * 1000;
						setitimer(ITIMER_REAL, &tv, 0);
						o = fn(c);
						memset(&tv, 0, sizeof tv);
						setitimer(ITIMER_REAL, &tv, 0);
					}
				}
				catch (std::exception& ex)
				{
					o = Outcome::fail(std::string("harness exception: ") + ex.what());
				}
				if (hz.empty() && !o.hazard.empty()) hz = o.hazard;
				if (!hz.empty())
					fprintf(w, "K %zu %s\n", i, hz.c_str());
				else
				{
					for (size_t k = 0; k < o.msg.size(); k++)
						if (o.msg[k] == '\n') o.msg[k] = '\t';
					fprintf(w, "E %zu %d %d %s\n", i, o.ok ? 1 : 0, o.nontrivial ? 1 : 0, o.msg.c_str());
				}
				fflush(w);
				if (leakEach && &__lsan_do_recoverable_leak_check && __lsan_do_recoverable_leak_check())
				{
					fprintf(w, "L %zu\n", i);
					fflush(w);
				}
			}
			if (!leakEach && &__lsan_do_recoverable_leak_check && __lsan_do_recoverable_leak_check())
			{
				fprintf(w, "L %zu\n", b);
				fflush(w);
			}
			fclose(w);
			_exit(0);
		}
		close(fds[1]);
		FILE* r = fdopen(fds[0], "r");
		char* ln = 0;
		size_t cap = 0;
		long started = -1, ended = -1;
		bool leak = false;
		std::vector<size_t> leakAt;
		ssize_t n;
		while ((n = getline(&ln, &cap, r)) > 0)
		{
			if (ln[n - 1] == '\n') ln[n - 1] = 0;
			if (ln[0] == 'S') started = atol(ln + 2);
			else if (ln[0] == 'K')
			{
				char name[128];
				size_t idx;
				if (sscanf(ln + 2, "%zu %127s", &idx, name) == 2) skipped[name]++;
				ended = (long)idx;
			}
			else if (ln[0] == 'E')
			{
				size_t idx;
				int ok, nt, off = 0;
				sscanf(ln + 2, "%zu %d %d %n", &idx, &ok, &nt, &off);
				ended = (long)idx;
				executed++;
				if (nt) nontrivial++;
				if (nt && samples.size() < 2) samples.push_back(lines[idx].substr(0, 700));
				if (!ok) recordFailure(idx, std::string(ln + 2 + off));
			}
			else if (ln[0] == 'L')
			{
				leak = true;
				leakAt.push_back((size_t)atol(ln + 2));
			}
		}
		free(ln);
		fclose(r);
		int st = 0;
		waitpid(pid, &st, 0);
		size_t next = b;
		bool died = !(WIFEXITED(st) && WEXITSTATUS(st) == 0);
		if (died && started > ended)
		{
			char what[128];
			if (WIFSIGNALED(st)) snprintf(what, sizeof what, "process killed by signal %d", WTERMSIG(st));
			else snprintf(what, sizeof what, "process exited with code %d%s", WEXITSTATUS(st),
			              WEXITSTATUS(st) == 99 ? " (AddressSanitizer report)" : WEXITSTATUS(st) == 96 ? " (time limit)" : "");
			executed++;
			recordFailure((size_t)started, std::string(what) + "\t" + readFile(errname, 5000));
			next = (size_t)started + 1;
		}
		else if (died)
		{
			fprintf(stderr, "vrun: child failed outside a case (status %d)\n%s\n", st, readFile(errname, 3000).c_str());
			exit(2);
		}
		else if (leak)
		{
			if (leakEach)
			{
				for (size_t k = 0; k < leakAt.size(); k++)
					recordFailure(leakAt[k], "memory leak (LeakSanitizer)\t" + readFile(errname, 5000));
			}
			else
			{
				// attribute: one case per child (counts are not double counted)
				size_t ex0 = executed, nt0 = nontrivial;
				std::map<std::string, size_t> sk0 = skipped;
				size_t f0 = failures.size();
				std::vector<std::string> s0 = samples;
				for (size_t i = a; i < b; i++) runBatch(i, i + 1, true);
				executed = ex0;
				nontrivial = nt0;
				skipped = sk0;
				samples = s0;
				// failures found again by re-execution other than leaks would be duplicates: keep only leak ones
				std::vector<Failure> keep(failures.begin(), failures.begin() + f0);
				for (size_t k = f0; k < failures.size(); k++)
					if (failures[k].msg.compare(0, 11, "memory leak") == 0) keep.push_back(failures[k]);
				if (keep.size() == f0)
				{
					Failure f;
					f.idx = a;
					f.msg = "memory leak in a batch that could not be attributed to a single case\t" + readFile(errname, 4000);
					f.replay = "";
					// write whole batch as replay
					char name[64];
					snprintf(name, sizeof name, "/batch-%016llx.json", fnv(lines[a]));
					f.replay = faildir + name;
					FILE* o = fopen(f.replay.c_str(), "w");
					if (o) { for (size_t i = a; i < b; i++) { fputs(lines[i].c_str(), o); fputc('\n', o); } fclose(o); }
					keep.push_back(f);
				}
				failures = keep;
			}
		}
		unlink(errname);
		return next;
	}

	static std::string jstr(const std::string& s) { return vj::quote(s); }

	int main(int argc, char** argv)
	{
		std::string cases;
		int k = 0, N = 1;
		for (int i = 1; i < argc; i++)
		{
			std::string a = argv[i];
			const char* v = i + 1 < argc ? argv[i + 1] : "";
			if (a == "--cases") { cases = v; i++; }
			else if (a == "--single") { cases = v; single = true; i++; }
			else if (a == "--shard") { sscanf(v, "%d/%d", &k, &N); i++; }
			else if (a == "--summary") { summary = v; i++; }
			else if (a == "--faildir") { faildir = v; i++; }
			else if (a == "--batch") { batch = atoi(v); i++; }
			else if (a == "--case-timeout-ms") { timeoutMs = atoi(v); i++; }
			else if (a == "--skip-hazards")
			{
				std::string s = v;
				size_t p = 0;
				while (p <= s.size())
				{
					size_t q = s.find(',', p);
					if (q == std::string::npos) q = s.size();
					if (q > p) skip.insert(s.substr(p, q - p));
					p = q + 1;
				}
				i++;
			}
		}
		if (faildir.empty()) faildir = "/verif/out/replay/misc";
		mkdir(faildir.c_str(), 0755);
		FILE* f = fopen(cases.c_str(), "r");
		if (!f) { fprintf(stderr, "vrun: cannot open %s\n", cases.c_str()); return 2; }
		char* ln = 0;
		size_t cap = 0;
		ssize_t n;
		std::set<unsigned long long> seen;
		size_t total = 0;
		while ((n = getline(&ln, &cap, f)) > 0)
		{
			while (n > 0 && (ln[n - 1] == '\n' || ln[n - 1] == '\r')) n--;
			if (n == 0) continue;
			std::string s(ln, (size_t)n);
			unsigned long long h = fnv(s);
			if ((int)((h >> 17) % (unsigned)N) != k) continue;
			total++;
			if (!single && !seen.insert(h).second) continue;
			lines.push_back(s);
		}
		free(ln);
		fclose(f);
		size_t i = 0;
		while (i < lines.size() && failures.size() < 4)
			i = runBatch(i, i + (size_t)(single ? 1 : batch) < lines.size() ? i + (size_t)(single ? 1 : batch) : lines.size(), single);
		if (single)
		{
			for (size_t q = 0; q < failures.size(); q++)
				printf("FAIL case %zu: %s\n", failures[q].idx, failures[q].msg.c_str());
			printf("replayed %zu case(s), %zu failure(s)\n", executed, failures.size());
			return failures.empty() ? 0 : 1;
		}
		FILE* o = fopen(summary.c_str(), "w");
		if (!o) { fprintf(stderr, "vrun: cannot write %s\n", summary.c_str()); return 2; }
		fprintf(o, "{\"cases\":%zu,\"distinct\":%zu,\"executed\":%zu,\"nontrivial\":%zu,\"skipped\":{", total, lines.size(), executed, nontrivial);
		bool first = true;
		for (std::map<std::string, size_t>::iterator it = skipped.begin(); it != skipped.end(); ++it)
		{
			fprintf(o, "%s%s:%zu", first ? "" : ",", jstr(it->first).c_str(), it->second);
			first = false;
		}
		fprintf(o, "},\"failures\":[");
		for (size_t q = 0; q < failures.size(); q++)
			fprintf(o, "%s{\"idx\":%zu,\"msg\":%s,\"replay\":%s}", q ? "," : "", failures[q].idx,
			        jstr(failures[q].msg.substr(0, 6000)).c_str(), jstr(failures[q].replay).c_str());
		fprintf(o, "],\"samples\":[");
		for (size_t q = 0; q < samples.size(); q++)
			fprintf(o, "%s%s", q ? "," : "", jstr(samples[q]).c_str());
		fprintf(o, "]}\n");
		fclose(o);
		return failures.empty() ? 0 : 1;
	}
};

inline int run(int argc, char** argv, CaseFn fn)
{
	Runner r;
	r.fn = fn;
	return r.main(argc, argv);
}

}
#endif
