// Helpers for recorders (V direction): seeded PRNG, ndjson event log, argument parsing.
#ifndef VREC_H
#define VREC_H
#include "vjson.h"
#include <cstdio>
#include <cstdlib>
#include <cstring>
#include <string>
#include <set>
#include <stdint.h>
#include <unistd.h>

namespace vrec {

struct Rng
{
	uint64_t s;
	explicit Rng(uint64_t seed) : s(seed * 0x9E3779B97F4A7C15ULL + 0x1234567) { next(); next(); }
	uint64_t next()
	{
		uint64_t z = (s += 0x9E3779B97F4A7C15ULL);
		z = (z ^ (z >> 30)) * 0xBF58476D1CE4E5B9ULL;
		z = (z ^ (z >> 27)) * 0x94D049BB133111EBULL;
		return z ^ (z >> 31);
	}
	int below(int n) { return n <= 0 ? 0 : (int)(next() % (uint64_t)n); }
	int range(int a, int b) { return a + below(b - a + 1); }
	bool chance(int percent) { return below(100) < percent; }
	template <class T> const T& pick(const T* a, int n) { return a[below(n)]; }
};

struct Args
{
	uint64_t seed;
	long events;
	std::string out;
	std::set<std::string> avoid;
	int mode;
	Args(int argc, char** argv) : seed(1), events(10000), mode(0)
	{
		for (int i = 1; i + 1 < argc; i += 2)
		{
			std::string a = argv[i], v = argv[i + 1];
			if (a == "--seed") seed = strtoull(v.c_str(), 0, 10);
			else if (a == "--events") events = atol(v.c_str());
			else if (a == "--out") out = v;
			else if (a == "--mode") mode = atoi(v.c_str());
			else if (a == "--avoid")
			{
				size_t p = 0;
				while (p <= v.size())
				{
					size_t q = v.find(',', p);
					if (q == std::string::npos) q = v.size();
					if (q > p) avoid.insert(v.substr(p, q - p));
					p = q + 1;
				}
			}
		}
	}
};

struct Log
{
	FILE* f;
	long lines;
	explicit Log(const std::string& path) : f(fopen(path.c_str(), "w")), lines(0)
	{
		if (!f) { perror(path.c_str()); exit(2); }
	}
	~Log() { if (f) fclose(f); }
	void line(const std::string& s)
	{
		fputs(s.c_str(), f);
		fputc('\n', f);
		fflush(f); // a crash must not lose the events that led to it
		lines++;
	}
};

inline std::string kv(const char* k, long long v)
{
	char b[64];
	snprintf(b, sizeof b, "\"%s\":%lld", k, v);
	return b;
}
inline std::string ks(const char* k, const std::string& v) { return std::string("\"") + k + "\":" + vj::quote(v); }

}
#endif
