// Minimal JSON reader for harness inputs (deliberately independent of ASL's own JSON code).
#ifndef VJSON_H
#define VJSON_H
#include <string>
#include <vector>
#include <utility>
#include <cstdlib>
#include <cstring>
#include <cstdio>
#include <stdexcept>

namespace vj {

struct Value
{
	enum Kind { NUL, BOOL, NUM, STR, ARR, OBJ } kind;
	bool b;
	double num;
	long long inum;
	std::string str;
	std::vector<Value> arr;
	std::vector<std::pair<std::string, Value> > obj;
	Value() : kind(NUL), b(false), num(0), inum(0) {}
	bool has(const char* k) const
	{
		for (size_t i = 0; i < obj.size(); i++)
			if (obj[i].first == k) return true;
		return false;
	}
	const Value& operator[](const char* k) const
	{
		static Value none;
		for (size_t i = 0; i < obj.size(); i++)
			if (obj[i].first == k) return obj[i].second;
		return none;
	}
	const Value& operator[](size_t i) const { return arr[i]; }
	const Value& operator[](int i) const { return arr[(size_t)i]; }
	size_t size() const { return kind == ARR ? arr.size() : kind == OBJ ? obj.size() : 0; }
	int i() const { return (int)inum; }
	long long ll() const { return inum; }
	const std::string& s() const { return str; }
	bool is(Kind k) const { return kind == k; }
	// array of small ints -> byte string
	std::string bytes() const
	{
		std::string r;
		for (size_t k = 0; k < arr.size(); k++) r += (char)arr[k].inum;
		return r;
	}
	std::vector<int> ints() const
	{
		std::vector<int> r;
		for (size_t k = 0; k < arr.size(); k++) r.push_back((int)arr[k].inum);
		return r;
	}
};

struct Parser
{
	const char* p;
	const char* e;
	Parser(const char* s, size_t n) : p(s), e(s + n) {}
	void ws() { while (p < e && (*p == ' ' || *p == '\t' || *p == '\n' || *p == '\r')) p++; }
	void fail(const char* m) { throw std::runtime_error(std::string("vjson: ") + m); }
	Value parse()
	{
		ws();
		Value v = val();
		ws();
		return v;
	}
	Value val()
	{
		ws();
		if (p >= e) fail("eof");
		Value v;
		char c = *p;
		if (c == '{')
		{
			v.kind = Value::OBJ;
			p++;
			ws();
			if (p < e && *p == '}') { p++; return v; }
			for (;;)
			{
				ws();
				if (p >= e || *p != '"') fail("key");
				std::string k = str();
				ws();
				if (p >= e || *p != ':') fail("colon");
				p++;
				Value x = val();
				v.obj.push_back(std::make_pair(k, x));
				ws();
				if (p < e && *p == ',') { p++; continue; }
				if (p < e && *p == '}') { p++; break; }
				fail("obj");
			}
			return v;
		}
		if (c == '[')
		{
			v.kind = Value::ARR;
			p++;
			ws();
			if (p < e && *p == ']') { p++; return v; }
			for (;;)
			{
				v.arr.push_back(val());
				ws();
				if (p < e && *p == ',') { p++; continue; }
				if (p < e && *p == ']') { p++; break; }
				fail("arr");
			}
			return v;
		}
		if (c == '"') { v.kind = Value::STR; v.str = str(); return v; }
		if (c == 't' && e - p >= 4 && !strncmp(p, "true", 4)) { p += 4; v.kind = Value::BOOL; v.b = true; return v; }
		if (c == 'f' && e - p >= 5 && !strncmp(p, "false", 5)) { p += 5; v.kind = Value::BOOL; v.b = false; return v; }
		if (c == 'n' && e - p >= 4 && !strncmp(p, "null", 4)) { p += 4; return v; }
		const char* q = p;
		if (q < e && (*q == '-' || *q == '+')) q++;
		bool isint = true;
		while (q < e && ((*q >= '0' && *q <= '9') || *q == '.' || *q == 'e' || *q == 'E' || *q == '-' || *q == '+'))
		{
			if (*q == '.' || *q == 'e' || *q == 'E') isint = false;
			q++;
		}
		if (q == p) fail("value");
		std::string t(p, q);
		p = q;
		v.kind = Value::NUM;
		v.num = atof(t.c_str());
		v.inum = isint ? atoll(t.c_str()) : (long long)v.num;
		return v;
	}
	std::string str()
	{
		std::string r;
		p++;
		while (p < e && *p != '"')
		{
			if (*p == '\\' && p + 1 < e)
			{
				p++;
				switch (*p)
				{
				case 'n': r += '\n'; break;
				case 't': r += '\t'; break;
				case 'r': r += '\r'; break;
				case 'b': r += '\b'; break;
				case 'f': r += '\f'; break;
				case 'u':
				{
					if (e - p < 5) fail("u");
					unsigned u = (unsigned)strtoul(std::string(p + 1, p + 5).c_str(), 0, 16);
					p += 4;
					if (u < 0x80) r += (char)u;
					else if (u < 0x800) { r += (char)(0xC0 | (u >> 6)); r += (char)(0x80 | (u & 63)); }
					else { r += (char)(0xE0 | (u >> 12)); r += (char)(0x80 | ((u >> 6) & 63)); r += (char)(0x80 | (u & 63)); }
					break;
				}
				default: r += *p;
				}
				p++;
			}
			else
				r += *p++;
		}
		if (p >= e) fail("string");
		p++;
		return r;
	}
};

inline Value parse(const std::string& s)
{
	Parser ps(s.data(), s.size());
	return ps.parse();
}

// --- tiny writer helpers (for ndjson traces and summaries) ---
inline std::string quote(const std::string& s)
{
	std::string r = "\"";
	for (size_t i = 0; i < s.size(); i++)
	{
		unsigned char c = (unsigned char)s[i];
		if (c == '"') r += "\\\"";
		else if (c == '\\') r += "\\\\";
		else if (c == '\n') r += "\\n";
		else if (c == '\r') r += "\\r";
		else if (c == '\t') r += "\\t";
		else if (c < 32 || c >= 127) { char b[8]; snprintf(b, sizeof b, "\\u%04x", c); r += b; }
		else r += (char)c;
	}
	return r + "\"";
}

inline std::string codes(const std::string& s)  // byte string -> [1,2,3]
{
	std::string r = "[";
	char b[8];
	for (size_t i = 0; i < s.size(); i++)
	{
		snprintf(b, sizeof b, i ? ",%d" : "%d", (int)(unsigned char)s[i]);
		r += b;
	}
	return r + "]";
}

template <class It>
inline std::string intlist(It a, It b)
{
	std::string r = "[";
	char buf[24];
	bool first = true;
	for (; a != b; ++a)
	{
		snprintf(buf, sizeof buf, first ? "%lld" : ",%lld", (long long)*a);
		r += buf;
		first = false;
	}
	return r + "]";
}

}
#endif
