// X01 part "log": what the recorder and the replayer share - names, the calls on the real asl::Log, and the projection
// of the files it wrote (spec/LogFile.tla is the oracle; nothing here decides what a file should contain).
//
//   file id f      -> <dir>/app.log (1), <dir>/plain (2), <dir>/second.txt (3), <dir>/z.plain.log (4); companions ("-1" appended to
//                     the name, in front of the extension as in the documented example): app-1.log, plain-1, second-1.txt, z.plain-1.log
//   category c     -> "net" (1), "db" (2), "x01_log_calls" (3: the ASL_LOG_x macros, used in this file, take it from __FILE__)
//   decoration d   -> 0 plain, 1 "src/<cat>.cpp", 2 "..\lib\<cat>.h", 3 "lib-1.2/<cat>"
//   message (id,n) -> "m<id>" padded with '_' to n bytes
//   line           -> {c, lb, id, n, dl, ok, ts}: category id (0 = none of ours), level label ("" = none), message id and length,
//                     length of the date field, ts = the date as seconds since the epoch (-1: not a date), ok = 1 iff the line is "[" date "][" cat "] " [label ": "] message "\n" with a date
//                     of the shape dddd-dd-ddTdd:dd:dd and a message of the shape above
#ifndef X01_LOG_CALLS_H
#define X01_LOG_CALLS_H
#include <asl/Log.h>
#include "vjson.h"
#include <string>
#include <vector>
#include <cstdio>
#include <cstdlib>
#include <cstring>
#include <cctype>
#include <unistd.h>
#include <dirent.h>
#include <sys/stat.h>
#include <time.h>

namespace xlog {

static const int NF = 4;
static const char* const FILE_NAMES[NF + 1] = { "", "app.log", "plain", "second.txt", "z.plain.log" };
static const char* const OLD_NAMES[NF + 1] = { "", "app-1.log", "plain-1", "second-1.txt", "z.plain-1.log" };
static const char* const CAT_NAMES[4] = { "", "net", "db", "x01_log_calls" };

struct Dir
{
	std::string path;
	Dir()
	{
		const char* base = getenv("X01_LOG_TMP"); // the check passes its scratch directory, so that nothing outlives a crash
		std::string t = std::string(base && *base ? base : "/tmp") + "/x01log-XXXXXX";
		std::vector<char> buf(t.begin(), t.end());
		buf.push_back(0);
		if (!mkdtemp(&buf[0])) { perror("mkdtemp"); exit(2); }
		path = &buf[0];
	}
	void clear()
	{
		DIR* d = opendir(path.c_str());
		if (!d) return;
		while (struct dirent* e = readdir(d))
			if (strcmp(e->d_name, ".") && strcmp(e->d_name, ".."))
				unlink((path + "/" + e->d_name).c_str());
		closedir(d);
	}
	~Dir() { clear(); rmdir(path.c_str()); }
	std::string file(int f) const { return path + "/" + FILE_NAMES[f]; }
	std::string old(int f) const { return path + "/" + OLD_NAMES[f]; }
	int stray(int nf) const // directory entries that have none of the documented names
	{
		int n = 0;
		DIR* d = opendir(path.c_str());
		if (!d) return -1;
		while (struct dirent* e = readdir(d))
		{
			if (!strcmp(e->d_name, ".") || !strcmp(e->d_name, "..")) continue;
			bool known = false;
			for (int f = 1; f <= nf; f++)
				if (!strcmp(e->d_name, FILE_NAMES[f]) || !strcmp(e->d_name, OLD_NAMES[f])) known = true;
			if (!known) n++;
		}
		closedir(d);
		return n;
	}
};

inline std::string catText(int c, int d)
{
	std::string n = CAT_NAMES[c];
	if (d == 1) return "src/" + n + ".cpp";
	if (d == 2) return "..\\lib\\" + n + ".h";
	if (d == 3) return "lib-1.2/" + n; // a '.' only in the directory part, no extension (an extension-less header)
	return n;
}

inline std::string msgText(int id, int n)
{
	char b[32];
	snprintf(b, sizeof b, "m%d", id);
	std::string s = b;
	if ((int)s.size() < n) s.append((size_t)n - s.size(), '_');
	return s;
}

// the configuration every execution starts from (the values Init of LogFile.tla spells out)
// (defaults = true: a fresh process relies on the documented defaults - enabled, level DEBUG, file output on)
inline void resetLog(const Dir& dir, bool defaults = false)
{
	asl::Log::useConsole(false);
	if (!defaults)
	{
		asl::Log::enable(true);
		asl::Log::setMaxLevel(3);
		asl::Log::useFile(true);
	}
	asl::Log::setFile(dir.file(1).c_str());
}

inline void macroLog(int lv, const char* text)
{
	switch (lv)
	{
	case 0: ASL_LOG_E("%s", text); break;
	case 1: ASL_LOG_W("%s", text); break;
	case 2: ASL_LOG_I("%s", text); break;
	case 3: ASL_LOG_D("%s", text); break;
	default: ASL_LOG_V("%s", text); break;
	}
}

inline void logCall(int c, int d, int via, int lv, int id, int n)
{
	std::string text = msgText(id, n);
	if (via == 2) { macroLog(lv, text.c_str()); return; }
	std::string cat = catText(c, d);
	if (via == 1)
		asl::log(asl::String(cat.c_str()), (asl::Log::Level)lv, "%s", text.c_str());
	else
		asl::log(asl::String(cat.c_str()), (asl::Log::Level)lv, asl::String(text.c_str()));
}

inline long nowSeconds() // the clock Date::now() reads
{
	struct timespec t;
	clock_gettime(CLOCK_REALTIME, &t);
	return (long)t.tv_sec;
}

// ---- projection of what is on disk -------------------------------------------------------------------------------
struct Line { int c, id, n, dl, ok; long ts; std::string lb; };

inline bool readAll(const std::string& path, std::string& out)
{
	out.clear();
	FILE* f = fopen(path.c_str(), "rb");
	if (!f) return false;
	char buf[1 << 16];
	size_t k;
	while ((k = fread(buf, 1, sizeof buf, f)) > 0) out.append(buf, k);
	fclose(f);
	return true;
}

inline Line parseLine(const char* p, size_t len, bool terminated)
{
	Line r; r.c = 0; r.id = -1; r.n = -1; r.dl = -1; r.ok = 0; r.ts = -1;
	static const char* const LABELS[5] = { "ERROR", "WARNING", "INFO", "DEBUG", "VERBOSE" };
	const char* e = p + len;
	if (p >= e || *p != '[') return r;
	const char* q = (const char*)memchr(p, ']', len);
	if (!q) return r;
	r.dl = (int)(q - p - 1);
	bool dateok = r.dl == 19;
	for (int i = 0; dateok && i < 19; i++)
	{
		char ch = p[1 + i];
		if (i == 4 || i == 7) dateok = ch == '-';
		else if (i == 10) dateok = ch == 'T';
		else if (i == 13 || i == 16) dateok = ch == ':';
		else dateok = isdigit((unsigned char)ch) != 0;
	}
	if (dateok) // the date as seconds since the epoch (local time, as Log writes it)
	{
		struct tm tmv;
		memset(&tmv, 0, sizeof tmv);
		tmv.tm_year = atoi(std::string(p + 1, 4).c_str()) - 1900;
		tmv.tm_mon = atoi(std::string(p + 6, 2).c_str()) - 1;
		tmv.tm_mday = atoi(std::string(p + 9, 2).c_str());
		tmv.tm_hour = atoi(std::string(p + 12, 2).c_str());
		tmv.tm_min = atoi(std::string(p + 15, 2).c_str());
		tmv.tm_sec = atoi(std::string(p + 18, 2).c_str());
		tmv.tm_isdst = -1;
		r.ts = (long)mktime(&tmv);
	}
	p = q + 1;
	if (p >= e || *p != '[') return r;
	q = (const char*)memchr(p, ']', (size_t)(e - p));
	if (!q) return r;
	std::string cat(p + 1, q);
	for (int c = 1; c <= 3; c++) if (cat == CAT_NAMES[c]) r.c = c;
	p = q + 1;
	if (p >= e || *p != ' ') return r;
	p++;
	for (int k = 0; k < 5; k++)
	{
		size_t ll = strlen(LABELS[k]);
		if ((size_t)(e - p) >= ll + 2 && !memcmp(p, LABELS[k], ll) && p[ll] == ':' && p[ll + 1] == ' ')
		{
			r.lb = LABELS[k];
			p += ll + 2;
			break;
		}
	}
	r.n = (int)(e - p);
	bool msgok = false;
	if (p < e && *p == 'm')
	{
		const char* d = p + 1;
		long id = 0;
		while (d < e && isdigit((unsigned char)*d) && d - p < 10) { id = id * 10 + (*d - '0'); d++; }
		if (d > p + 1)
		{
			msgok = true;
			while (d < e) { if (*d != '_') { msgok = false; break; } d++; }
			if (msgok) r.id = (int)id;
		}
	}
	r.ok = (dateok && msgok && r.c != 0 && terminated) ? 1 : 0;
	return r;
}

struct Content { bool exists; long bytes; std::vector<Line> lines; };

inline Content project(const std::string& path)
{
	Content c; c.exists = false; c.bytes = 0;
	std::string s;
	if (!readAll(path, s)) return c;
	c.exists = true;
	c.bytes = (long)s.size();
	size_t i = 0;
	while (i < s.size())
	{
		const char* nl = (const char*)memchr(s.data() + i, '\n', s.size() - i);
		size_t end = nl ? (size_t)(nl - s.data()) : s.size();
		c.lines.push_back(parseLine(s.data() + i, end - i, nl != 0));
		i = end + 1;
	}
	return c;
}

inline std::string lineJson(const Line& l)
{
	char b[200];
	snprintf(b, sizeof b, "{\"c\":%d,\"lb\":\"%s\",\"id\":%d,\"n\":%d,\"dl\":%d,\"ok\":%d,\"ts\":%ld}", l.c, l.lb.c_str(), l.id, l.n, l.dl, l.ok, l.ts);
	return b;
}
inline std::string linesJson(const std::vector<Line>& v)
{
	std::string s = "[";
	for (size_t i = 0; i < v.size(); i++) { if (i) s += ","; s += lineJson(v[i]); }
	return s + "]";
}
// {"cur":[..],"b":bytes,"old":[..],"ob":bytes}
inline std::string fullJson(const Dir& dir, int f)
{
	Content a = project(dir.file(f)), o = project(dir.old(f));
	char b[64];
	std::string s = "{\"cur\":" + linesJson(a.lines);
	snprintf(b, sizeof b, ",\"b\":%ld,\"old\":", a.bytes);
	s += b;
	s += linesJson(o.lines);
	snprintf(b, sizeof b, ",\"ob\":%ld}", o.bytes);
	return s + b;
}
// {"nl":lines,"b":bytes,"onl":lines,"ob":bytes,"last":[line]}
inline std::string summaryJson(const Dir& dir, int f)
{
	Content a = project(dir.file(f)), o = project(dir.old(f));
	char b[128];
	snprintf(b, sizeof b, "{\"nl\":%d,\"b\":%ld,\"onl\":%d,\"ob\":%ld,\"last\":[", (int)a.lines.size(), a.bytes, (int)o.lines.size(), o.bytes);
	std::string s = b;
	if (!a.lines.empty()) s += lineJson(a.lines.back());
	return s + "]}";
}

}
#endif
