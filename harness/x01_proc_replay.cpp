// X01 replayer (R) for spec/ProcPipes.tla: executes one scenario (parent program x child program) on the real
// asl::Process API against the helper child and compares what happens with the set of outcomes TLC found over all
// interleavings: "done" (the parent program finishes; the unit numbers read from each stream must be one of TLC's
// sequences) or "stuck" (parent thread and child both sleeping in a pipe/wait call, nothing moving).
//   case: {"part":"proc","sc":{"par":[{"op":..,"n":..}..],"par2":[..] (second parent thread, may be empty),"child":{"kind":..,"buf":..,"prog":[{"s":..,"n":..}..]}},
//          "outcomes":["done","stuck"],"reads":[{"o":[1,2,..],"e":[..]}, ..]}
#include "x01_proc_common.h"
#include "vrun.h"
#include <pthread.h>
#include <sys/syscall.h>

using namespace asl;

static std::string self;

struct Run                  // one parent thread
{
	const vj::Value* par;   // its instruction list
	Process* p;
	volatile int tid;
	volatile int done;      // 1 = program finished
	volatile long progress; // bytes moved by this thread so far
	volatile int* aborted;  // shared: an API call failed / the watchdog killed the child
	std::vector<long> gotO, gotE;
	std::string bad;
	long nextIn;
};

static bool takeUnits(const std::string& bytes, int stream, std::vector<long>& ids, std::string& bad)
{
	if (bytes.size() % x01::UNIT) { bad = "stream " + std::to_string(stream) + ": " + std::to_string(bytes.size()) + " bytes is not a whole number of units"; return false; }
	for (size_t o = 0; o < bytes.size(); o += x01::UNIT)
	{
		long id = x01::checkUnit((const unsigned char*)bytes.data() + o, stream);
		if (id < 0) { bad = "stream " + std::to_string(stream) + ": unit at offset " + std::to_string(o) + " is corrupted"; return false; }
		ids.push_back(id);
	}
	return true;
}

static Array<String> childArgs(const vj::Value& ch)
{
	Array<String> a;
	a << "helper";
	std::string kind = ch["kind"].s();
	if (kind == "seq")
	{
		a << "seq";
		for (size_t i = 0; i < ch["prog"].size(); i++) a << String((int)ch["prog"][i]["s"].i()) << String((int)ch["prog"][i]["n"].i());
	}
	else a << "pipe" << kind.c_str() << String((int)ch["buf"].i());
	return a;
}

static void* program(void* arg)
{
	Run& r = *(Run*)arg;
	r.tid = (int)syscall(SYS_gettid);
	const vj::Value& par = *r.par;
	for (size_t i = 0; i < par.size() && !*r.aborted; i++)
	{
		std::string op = par[i]["op"].s();
		long n = par[i]["n"].i();
		if (op == "w")
		{
			std::vector<unsigned char> buf((size_t)n * x01::UNIT + 1);
			for (long u = 0; u < n; u++) x01::fillUnit(buf.data() + u * x01::UNIT, ++r.nextIn, 1);
			// one writeInput call; a short count is continued (the documentation does not promise a full write)
			long off = 0, total = n * x01::UNIT;
			while (off < total)
			{
				int w = r.p->writeInput(buf.data() + off, (int)(total - off));
				if (w <= 0) { *r.aborted = 1; break; }
				off += w;
				r.progress += w;
			}
		}
		else if (op == "ro" || op == "re")
		{
			bool e = op == "re";
			std::string got;
			std::vector<char> b(65536);
			long total = n * x01::UNIT;
			while ((long)got.size() < total)
			{
				long want = total - (long)got.size();
				if (want > 65536) want = 65536;
				int k = e ? r.p->readErrors(b.data(), (int)want) : r.p->readOutput(b.data(), (int)want);
				if (k <= 0) break; // EOF
				got.append(b.data(), (size_t)k);
				r.progress += k;
			}
			if (!takeUnits(got, e ? 2 : 1, e ? r.gotE : r.gotO, r.bad)) *r.aborted = 1;
		}
		else if (op == "wait")
		{
			r.p->wait();
			r.progress++;
		}
	}
	r.done = 1;
	return 0;
}

static std::string idsStr(const std::vector<long>& v)
{
	std::string s = "[";
	for (size_t i = 0; i < v.size(); i++) s += (i ? "," : "") + std::to_string(v[i]);
	return s + "]";
}

static bool sameIds(const vj::Value& a, const std::vector<long>& v)
{
	if (a.size() != v.size()) return false;
	for (size_t i = 0; i < v.size(); i++) if (a[i].ll() != v[i]) return false;
	return true;
}

static vrun::Outcome runCase(const vj::Value& c)
{
	const vj::Value& sc = c["sc"];
	const vj::Value& par = sc["par"];
	std::vector<long> gotO, gotE;
	std::string outcome, bad;
	int fds0 = x01::countFds();
	if (par.size() == 1 && par[0]["op"].s() == "exec")
	{
		// Process::execute owns its Process: no watchdog possible (TLC says it cannot get stuck; the case time limit guards)
		Process q = Process::execute(self.c_str(), childArgs(sc["child"]));
		String o = q.output(), e = q.errors();
		if (!takeUnits(std::string(*o, (size_t)o.length()), 1, gotO, bad) || !takeUnits(std::string(*e, (size_t)e.length()), 2, gotE, bad))
			return vrun::Outcome::fail("execute(): " + bad);
		if (q.exitStatus() != 0) return vrun::Outcome::fail("execute(): exit status " + std::to_string(q.exitStatus()) + " of a child that exits with 0");
		outcome = "done";
	}
	else
	{
		volatile int aborted = 0;
		Process* proc = new Process;
		proc->run(self.c_str(), childArgs(sc["child"]));
		int pid = proc->pid();
		Run r[2];
		pthread_t th[2];
		int nth = sc.has("par2") && sc["par2"].size() > 0 ? 2 : 1;
		for (int t = 0; t < nth; t++)
		{
			r[t].par = t == 0 ? &par : &sc["par2"];
			r[t].p = proc; r[t].tid = 0; r[t].done = 0; r[t].progress = 0; r[t].aborted = &aborted; r[t].nextIn = 0;
			pthread_create(&th[t], 0, program, &r[t]);
		}
		int still = 0;
		long lastProgress = -1;
		bool stuck = false;
		char tpath[64];
		for (;;)
		{
			usleep(50000);
			bool allDone = true, allAsleep = true;
			long pr = 0;
			for (int t = 0; t < nth; t++)
			{
				pr += r[t].progress;
				if (r[t].done) continue;
				allDone = false;
				if (!r[t].tid) { allAsleep = false; continue; }
				snprintf(tpath, sizeof tpath, "/proc/self/task/%d/stat", (int)r[t].tid);
				if (x01::statState(tpath) != 'S') allAsleep = false;
			}
			if (allDone) break;
			char cs = x01::procState(pid);
			if (allAsleep && (cs == 'S' || cs == 'Z') && pr == lastProgress) still++;
			else still = 0;
			lastProgress = pr;
			if (still >= 8) { stuck = true; break; }
		}
		if (stuck)
		{
			aborted = 1;
			proc->signal(SIGKILL); // unblocks the parent's calls: EOF / EPIPE / wait() returns
		}
		for (int t = 0; t < nth; t++)
		{
			pthread_join(th[t], 0);
			if (bad.empty()) bad = r[t].bad;
			gotO.insert(gotO.end(), r[t].gotO.begin(), r[t].gotO.end());
			gotE.insert(gotE.end(), r[t].gotE.begin(), r[t].gotE.end());
		}
		outcome = stuck ? "stuck" : "done";
		if (!stuck && !proc->finished()) proc->signal(SIGKILL);
		delete proc;
		int st;
		waitpid(pid, &st, 0);
		if (!stuck && !bad.empty()) return vrun::Outcome::fail(bad);
	}
	bool allowed = false;
	for (size_t i = 0; i < c["outcomes"].size(); i++) if (c["outcomes"][i].s() == outcome) allowed = true;
	if (!allowed) return vrun::Outcome::fail("outcome " + outcome + " is not among the outcomes of the model");
	if (outcome == "done")
	{
		bool okr = false;
		for (size_t i = 0; i < c["reads"].size(); i++)
			if (sameIds(c["reads"][i]["o"], gotO) && sameIds(c["reads"][i]["e"], gotE)) okr = true;
		if (!okr) return vrun::Outcome::fail("units read: stdout " + idsStr(gotO) + " stderr " + idsStr(gotE) + " - not a sequence the model allows");
	}
	int fds1 = x01::countFds();
	if (fds1 != fds0) return vrun::Outcome::fail("descriptors open before the scenario: " + std::to_string(fds0) + ", after: " + std::to_string(fds1));
	vrun::Outcome o;
	return o;
}

int main(int argc, char** argv)
{
	if (argc > 1 && !strcmp(argv[1], "helper")) return x01::helperMain(argc - 2, argv + 2);
	signal(SIGPIPE, SIG_IGN);
	self = x01::selfPath();
	return vrun::run(argc, argv, runCase);
}
