// Shared by the CmdArgs replayer and recorder (C18 growth, spec/CmdArgs.tla): one "session" = construct an asl::CmdArgs
// from a command line and a specification string, read everything it answers, then make a list of queries; each step is
// rendered as one ndjson event in the vocabulary of spec/Trace_CmdArgs.tla (byte strings as arrays of codes):
//   {"op":"new","self":0|1,"toks":[..],"flags":[..],"vopts":[..],"all":[..],"rest":[..],"len":n,"past":bytes of [len],
//    "opts":[{"name","val","multi"}] from options() + operator()(name) on a copy,"unt":untested()}
//   {"op":"q","kind":"has|get|dflt|multi|is","x":name,"r":{"b":"t|f"}|{"s":bytes}|{"l":[..]},"unt":untested() after}
// "self" sessions run in a re-executed copy of the harness whose own arguments are the command line:
// CmdArgs(spec) reads the arguments of the current process.  Nothing is decided here.
#ifndef C18_CMDARGS_H
#define C18_CMDARGS_H
#include <asl/CmdArgs.h>
#include "vjson.h"
#include <string>
#include <vector>
#include <cstdio>
#include <cstdlib>
#include <unistd.h>
#include <sys/wait.h>

namespace c18a {
using namespace asl;

typedef std::vector<std::string> Strs;
struct Query { std::string kind, x; };

inline std::string sfrom(const String& s) { return std::string(*s, (size_t)s.length()); }
inline String sto(const std::string& s) { return String(s.data(), (int)s.size()); }

inline std::string strsJson(const Strs& v)
{
	std::string r = "[";
	for (size_t i = 0; i < v.size(); i++) r += (i ? "," : "") + vj::codes(v[i]);
	return r + "]";
}
inline Strs strsOf(const Array<String>& a)
{
	Strs r;
	for (int i = 0; i < a.length(); i++) r.push_back(sfrom(a[i]));
	return r;
}
inline Strs strsOf(const vj::Value& v)
{
	Strs r;
	for (size_t i = 0; i < v.size(); i++) r.push_back(v[i].bytes());
	return r;
}
// "q:,fast,format:" from the two name lists
inline std::string specString(const Strs& flags, const Strs& vopts)
{
	std::string s;
	for (size_t i = 0; i < vopts.size(); i++) s += (s.empty() ? "" : ",") + vopts[i] + ":";
	for (size_t i = 0; i < flags.size(); i++) s += (s.empty() ? "" : ",") + flags[i];
	return s;
}

// everything a session on an existing object says, one event per line
// (twin: a second object built from the same input; its operator()(name) gives the value lists without marking options
//  of the object under observation as tested - copies of a CmdArgs share their arrays)
inline Strs session(const CmdArgs& args, const CmdArgs& twin, bool self, const Strs& toks, const Strs& flags, const Strs& vopts, const std::vector<Query>& qs)
{
	Strs out;
	{
		std::string e = "{\"op\":\"new\",\"self\":" + std::string(self ? "1" : "0") + ",\"toks\":" + strsJson(toks) +
		                ",\"flags\":" + strsJson(flags) + ",\"vopts\":" + strsJson(vopts);
		Strs all = strsOf(args.all());
		if (!all.empty()) all.erase(all.begin()); // the program name
		e += ",\"all\":" + strsJson(all) + ",\"rest\":" + strsJson(strsOf(args.rest()));
		e += ",\"len\":" + std::to_string(args.length());
		Strs byIndex;
		for (int i = 0; i < args.length(); i++) byIndex.push_back(sfrom(args[i]));
		e += ",\"idx\":" + strsJson(byIndex) + ",\"past\":" + vj::codes(sfrom(args[args.length()]));
		Dic<String> o = args.options();
		e += ",\"opts\":[";
		bool first = true;
		foreach2(String & name, String & val, o)
		{
			e += std::string(first ? "" : ",") + "{\"name\":" + vj::codes(sfrom(name)) + ",\"val\":" + vj::codes(sfrom(val)) +
			     ",\"multi\":" + strsJson(strsOf(twin(name))) + "}";
			first = false;
		}
		e += "],\"unt\":" + strsJson(strsOf(Array<String>(args.untested()))) + "}";
		out.push_back(e);
	}
	for (size_t i = 0; i < qs.size(); i++)
	{
		String x = sto(qs[i].x);
		std::string r;
		if (qs[i].kind == "has") r = std::string("{\"b\":\"") + (args.has(x) ? "t" : "f") + "\"}";
		else if (qs[i].kind == "is") r = std::string("{\"b\":\"") + (args.is(x) ? "t" : "f") + "\"}";
		else if (qs[i].kind == "get") r = "{\"s\":" + vj::codes(sfrom(args[x])) + "}";
		else if (qs[i].kind == "dflt") r = "{\"s\":" + vj::codes(sfrom(args(x, "dflt"))) + "}";
		else r = "{\"l\":" + strsJson(strsOf(args(x))) + "}";
		out.push_back("{\"op\":\"q\",\"kind\":\"" + qs[i].kind + "\",\"x\":" + vj::codes(qs[i].x) + ",\"r\":" + r +
		              ",\"unt\":" + strsJson(strsOf(Array<String>(args.untested()))) + "}");
	}
	return out;
}

inline Strs direct(const Strs& toks, const Strs& flags, const Strs& vopts, const std::vector<Query>& qs)
{
	std::vector<std::string> store;
	store.push_back("prog");
	for (size_t i = 0; i < toks.size(); i++) store.push_back(toks[i]);
	std::vector<char*> argv;
	for (size_t i = 0; i < store.size(); i++) argv.push_back((char*)store[i].c_str());
	argv.push_back(0);
	CmdArgs args((int)store.size(), &argv[0], sto(specString(flags, vopts)));
	CmdArgs twin((int)store.size(), &argv[0], sto(specString(flags, vopts)));
	return session(args, twin, false, toks, flags, vopts, qs);
}

// ---- the process's own arguments ---------------------------------------------------------------------------------
// child side: called first thing in main(); the environment says that this process is a "self" session
inline void maybeSelfChild(int argc, char** argv)
{
	const char* spec = getenv("C18A_SELF_SPEC");
	if (!spec) return;
	Strs toks, flags, vopts;
	for (int i = 1; i < argc; i++) toks.push_back(argv[i]);
	std::string s = spec;
	size_t p = 0;
	while (p < s.size())
	{
		size_t q = s.find(',', p);
		if (q == std::string::npos) q = s.size();
		std::string item = s.substr(p, q - p);
		if (!item.empty() && item[item.size() - 1] == ':') vopts.push_back(item.substr(0, item.size() - 1));
		else if (!item.empty()) flags.push_back(item);
		p = q + 1;
	}
	std::vector<Query> qs;
	const char* qenv = getenv("C18A_SELF_Q"); // kind:name,kind:name
	std::string qsrc = qenv ? qenv : "";
	p = 0;
	while (p < qsrc.size())
	{
		size_t q = qsrc.find(',', p);
		if (q == std::string::npos) q = qsrc.size();
		std::string item = qsrc.substr(p, q - p);
		size_t c = item.find(':');
		if (c != std::string::npos) { Query qu; qu.kind = item.substr(0, c); qu.x = item.substr(c + 1); qs.push_back(qu); }
		p = q + 1;
	}
	CmdArgs args(sto(s));
	CmdArgs twin(sto(s));
	Strs lines = session(args, twin, true, toks, flags, vopts, qs);
	for (size_t i = 0; i < lines.size(); i++) { fputs(lines[i].c_str(), stdout); fputc('\n', stdout); }
	fflush(stdout);
	_exit(0);
}

// parent side: re-execute this binary with the command line as its arguments; returns false when that failed
inline bool viaSelf(const Strs& toks, const Strs& flags, const Strs& vopts, const std::vector<Query>& qs, Strs& lines, std::string& err)
{
	int fds[2];
	if (pipe(fds) != 0) { err = "pipe failed"; return false; }
	std::string qenv;
	for (size_t i = 0; i < qs.size(); i++) qenv += (i ? "," : "") + qs[i].kind + ":" + qs[i].x;
	pid_t pid = fork();
	if (pid < 0) { err = "fork failed"; close(fds[0]); close(fds[1]); return false; }
	if (pid == 0)
	{
		close(fds[0]);
		dup2(fds[1], 1);
		close(fds[1]);
		setenv("C18A_SELF_SPEC", specString(flags, vopts).c_str(), 1);
		setenv("C18A_SELF_Q", qenv.c_str(), 1);
		std::vector<char*> argv;
		argv.push_back((char*)"/proc/self/exe");
		for (size_t i = 0; i < toks.size(); i++) argv.push_back((char*)toks[i].c_str());
		argv.push_back(0);
		execv("/proc/self/exe", &argv[0]);
		_exit(97);
	}
	close(fds[1]);
	std::string all;
	char buf[4096];
	ssize_t n;
	while ((n = read(fds[0], buf, sizeof buf)) > 0) all.append(buf, (size_t)n);
	close(fds[0]);
	int st = 0;
	waitpid(pid, &st, 0);
	if (!WIFEXITED(st) || WEXITSTATUS(st) != 0)
	{
		err = "the re-executed process (CmdArgs(spec) on its own arguments) ended with status " + std::to_string(st);
		return false;
	}
	size_t p = 0;
	while (p < all.size())
	{
		size_t q = all.find('\n', p);
		if (q == std::string::npos) q = all.size();
		if (q > p) lines.push_back(all.substr(p, q - p));
		p = q + 1;
	}
	return true;
}

}
#endif
