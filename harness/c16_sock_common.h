// Shared by harness/c16_sock_replay.cpp and harness/c16_sock_record.cpp (spec/EndianSocket.tla): a connected stream
// socket whose PEER end is a raw POSIX descriptor (plain send()/close(), no library code) and whose READING end is the
// library object under test (asl::Socket / asl::LocalSocket), over three transports:
//   "pair"   socketpair(AF_UNIX) wrapped with Socket(int fd)
//   "tcp"    127.0.0.1, ephemeral port: either the library listens (bind(..,0)/listen/accept, port from localAddress())
//            and the raw peer connects with TCP_NODELAY, or a raw POSIX listener accepts and the library connects
//   "local"  LocalSocket on a path under $VERIF_TMP: library bind/listen/accept + raw connect, or raw listener + library connect
// The peer's steps are executed either at a quiescent point (then the harness waits, with POSIX calls on the reader's
// descriptor, until the bytes / the end-of-stream are visible there) or by a helper thread while the reader blocks.
// Nothing here computes an expected value: results are projected (bit patterns msb first, byte lists) and compared
// with / logged for the specification.
#ifndef C16_SOCK_COMMON_H
#define C16_SOCK_COMMON_H
#include "c16_common.h"
#include <pthread.h>
#include <poll.h>
#include <time.h>
#include <errno.h>
#include <sys/un.h>
#include <netinet/in.h>
#include <netinet/tcp.h>
#include <arpa/inet.h>

namespace c16s {
using namespace c16;

struct Step
{
	bool close;
	std::string d;
	Step() : close(false) {}
};

inline double nowSec()
{
	timespec t;
	clock_gettime(CLOCK_MONOTONIC, &t);
	return (double)t.tv_sec + 1e-9 * (double)t.tv_nsec;
}

inline void pauseMs(int ms)
{
	timespec t;
	t.tv_sec = ms / 1000;
	t.tv_nsec = (long)(ms % 1000) * 1000000L;
	nanosleep(&t, 0);
}

struct Conn
{
	int peer;        // the peer's descriptor (raw POSIX)
	int rawListener; // raw POSIX listener (library-connects variants)
	Socket* s;       // the library object under test
	Socket* srv;     // library listener (library-accepts variants)
	std::string path, how;
	long long sentTotal, takenTotal; // bytes the peer has sent / the reader is known to have consumed
	bool peerClosed;
	bool readerClosed; // the reader has called close(): its descriptor is gone, nothing can be observed on it any more

	Conn() : peer(-1), rawListener(-1), s(0), srv(0), sentTotal(0), takenTotal(0), peerClosed(false), readerClosed(false) {}
	~Conn()
	{
		delete s;
		delete srv;
		if (peer >= 0) ::close(peer);
		if (rawListener >= 0) ::close(rawListener);
		if (!path.empty()) unlink(path.c_str());
	}

	// "" or the reason the connection could not be set up (harness trouble, not a finding)
	std::string open(const std::string& tr, int variant, const TmpDir& tmp)
	{
		if (tr == "pair")
		{
			int fds[2];
			if (socketpair(AF_UNIX, SOCK_STREAM, 0, fds) != 0) return "socketpair failed";
			peer = fds[0];
			s = new Socket(fds[1]);
			how = "socketpair+Socket(fd)";
		}
		else if (tr == "tcp" && (variant & 1) == 0)
		{
			srv = new Socket();
			if (!srv->bind("127.0.0.1", 0)) return "library bind(127.0.0.1, 0) failed";
			srv->listen(2);
			int port = srv->localAddress().port();
			peer = ::socket(AF_INET, SOCK_STREAM, 0);
			sockaddr_in a;
			memset(&a, 0, sizeof a);
			a.sin_family = AF_INET;
			a.sin_port = htons((unsigned short)port);
			a.sin_addr.s_addr = htonl(INADDR_LOOPBACK);
			if (peer < 0 || ::connect(peer, (sockaddr*)&a, sizeof a) != 0) return "raw connect to the library listener failed (port " + std::to_string(port) + ")";
			s = new Socket(srv->accept());
			how = "tcp: library accept";
		}
		else if (tr == "tcp")
		{
			rawListener = ::socket(AF_INET, SOCK_STREAM, 0);
			sockaddr_in a;
			memset(&a, 0, sizeof a);
			a.sin_family = AF_INET;
			a.sin_addr.s_addr = htonl(INADDR_LOOPBACK);
			socklen_t n = sizeof a;
			if (rawListener < 0 || ::bind(rawListener, (sockaddr*)&a, sizeof a) != 0 || ::listen(rawListener, 2) != 0 ||
			    getsockname(rawListener, (sockaddr*)&a, &n) != 0)
				return "raw listener failed";
			s = new Socket();
			if (!s->connect("127.0.0.1", (int)ntohs(a.sin_port))) return "library connect to the raw listener failed";
			peer = ::accept(rawListener, 0, 0);
			if (peer < 0) return "raw accept failed";
			how = "tcp: library connect";
		}
		else if (tr == "local")
		{
			path = tmp.file("l");
			path.replace(path.size() - 4, 4, ".sock");
			sockaddr_un a;
			memset(&a, 0, sizeof a);
			a.sun_family = AF_UNIX;
			if (path.size() >= sizeof a.sun_path) return "socket path too long";
			strcpy(a.sun_path, path.c_str());
			if ((variant & 1) == 0)
			{
				LocalSocket l;
				srv = new Socket(l); // another handle on the same LocalSocket object
				if (!srv->bind(path.c_str())) return "LocalSocket bind failed";
				srv->listen(2);
				peer = ::socket(AF_UNIX, SOCK_STREAM, 0);
				if (peer < 0 || ::connect(peer, (sockaddr*)&a, sizeof a) != 0) return "raw connect to the LocalSocket listener failed";
				s = new Socket(srv->accept());
				how = "local: LocalSocket accept";
			}
			else
			{
				unlink(path.c_str());
				rawListener = ::socket(AF_UNIX, SOCK_STREAM, 0);
				if (rawListener < 0 || ::bind(rawListener, (sockaddr*)&a, sizeof a) != 0 || ::listen(rawListener, 2) != 0) return "raw AF_UNIX listener failed";
				LocalSocket c;
				s = new Socket(c); // another handle on the same LocalSocket object
				if (!s->connect(String(path.c_str()))) return "LocalSocket connect failed";
				peer = ::accept(rawListener, 0, 0);
				if (peer < 0) return "raw accept failed";
				how = "local: LocalSocket connect";
			}
		}
		else
			return "unknown transport " + tr;
		if (tr == "tcp")
		{
			int one = 1;
			setsockopt(peer, IPPROTO_TCP, TCP_NODELAY, &one, sizeof one);
		}
		if (s->handle() < 0) return "the library socket has no descriptor";
		if (s->error() != 0) return "the library socket reports an error right after connecting";
		return "";
	}

	// one step of the peer, plain POSIX
	bool doStep(const Step& st)
	{
		if (st.close)
		{
			::close(peer);
			peer = -1;
			peerClosed = true;
			return true;
		}
		size_t off = 0;
		while (off < st.d.size())
		{
			ssize_t n = ::send(peer, st.d.data() + off, st.d.size() - off, MSG_NOSIGNAL);
			if (n < 0 && errno == EINTR) continue;
			if (n <= 0) return false;
			off += (size_t)n;
		}
		__sync_fetch_and_add(&sentTotal, (long long)st.d.size());
		return true;
	}

	int unread() const
	{
		int n = 0;
		if (readerClosed) return 0;
		if (ioctl(s->handle(), FIONREAD, &n) != 0) return -1;
		return n;
	}

	// waits (POSIX calls on the reader's descriptor only) until everything the peer has done so far is visible to the
	// reader: sent - taken bytes pending, and the end of the stream if the peer has closed.  false: it never showed up.
	// (20 s the first time it happens in a process, 3 s afterwards: a batch of cases on a broken library must not take hours)
	bool settle()
	{
		static bool timedOutBefore = false;
		if (readerClosed) return true;
		double maxSec = timedOutBefore ? 3 : 20;
		double t0 = nowSec();
		for (;;)
		{
			bool ok = unread() == (int)(sentTotal - takenTotal);
			if (ok && peerClosed)
			{
				pollfd p;
				p.fd = s->handle();
				p.events = POLLIN | POLLRDHUP;
				p.revents = 0;
				ok = ::poll(&p, 1, 0) > 0 && (p.revents & (POLLRDHUP | POLLHUP)) != 0;
			}
			if (ok) return true;
			if (nowSec() - t0 > maxSec)
			{
				timedOutBefore = true;
				return false;
			}
			pauseMs(1);
		}
	}

	// what is left on the wire for the reader, taken with POSIX calls (end of a case)
	std::string drainRaw()
	{
		std::string r;
		char buf[4096];
		if (readerClosed) return r;
		for (;;)
		{
			ssize_t n = ::recv(s->handle(), buf, sizeof buf, MSG_DONTWAIT);
			if (n <= 0) break;
			r.append(buf, (size_t)n);
		}
		return r;
	}
};

// the peer running concurrently with a blocking reader call: `steps` after a short pause each
struct Helper
{
	Conn* c;
	std::vector<Step> steps;
	int pause;
	bool ok, started;
	pthread_t th;
	Helper(Conn* conn, int pauseMsEach) : c(conn), pause(pauseMsEach), ok(true), started(false) {}
	static void* main(void* p)
	{
		Helper* h = (Helper*)p;
		for (size_t i = 0; i < h->steps.size(); i++)
		{
			pauseMs(h->pause);
			if (!h->c->doStep(h->steps[i])) h->ok = false;
		}
		return 0;
	}
	bool start()
	{
		if (steps.empty()) return true;
		started = pthread_create(&th, 0, main, this) == 0;
		return started;
	}
	void join()
	{
		if (started) pthread_join(th, 0);
		started = false;
	}
};

// ---- the reader calls, projected ---------------------------------------------------------------------------------------
template <class T>
inline std::string readOne(Socket& s, bool viaOperator)
{
	T x;
	memset(&x, 0x5c, sizeof x);
	if (viaOperator) s >> x;
	else x = s.read<T>();
	return toMsb(x);
}

// sock >> x  (viaOperator) or  x = sock.read<T>();  returns false for an unknown type name
inline bool readScalar(Socket& s, const std::string& t, bool viaOperator, std::string& msb)
{
#define X(N, T) if (t == N) { msb = readOne<T>(s, viaOperator); return true; }
	C16_TYPES(X)
#undef X
	return false;
}

struct RawResult
{
	int count;        // what the call returned (rp), or the length of what it returned
	std::string d;    // the bytes it produced
	std::string note; // harness-level complaint (canary)
	RawResult() : count(0) {}
};

// m = "rp" read(p,n) | "rb" read(int n) | "rstr" readString(n) | "skip" skip(n) | "rall" read()
inline RawResult readRaw(Socket& s, const std::string& m, int n)
{
	RawResult r;
	if (m == "rp")
	{
		std::vector<char> buf((size_t)n + 16, (char)0x5c);
		r.count = s.read(&buf[0], n);
		if (r.count >= 0 && r.count <= n) r.d.assign(&buf[0], (size_t)r.count);
		for (size_t i = (size_t)n; i < buf.size(); i++)
			if (buf[i] != (char)0x5c) r.note = "read(p, n) wrote beyond n bytes";
	}
	else if (m == "rb" || m == "rall")
	{
		ByteArray a = m == "rb" ? s.read(n) : s.read();
		r.count = a.length();
		if (a.length() > 0) r.d.assign((const char*)a.data(), (size_t)a.length());
	}
	else if (m == "rstr")
	{
		String str = s.readString(n);
		r.count = str.length();
		r.d.assign(*str, (size_t)str.length());
	}
	else if (m == "skip")
	{
		s.skip(n);
		r.count = -2;
	}
	return r;
}

inline std::string hexs(const std::string& s)
{
	std::string r;
	char b[4];
	for (size_t i = 0; i < s.size() && i < 40; i++) { snprintf(b, sizeof b, "%02x", (unsigned char)s[i]); r += b; }
	if (s.size() > 40) r += "...";
	return r + "(" + std::to_string(s.size()) + ")";
}

}
#endif
