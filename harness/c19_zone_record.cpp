// C19 recorder (V), growth part: seeded random driver of asl::Date running in a zone with daylight saving; logs one
// ndjson event per public call; spec/Trace_CalendarZone.tla validates the log with the operators of
// spec/CalendarZone.tla.  --mode k (1..8) selects the zone: the table below holds the POSIX TZ strings of the
// specification's rules (the trace spec checks the string against TzString(Rules[k]) and rejects the trace if it does
// not denote one of its rules).  Nothing here computes an expected value: the C library is consulted only to FIND
// interesting inputs (the hours in which the local clock jumps), and whatever asl::Date returns is logged.
#include <asl/Date.h>
#include <asl/String.h>
#include "vrec.h"
#include <cmath>
#include <string>
#include <vector>
#include <map>
#include <stdlib.h>
#include <time.h>
#include <sys/time.h>

using namespace asl;
using namespace vrec;

static const char* ZONES[] = {"VST-1VDT-2,M3.5.0/2,M10.5.0/3", "VST5VDT4,M3.2.0/2,M11.1.0/2", "VST-10VDT-11,M10.1.0/2,M4.1.0/3", "VST-5:30",
                              "VST3:30VDT2:30,M3.2.0/2,M11.1.0/2", "VST-10:30VDT-11,M10.1.0/2,M4.1.0/2", "VST8", "VST-2VDT-3,M3.5.5/0,M10.5.6/1"};

struct Inst { long long dn; int sod; int us; };
static double toDouble(const Inst& i) { return (double)i.dn * 86400.0 + (double)i.sod + (double)i.us / 1e6; }
static bool project(double t, Inst& o)
{
	if (t != t || fabs(t) > 3.2e12) return false;
	double dn = floor(t / 86400.0);
	double rem = t - dn * 86400.0;
	if (rem < 0) { dn -= 1; rem += 86400.0; }
	if (rem >= 86400.0) { dn += 1; rem -= 86400.0; }
	double sod = floor(rem);
	long long us = (long long)floor((rem - sod) * 1e6 + 0.5);
	long long s = (long long)sod, d = (long long)dn;
	if (us >= 1000000) { us -= 1000000; s++; }
	if (s >= 86400) { s -= 86400; d++; }
	o.dn = d; o.sod = (int)s; o.us = (int)us;
	return true;
}
static std::string j3(const Inst& i)
{
	char b[96];
	snprintf(b, sizeof b, "[%lld,%d,%d]", i.dn, i.sod, i.us);
	return b;
}
static bool leap(int y) { return (y % 4 == 0 && y % 100 != 0) || y % 400 == 0; }
static int dim(int y, int m) { static const int d[] = {31, 28, 31, 30, 31, 30, 31, 31, 30, 31, 30, 31}; return m == 2 && leap(y) ? 29 : d[m - 1]; }

struct Gen
{
	Rng& rng;
	std::map<int, std::vector<long long> > jumps; // year -> the hours (as time_t) after which the local offset is different
	Gen(Rng& r) : rng(r) {}

	// input generation only: where does the C library's local clock jump in that year (hour resolution)
	const std::vector<long long>& jumpsOf(int year)
	{
		std::map<int, std::vector<long long> >::iterator it = jumps.find(year);
		if (it != jumps.end()) return it->second;
		std::vector<long long>& v = jumps[year];
		struct tm a;
		memset(&a, 0, sizeof a);
		a.tm_year = year - 1900; a.tm_mday = 1;
		long long t0 = (long long)timegm(&a);
		long prev = 0;
		for (int h = 0; h < 366 * 24; h++)
		{
			time_t t = (time_t)(t0 + 3600LL * h);
			struct tm l;
			localtime_r(&t, &l);
			if (h > 0 && l.tm_gmtoff != prev) v.push_back((long long)t - 3600);
			prev = l.tm_gmtoff;
		}
		return v;
	}
	int usPart(bool grid)
	{
		int r = rng.below(100);
		if (r < 55) return 0;
		if (r < 80 || grid) return 1000 * (rng.chance(40) ? (rng.chance(50) ? 999 : 1) : rng.below(1000));
		int ms = rng.chance(50) ? 999 : rng.below(1000);
		return ms * 1000 + (rng.chance(50) ? rng.range(650, 999) : rng.range(1, 350)); // off the grid, 150 us away from x.xxx5
	}
	// an instant: close to a jump of the local clock (inside the time_t range), anywhere in 1970..2037, or anywhere in
	// years lo..hi
	Inst instant(bool grid, int lo, int hi)
	{
		Inst i;
		int r = rng.below(100);
		long long t;
		if (r < 45)
		{
			const std::vector<long long>& v = jumpsOf(rng.range(1970, 2037));
			if (v.empty()) t = (long long)rng.range(0, 2145916800 / 2) * 2;
			else t = v[rng.below((int)v.size())] + (rng.chance(30) ? rng.range(3595, 3605) : rng.chance(50) ? rng.range(-7200, 10800) : 900 * rng.range(-8, 12));
		}
		else if (r < 70) t = (long long)(rng.next() % 2145916800ULL);
		else
		{
			int y = rng.range(lo, hi), m = rng.range(1, 12), d = rng.range(1, dim(((y % 400) + 400) % 400 + 2000, m));
			long long yy = (long long)y - 1;
			// some day of that year (Jan 1 from the leap year count - an input, the spec computes the fields itself)
			long long jan1 = 365 * yy + (yy >= 0 ? yy / 4 - yy / 100 + yy / 400 : -((-yy + 3) / 4) + ((-yy + 99) / 100) - ((-yy + 399) / 400)) - 719162;
			t = (jan1 + (m - 1) * 30 + d) * 86400LL + rng.below(86400);
		}
		if (t < 0 && t % 86400 != 0) { i.dn = t / 86400 - 1; i.sod = (int)(t - i.dn * 86400); }
		else { i.dn = t / 86400; i.sod = (int)(t % 86400); }
		i.us = usPart(grid);
		return i;
	}
	char sepChar() { static const char* a = " :-/.Tx,"; return a[rng.below(8)]; }
};

static void clockNow(Inst& o)
{
	struct timeval tv;
	gettimeofday(&tv, 0);
	o.dn = tv.tv_sec / 86400; o.sod = (int)(tv.tv_sec % 86400); o.us = (int)tv.tv_usec;
}

int main(int argc, char** argv)
{
	Args args(argc, argv);
	Rng rng(args.seed);
	Log log(args.out);
	int zone = args.mode >= 1 && args.mode <= 8 ? args.mode : (int)(args.seed % 8) + 1;
	setenv("TZ", ZONES[zone - 1], 1);
	tzset();
	Gen gen(rng);
	static const char* fmtName[] = {"LONG", "SHORT", "FULL", "DATE", "HTTP"};
	static const Date::Format fmtVal[] = {Date::LONG, Date::SHORT, Date::FULL, Date::DATE_ONLY, Date::HTTP};
	log.line(std::string("{\"e\":\"reset\",\"tz\":") + vj::codes(ZONES[zone - 1]) + "}");
	char b[400];
	for (long n = 1; n < args.events; n++)
	{
		int r = rng.below(100);
		if (r < 22) // offset and local fields
		{
			Inst want = gen.instant(false, -9000, 99000), i;
			double t = toDouble(want);
			if (!project(t, i)) continue;
			Date d(t);
			double off = d.localOffset();
			DateData p = d.split();
			snprintf(b, sizeof b, "{\"e\":\"lsplit\",\"i\":%s,\"off\":%.0f,\"f\":[%d,%d,%d,%d,%d,%d,%d]}", j3(i).c_str(), off, p.year, p.month, p.day,
			         p.hours, p.minutes, p.seconds, p.weekDay);
			log.line(b);
		}
		else if (r < 40) // local fields -> instant: the fields the library shows for some instant, the hour possibly moved
		{
			Inst want = gen.instant(true, 0, 99000);
			DateData p = Date(toDouble(want)).split();
			if (rng.chance(40)) p.hours = (p.hours + rng.range(-1, 1) + 24) % 24;
			if (rng.chance(10)) p.minutes = rng.below(60);
			if (p.year < 0 || p.year > 99999 || p.day < 1) continue;
			Date c = rng.chance(50) ? Date(Date::LOCAL, p.year, p.month, p.day, p.hours, p.minutes, p.seconds)
			                        : Date(p.year, p.month, p.day, p.hours, p.minutes, p.seconds);
			Inst i;
			int ok = project(c.time(), i) ? 1 : 0;
			if (!ok) { i.dn = 0; i.sod = 0; i.us = 0; }
			snprintf(b, sizeof b, "{\"e\":\"lmake\",\"f\":[%d,%d,%d,%d,%d,%d],\"ok\":%d,\"i\":%s}", p.year, p.month, p.day, p.hours, p.minutes, p.seconds, ok,
			         j3(i).c_str());
			log.line(b);
		}
		else if (r < 54) // local texts
		{
			Inst want = gen.instant(true, 2, 9997), i;
			double t = toDouble(want);
			if (!project(t, i) || i.us % 1000 != 0) continue;
			int k = rng.below(5);
			String s = Date(t).toString(fmtVal[k]);
			log.line("{\"e\":\"ltext\",\"i\":" + j3(i) + ",\"fmt\":\"" + fmtName[k] + "\",\"t\":" + vj::codes(std::string(*s, (size_t)s.length())) + "}");
		}
		else if (r < 68) // reading ISO texts with and without zone designator
		{
			Inst want = gen.instant(true, 1, 9998);
			DateData p = Date(toDouble(want)).split();
			if (rng.chance(30)) p.hours = (p.hours + rng.range(-1, 1) + 24) % 24;
			if (p.year < 1 || p.year > 9999) continue;
			bool basic = rng.chance(35);
			int tform = rng.below(10);
			std::string t;
			snprintf(b, sizeof b, basic ? "%04d%02d%02dT%02d%02d" : "%04d-%02d-%02dT%02d:%02d", p.year, p.month, p.day, p.hours, p.minutes);
			t = b;
			if (tform >= 2) { snprintf(b, sizeof b, basic ? "%02d" : ":%02d", p.seconds); t += b; }
			if (tform >= 6)
			{
				t += '.';
				int nd = rng.range(1, 9);
				for (int k = 0; k < nd; k++) t += (char)('0' + (rng.chance(25) ? 9 : rng.chance(25) ? 0 : rng.below(10)));
			}
			int v = rng.below(10);
			if (v == 0) t += "Z";
			else if (v == 1) { snprintf(b, sizeof b, "%c%02d:%02d", rng.chance(50) ? '+' : '-', rng.below(24), rng.below(60)); t += b; }
			else if (v == 2) { snprintf(b, sizeof b, "%c%02d", rng.chance(50) ? '+' : '-', rng.below(24)); t += b; }
			Date d(String(t.c_str(), (int)t.size()));
			Inst i;
			double x = d.time();
			int ok = (x != x) ? 0 : project(x, i) ? 1 : 2;
			if (ok != 1) { i.dn = 0; i.sod = 0; i.us = 0; }
			log.line("{\"e\":\"lread\",\"t\":" + vj::codes(t) + ",\"ok\":" + std::to_string(ok) + ",\"i\":" + j3(i) + "}");
		}
		else if (r < 80) // format-driven reading: the fields in a random order with random separators
		{
			Inst want = gen.instant(true, 0, 99000);
			DateData p = Date(toDouble(want)).split();
			if (rng.chance(30)) p.hours = (p.hours + rng.range(-1, 1) + 24) % 24;
			if (p.year < 0 || p.year > 99999) continue;
			int v[6] = {p.year, p.month, p.day, p.hours, p.minutes, p.seconds};
			char letters[] = "YMDhms";
			int order[6] = {0, 1, 2, 3, 4, 5};
			int nf = rng.range(3, 6);
			for (int k = 5; k > 0; k--) { int j = rng.below(k + 1); int x = order[k]; order[k] = order[j]; order[j] = x; }
			// the first nf entries; year, month and day are wanted most of the time
			if (rng.chance(85))
			{
				int put = 0;
				for (int want2 = 0; want2 < 3; want2++)
				{
					bool have = false;
					for (int k = 0; k < nf; k++) if (order[k] == want2) have = true;
					if (!have)
					{
						for (int k = nf; k < 6; k++) if (order[k] == want2) { int x = order[put]; order[put] = order[k]; order[k] = x; }
						// the slot may have held another wanted field: check again below
						put++;
					}
				}
			}
			bool padded = rng.chance(60);
			std::string f, t;
			if (rng.chance(15)) { f += '?'; t += gen.sepChar(); }
			for (int k = 0; k < nf; k++)
			{
				int q = order[k];
				f += letters[q];
				snprintf(b, sizeof b, padded ? (q == 0 ? "%04d" : "%02d") : "%d", v[q]);
				t += b;
				if (k + 1 < nf || rng.chance(20))
				{
					char c = gen.sepChar();
					if (rng.chance(25)) { f += '?'; t += c; }
					else { f += c; t += rng.chance(4) ? gen.sepChar() : c; }
				}
			}
			if (rng.chance(8) && !t.empty()) t.resize((size_t)rng.below((int)t.size() + 1));
			Date d(String(t.c_str(), (int)t.size()), String(f.c_str(), (int)f.size()));
			Inst i;
			double x = d.time();
			int ok = (x != x) ? 0 : project(x, i) ? 1 : 2;
			if (ok != 1) { i.dn = 0; i.sod = 0; i.us = 0; }
			log.line("{\"e\":\"lpread\",\"t\":" + vj::codes(t) + ",\"f\":" + vj::codes(f) + ",\"ok\":" + std::to_string(ok) + ",\"i\":" + j3(i) + "}");
		}
		else if (r < 84) // the clock
		{
			Inst lo, hi, i;
			clockNow(lo);
			Date d = Date::now();
			clockNow(hi);
			if (!project(d.time(), i)) { log.line("{\"e\":\"now\",\"i\":[0,0,0],\"lo\":" + j3(lo) + ",\"hi\":" + j3(hi) + "}"); continue; }
			log.line("{\"e\":\"now\",\"i\":" + j3(i) + ",\"lo\":" + j3(lo) + ",\"hi\":" + j3(hi) + "}");
		}
		else if (r < 90) // a + s
		{
			Inst a = gen.instant(true, -9000, 90000), q;
			if (a.dn < -30000 || a.dn > 60000) a.us = 0; // a double resolves microseconds only near 1970
			long long s = rng.chance(50) ? rng.range(-100000, 100000) : (long long)rng.range(-1000000000, 1000000000);
			Date x = rng.chance(50) ? Date(toDouble(a)) + (double)s : Date(toDouble(a)) - (double)(-s);
			if (!project(x.time(), q)) continue;
			snprintf(b, sizeof b, "{\"e\":\"add\",\"a\":%s,\"s\":%lld,\"r\":%s}", j3(a).c_str(), s, j3(q).c_str());
			log.line(b);
		}
		else if (r < 95) // a - b
		{
			Inst a = gen.instant(true, 1900, 2100), c = gen.instant(true, 1900, 2100);
			double d = Date(toDouble(a)) - Date(toDouble(c));
			double m = fabs(d);
			long long dd = (long long)floor(m / 86400.0);
			double rem = m - (double)dd * 86400.0;
			long long ds = (long long)floor(rem);
			long long du = (long long)floor((rem - (double)ds) * 1e6 + 0.5);
			int sg = d < 0 ? -1 : 1;
			snprintf(b, sizeof b, "{\"e\":\"diff\",\"a\":%s,\"b\":%s,\"d\":[%lld,%lld,%lld]}", j3(a).c_str(), j3(c).c_str(), sg * dd, sg * ds, sg * du);
			log.line(b);
		}
		else // order
		{
			Inst a = gen.instant(true, 1900, 2100), c = a;
			static const int gaps[] = {0, 0, 100, 400, 900, 1100, 1900, 5000, 999900, 1000000, 86400000};
			long long g = gaps[rng.below(sizeof gaps / sizeof gaps[0])];
			if (g >= 100 && g < 999900 && rng.chance(50)) g += (g < 900 ? rng.range(0, 900 - (int)g) : g < 1100 ? 0 : rng.range(0, 3000));
			if (rng.chance(50)) g = -g;
			long long u = (long long)c.us + g;
			long long carry = u >= 0 ? u / 1000000 : -((-u + 999999) / 1000000);
			c.us = (int)(u - carry * 1000000);
			long long s = (long long)c.sod + carry;
			long long dc = s >= 0 ? s / 86400 : -((-s + 86399) / 86400);
			c.sod = (int)(s - dc * 86400);
			c.dn += dc;
			Date x(toDouble(a)), y(toDouble(c));
			snprintf(b, sizeof b, "{\"e\":\"cmp\",\"a\":%s,\"b\":%s,\"lt\":%d,\"le\":%d,\"gt\":%d,\"eq\":%d,\"ne\":%d}", j3(a).c_str(), j3(c).c_str(), x < y ? 1 : 0,
			         x <= y ? 1 : 0, x > y ? 1 : 0, x == y ? 1 : 0, x != y ? 1 : 0);
			log.line(b);
		}
	}
	return 0;
}
