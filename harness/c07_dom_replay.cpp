// C07 DOM replayer (R): executes the histories of public calls that TLC generates from spec/XmlDom.tla on asl::Xml
// handles under ASan/LSan and compares the reached state with the specification's:
//   nodes   every live node of the model must be one node of the implementation (same identity structure: what the
//           model shares is shared, what it separates is separate), with the same kind, tag / text, attributes, children
//           and - unless the specification leaves it unconstrained - the same parent()
//   hs      for every live handle the results of all queries: text(), value<int>(), count / children(tag) / operator()(tag,i),
//           find / findOne / traverse, has / operator[], and encode -> decode of the edited tree (compact; indented when
//           text occurs only as a sole child) against the specification's normalized tree.
#include "c07_dom.h"
#include "vrun.h"

using vrun::Outcome;

static std::set<std::string> g_open;

#define FAIL(...) do { char _b[900]; snprintf(_b, sizeof _b, __VA_ARGS__); return Outcome::fail(where + ": " + _b); } while (0)

static std::string bytesShow(const std::string& s)
{
	std::string r;
	char b[8];
	for (size_t i = 0; i < s.size() && i < 40; i++)
	{
		unsigned char ch = (unsigned char)s[i];
		if (ch >= 33 && ch < 127 && ch != '\\') r += (char)ch; else { snprintf(b, sizeof b, "\\x%02x", ch); r += b; }
	}
	return r;
}

static Op opOf(const vj::Value& o)
{
	Op p;
	p.op = o["op"].s();
	p.h = o["h"].i(); p.g = o["g"].i(); p.i = o["i"].i(); p.h2 = o["h2"].i(); p.fmt = o["fmt"].i();
	p.t = o["t"].bytes(); p.x = o["x"].bytes(); p.an = o["an"].bytes(); p.v = o["v"].bytes();
	return p;
}

struct Model
{
	std::map<int, Xml> reg;        // model id -> node
	std::map<int, const vj::Value*> rows;
	int idOf(const Xml& x) const
	{
		for (std::map<int, Xml>::const_iterator it = reg.begin(); it != reg.end(); ++it)
			if (it->second == x) return it->first;
		return 0;
	}
};

static std::string idList(const std::vector<int>& v)
{
	std::string s = "[";
	for (size_t i = 0; i < v.size(); i++) s += (i ? "," : "") + std::to_string(v[i]);
	return s + "]";
}

// walks the implementation from x in step with the model node id
static Outcome match(Model& m, int id, const Xml& x, const std::string& where)
{
	if (x.isnull()) FAIL("node %d of the specification is a null object in the implementation", id);
	std::map<int, Xml>::iterator it = m.reg.find(id);
	if (it != m.reg.end())
	{
		if (!(it->second == x)) FAIL("node %d is one shared node in the specification, but two different nodes in the implementation", id);
		return Outcome();
	}
	int other = m.idOf(x);
	if (other) FAIL("nodes %d and %d are different nodes in the specification, but one node in the implementation", other, id);
	if (!m.rows.count(id)) FAIL("harness: no row for node %d", id);
	const vj::Value& r = *m.rows[id];
	m.reg.insert(std::make_pair(id, x));
	bool text = r["k"].s() == "t";
	if (x.isText() != text) FAIL("node %d: isText() = %d, specification says %s", id, (int)x.isText(), text ? "text" : "element");
	if (text)
	{
		if (fromStr(x.text()) != r["n"].bytes()) FAIL("text node %d: text() = '%s', specification says '%s'", id, bytesShow(fromStr(x.text())).c_str(), bytesShow(r["n"].bytes()).c_str());
		return Outcome();
	}
	if (fromStr(x.tag()) != r["n"].bytes()) FAIL("node %d: tag() = '%s', specification says '%s'", id, bytesShow(fromStr(x.tag())).c_str(), bytesShow(r["n"].bytes()).c_str());
	const vj::Value& a = r["a"];
	if (x.attribs().length() != (int)a.size()) FAIL("node %d: %d attributes, specification says %d", id, x.attribs().length(), (int)a.size());
	for (size_t i = 0; i < a.size(); i++)
	{
		String k = toStr(a[i][0].bytes());
		if (!x.has(k)) FAIL("node %d: attribute '%s' missing", id, bytesShow(a[i][0].bytes()).c_str());
		if (fromStr(x[k]) != a[i][1].bytes()) FAIL("node %d: attribute '%s' = '%s', specification says '%s'", id, bytesShow(a[i][0].bytes()).c_str(), bytesShow(fromStr(x[k])).c_str(), bytesShow(a[i][1].bytes()).c_str());
	}
	const vj::Value& c = r["c"];
	if (x.numChildren() != (int)c.size()) FAIL("node %d: numChildren() = %d, specification says %d", id, x.numChildren(), (int)c.size());
	if (x.children().length() != (int)c.size()) FAIL("node %d: children().length() differs from numChildren()", id);
	for (size_t i = 0; i < c.size(); i++)
	{
		Outcome o = match(m, c[i].i(), x.child((int)i), where);
		if (!o.ok) return o;
	}
	return Outcome();
}

static bool sameBag(std::vector<int> a, std::vector<int> b)
{
	std::sort(a.begin(), a.end());
	std::sort(b.begin(), b.end());
	return a == b;
}

static Outcome queries(Model& m, int h, const Xml& x, const vj::Value& q, const std::string& where)
{
	bool elem = !x.isText();
	if (q["txt"]["def"].b)
	{
		if (fromStr(x.text()) != q["txt"]["v"].bytes()) FAIL("handle %d: text() = '%s', specification says '%s'", h, bytesShow(fromStr(x.text())).c_str(), bytesShow(q["txt"]["v"].bytes()).c_str());
	}
	else (void)x.text();
	if (q["iv"]["def"].b)
	{
		int v = x.value<int>(77);
		if (v != q["iv"]["v"].i()) FAIL("handle %d: value<int>(77) = %d, specification says %d", h, v, q["iv"]["v"].i());
	}
	const vj::Value& tags = q["tags"];
	for (size_t j = 0; j < tags.size() && elem; j++)
	{
		String t = toStr(tags[j]["t"].bytes());
		std::vector<int> kids = tags[j]["kids"].ints(), all = tags[j]["all"].ints();
		if (x.count(t) != (int)kids.size()) FAIL("handle %d: count('%s') = %d, specification says %d", h, *t, x.count(t), (int)kids.size());
		for (size_t i = 0; i <= kids.size(); i++)
		{
			Xml r = x(t, (int)i);
			if (i < kids.size())
			{
				if (!r || !(r == m.reg[kids[i]])) FAIL("handle %d: operator()('%s', %d) is not node %d", h, *t, (int)i, kids[i]);
			}
			else if (r) FAIL("handle %d: operator()('%s', %d) returned an element, specification says there is none", h, *t, (int)i);
		}
		if (x.numChildren() > 0 || !g_open.count("EnumerateNoChildren"))
		{
			std::vector<int> got;
			for (Xml::ChildrenEnumerator e = x.children(t); e; ++e)
			{
				got.push_back(m.idOf(*e));
				if (got.size() > 1000) break;
			}
			if (got != kids) FAIL("handle %d: children('%s') enumerates %s, specification says %s", h, *t, idList(got).c_str(), idList(kids).c_str());
		}
		Array<Xml> f = x.find(TagIs(t));
		std::vector<int> got;
		for (int i = 0; i < f.length(); i++) got.push_back(m.idOf(f[i]));
		if (!sameBag(got, all)) FAIL("handle %d: find(tag == '%s') returned %s, specification says %s", h, *t, idList(got).c_str(), idList(all).c_str());
		Xml one = x.findOne(TagIs(t));
		if (all.empty()) { if (one) FAIL("handle %d: findOne(tag == '%s') returned an element, specification says there is none", h, *t); }
		else if (!one || !(one == m.reg[all[0]])) FAIL("handle %d: findOne(tag == '%s') is not node %d (the first in document order)", h, *t, all[0]);
	}
	const vj::Value& at = q["at"];
	for (size_t j = 0; j < at.size() && elem; j++)
	{
		String an = toStr(at[j]["an"].bytes());
		bool has = at[j]["has"].i() != 0;
		if (x.has(an) != has) FAIL("handle %d: has('%s') = %d, specification says %d", h, *an, (int)x.has(an), (int)has);
		if (fromStr(x[an]) != at[j]["v"].bytes()) FAIL("handle %d: operator[]('%s') = '%s', specification says '%s'", h, *an, bytesShow(fromStr(x[an])).c_str(), bytesShow(at[j]["v"].bytes()).c_str());
	}
	if (elem)
	{
		std::vector<Xml> seen;
		Xml y = x;
		y.traverse(Visit(&seen));
		std::vector<int> got;
		for (size_t i = 0; i < seen.size(); i++) got.push_back(m.idOf(seen[i]));
		if (!sameBag(got, q["trav"].ints())) FAIL("handle %d: traverse() visited %s, specification says %s", h, idList(got).c_str(), idList(q["trav"].ints()).c_str());
	}
	if (q["enc"].i())
	{
		PNode want = expected(q["norm"]);
		for (int fmt = 0; fmt <= q["sole"].i(); fmt++)
		{
			String text = Xml::encode(x, fmt != 0);
			Xml d = Xml::decode(text);
			if (isNull(d) || d.isText()) FAIL("handle %d: decode(encode(tree, %s)) is null; text: %s", h, fmt ? "indented" : "compact", bytesShow(fromStr(text)).c_str());
			if (checkParents(d) < 0) FAIL("handle %d: decode(encode(tree)): a child's parent() is not the element that contains it", h);
			PNode p = project(d);
			if (p != want) FAIL("handle %d: decode(encode(tree, %s)) = %s, specification says %s", h, fmt ? "indented" : "compact", showNode(p).c_str(), showNode(want).c_str());
		}
	}
	return Outcome();
}

static Outcome runCase(const vj::Value& c)
{
	World w;
	const vj::Value& hist = c["hist"];
	std::string where = "init";
	for (size_t s = 0; s < hist.size(); s++)
	{
		Op o = opOf(hist[s]);
		where = "step " + std::to_string(s) + " " + o.op;
		std::string err;
		if (!w.apply(o, err)) FAIL("harness: %s", err.c_str());
		if (hist[s].has("found") && o.found >= 0 && o.found != hist[s]["found"].i())
			FAIL("the call %s an element, specification says it %s", o.found ? "returned" : "did not return", hist[s]["found"].i() ? "does" : "does not");
	}
	where = "after " + where;
	Outcome res;
	res.nontrivial = hist.size() >= 2;
	{
		Model m;
		const vj::Value& nodes = c["nodes"];
		for (size_t i = 0; i < nodes.size(); i++) m.rows[nodes[i]["id"].i()] = &nodes[i];
		const vj::Value& hs = c["hs"];
		std::set<int> liveH;
		for (size_t i = 0; i < hs.size(); i++)
		{
			int h = hs[i]["h"].i();
			liveH.insert(h);
			if (!w.live(h)) FAIL("handle %d designates no node, specification says node %d", h, hs[i]["id"].i());
			Outcome o = match(m, hs[i]["id"].i(), *w.hs[h], where);
			if (!o.ok) return o;
		}
		for (int h = 1; h <= DOM_NH; h++)
			if (w.hs[h] && !liveH.count(h)) FAIL("handle %d designates a node, specification says it is the null object", h);
		if (m.reg.size() != nodes.size()) FAIL("harness: %d nodes reached, the specification lists %d", (int)m.reg.size(), (int)nodes.size());
		// parent(): the inverse of children()
		for (size_t i = 0; i < nodes.size(); i++)
		{
			int id = nodes[i]["id"].i(), p = nodes[i]["p"].i();
			Xml par = m.reg[id].parent();
			if (p == 0) { if (!par.isnull()) FAIL("node %d: parent() is node %d, specification says the null object (no element contains it)", id, m.idOf(par)); }
			else if (p == 9999)
			{
				// ambiguous (attached while already a child): the null object or one of the elements that contain it
				if (!par.isnull())
				{
					int pid = m.idOf(par);
					std::vector<int> pc = nodes[i]["pc"].ints();
					if (std::find(pc.begin(), pc.end(), pid) == pc.end()) FAIL("node %d: parent() is %s, which does not contain it", id, pid ? ("node " + std::to_string(pid)).c_str() : "an unknown node");
				}
			}
			else if (par.isnull() || !(par == m.reg[p])) FAIL("node %d: parent() is %s, specification says node %d (the element that contains it)", id,
			                                                   par.isnull() ? "the null object" : ("node " + std::to_string(m.idOf(par))).c_str(), p);
		}
		for (size_t i = 0; i < hs.size(); i++)
		{
			int h = hs[i]["h"].i();
			Outcome o = queries(m, h, *w.hs[h], hs[i]["q"], where);
			if (!o.ok) return o;
		}
	}
	return res;
}

int main(int argc, char** argv)
{
	for (int i = 1; i + 1 < argc; i++)
		if (!strcmp(argv[i], "--skip-hazards"))
		{
			std::string s = argv[i + 1];
			size_t p = 0;
			while (p <= s.size())
			{
				size_t q = s.find(',', p);
				if (q == std::string::npos) q = s.size();
				if (q > p) g_open.insert(s.substr(p, q - p));
				p = q + 1;
			}
		}
	return vrun::run(argc, argv, runCase);
}
