// C01 recorder (V) for asl::Array2<T>: seeded random driver that logs one ndjson event per public call;
// spec/Trace_Array2D.tla validates the log against the Array2D actions (which are ArraySeq actions on the underlying
// row-major sequence plus the dimensions).  Dimensions reach 30 x 30 so that the underlying Array crosses its
// growth paths; several objects share one storage (copies), clones and slices are independent.
// Not driven (the documentation does not say what should happen, see Array2D.tla): resize() / assignment from a list
// while another object shares the storage, and resize() that changes cols of a non-empty array.
#include "c01_sib_common.h"
#include "vrec.h"
#include <vector>

using namespace vrec;

static const int NH = 8;
static const int NV = 3;

template <class Cv>
static int valueOf(const typename Cv::T& x)
{
	for (int v = 0; v <= NV; v++)
		if (Cv::same(x, v)) return v;
	return -1;
}

template <class Cv>
struct Exec2
{
	typedef typename Cv::T T;
	Array2<T>* hs[NH + 1];
	Rng& rng;
	Log& log;
	int maxDim;

	Exec2(Rng& r, Log& l, int md) : rng(r), log(l), maxDim(md)
	{
		for (int i = 0; i <= NH; i++) hs[i] = 0;
	}
	int pickLive()
	{
		int c[NH], n = 0;
		for (int i = 1; i <= NH; i++) if (hs[i]) c[n++] = i;
		return c[rng.below(n)];
	}
	int pickDead()
	{
		int c[NH], n = 0;
		for (int i = 1; i <= NH; i++) if (!hs[i]) c[n++] = i;
		return n ? c[rng.below(n)] : 0;
	}
	int pickTarget() { return rng.chance(50) ? (pickDead() ? pickDead() : pickLive()) : pickLive(); }
	int nLive()
	{
		int n = 0;
		for (int i = 1; i <= NH; i++) if (hs[i]) n++;
		return n;
	}
	std::string post(int h, int g = 0)
	{
		std::string s;
		if (hs[h]) s += "," + kv("len", hs[h]->array().length()) + "," + kv("rc", hs[h]->array().rc()) + "," + kv("pr", hs[h]->rows()) + "," + kv("pc", hs[h]->cols());
		else s += "," + kv("len", 0) + "," + kv("rc", 0) + "," + kv("pr", 0) + "," + kv("pc", 0);
		if (g && hs[g]) s += "," + kv("glen", hs[g]->array().length()) + "," + kv("gr", hs[g]->rows()) + "," + kv("gc", hs[g]->cols());
		return s + "}";
	}
	std::string seqOf(const Array<T>& a)
	{
		std::string s = "[";
		char b[16];
		for (int i = 0; i < a.length(); i++) { snprintf(b, sizeof b, i ? ",%d" : "%d", valueOf<Cv>(a[i])); s += b; }
		return s + "]";
	}
	void check()
	{
		std::string s = "{\"op\":\"check\",\"obs\":[";
		std::vector<const void*> blocks;
		long live = 0;
		bool first = true;
		for (int h = 1; h <= NH; h++)
		{
			if (!hs[h]) continue;
			const void* p = (const void*)hs[h]->array().data();
			bool seen = false;
			for (size_t q = 0; q < blocks.size(); q++) if (blocks[q] == p) seen = true;
			if (!seen) { blocks.push_back(p); live += hs[h]->array().length(); }
			if (!first) s += ",";
			first = false;
			s += "{" + kv("h", h) + "," + kv("r", hs[h]->rows()) + "," + kv("c", hs[h]->cols()) + ",\"s\":" + seqOf(hs[h]->array()) + "," + kv("rc", hs[h]->array().rc()) + "}";
		}
		if (Cv::live() >= 0) live = Cv::live();
		s += "]," + kv("live", live) + "}";
		log.line(s);
	}
	void bindNew(int g, const Array2<T>& t)
	{
		if (!hs[g]) hs[g] = new Array2<T>();
		*hs[g] = t;
	}
	void pickShape(int& r, int& c)
	{
		if (rng.chance(8)) { r = rng.below(3); c = r == 0 ? rng.below(3) : 0; return; } // empty shapes
		int m = rng.chance(75) ? 5 : maxDim;
		r = rng.range(1, m);
		c = rng.range(1, m);
	}

	void run(long nevents)
	{
		hs[1] = new Array2<T>();
		long done = 0;
		while (done < nevents)
		{
			int h = pickLive();
			Array2<T>& a = *hs[h];
			int R = a.rows(), C = a.cols();
			int op = rng.below(100);
			std::string e;
			if (op < 8) // Array2(r, c) / Array2(r, c, x)
			{
				int g = pickTarget(), r, c;
				pickShape(r, c);
				if (rng.chance(50))
				{
					{
						Array2<T> t(r, c);
						if (Cv::pod) for (int q = 0; q < r * c; q++) t.array()[q] = Cv::make(0);
						bindNew(g, t);
					}
					e = "{\"op\":\"ctorN\"," + kv("h", g) + "," + kv("g", g) + "," + kv("r", r) + "," + kv("c", c) + post(g);
				}
				else
				{
					int v = rng.range(1, NV);
					bindNew(g, Array2<T>(r, c, Cv::make(v)));
					e = "{\"op\":\"ctorFill\"," + kv("h", g) + "," + kv("g", g) + "," + kv("r", r) + "," + kv("c", c) + "," + kv("v", v) + post(g);
				}
			}
			else if (op < 18) // from a list of values
			{
				static const char* vias[] = { "ptr", "arrayfn", "comma", "init", "arrayinit" };
				std::string via = vias[rng.below(5)];
				int g = pickTarget(), r, c;
				if (via == "ptr" || via == "comma") pickShape(r, c);
				else { r = rng.range(via == "arrayinit" ? 1 : 0, 4); c = rng.range(via == "arrayinit" ? 1 : 0, 4); }
				int ln = r * c;
				if ((via == "init" || via == "arrayfn" || via == "arrayinit") && ln > 6) continue;
				if (via == "arrayfn" && ln == 0) continue;
				if ((via == "ptr" || via == "comma") && ln > 150) continue;
				std::vector<T> x;
				std::string sv = "[";
				for (int q = 0; q < ln; q++)
				{
					int v = rng.range(1, NV);
					x.push_back(Cv::make(v));
					sv += (q ? "," : "") + std::to_string(v);
				}
				sv += "]";
				x.push_back(Cv::make(0));
				{
					Array2<T> t;
					if (via == "ptr") { Array2<T> u(r, c, &x[0]); t = u; }
					else if (via == "arrayfn") { Array2<T> u(r, c, listArrayFn<T>(&x[0], ln)); t = u; }
					else if (via == "comma") { Array<T> w; for (int q = 0; q < ln; q++) (w, x[q]); Array2<T> u(r, c, w); t = u; }
					else if (via == "init") t = a2FlatInit<T>(r, c, &x[0], ln);
					else if (!a2Nested<T>(t, false, r, c, &x[0])) continue;
					bindNew(g, t);
				}
				e = "{\"op\":\"fromList\"," + kv("h", g) + "," + kv("g", g) + "," + kv("r", r) + "," + kv("c", c) + ",\"s\":" + sv + "," + ks("via", via) + post(g);
			}
			else if (op < 38) // a(i, j) = v
			{
				if (R * C == 0) continue;
				int i = rng.below(R), j = rng.below(C), v = rng.range(1, NV);
				a(i, j) = Cv::make(v);
				e = "{\"op\":\"set\"," + kv("h", h) + "," + kv("i", i) + "," + kv("j", j) + "," + kv("v", v) + post(h);
			}
			else if (op < 41) // set(x)
			{
				int v = rng.range(1, NV);
				a.set(Cv::make(v));
				e = "{\"op\":\"fill\"," + kv("h", h) + "," + kv("v", v) + post(h);
			}
			else if (op < 49) // resize(r, c): unshared; keeps cols unless the array is or becomes empty
			{
				if (a.array().rc() != 1) continue;
				int r, c;
				if (R * C == 0) pickShape(r, c);
				else if (rng.chance(15)) { r = rng.below(2); c = rng.below(3); if (r * c != 0) c = C; }
				else { r = rng.chance(50) ? rng.below(R + 1) : R + rng.below(6); c = C; }
				if (r > 2 * maxDim) continue;
				int n0 = a.array().length();
				a.resize(r, c);
				if (Cv::pod) for (int q = n0; q < a.array().length(); q++) a.array()[q] = Cv::make(0);
				e = "{\"op\":\"resize\"," + kv("h", h) + "," + kv("r", r) + "," + kv("c", c) + post(h);
			}
			else if (op < 53) // a = {..} / a = {{..},..}: unshared
			{
				if (a.array().rc() != 1) continue;
				int nested = rng.below(2), r, c;
				if (nested) { r = rng.range(1, 4); c = rng.range(1, 4); } else { r = rng.below(7); c = 1; }
				if (r * c > 6) continue;
				std::vector<T> x;
				std::string sv = "[";
				for (int q = 0; q < r * c; q++)
				{
					int v = rng.range(1, NV);
					x.push_back(Cv::make(v));
					sv += (q ? "," : "") + std::to_string(v);
				}
				sv += "]";
				x.push_back(Cv::make(0));
				if (nested) { if (!a2Nested<T>(a, true, r, c, &x[0])) continue; }
				else a2AssignFlat<T>(a, &x[0], r);
				e = "{\"op\":\"assignList\"," + kv("h", h) + "," + kv("r", r) + "," + kv("c", c) + "," + kv("nested", nested) + ",\"s\":" + sv + post(h);
			}
			else if (op < 58) { int g = pickTarget(); bindNew(g, a.clone()); e = "{\"op\":\"clone\"," + kv("h", h) + "," + kv("g", g) + post(h, g); }
			else if (op < 61)
			{
				int g = pickTarget();
				{
					Array2<Box<T> > b = a.template with<Box<T> >();
					bindNew(g, b.template with<T>());
				}
				e = "{\"op\":\"conv\"," + kv("h", h) + "," + kv("g", g) + ",\"via\":\"with\"" + post(h, g);
			}
			else if (op < 67) // copy constructor
			{
				int g = pickDead();
				if (!g) continue;
				hs[g] = new Array2<T>(a);
				e = "{\"op\":\"copyHandle\"," + kv("h", h) + "," + kv("g", g) + post(h, g);
			}
			else if (op < 71) { int g = pickLive(); *hs[g] = a; e = "{\"op\":\"assignHandle\"," + kv("h", h) + "," + kv("g", g) + post(h, g); }
			else if (op < 76)
			{
				if (nLive() < 2) continue;
				delete hs[h];
				hs[h] = 0;
				e = "{\"op\":\"dropHandle\"," + kv("h", h) + "}";
			}
			else if (op < 83) // slice(i1, i2, j1, j2)
			{
				int g = pickTarget();
				int i1 = rng.below(R + 1), i2 = rng.range(i1, R), j1 = rng.below(C + 1), j2 = rng.range(j1, C);
				bindNew(g, a.slice(i1, i2, j1, j2));
				e = "{\"op\":\"slice2\"," + kv("h", h) + "," + kv("g", g) + "," + kv("i1", i1) + "," + kv("i2", i2) + "," + kv("j1", j1) + "," + kv("j2", j2) + post(h, g);
			}
			else if (op < 87)
			{
				int g = pickLive();
				const Array2<T>& b = *hs[g];
				if ((a == b) == (a != b)) { fprintf(stderr, "VREC-FAIL: == and != agree\n"); exit(3); }
				e = "{\"op\":\"cmp2\"," + kv("h", h) + "," + kv("g", g) + "," + kv("eq", a == b ? 1 : 0) + post(h);
			}
			else if (op < 89) // indices()
			{
				if (R * C > 40) continue;
				std::string rv = "[";
				int cnt = 0;
				char b[40];
				for (const IndexIJ& ij : a.indices()) { snprintf(b, sizeof b, cnt ? ",[%d,%d]" : "[%d,%d]", ij.i, ij.j); rv += b; cnt++; }
				e = "{\"op\":\"idx2\"," + kv("h", h) + ",\"ij\":" + rv + "]" + post(h);
			}
			else if (op < 91) // range-for over the elements
			{
				if (R * C > 60) continue;
				std::string rv = "[";
				int cnt = 0;
				char b[16];
				for (T& x : a) { snprintf(b, sizeof b, cnt ? ",%d" : "%d", valueOf<Cv>(x)); rv += b; cnt++; }
				e = "{\"op\":\"enum\"," + kv("h", h) + ",\"r\":" + rv + "]" + post(h);
			}
			else if (op < 96) // a(i, j)
			{
				if (R * C == 0) continue;
				int i = rng.below(R), j = rng.below(C);
				const Array2<T>& ca = a;
				e = "{\"op\":\"get2\"," + kv("h", h) + "," + kv("i", i) + "," + kv("j", j) + "," + kv("r", valueOf<Cv>(rng.chance(50) ? ca(i, j) : a(i, j))) + post(h);
			}
			else { check(); done++; continue; }
			log.line(e);
			done++;
		}
		check();
		for (int i = 1; i <= NH; i++) { delete hs[i]; hs[i] = 0; }
	}
};

template <class Cv>
static void execution(Rng& rng, Log& log, long n, int maxDim)
{
	long live0 = Cv::live();
	log.line("{\"op\":\"reset\"}");
	{
		Exec2<Cv> ex(rng, log, maxDim);
		ex.run(n);
	}
	if (Cv::live() >= 0 && Cv::live() != live0)
	{
		fprintf(stderr, "VREC-FAIL: %ld element instances still alive after all objects were destroyed\n", Cv::live() - live0);
		exit(3);
	}
}

int main(int argc, char** argv)
{
	Args args(argc, argv);
	Rng rng(args.seed);
	Log log(args.out);
	long remaining = args.events;
	int k = (int)(args.seed % 4);
	while (remaining > 0)
	{
		long n = rng.range(200, 1500);
		if (n > remaining) n = remaining;
		switch (k++ % 4)
		{
		case 0: execution<ConvInt>(rng, log, n, 30); break;
		case 1: execution<ConvCounted>(rng, log, n, 16); break;
		case 2: execution<ConvStr<0> >(rng, log, n, 12); break;
		case 3: execution<ConvStr<1> >(rng, log, n, 12); break;
		}
		remaining -= n;
	}
	return 0;
}
