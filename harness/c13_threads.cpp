// C13 replayer: (a) forces every TLC-enumerated creator/worker interleaving of spec/ThreadLife.tla onto real
// asl::Thread objects with the token-passing scheduler and compares finished()/effect after every step;
// (b) runs parallel_for / nested parallel_for / ThreadGroup / parallel_invoke cases emitted by spec/ParFor.tla and
// compares the per-index invocation counts with the specification's;
// (c) forces every behaviour of spec/ThreadObjLife.tla (thread objects copied, restarted, destroyed; case kind "life")
// onto heap-allocated asl::Thread objects: the creator executes the emitted operations, parks at a user point after
// each, and finished() / the body counters of the live objects are compared with the specification after every step.
#include <asl/Thread.h>
#include <asl/Array.h>
#include "vsched.h"
#include "vrun.h"
#include <new>
#include <dirent.h>

using namespace asl;
using vrun::Outcome;

// ---- (a) hand-over interleavings -----------------------------------------------------------------
struct ObsCtx
{
	Thread* t;
	volatile int* effect;
	const vj::Value* steps;
	std::string err;
};

static void observe(int decision, void* arg)
{
	ObsCtx& o = *(ObsCtx*)arg;
	if (!o.err.empty() || decision == 0) return; // decision 0: before any step
	size_t k = (size_t)decision - 1;
	if (k >= o.steps->size()) return;
	const vj::Value& e = (*o.steps)[k];
	bool fin = o.t->finished();
	int eff = *o.effect;
	if (fin != e["fin"].b || eff != e["eff"].i())
	{
		char b[200];
		snprintf(b, sizeof b, "after step %zu (thread %d): finished()=%d effect=%d, specification says finished=%d effect=%d",
		         k + 1, e["t"].i(), (int)fin, eff, (int)e["fin"].b, e["eff"].i());
		o.err = b;
	}
}

struct SubThread : public Thread
{
	volatile int* effect;
	void run() { (*effect)++; }
};

static Outcome runSched(const vj::Value& c)
{
	const vj::Value& steps = c["steps"];
	std::vector<int> plan;
	for (size_t i = 0; i < steps.size(); i++) plan.push_back(steps[i]["t"].i());
	bool lambda = c["flavour"].s() == "lambda";
	volatile int effect = 0;
	ObsCtx oc;
	oc.effect = &effect;
	oc.steps = &steps;
	static const int pointsL[] = { vsched::POST_CREATE, vsched::SPIN, vsched::SPIN_DONE, vsched::PRE_JOIN, vsched::POST_JOIN,
	                               vsched::READY, vsched::PRE_FIN };
	vsched::Sched& S = vsched::S();
	S.observer = observe;
	S.observerArg = &oc;
	bool fin;
	int mism;
	if (lambda)
	{
		char buf[sizeof(Thread)] __attribute__((aligned(16)));
		Thread* t = (Thread*)buf;
		oc.t = t;
		vsched::begin(plan, pointsL, 7);
		new (buf) Thread([&effect]() { effect++; });
		t->join();
		fin = t->finished();
		vsched::end();
		mism = S.mismatches;
		t->~Thread();
	}
	else
	{
		SubThread t;
		t.effect = &effect;
		oc.t = &t;
		vsched::begin(plan, pointsL, 7);
		t.start();
		t.join();
		fin = t.finished();
		vsched::end();
		mism = S.mismatches;
	}
	S.observer = 0;
	if (!oc.err.empty()) return Outcome::fail(oc.err);
	if (!fin) return Outcome::fail("finished() is false after join() returned");
	if (effect != 1) return Outcome::fail("body effect is " + std::to_string((int)effect) + " after join(), expected exactly 1");
	if (mism) return Outcome::fail("schedule could not be followed (" + std::to_string(mism) + " decisions named a thread that was not enabled): the hand-over does not have the steps of ThreadLife.tla");
	if (S.pos != S.plan.size()) return Outcome::fail("run ended after " + std::to_string(S.pos) + " of " + std::to_string(S.plan.size()) + " planned steps");
	return Outcome();
}

// ---- (a2) ThreadGroup start/join interleavings (spec/ThreadGroupLife.tla) ---------------------------
struct GMember : public Thread
{
	volatile int* eff;
	GMember() : eff(0) {}
	explicit GMember(volatile int* e) : eff(e) {}
	void run() { (*eff)++; }
};
struct GObs
{
	ThreadGroup<GMember>* g;
	volatile int* eff;
	int nw;
	const vj::Value* steps;
	std::string err;
};
static void observeGroup(int decision, void* arg)
{
	GObs& o = *(GObs*)arg;
	if (!o.err.empty() || decision == 0) return;
	size_t k = (size_t)decision - 1;
	if (k >= o.steps->size()) return;
	const vj::Value& e = (*o.steps)[k];
	for (int w = 0; w < o.nw; w++)
	{
		bool fin = o.g->_threads[w].finished();
		int eff = o.eff[w];
		if (fin != e["fin"][w].b || eff != e["eff"][w].i())
		{
			char b[200];
			snprintf(b, sizeof b, "after step %zu (thread %d): member %d finished()=%d effect=%d, specification says finished=%d effect=%d",
			         k + 1, e["t"].i(), w + 1, (int)fin, eff, (int)e["fin"][w].b, e["eff"][w].i());
			o.err = b;
			return;
		}
	}
}
static Outcome runGroupSched(const vj::Value& c)
{
	const vj::Value& steps = c["steps"];
	int nw = c["nw"].i();
	std::vector<int> plan;
	for (size_t i = 0; i < steps.size(); i++) plan.push_back(steps[i]["t"].i());
	volatile int eff[8] = { 0 };
	ThreadGroup<GMember> g;
	for (int w = 0; w < nw; w++) g << GMember(&eff[w]);
	GObs o;
	o.g = &g;
	o.eff = eff;
	o.nw = nw;
	o.steps = &steps;
	static const int points[] = { vsched::POST_CREATE, vsched::PRE_JOIN, vsched::POST_JOIN, vsched::PRE_FIN };
	vsched::Sched& S = vsched::S();
	S.observer = observeGroup;
	S.observerArg = &o;
	vsched::begin(plan, points, 4);
	g.start();
	g.join();
	bool allFin = true;
	for (int w = 0; w < nw; w++) if (!g._threads[w].finished() || eff[w] != 1) allFin = false;
	vsched::end();
	S.observer = 0;
	int mism = S.mismatches;
	if (!o.err.empty()) return Outcome::fail("ThreadGroup: " + o.err);
	if (!allFin) return Outcome::fail("ThreadGroup: after join() a member has not finished or did not run exactly once");
	if (mism) return Outcome::fail("ThreadGroup: schedule could not be followed (" + std::to_string(mism) + " mismatching decisions)");
	if (S.pos != S.plan.size()) return Outcome::fail("ThreadGroup: run ended after " + std::to_string(S.pos) + " of " + std::to_string(S.plan.size()) + " planned steps");
	return Outcome();
}

// ---- (b) parallel_for, ThreadGroup, parallel_invoke ------------------------------------------------
static const int OFF = 16, NCNT = 96;

static Outcome runPfor(const vj::Value& c)
{
	int i0 = c["i0"].i(), i1 = c["i1"].i(), n = c["n"].i();
	AtomicCount* cnt = new AtomicCount[NCNT];
	volatile int bad = 0;
	Thread::parallel_for(i0, i1, [&](int i) {
		if (i + OFF < 0 || i + OFF >= NCNT) bad = 1;
		else ++cnt[i + OFF];
	}, n);
	// everything must be complete at return: read immediately
	std::vector<int> got(NCNT);
	for (int k = 0; k < NCNT; k++) got[k] = (int)cnt[k];
	delete[] cnt;
	if (bad) return Outcome::fail("parallel_for invoked f with an index far outside the range");
	std::vector<int> want(NCNT, 0);
	const vj::Value& exp = c["exp"];
	for (size_t k = 0; k < exp.size(); k++) want[exp[k].i() + OFF]++;
	for (int k = 0; k < NCNT; k++)
		if (got[k] != want[k])
		{
			char b[160];
			snprintf(b, sizeof b, "parallel_for(%d,%d,f,%d): f(%d) invoked %d time(s), specification says %d", i0, i1, n, k - OFF, got[k], want[k]);
			return Outcome::fail(b);
		}
	Outcome o;
	o.nontrivial = i1 > i0;
	return o;
}

struct Member : public Thread
{
	AtomicCount* cnt;
	int idx, work;
	Member() : cnt(0), idx(0), work(0) {}
	Member(AtomicCount* c, int i, int w) : cnt(c), idx(i), work(w) {}
	void run()
	{
		volatile int x = 0;
		for (int k = 0; k < work; k++) x += k;
		++cnt[idx];
	}
};

static Outcome runGroup(const vj::Value& c)
{
	int m = c["m"].i(), work = c["work"].i();
	AtomicCount* cnt = new AtomicCount[m + 1];
	{
		ThreadGroup<Member> g;
		for (int i = 0; i < m; i++) g << Member(cnt, i, work * (i % 3));
		g.start();
		g.join();
		for (int i = 0; i < m; i++)
			if ((int)cnt[i] != c["exp"][i].i())
			{
				int got = (int)cnt[i];
				delete[] cnt;
				return Outcome::fail("ThreadGroup: member " + std::to_string(i) + " ran " + std::to_string(got) + " time(s) at join() return");
			}
	}
	delete[] cnt;
	return Outcome();
}

static Outcome runInvoke(const vj::Value& c)
{
	int m = c["m"].i();
	AtomicCount cnt[4];
	auto f0 = [&]() { ++cnt[0]; };
	auto f1 = [&]() { ++cnt[1]; };
	auto f2 = [&]() { ++cnt[2]; };
	auto f3 = [&]() { ++cnt[3]; };
	if (m == 2) Thread::parallel_invoke(f0, f1);
	else if (m == 3) Thread::parallel_invoke(f0, f1, f2);
	else Thread::parallel_invoke(f0, f1, f2, f3);
	for (int i = 0; i < 4; i++)
		if ((int)cnt[i] != c["exp"][i].i())
			return Outcome::fail("parallel_invoke(" + std::to_string(m) + "): function " + std::to_string(i) + " ran " + std::to_string((int)cnt[i]) + " time(s) at return");
	return Outcome();
}

// number of OS threads of this process: a detached trampoline that is still returning (or a sanitizer report being
// printed by it) is waited for before a case ends, so that whatever it does is attributed to this case
static int taskCount()
{
	DIR* d = opendir("/proc/self/task");
	if (!d) return -1;
	int n = 0;
	while (struct dirent* e = readdir(d)) if (e->d_name[0] != '.') n++;
	closedir(d);
	return n;
}
static void settle(int base)
{
	if (base < 0) return;
	for (int k = 0; k < 10000 && taskCount() > base; k++) usleep(500);
}

// ---- (c) thread object life cycle (spec/ThreadObjLife.tla) --------------------------------------------
struct LifeThread : public Thread
{
	volatile int* effect;
	explicit LifeThread(volatile int* e) : effect(e) {}
	void run() { (*effect)++; }
};
struct LifeObs
{
	Thread* obj[3];
	bool alive[3];
	bool holds[3]; // the object holds the handle of a thread that was not joined
	volatile int eff[3];
	const vj::Value* steps;
	std::string err;
};
static void observeLife(int decision, void* arg)
{
	LifeObs& o = *(LifeObs*)arg;
	if (!o.err.empty() || decision == 0) return;
	size_t k = (size_t)decision - 1;
	if (k >= o.steps->size()) return;
	const vj::Value& e = (*o.steps)[k];
	for (int x = 1; x <= 2; x++)
	{
		int wantFin = e["fin"][x - 1].i(), wantEff = e["eff"][x - 1].i();
		char b[240];
		if (o.alive[x] && wantFin >= 0 && (int)o.obj[x]->finished() != wantFin)
		{
			snprintf(b, sizeof b, "after step %zu (thread %d, %s): object %d finished()=%d, specification says %d",
			         k + 1, e["t"].i(), e["op"].s().c_str(), x, (int)o.obj[x]->finished(), wantFin);
			o.err = b;
			return;
		}
		if (o.eff[x] != wantEff)
		{
			snprintf(b, sizeof b, "after step %zu (thread %d, %s): bodies run for object %d: %d, specification says %d",
			         k + 1, e["t"].i(), e["op"].s().c_str(), x, (int)o.eff[x], wantEff);
			o.err = b;
			return;
		}
	}
}
static void aliasThreadObject(const void* from, const void* to)
{
	// the copy now holds the handle: the scheduler must know which logical thread a join through the copy waits for
	vsched::Sched& S = vsched::S();
	pthread_mutex_lock(&S.mu);
	std::map<const volatile void*, int>::iterator it = S.threadOf.find(from);
	if (it != S.threadOf.end()) S.threadOf[to] = it->second;
	else S.threadOf.erase(to);
	pthread_mutex_unlock(&S.mu);
}
// The same creator program once more without the scheduler and with bodies that take a while: what must hold without
// any help from the serializing scheduler is that join() - also through a copy that received the handle - returns only
// after the body completed (ThreadObjLife JoinAfterBody / HandleConserved), and the final observations.  An object that
// the specification lets the creator destroy on the strength of finished() is destroyed after polling finished().
struct SlowLifeThread : public Thread
{
	volatile int* effect;
	explicit SlowLifeThread(volatile int* e) : effect(e) {}
	void run() { usleep(400); (*effect)++; }
};
static bool waitUntil(volatile int* v, int want, int ms)
{
	for (int i = 0; i < ms * 10 && *v != want; i++) usleep(100);
	return *v == want;
}
static Outcome runLifeFree(const vj::Value& c)
{
	const vj::Value& steps = c["steps"];
	bool lambda = c["flavour"].s() == "lambda";
	int baseTasks = taskCount();
	Thread* obj[3] = { 0, 0, 0 };
	bool alive[3] = { false, false, false }, holds[3] = { false, false, false };
	int target[3] = { 0, 0, 0 };        // object the thread behind the held handle belongs to
	bool pendingOn[3] = { false, false, false }; // a run that belongs to the object was not joined
	volatile int eff[3] = { 0, 0, 0 };
	std::string err;
	if (!lambda) { obj[1] = new SlowLifeThread(&eff[1]); alive[1] = true; }
	for (size_t i = 0; i < steps.size() && err.empty(); i++)
	{
		const vj::Value& e = steps[i];
		if (e["t"].i() != 0) continue;
		const std::string& op = e["op"].s();
		int a = e["a"].i(), b = e["b"].i();
		if (op == "start") { obj[a]->start(); holds[a] = true; target[a] = a; pendingOn[a] = true; }
		else if (op == "ctor")
		{
			volatile int* ef = &eff[a];
			obj[a] = new Thread([ef]() { usleep(400); (*ef)++; });
			alive[a] = holds[a] = pendingOn[a] = true;
			target[a] = a;
		}
		else if (op == "copy")
		{
			if (lambda) obj[b] = new Thread(*obj[a]);
			else
			{
				SlowLifeThread* t = new SlowLifeThread(*(SlowLifeThread*)obj[a]);
				t->effect = &eff[b];
				obj[b] = t;
			}
			alive[b] = true;
			holds[b] = holds[a];
			target[b] = target[a];
			holds[a] = false;
		}
		else if (op == "join") obj[a]->join();
		else if (op == "joined")
		{
			int x = target[a];
			holds[a] = false;
			pendingOn[x] = false;
			int wantEff = e["eff"][x - 1].i(), wantFin = e["fin"][x - 1].i();
			if (eff[x] != wantEff)
				err = "free-running: join() through object " + std::to_string(a) + " returned with " + std::to_string((int)eff[x]) + " completed bodies of object " + std::to_string(x) + ", specification says " + std::to_string(wantEff);
			else if (alive[x] && wantFin >= 0 && (int)obj[x]->finished() != wantFin)
				err = "free-running: after join() through object " + std::to_string(a) + " finished() of object " + std::to_string(x) + " is " + std::to_string((int)obj[x]->finished()) + ", specification says " + std::to_string(wantFin);
		}
		else if (op == "destroy")
		{
			if (pendingOn[a])
			{
				// the specification allowed this only because finished() had been seen: wait for that
				for (int k = 0; k < 50000 && !obj[a]->finished(); k++) usleep(100);
				if (!obj[a]->finished()) err = "free-running: finished() of object " + std::to_string(a) + " never became true";
				pendingOn[a] = false;
			}
			alive[a] = false;
			delete obj[a];
			obj[a] = 0;
		}
	}
	if (err.empty() && steps.size())
	{
		const vj::Value& e = steps[steps.size() - 1];
		for (int x = 1; x <= 2 && err.empty(); x++)
		{
			int wantEff = e["eff"][x - 1].i(), wantFin = e["fin"][x - 1].i();
			if (!waitUntil(&eff[x], wantEff, 5000))
				err = "free-running: bodies run for object " + std::to_string(x) + ": " + std::to_string((int)eff[x]) + ", specification says " + std::to_string(wantEff);
			else if (alive[x] && wantFin >= 0)
			{
				for (int k = 0; k < 50000 && (int)obj[x]->finished() != wantFin; k++) usleep(100);
				if ((int)obj[x]->finished() != wantFin)
					err = "free-running: at the end finished() of object " + std::to_string(x) + " is " + std::to_string((int)obj[x]->finished()) + ", specification says " + std::to_string(wantFin);
			}
		}
	}
	for (int x = 1; x <= 2; x++)
		if (alive[x] && holds[x]) { obj[x]->join(); holds[x] = false; }
	settle(baseTasks); // detached trampolines have returned
	for (int x = 1; x <= 2; x++)
		if (alive[x]) delete obj[x];
	return err.empty() ? Outcome() : Outcome::fail("Thread life cycle: " + err);
}

static Outcome runLife(const vj::Value& c)
{
	const vj::Value& steps = c["steps"];
	bool lambda = c["flavour"].s() == "lambda";
	std::vector<int> plan;
	for (size_t i = 0; i < steps.size(); i++) plan.push_back(steps[i]["t"].i());
	int baseTasks = taskCount();
	LifeObs L;
	for (int x = 0; x < 3; x++) { L.obj[x] = 0; L.alive[x] = false; L.holds[x] = false; L.eff[x] = 0; }
	L.steps = &steps;
	if (!lambda) { L.obj[1] = new LifeThread(&L.eff[1]); L.alive[1] = true; }
	static const int points[] = { vsched::SPIN, vsched::PRE_JOIN, vsched::PRE_FIN };
	vsched::Sched& S = vsched::S();
	S.observer = observeLife;
	S.observerArg = &L;
	vsched::begin(plan, points, 3);
	vsched::userPoint(0);
	std::string herr;
	for (size_t i = 0; i < steps.size() && herr.empty(); i++)
	{
		const vj::Value& e = steps[i];
		if (e["t"].i() != 0) continue;
		const std::string& op = e["op"].s();
		int a = e["a"].i(), b = e["b"].i();
		if (op == "spun" || op == "joined" || op == "end") continue; // second halves of ctor / join / endwait
		if (op == "start") { L.obj[a]->start(); L.holds[a] = true; }
		else if (op == "ctor")
		{
			L.holds[a] = true;
			void* mem = operator new(sizeof(Thread));
			L.obj[a] = (Thread*)mem; // visible to the observer while the constructor is still spinning
			L.alive[a] = true;
			volatile int* eff = &L.eff[a];
			new (mem) Thread([eff]() { (*eff)++; });
		}
		else if (op == "copy")
		{
			if (lambda) L.obj[b] = new Thread(*L.obj[a]);
			else
			{
				LifeThread* t = new LifeThread(*(LifeThread*)L.obj[a]);
				t->effect = &L.eff[b];
				L.obj[b] = t;
			}
			L.alive[b] = true;
			L.holds[b] = L.holds[a];
			L.holds[a] = false;
			aliasThreadObject(L.obj[a], L.obj[b]);
		}
		else if (op == "join") { L.obj[a]->join(); L.holds[a] = false; }
		else if (op == "destroy")
		{
			L.alive[a] = false;
			delete L.obj[a];
			L.obj[a] = 0;
		}
		else if (op == "endwait") { vsched::joinPoint(-1); break; }
		else herr = "harness: unknown life operation " + op;
		vsched::userPoint((long)i + 1);
	}
	vsched::end();
	S.observer = 0;
	int mism = S.mismatches;
	size_t pos = S.pos, want = S.plan.size();
	// after the last step: everything that the specification constrains, read directly
	std::string finalErr;
	if (steps.size())
	{
		const vj::Value& e = steps[steps.size() - 1];
		for (int x = 1; x <= 2; x++)
		{
			int wantFin = e["fin"][x - 1].i();
			if (L.alive[x] && wantFin >= 0 && (int)L.obj[x]->finished() != wantFin)
				finalErr = "at the end: object " + std::to_string(x) + " finished()=" + std::to_string((int)L.obj[x]->finished()) + ", specification says " + std::to_string(wantFin);
			if (L.eff[x] != e["eff"][x - 1].i())
				finalErr = "at the end: bodies run for object " + std::to_string(x) + ": " + std::to_string((int)L.eff[x]) + ", specification says " + std::to_string(e["eff"][x - 1].i());
		}
	}
	for (int x = 1; x <= 2; x++)
		if (L.alive[x])
		{
			if (L.holds[x]) L.obj[x]->join(); // (its thread has ended)
			delete L.obj[x];
		}
	settle(baseTasks);
	if (!herr.empty()) return Outcome::fail(herr);
	if (!L.err.empty()) return Outcome::fail("Thread life cycle: " + L.err);
	if (!finalErr.empty()) return Outcome::fail("Thread life cycle: " + finalErr);
	if (mism) return Outcome::fail("Thread life cycle: schedule could not be followed (" + std::to_string(mism) + " decisions named a thread that was not enabled): the objects do not have the steps of ThreadObjLife.tla");
	if (pos != want) return Outcome::fail("Thread life cycle: run ended after " + std::to_string(pos) + " of " + std::to_string(want) + " planned steps");
	// programs that join through a copy: once more free-running (one interleaving per program is enough: the plan is ignored there)
	bool copies = false, joins = false, first = true;
	for (size_t i = 0; i < steps.size(); i++)
	{
		const std::string& op = steps[i]["op"].s();
		if (op == "copy") copies = true;
		if (op == "join") joins = true;
		if (steps[i]["t"].i() != 0 && i + 1 < steps.size() && steps[i + 1]["t"].i() == 0 && steps[i + 1]["op"].s() != "joined" && steps[i + 1]["op"].s() != "spun" && steps[i + 1]["op"].s() != "end") first = false;
	}
	if (copies && joins && first) return runLifeFree(c);
	return Outcome();
}

// ---- (b2) nested parallel_for ------------------------------------------------------------------------
static Outcome runNest(const vj::Value& c)
{
	int a = c["a"].i(), b = c["b"].i(), n1 = c["n1"].i(), n2 = c["n2"].i();
	AtomicCount* cnt = new AtomicCount[64];
	volatile int bad = 0;
	Thread::parallel_for(0, a, [&](int i) {
		Thread::parallel_for(0, b, [&, i](int j) {
			if (i < 0 || i > 7 || j < 0 || j > 7) bad = 1;
			else ++cnt[8 * i + j];
		}, n2);
	}, n1);
	std::vector<int> got(64), want(64, 0);
	for (int k = 0; k < 64; k++) got[k] = (int)cnt[k];
	delete[] cnt;
	if (bad) return Outcome::fail("nested parallel_for invoked f with an index outside both ranges");
	const vj::Value& exp = c["exp"];
	for (size_t k = 0; k < exp.size(); k++) want[exp[k].i()]++;
	for (int k = 0; k < 64; k++)
		if (got[k] != want[k])
		{
			char m[200];
			snprintf(m, sizeof m, "nested parallel_for(0,%d,..,%d){parallel_for(0,%d,..,%d)}: f(%d,%d) invoked %d time(s), specification says %d",
			         a, n1, b, n2, k / 8, k % 8, got[k], want[k]);
			return Outcome::fail(m);
		}
	Outcome o;
	o.nontrivial = a > 0 && b > 0;
	return o;
}

static Outcome runCase(const vj::Value& c)
{
	const std::string& k = c["k"].s();
	if (k == "sched") return runSched(c);
	if (k == "gsched") return runGroupSched(c);
	if (k == "pfor") return runPfor(c);
	if (k == "group") return runGroup(c);
	if (k == "invoke") return runInvoke(c);
	if (k == "life") return runLife(c);
	if (k == "nest") return runNest(c);
	return Outcome::fail("harness: unknown case kind " + k);
}

int main(int argc, char** argv)
{
	vsched::install();
	return vrun::run(argc, argv, runCase);
}
