// C13 replayer: (a) forces every TLC-enumerated creator/worker interleaving of spec/ThreadLife.tla onto real
// asl::Thread objects with the token-passing scheduler and compares finished()/effect after every step;
// (b) runs parallel_for / ThreadGroup / parallel_invoke cases emitted by spec/ParFor.tla and compares the
// per-index invocation counts with the specification's.
#include <asl/Thread.h>
#include <asl/Array.h>
#include "vsched.h"
#include "vrun.h"
#include <new>

using namespace asl;
using vrun::Outcome;

// ---- (a) hand-over interleavings -----------------------------------------------------------------
struct ObsCtx
{
	Thread* t;
	volatile int* effect;
	const vj::Value* steps;
	std::string err;
};

static void observe(int decision, void* arg)
{
	ObsCtx& o = *(ObsCtx*)arg;
	if (!o.err.empty() || decision == 0) return; // decision 0: before any step
	size_t k = (size_t)decision - 1;
	if (k >= o.steps->size()) return;
	const vj::Value& e = (*o.steps)[k];
	bool fin = o.t->finished();
	int eff = *o.effect;
	if (fin != e["fin"].b || eff != e["eff"].i())
	{
		char b[200];
		snprintf(b, sizeof b, "after step %zu (thread %d): finished()=%d effect=%d, specification says finished=%d effect=%d",
		         k + 1, e["t"].i(), (int)fin, eff, (int)e["fin"].b, e["eff"].i());
		o.err = b;
	}
}

struct SubThread : public Thread
{
	volatile int* effect;
	void run() { (*effect)++; }
};

static Outcome runSched(const vj::Value& c)
{
	const vj::Value& steps = c["steps"];
	std::vector<int> plan;
	for (size_t i = 0; i < steps.size(); i++) plan.push_back(steps[i]["t"].i());
	bool lambda = c["flavour"].s() == "lambda";
	volatile int effect = 0;
	ObsCtx oc;
	oc.effect = &effect;
	oc.steps = &steps;
	static const int pointsL[] = { vsched::POST_CREATE, vsched::SPIN, vsched::SPIN_DONE, vsched::PRE_JOIN, vsched::POST_JOIN,
	                               vsched::READY, vsched::PRE_FIN };
	vsched::Sched& S = vsched::S();
	S.observer = observe;
	S.observerArg = &oc;
	bool fin;
	int mism;
	if (lambda)
	{
		char buf[sizeof(Thread)] __attribute__((aligned(16)));
		Thread* t = (Thread*)buf;
		oc.t = t;
		vsched::begin(plan, pointsL, 7);
		new (buf) Thread([&effect]() { effect++; });
		t->join();
		fin = t->finished();
		vsched::end();
		mism = S.mismatches;
		t->~Thread();
	}
	else
	{
		SubThread t;
		t.effect = &effect;
		oc.t = &t;
		vsched::begin(plan, pointsL, 7);
		t.start();
		t.join();
		fin = t.finished();
		vsched::end();
		mism = S.mismatches;
	}
	S.observer = 0;
	if (!oc.err.empty()) return Outcome::fail(oc.err);
	if (!fin) return Outcome::fail("finished() is false after join() returned");
	if (effect != 1) return Outcome::fail("body effect is " + std::to_string((int)effect) + " after join(), expected exactly 1");
	if (mism) return Outcome::fail("schedule could not be followed (" + std::to_string(mism) + " decisions named a thread that was not enabled): the hand-over does not have the steps of ThreadLife.tla");
	if (S.pos != S.plan.size()) return Outcome::fail("run ended after " + std::to_string(S.pos) + " of " + std::to_string(S.plan.size()) + " planned steps");
	return Outcome();
}

// ---- (a2) ThreadGroup start/join interleavings (spec/ThreadGroupLife.tla) ---------------------------
struct GMember : public Thread
{
	volatile int* eff;
	GMember() : eff(0) {}
	explicit GMember(volatile int* e) : eff(e) {}
	void run() { (*eff)++; }
};
struct GObs
{
	ThreadGroup<GMember>* g;
	volatile int* eff;
	int nw;
	const vj::Value* steps;
	std::string err;
};
static void observeGroup(int decision, void* arg)
{
	GObs& o = *(GObs*)arg;
	if (!o.err.empty() || decision == 0) return;
	size_t k = (size_t)decision - 1;
	if (k >= o.steps->size()) return;
	const vj::Value& e = (*o.steps)[k];
	for (int w = 0; w < o.nw; w++)
	{
		bool fin = o.g->_threads[w].finished();
		int eff = o.eff[w];
		if (fin != e["fin"][w].b || eff != e["eff"][w].i())
		{
			char b[200];
			snprintf(b, sizeof b, "after step %zu (thread %d): member %d finished()=%d effect=%d, specification says finished=%d effect=%d",
			         k + 1, e["t"].i(), w + 1, (int)fin, eff, (int)e["fin"][w].b, e["eff"][w].i());
			o.err = b;
			return;
		}
	}
}
static Outcome runGroupSched(const vj::Value& c)
{
	const vj::Value& steps = c["steps"];
	int nw = c["nw"].i();
	std::vector<int> plan;
	for (size_t i = 0; i < steps.size(); i++) plan.push_back(steps[i]["t"].i());
	volatile int eff[8] = { 0 };
	ThreadGroup<GMember> g;
	for (int w = 0; w < nw; w++) g << GMember(&eff[w]);
	GObs o;
	o.g = &g;
	o.eff = eff;
	o.nw = nw;
	o.steps = &steps;
	static const int points[] = { vsched::POST_CREATE, vsched::PRE_JOIN, vsched::POST_JOIN, vsched::PRE_FIN };
	vsched::Sched& S = vsched::S();
	S.observer = observeGroup;
	S.observerArg = &o;
	vsched::begin(plan, points, 4);
	g.start();
	g.join();
	bool allFin = true;
	for (int w = 0; w < nw; w++) if (!g._threads[w].finished() || eff[w] != 1) allFin = false;
	vsched::end();
	S.observer = 0;
	int mism = S.mismatches;
	if (!o.err.empty()) return Outcome::fail("ThreadGroup: " + o.err);
	if (!allFin) return Outcome::fail("ThreadGroup: after join() a member has not finished or did not run exactly once");
	if (mism) return Outcome::fail("ThreadGroup: schedule could not be followed (" + std::to_string(mism) + " mismatching decisions)");
	if (S.pos != S.plan.size()) return Outcome::fail("ThreadGroup: run ended after " + std::to_string(S.pos) + " of " + std::to_string(S.plan.size()) + " planned steps");
	return Outcome();
}

// ---- (b) parallel_for, ThreadGroup, parallel_invoke ------------------------------------------------
static const int OFF = 16, NCNT = 96;

static Outcome runPfor(const vj::Value& c)
{
	int i0 = c["i0"].i(), i1 = c["i1"].i(), n = c["n"].i();
	AtomicCount* cnt = new AtomicCount[NCNT];
	volatile int bad = 0;
	Thread::parallel_for(i0, i1, [&](int i) {
		if (i + OFF < 0 || i + OFF >= NCNT) bad = 1;
		else ++cnt[i + OFF];
	}, n);
	// everything must be complete at return: read immediately
	std::vector<int> got(NCNT);
	for (int k = 0; k < NCNT; k++) got[k] = (int)cnt[k];
	delete[] cnt;
	if (bad) return Outcome::fail("parallel_for invoked f with an index far outside the range");
	std::vector<int> want(NCNT, 0);
	const vj::Value& exp = c["exp"];
	for (size_t k = 0; k < exp.size(); k++) want[exp[k].i() + OFF]++;
	for (int k = 0; k < NCNT; k++)
		if (got[k] != want[k])
		{
			char b[160];
			snprintf(b, sizeof b, "parallel_for(%d,%d,f,%d): f(%d) invoked %d time(s), specification says %d", i0, i1, n, k - OFF, got[k], want[k]);
			return Outcome::fail(b);
		}
	Outcome o;
	o.nontrivial = i1 > i0;
	return o;
}

struct Member : public Thread
{
	AtomicCount* cnt;
	int idx, work;
	Member() : cnt(0), idx(0), work(0) {}
	Member(AtomicCount* c, int i, int w) : cnt(c), idx(i), work(w) {}
	void run()
	{
		volatile int x = 0;
		for (int k = 0; k < work; k++) x += k;
		++cnt[idx];
	}
};

static Outcome runGroup(const vj::Value& c)
{
	int m = c["m"].i(), work = c["work"].i();
	AtomicCount* cnt = new AtomicCount[m + 1];
	{
		ThreadGroup<Member> g;
		for (int i = 0; i < m; i++) g << Member(cnt, i, work * (i % 3));
		g.start();
		g.join();
		for (int i = 0; i < m; i++)
			if ((int)cnt[i] != c["exp"][i].i())
			{
				int got = (int)cnt[i];
				delete[] cnt;
				return Outcome::fail("ThreadGroup: member " + std::to_string(i) + " ran " + std::to_string(got) + " time(s) at join() return");
			}
	}
	delete[] cnt;
	return Outcome();
}

static Outcome runInvoke(const vj::Value& c)
{
	int m = c["m"].i();
	AtomicCount cnt[4];
	auto f0 = [&]() { ++cnt[0]; };
	auto f1 = [&]() { ++cnt[1]; };
	auto f2 = [&]() { ++cnt[2]; };
	auto f3 = [&]() { ++cnt[3]; };
	if (m == 2) Thread::parallel_invoke(f0, f1);
	else if (m == 3) Thread::parallel_invoke(f0, f1, f2);
	else Thread::parallel_invoke(f0, f1, f2, f3);
	for (int i = 0; i < 4; i++)
		if ((int)cnt[i] != c["exp"][i].i())
			return Outcome::fail("parallel_invoke(" + std::to_string(m) + "): function " + std::to_string(i) + " ran " + std::to_string((int)cnt[i]) + " time(s) at return");
	return Outcome();
}

static Outcome runCase(const vj::Value& c)
{
	const std::string& k = c["k"].s();
	if (k == "sched") return runSched(c);
	if (k == "gsched") return runGroupSched(c);
	if (k == "pfor") return runPfor(c);
	if (k == "group") return runGroup(c);
	if (k == "invoke") return runInvoke(c);
	return Outcome::fail("harness: unknown case kind " + k);
}

int main(int argc, char** argv)
{
	vsched::install();
	return vrun::run(argc, argv, runCase);
}
