// C05 replayer (R): Var trees enumerated by TLC from spec/JsonTextVar.tla are built as real asl::Var values, encoded by
// Json::encode / Xdl::encode in every mode, decoded again, and compared with the expectation TLC printed next to the
// tree (numbers as the IEEE bit pattern the decoded number must have as a double / as a float).  Every tree is also
// written with Json::write / Xdl::write and read back; flagged trees are additionally embedded behind a padding
// string so that the 16382-byte chunk boundary of Xdl::read falls on every position of the tree's text.
// Case: {"tree":T, "exp":E, "xdl":bool, "sweep":bool, "hz":[...]}
//   T: z | b:0/1 | i:[neg,hi,lo] | d:[4 limbs] | f:[2 limbs] | s:[bytes] | a:[T..] | o:[[keybytes,T]..]
//      | none:0 (NONE-typed Var) | nan:64/32 | inf:0/1 (negative), w:64/32
// Writer case (spec/XdlWriterEnum.tla): {"tree":T, "ti":index, "mode":m, "text":[bytes], "exp":E, "approx":bool, "xdl":bool}
//   text = Ser(tree, mode) of spec/XdlWriter.tla.  The real texts - Xdl::encode(v, mode), Json::encode(v, mode without the
//   JSON bit) when that bit is set, and the files written by Xdl::write / Json::write - are decoded by the real decoder
//   (must give exp) and compared with Ser: other bytes are a layout *deviation* (logged for TLC to judge), not a failure.
// File case (spec/XdlFile.tla): {"pre":[bytes], "body":[bytes], "padto":n, "k":"doc"|"any", "v":E}: a file with these contents
//   (byte-order marks, CR LF, short files, text after the value ...): Json::read = Xdl::read = Json::decode(contents without
//   the mark), and for k = doc the value is the recognizer's.
#include "c06_common.h"
#include "vrun.h"
#include <asl/File.h>
#include <unistd.h>
#include <fcntl.h>
#include <math.h>
#include <vector>

using vrun::Outcome;
using namespace asl;

static std::string g_tmp = "/verif/build/tmp";

static Var build(const vj::Value& t)
{
	if (t.has("z")) return Var(Var::NUL);
	if (t.has("b")) return Var(t["b"].i() != 0);
	if (t.has("i")) return Var(jx::fromIntLimbs(t["i"]));
	if (t.has("d")) return Var(jx::fromLimbs64(t["d"]));
	if (t.has("f")) return Var(jx::fromLimbs32(t["f"]));
	if (t.has("s")) return Var(t["s"].bytes().c_str());
	if (t.has("none")) return Var();
	if (t.has("nan")) return t["nan"].i() == 32 ? Var((float)NAN) : Var((double)NAN);
	if (t.has("inf"))
	{
		double x = t["inf"].i() ? -INFINITY : INFINITY;
		return t["w"].i() == 32 ? Var((float)x) : Var(x);
	}
	if (t.has("a"))
	{
		Var v(Var::ARRAY);
		for (size_t i = 0; i < t["a"].size(); i++) v << build(t["a"][i]);
		return v;
	}
	Var v(Var::OBJ);
	for (size_t i = 0; i < t["o"].size(); i++)
		v[String(t["o"][i][0].bytes().c_str())] = build(t["o"][i][1]);
	return v;
}

// like jx::matches, with float expectations and the reduced-precision modes (approx: doubles/floats only need to be numbers)
static bool matches(const Var& v, const vj::Value& e, bool approx, std::string& why)
{
	if (e.has("n"))
	{
		if (v.type() != Var::INT && v.type() != Var::NUMBER) { why = "expected a number, got " + jx::project(v).substr(0, 100); return false; }
		double got = v.type() == Var::INT ? (double)(int)v : (double)v;
		if (e.has("f32"))
		{
			if (approx) return true;
			float want = jx::fromLimbs32(e["f32"]), g = (float)got;
			if (!(want == 0 && g == 0) && memcmp(&want, &g, 4) != 0)
			{
				char b[160];
				snprintf(b, sizeof b, "float %.9g %s came back as %.17g -> float %.9g %s", want, jx::limbs32(want).c_str(), got, g, jx::limbs32(g).c_str());
				why = b;
				return false;
			}
			return true;
		}
		if (approx && !e.has("x")) return true;
		double want = jx::fromLimbs64(e["d"]);
		if (!jx::sameBits(want, got))
		{
			char b[200];
			snprintf(b, sizeof b, "number %.17g %s came back as %.17g %s", want, jx::limbs64(want).c_str(), got, jx::limbs64(got).c_str());
			why = b;
			return false;
		}
		return true;
	}
	if (e.has("a"))
	{
		const vj::Value& a = e["a"];
		if (v.type() != Var::ARRAY || (size_t)v.length() != a.size()) { why = "expected an array of " + std::to_string(a.size()) + ", got " + jx::project(v).substr(0, 200); return false; }
		for (size_t i = 0; i < a.size(); i++)
			if (!matches(v[(int)i], a[i], approx, why)) return false;
		return true;
	}
	if (e.has("o"))
	{
		const vj::Value& o = e["o"];
		if (v.type() != Var::OBJ || (size_t)v.length() != o.size()) { why = "expected an object of " + std::to_string(o.size()) + ", got " + jx::project(v).substr(0, 200); return false; }
		for (size_t i = 0; i < o.size(); i++)
		{
			std::string key = o[i][0].bytes();
			String k(key.c_str());
			if (!v.has(k)) { why = "missing key " + vj::codes(key); return false; }
			if (!matches(v[k], o[i][1], approx, why)) return false;
		}
		return true;
	}
	return jx::matches(v, e, why);
}

static std::string slurp(const std::string& path)
{
	std::string s;
	FILE* f = fopen(path.c_str(), "rb");
	if (!f) return s;
	char buf[65536];
	size_t n;
	while ((n = fread(buf, 1, sizeof buf, f)) > 0) s.append(buf, n);
	fclose(f);
	return s;
}

#define CHECK_RT(label, text, dec, approx)                                                                                   \
	do {                                                                                                                       \
		std::string _why;                                                                                                        \
		if (!(dec).ok() && !(tree.has("none")))                                                                                  \
			return Outcome::fail(std::string(label) + ": the encoder's own output is rejected by the decoder: " + vj::quote(std::string(text).substr(0, 300))); \
		if (!matches(dec, exp, approx, _why))                                                                                    \
			return Outcome::fail(std::string(label) + ": " + _why + " ; text " + vj::quote(std::string(text).substr(0, 300)));    \
	} while (0)

static std::string showText(const std::string& t)
{
	return vj::quote(t.substr(0, 400)) + (t.size() > 400 ? "..." : "");
}

// Layout deviations.  The exact layout of the writer (rows of 16 items, TAB, ", ", final newline ...) is the present
// implementation, not part of C05: a real text that is not byte for byte Ser(tree, mode) is appended to the file named by
// C05_DEVLOG as one ndjson line  {"e":"wdev","ti":tree index,"mode":m,"xdl":0/1,"via":..,"text":[bytes]}  and judged by
// TLC on the text itself (spec/Trace_XdlWriterDev.tla: recognizer / parser design accept it with the tree's value, digits
// law of the mode, documented flag promises).  It is not a failure here.
static void deviation(const vj::Value& c, const char* via, const std::string& text)
{
	const char* path = getenv("C05_DEVLOG");
	if (!path || !*path) return;
	std::string line = "{\"e\":\"wdev\",\"ti\":" + std::to_string(c["ti"].i()) + ",\"mode\":" + std::to_string(c["mode"].i()) + ",\"xdl\":" +
	                   (c["xdl"].b ? "true" : "false") + ",\"via\":\"" + via + "\",\"text\":" + vj::codes(text) + "}\n";
	int fd = open(path, O_WRONLY | O_APPEND | O_CREAT, 0644);
	if (fd < 0) return;
	ssize_t w = write(fd, line.data(), line.size()); // one write() on an O_APPEND descriptor: lines of parallel shards do not interleave
	(void)w;
	close(fd);
}

// writer cases: what the real encoder writes for (tree, mode) - through Xdl::encode, Json::encode and both write() functions -
// is decoded by the real decoder (value = exp) and compared with the specification's serializer; other bytes than Ser's
// are a deviation for TLC to judge, not a failure
static Outcome runWriterCase(const vj::Value& c)
{
	Outcome res;
	const vj::Value& tree = c["tree"];
	const vj::Value& exp = c["exp"];
	int mode = c["mode"].i();
	bool json = (mode & Json::JSON) != 0, approx = c["approx"].b, xdl = c["xdl"].b;
	std::string want = c["text"].bytes();
	Var v = build(tree);
	res.nontrivial = tree.has("a") || tree.has("o");
	char name[300];
	snprintf(name, sizeof name, "%s/c05w-%d.tmp", g_tmp.c_str(), (int)getpid());
	String path(name);
	// the texts the library produces for this (tree, mode)
	std::vector<std::pair<std::string, std::string> > texts; // (via, text)
	{
		String t = Xdl::encode(v, mode);
		texts.push_back(std::make_pair(std::string("Xdl::encode"), std::string(*t, (size_t)t.length())));
		if (!Xdl::write(v, path, mode)) return Outcome::fail("harness: cannot write " + std::string(name));
		texts.push_back(std::make_pair(std::string("Xdl::write"), slurp(name)));
		if (json)
		{
			String t2 = Json::encode(v, Json::Mode(mode & ~Json::JSON));
			texts.push_back(std::make_pair(std::string("Json::encode"), std::string(*t2, (size_t)t2.length())));
			Json::write(v, path, Json::Mode(mode & ~Json::JSON));
			texts.push_back(std::make_pair(std::string("Json::write"), slurp(name)));
		}
	}
	std::vector<std::string> judged;
	for (size_t i = 0; i < texts.size(); i++)
	{
		const std::string& via = texts[i].first;
		const std::string& got = texts[i].second;
		std::string lab = via + "(v, " + std::to_string(mode) + ")";
		if (got != want)
		{
			bool seen = false;
			for (size_t k = 0; k < judged.size(); k++) seen = seen || judged[k] == got;
			if (!seen) { deviation(c, via.c_str(), got); judged.push_back(got); }
		}
		// the reader's side of the writer's dialect (XDL: identifier keys only), on the real text
		if (json || xdl)
		{
			for (size_t k = 0; k < got.size(); k++)
				if (got[k] == 0) return Outcome::fail(lab + " wrote a NUL byte: " + showText(got));
			String text(got.c_str());
			Var dec = json ? Json::decode(text) : Xdl::decode(text);
			CHECK_RT(lab, got, dec, approx);
		}
	}
	if (json || xdl)
	{
		// the file written last holds texts.back(): read it through the file reader as well
		Var r = json ? Json::read(path) : Xdl::read(path);
		CHECK_RT(texts.back().first + " then read()", texts.back().second, r, approx);
	}
	unlink(name);
	return res;
}

// file cases (spec/XdlFile.tla): contents = pre + blanks up to padto bytes + body
static Outcome runFileCase(const vj::Value& c)
{
	Outcome res;
	std::string pre = c["pre"].bytes(), body = c["body"].bytes();
	long padto = (long)c["padto"].ll();
	std::string content = pre;
	if (padto > 0)
	{
		if ((long)(pre.size() + body.size()) > padto) return Outcome::fail("harness: padto smaller than the contents");
		content += std::string((size_t)padto - pre.size() - body.size(), ' ');
	}
	content += body;
	for (size_t i = 0; i < content.size(); i++)
		if (content[i] == 0) return Outcome::fail("harness: NUL byte in generated file contents");
	res.nontrivial = content.size() >= 3;
	char name[300];
	snprintf(name, sizeof name, "%s/c05f-%d.tmp", g_tmp.c_str(), (int)getpid());
	FILE* f = fopen(name, "wb");
	if (!f) return Outcome::fail("harness: cannot write " + std::string(name));
	if (!content.empty() && fwrite(content.data(), 1, content.size(), f) != content.size()) { fclose(f); return Outcome::fail("harness: short write"); }
	fclose(f);
	String path(name);
	Var jr = Json::read(path);
	Var xr = Xdl::read(path);
	unlink(name);
	std::string what = "file of " + std::to_string(content.size()) + " bytes " + showText(pre) + " + " + std::to_string(content.size() - pre.size() - body.size()) + " blanks + " + showText(body);
	std::string pj = jx::project(jr), px = jx::project(xr);
	if (pj != px) return Outcome::fail("Json::read and Xdl::read disagree on a " + what + ": " + pj.substr(0, 200) + " vs " + px.substr(0, 200));
	bool bom = content.size() >= 3 && (unsigned char)content[0] == 0xef && (unsigned char)content[1] == 0xbb && (unsigned char)content[2] == 0xbf;
	std::string strip = bom ? content.substr(3) : content;
	std::string pd = jx::project(Json::decode(String(strip.c_str())));
	if (pj != pd)
		return Outcome::fail("Json::read of a " + what + " gives " + pj.substr(0, 200) + " , decoding the same contents (without byte-order mark) gives " + pd.substr(0, 200));
	if (c["k"].s() == "doc")
	{
		if (!jr.ok()) return Outcome::fail("Json::read rejects a " + what + " whose contents are a valid document");
		std::string why;
		if (!jx::matches(jr, c["v"], why)) return Outcome::fail("Json::read of a " + what + ": " + why);
	}
	return res;
}

static Outcome runCase(const vj::Value& c)
{
	if (c.has("text")) return runWriterCase(c);
	if (c.has("body")) return runFileCase(c);
	Outcome res;
	const vj::Value& tree = c["tree"];
	const vj::Value& exp = c["exp"];
	bool xdl = c["xdl"].b;
	Var v = build(tree);
	res.nontrivial = tree.has("a") || tree.has("o");

	struct M { const char* name; int mode; bool json; bool approx; };
	static const M modes[] = {
		{ "Json::encode", Json::NONE, true, false }, { "Json::encode(PRETTY)", Json::PRETTY, true, false },
		{ "Json::encode(SIMPLE)", Json::SIMPLE, true, true }, { "Json::encode(NICE)", Json::NICE, true, true },
		{ "Xdl::encode(NONE)", Json::NONE, false, false }, { "Xdl::encode(PRETTY)", Json::PRETTY, false, false },
		{ "Xdl::encode(SIMPLE)", Json::SIMPLE, false, true }, { "Xdl::encode(NICE)", Json::NICE, false, true },
	};
	for (size_t m = 0; m < sizeof modes / sizeof modes[0]; m++)
	{
		if (!modes[m].json && !xdl) continue;
		String text = modes[m].json ? Json::encode(v, Json::Mode(modes[m].mode)) : Xdl::encode(v, modes[m].mode);
		Var dec = modes[m].json ? Json::decode(text) : Xdl::decode(text);
		CHECK_RT(modes[m].name, *text, dec, modes[m].approx);
	}
	// default arguments
	{
		String t1 = Json::encode(v);
		CHECK_RT("Json::encode default", *t1, Json::decode(t1), false);
		if (xdl)
		{
			String t2 = Xdl::encode(v);
			CHECK_RT("Xdl::encode default", *t2, Xdl::decode(t2), true);
		}
	}
	// files
	char name[300];
	snprintf(name, sizeof name, "%s/c05-%d.tmp", g_tmp.c_str(), (int)getpid());
	String path(name);
	{
		if (!Json::write(v, path)) return Outcome::fail("harness: cannot write " + std::string(name));
		Var r = Json::read(path);
		CHECK_RT("Json::write/read (default PRETTY, file of " + std::to_string(slurp(name).size()) + " bytes)", slurp(name), r, false);
		Json::write(v, path, Json::NONE);
		r = Json::read(path);
		CHECK_RT("Json::write/read (NONE, file of " + std::to_string(slurp(name).size()) + " bytes)", slurp(name), r, false);
		if (xdl)
		{
			Xdl::write(v, path);
			r = Xdl::read(path);
			CHECK_RT("Xdl::write/read (default NICE)", slurp(name), r, true);
			Xdl::write(v, path, Json::NONE);
			r = Xdl::read(path);
			CHECK_RT("Xdl::write/read (NONE, file of " + std::to_string(slurp(name).size()) + " bytes)", slurp(name), r, false);
		}
	}
	// chunk boundary sweep: ["ppp...p", tree] with the boundary of the k-th 16382-byte chunk on every position of the tree's text
	if (c["sweep"].b)
	{
		const int B = 16382;
		for (int variant = 0; variant < (xdl ? 2 : 1); variant++)
		{
			bool json = variant == 0;
			int L = json ? Json::encode(v).length() : Xdl::encode(v, Json::NONE).length();
			for (int k = 1; k <= 2; k++)
				for (int s = -3; s <= L + 3; s += (k == 1 ? 1 : 5))
				{
					int m = k * B - 4 - s; // tree text starts at byte m+4 of  ["<m x p>",<tree>]
					std::string pad((size_t)m, 'p');
					Var doc(Var::ARRAY);
					doc << Var(pad.c_str()) << v;
					if (json) Json::write(doc, path, Json::NONE); else Xdl::write(doc, path, Json::NONE);
					Var r = json ? Json::read(path) : Xdl::read(path);
					char lab[160];
					snprintf(lab, sizeof lab, "%s::write/read, chunk boundary %d at offset %d of the value's text (file of %d bytes)", json ? "Json" : "Xdl", k, s, m + 5 + L);
					if (r.type() != Var::ARRAY || r.length() != 2 || r[0].type() != Var::STRING || std::string(*r[0]) != pad)
						return Outcome::fail(std::string(lab) + ": padded document not recovered: " + jx::project(r).substr(0, 120));
					std::string why;
					if (!matches(r[1], exp, false, why)) return Outcome::fail(std::string(lab) + ": " + why);
				}
		}
	}
	unlink(name);
	return res;
}

int main(int argc, char** argv)
{
	for (int i = 1; i + 1 < argc; i++)
		if (std::string(argv[i]) == "--tmpdir") g_tmp = argv[i + 1];
	return vrun::run(argc, argv, runCase);
}
