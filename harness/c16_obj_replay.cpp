// C16 (growth) replayer (R) for the object-level histories TLC generates:
//   k = "buf"   spec/EndianBuffer.tla   StreamBuffer (constructor, setEndian, <<, write, length, content, clear, assignment) and
//                                       StreamBufferReader (both constructors over a sub-range, setEndian, >>, read<T>, read(n),
//                                       read(), skip, length / operator bool / ptr / end)
//   k = "file"  spec/EndianFile.tla     one File object with a position (open modes, seek, position, typed << and >> in either
//                                       byte order, raw read / write with their counts, end(), the length-prefixed String
//                                       convention) and the bytes of the path seen through other objects / POSIX
// Every record of the history carries what the call must return (computed by TLC); the case carries the bytes the buffer /
// the path must hold at the end.  The replayer only executes and compares.
#include "c16_obj.h"
#include "c16_file.h"
#include "vrun.h"

using vrun::Outcome;
using namespace c16;

static TmpDir* g_tmp = 0;

#define FAIL(...) do { char _b[700]; snprintf(_b, sizeof _b, __VA_ARGS__); return Outcome::fail(std::string(what) + ": step " + std::to_string(step) + " " + opname + ": " + _b); } while (0)

static std::vector<std::string> elemsOf(const vj::Value& a)
{
	std::vector<std::string> el;
	for (size_t k = 0; k < a.size(); k++) el.push_back(a[k].bytes());
	return el;
}

static Outcome runBuf(const vj::Value& c)
{
	const char* what = "StreamBuffer";
	const vj::Value& hist = c["hist"];
	size_t step = 0;
	std::string opname = "init";
	BufObj b;
	for (step = 0; step < hist.size(); step++)
	{
		const vj::Value& o = hist[step];
		opname = o["op"].s();
		if (opname == "ctor") b.ctor(o["o"].s());
		else if (!b.w) FAIL("harness: no constructor record");
		else if (opname == "set") b.wset(endianOf(o["o"].s()));
		else if (opname == "w") { if (!putScalar(b, o["t"].s(), o["v"].bytes())) FAIL("harness: unknown type"); }
		else if (opname == "wa") { if (!putArray(b, o["t"].s(), elemsOf(o["a"]))) FAIL("harness: unknown type"); }
		else if (opname == "ws")
		{
			std::string s = o["s"].bytes();
			if ((step & 1) && s.find('\0') == std::string::npos) b.putRaw(s.c_str());
			else b.put(String(s.c_str(), (int)s.size()));
		}
		else if (opname == "wr") b.writeRaw(o["d"].bytes(), o["api"].s());
		else if (opname == "len")
		{
			if (b.length() != o["r"].i()) FAIL("length() = %d, specification says %d", b.length(), o["r"].i());
		}
		else if (opname == "content")
		{
			std::string got = b.content();
			if (got != o["r"].bytes()) FAIL("*buffer = %s, specification says %s", hexs(got).c_str(), hexs(o["r"].bytes()).c_str());
		}
		else if (opname == "clear") b.clear();
		else if (opname == "assign") b.assign(o["d"].bytes());
		else if (opname == "ropen")
		{
			if (!b.openReader(o["via"].s(), o["lo"].i(), o["n"].i(), o["o"].s()))
				FAIL("harness: window %d+%d does not fit the %d bytes of the buffer", o["lo"].i(), o["n"].i(), b.length());
		}
		else if (!b.r) FAIL("harness: no reader");
		else if (opname == "rset") b.rset(endianOf(o["o"].s()));
		else if (opname == "r")
		{
			std::string v;
			if (!getScalar(b, o["t"].s(), v)) FAIL("harness: unknown type");
			if (o["ok"].b && v != o["v"].bytes()) FAIL("%s read as %s, specification says %s", o["t"].s().c_str(), hexs(v).c_str(), hexs(o["v"].bytes()).c_str());
		}
		else if (opname == "rb")
		{
			std::string v = b.readBytes(o["n"].i());
			if (v != o["r"].bytes()) FAIL("read(%d) = %s, specification says %s", o["n"].i(), hexs(v).c_str(), hexs(o["r"].bytes()).c_str());
		}
		else if (opname == "rall")
		{
			std::string v = b.readAll();
			if (v != o["r"].bytes()) FAIL("read() = %s, specification says %s", hexs(v).c_str(), hexs(o["r"].bytes()).c_str());
		}
		else if (opname == "skip") b.skip(o["n"].i());
		else if (opname == "rq")
		{
			if (b.rlen() != o["len"].i()) FAIL("reader.length() = %d, specification says %d", b.rlen(), o["len"].i());
			if (b.rmore() != o["more"].b) FAIL("operator bool = %d, specification says %d", (int)b.rmore(), (int)o["more"].b);
			if (b.rpos() != o["pos"].i()) FAIL("ptr() is %d bytes into the window, specification says %d", b.rpos(), o["pos"].i());
			if (b.rtoend() != o["len"].i()) FAIL("end() - ptr() = %d, specification says %d", b.rtoend(), o["len"].i());
		}
		else FAIL("harness: unknown op");
	}
	opname = "bytes";
	if (!b.w) FAIL("harness: no constructor record");
	std::string got = b.raw(), expect = c["out"].bytes();
	if (got != expect) FAIL("the buffer holds %s, specification says %s", hexs(got).c_str(), hexs(expect).c_str());
	Outcome r;
	r.nontrivial = hist.size() >= 3;
	return r;
}

static Outcome runAll(const vj::Value& c)
{
	std::string k = c["k"].s();
	if (k == "buf") return runBuf(c);
	if (k == "file") return runFile(c, *g_tmp);
	return Outcome::fail("harness: unknown case kind " + k);
}

int main(int argc, char** argv)
{
	if (!hostLittle()) { fprintf(stderr, "c16_obj_replay: the configurations assume Native = LITTLE\n"); return 2; }
	TmpDir tmp;
	g_tmp = &tmp;
	return vrun::run(argc, argv, runAll);
}
