// C10 (growth) recorder (V): seeded random scenarios executed concurrently against real HttpServers, logged as ndjson for
//   --mode 1  Trace_HttpRedirect.tla     calls of Http::request on random redirect sites (POST through 301/302 included)
//   --mode 2  Trace_HttpServerRules.tla  raw-socket connections (up to 8 requests) to servers of every configuration
//   --mode 3  Trace_HttpStatic.tla       operations on directory trees served by serveFile
//   --mode 4  Trace_HttpTransfer.tla     uploads, downloads, form bodies, routing calls
// Several threads run scenarios of the recorded kind at once (plus two unlogged threads running the other kinds against the
// same servers); a scenario is logged as one block of consecutive lines when it ends.  Only observations are logged.
// Every exchange-type event (call / xchg, end / get / upload, download, form, route) carries "ms", its wall time (c10_common.h):
// the specifications do not constrain the observation of one that took C10_SLOW_MS or longer (the library's own time limits may
// have fired), checks/C10.py bounds how many of those there may be.
#include "c10_site.h"
#include "vrec.h"
#include <signal.h>

using namespace vrec;

static Log* g_log = 0;
static pthread_mutex_t g_logmu = PTHREAD_MUTEX_INITIALIZER;
static volatile long g_lines = 0;
static std::set<std::string> g_avoid; // open findings (--avoid): the scenario shapes that run into them are not generated
static void logBlock(const std::vector<std::string>& b)
{
	pthread_mutex_lock(&g_logmu);
	if (g_log) for (size_t i = 0; i < b.size(); i++) g_log->line(b[i]);
	g_lines += (long)b.size();
	pthread_mutex_unlock(&g_logmu);
}
static std::string jb(bool b) { return b ? "true" : "false"; }
static std::string strs(const std::vector<std::string>& v)
{
	std::string s = "[";
	for (size_t i = 0; i < v.size(); i++) s += (i ? "," : "") + vj::quote(v[i]);
	return s + "]";
}

// ---- (1) redirects --------------------------------------------------------------------------------------------------
static void recRedirect(Rng& r, bool logit)
{
	static const int RC[] = { 301, 302, 307, 308 };
	int n = r.range(1, 6);
	std::string site = "[";
	for (int i = 1; i <= n; i++)
	{
		int code, to = 0;
		std::string form = "none";
		bool q = false;
		int k = r.below(100);
		if (i == n && k < 55) code = r.chance(70) ? 200 : 404;
		else if (k < 70) { code = RC[r.below(4)]; to = r.chance(75) && i < n ? i + 1 : r.range(1, n); form = "abs"; q = r.chance(25); }
		else if (k < 76) { code = RC[r.below(4)]; to = r.range(1, n); form = "rel"; }
		else if (k < 80) { code = RC[r.below(4)]; }
		else if (k < 85) { code = 304; to = r.range(1, n); form = "abs"; }
		else code = r.chance(50) ? 200 : 500;
		site += std::string(i > 1 ? "," : "") + "{" + kv("code", code) + "," + kv("to", to) + "," + ks("form", form) + ",\"q\":" + jb(q) + "}";
	}
	site += "]";
	static const char* M[] = { "GET", "POST", "PUT", "DELETE" };
	std::string method = M[r.below(4)];
	bool follow = r.chance(85);
	static const int L[] = { 0, 1, 33, 2000, 16001, 70000 };
	int blen = method == "GET" || method == "DELETE" ? 0 : L[r.below(6)];
	std::string call = "{" + ks("method", method) + ",\"follow\":" + jb(follow) + "," + kv("blen", blen) + "}";
	vj::Value c = vj::parse("{\"site\":" + site + ",\"call\":" + call + "}");
	RedirObs o = runRedirect(c);
	if (!logit) return;
	std::vector<std::string> b;
	b.push_back("{\"e\":\"call\"," + kv("ms", o.ms) + ",\"site\":" + site + ",\"call\":" + call + ",\"bh\":" + limbs64(sentBodyHash(blen)) + "}");
	for (size_t i = 0; i < o.visits.size(); i++)
	{
		const RedirObs::V& v = o.visits[i];
		if (i > 0) b.push_back("{\"e\":\"hop\"," + ks("method", v.method) + "}");
		b.push_back("{\"e\":\"visit\"," + kv("node", v.node) + "," + ks("method", v.method) + "," + kv("blen", v.blen) + ",\"bh\":" + limbs64(v.bh) +
		            ",\"q\":" + jb(v.q) + ",\"qbad\":" + jb(v.qbad) + "}");
	}
	b.push_back("{\"e\":\"result\"," + kv("code", o.code) + "," + kv("node", o.node) + ",\"loc\":{" + ks("form", o.locForm) + "," + kv("to", o.locTo) + ",\"q\":" + jb(o.locQ) + "}}");
	logBlock(b);
}

// ---- (2) built-ins --------------------------------------------------------------------------------------------------
static std::string headerJson(const std::string& name, const std::string& v)
{
	std::vector<std::string> toks;
	size_t p = 0;
	while (p <= v.size())
	{
		size_t q = v.find(',', p);
		if (q == std::string::npos) q = v.size();
		std::string t = v.substr(p, q - p);
		while (!t.empty() && t[0] == ' ') t.erase(0, 1);
		while (!t.empty() && t[t.size() - 1] == ' ') t.erase(t.size() - 1);
		bool plain = !t.empty();
		for (size_t i = 0; i < t.size(); i++) plain = plain && isalnum((unsigned char)t[i]);
		if (plain) toks.push_back(t);
		p = q + 1;
	}
	return "{" + ks("name", name) + ",\"v\":" + vj::codes(v) + ",\"l\":" + strs(toks) + "}";
}
static void recRules(Rng& r, bool logit)
{
	static const char* NAMES[] = { "Allow", "Access-Control-Allow-Methods", "Access-Control-Allow-Headers", "Access-Control-Allow-Origin",
	                               "Access-Control-Allow-Credentials", "Connection" };
	bool cors = r.chance(50), extra = r.chance(50);
	std::string cfg = std::string("{\"cors\":") + jb(cors) + ",\"extra\":" + (extra ? "[\"PROPFIND\"]" : "[]") + "}";
	int n = r.range(1, 8);
	std::vector<std::string> reqs;
	std::string hist = "[";
	for (int i = 0; i < n; i++)
	{
		static const char* M[] = { "GET", "POST", "OPTIONS", "PUT", "DELETE", "PATCH", "HEAD", "PROPFIND" };
		std::string m = M[r.below(8)];
		bool last = i == n - 1;
		std::string ver = r.chance(25) ? "1.0" : "1.1";
		std::string conn = ver == "1.0" ? (last && r.chance(50) ? "" : "keep-alive") : (last ? (r.chance(50) ? "close" : "") : (r.chance(50) ? "keep-alive" : ""));
		if (!last && r.chance(4)) conn = "close"; // (what follows cannot be sent: the block ends here)
		bool body = m == "POST" || m == "PUT" || m == "PATCH" || (m == "OPTIONS" && r.chance(20));
		bool expect = body && ver == "1.1" && r.chance(30); // (an HTTP/1.0 peer cannot ask: RFC 7231 5.1.1)
		static const int L[] = { 0, 1, 5, 700, 16000, 20000 };
		int clen = body ? L[r.below(6)] : 0;
		if (expect && r.chance(12) && !g_avoid.count("ExpectRefusedStillDispatched")) clen = 128000000 + r.below(3);
		int blen = clen >= 128000000 ? 0 : clen;
		static const int HC[] = { 200, 200, 201, 404, 405, 500 };
		int hcode = HC[r.below(6)];
		int hblen = m == "HEAD" ? 0 : (r.chance(50) ? r.below(40) : r.below(20000));
		std::string origin = r.chance(45) ? "http://site" + std::to_string(r.below(100)) + ".example" : "";
		std::string acrh = m == "OPTIONS" && r.chance(60) ? "X-Token, Content-Type" : "";
		std::string rq = "{" + ks("method", m) + "," + ks("ver", ver) + "," + ks("conn", conn) + "," + kv("cap", r.below(3)) + ",\"origin\":" + vj::codes(origin) +
		                 ",\"acrh\":" + vj::codes(acrh) + ",\"expect\":" + jb(expect) + "," + kv("clen", clen) + "," + kv("blen", blen) + "," + kv("hcode", hcode) + "," + kv("hblen", hblen) + "}";
		reqs.push_back(rq);
		hist += std::string(i ? "," : "") + "{\"req\":" + rq + "}";
		if (conn == "close" || (ver == "1.0" && conn != "keep-alive") || clen >= 128000000) break;
	}
	hist += "]";
	vj::Value c = vj::parse("{\"cfg\":" + cfg + ",\"hist\":" + hist + "}");
	RulesObs o = runRules(c, C10_SLOW_MS);
	if (!logit) return;
	std::vector<std::string> b;
	b.push_back("{\"e\":\"conn\",\"cfg\":" + cfg + "}");
	// (a connection abandoned as slow ends with the exchange that crossed the limit: the others were not played)
	size_t played = o.open == -2 && !o.xs.empty() ? o.xs.size() : reqs.size();
	for (size_t i = 0; i < played; i++)
	{
		RulesObs::X x;
		if (i < o.xs.size()) x = o.xs[i];
		const vj::Value& rq = c["hist"][i]["req"];
		std::string hs = "[";
		bool first = true;
		for (int k = 0; k < 6; k++)
		{
			std::map<std::string, std::string>::const_iterator it = x.h.find(lower(NAMES[k]));
			if (it == x.h.end()) continue;
			hs += std::string(first ? "" : ",") + headerJson(NAMES[k], it->second);
			first = false;
		}
		hs += "]";
		std::string interim = "[";
		for (size_t k = 0; k < x.interim.size(); k++) interim += (k ? "," : "") + std::to_string(x.interim[k]);
		interim += "]";
		b.push_back("{\"e\":\"xchg\"," + kv("ms", x.ms) + ",\"req\":" + reqs[i] + ",\"obs\":{\"interim\":" + interim + "," + kv("code", x.code) + "," + ks("proto", x.proto) + ",\"unclosed\":" + jb(x.unclosed) +
		            "," + kv("runs", x.handlerRuns) + "," + ks("hmethod", x.hmethod) + "," + kv("hblen", x.hblen) + ",\"hbh\":" + limbs64(x.hbh) +
		            ",\"reqbh\":" + limbs64(rulesReqBodyHash(rq["blen"].i(), (int)i + 1)) + "," + kv("blen", x.blen) + ",\"bh\":" + limbs64(x.bh) +
		            ",\"respbh\":" + limbs64(rulesRespBodyHash(rq["hblen"].i(), (int)i + 1)) + ",\"headers\":" + hs + "}}");
	}
	b.push_back("{\"e\":\"end\"," + kv("ms", o.endMs) + "," + kv("open", o.open) + "," + ks("note", o.note) + "}");
	logBlock(b);
}

// ---- (3) static files -----------------------------------------------------------------------------------------------
struct TreeFile { const char* dir; const char* name; const char* ext; int size; };
// (the tree of spec/HttpStatic.tla; the trace specification re-derives every answer from its own copy)
static const TreeFile TREE[] = {
	{ "", "index.html", "html", 120 }, { "", "a.txt", "txt", 10 }, { "", "style.css", "css", 33 }, { "", "app.js", "js", 40 }, { "", "data.json", "json", 20 },
	{ "", "pic.png", "png", 70000 }, { "", "photo.jpg", "jpg", 16000 }, { "", "photo2.jpeg", "jpeg", 16001 }, { "", "anim.gif", "gif", 1 }, { "", "zero.txt", "txt", 0 },
	{ "docs", "index.html", "html", 50 }, { "docs", "page.htm", "htm", 60 }, { "docs/sub", "deep.xml", "xml", 25 }, { "", "blob.bin", "bin", 300 }, { "", "README", "", 15 },
	{ "", "movie.mp4", "mp4", 15999 }, { "", "clip.webm", "webm", 5 }, { "", "v.ogv", "ogv", 6 } };
static const int NTREE = 18;
static std::string dirJson(const std::string& d)
{
	std::vector<std::string> v;
	size_t p = 0;
	while (p < d.size()) { size_t q = d.find('/', p); if (q == std::string::npos) q = d.size(); v.push_back(d.substr(p, q - p)); p = q + 1; }
	return strs(v);
}
static std::string filesJson()
{
	std::string s = "[";
	for (int i = 0; i < NTREE; i++)
		s += std::string(i ? "," : "") + "{\"dir\":" + dirJson(TREE[i].dir) + "," + ks("name", TREE[i].name) + "," + ks("ext", TREE[i].ext) + "," + kv("size", TREE[i].size) + "}";
	return s + "]";
}
static void recStatic(Rng& r, bool logit)
{
	static const char* DIRS[] = { "", "docs", "docs/sub", "empty" };
	static const char* ODD[] = { "missing.txt", "nodir", "index", "x", "index.html", "a.txt" };
	int nops = r.range(3, 14);
	long clock = STATIC_T0;
	std::vector<long> mtime((size_t)NTREE + 1, STATIC_T0);
	std::vector<int> ver((size_t)NTREE + 1, 0);
	std::vector<bool> present((size_t)NTREE + 1, true);
	std::string hist = "[";
	std::vector<std::string> ops; // log lines (gets get their obs later)
	std::vector<std::string> reqJson;
	for (int i = 0; i < nops; i++)
	{
		int k = r.below(100);
		std::string op;
		if (k < 18)
		{
			int f = r.range(1, NTREE), dt = r.chance(60) ? 1 : (r.chance(50) ? 2 : (r.chance(50) ? 5 : 60));
			clock += dt; ver[(size_t)f]++; mtime[(size_t)f] = clock; present[(size_t)f] = true;
			op = "{\"op\":\"write\"," + kv("f", f) + "," + kv("ver", ver[(size_t)f]) + "," + kv("size", TREE[f - 1].size + ver[(size_t)f]) + "," + kv("mtime", clock) + "}";
			ops.push_back("{\"e\":\"write\"," + kv("f", f) + "," + kv("dt", dt) + "}");
		}
		else if (k < 26)
		{
			int f = r.range(1, NTREE);
			if (!present[(size_t)f]) { i--; continue; }
			present[(size_t)f] = false;
			op = "{\"op\":\"delete\"," + kv("f", f) + "}";
			ops.push_back("{\"e\":\"delete\"," + kv("f", f) + "}");
		}
		else
		{
			std::string segs, method = r.chance(90) ? "GET" : (r.chance(50) ? "POST" : "DELETE");
			bool slash = false, follow = r.chance(40);
			int f = 0;
			int w = r.below(100);
			if (w < 55) { f = r.range(1, NTREE); std::string d = TREE[f - 1].dir; segs = d.empty() ? strs(std::vector<std::string>(1, TREE[f - 1].name)) : dirJson(d + "/" + TREE[f - 1].name); }
			else if (w < 80) { segs = dirJson(DIRS[r.below(4)]); slash = segs == "[]" || r.chance(50); }
			else { std::string d = DIRS[r.below(4)]; segs = dirJson((d.empty() ? "" : d + "/") + ODD[r.below(6)]); slash = r.chance(25); }
			long ims = -1;
			if (r.chance(45))
			{
				static const int D[] = { -100000, -10, -2, -1, 0, 1, 2, 10, 100000 };
				ims = (f ? mtime[(size_t)f] : clock) + D[r.below(9)];
				if (g_avoid.count("NotModifiedOneSecondSlack"))
					for (bool again = true; again;)
					{
						again = false;
						for (int x = 1; x <= NTREE; x++) if (mtime[(size_t)x] == ims + 1) { ims -= 1; again = true; }
					}
				if (r.chance(8)) ims = -2;
			}
			std::string range = "[]";
			if (ims == -1 && r.chance(20)) { int b0 = r.below(40); range = "[" + std::to_string(b0) + "," + std::to_string(r.chance(30) ? -1 : b0 + r.below(20000) - (r.chance(10) ? 5 : 0)) + "]"; }
			std::string cc = r.chance(15) ? "no-cache" : "";
			std::string rq = "{" + ks("method", method) + ",\"segs\":" + segs + ",\"slash\":" + jb(slash) + "," + kv("ims", ims) + ",\"range\":" + range + ",\"follow\":" + jb(follow) + "," + ks("cc", cc) + "}";
			op = "{\"op\":\"get\",\"req\":" + rq + "}";
			ops.push_back("");
			reqJson.push_back(rq);
		}
		hist += std::string(hist.size() > 1 ? "," : "") + op;
	}
	hist += "]";
	vj::Value c = vj::parse("{\"files\":" + filesJson() + ",\"mimes\":[{\"ext\":\"bin\",\"type\":\"application/octet-stream\"}],\"hist\":" + hist + "}");
	StaticObs o = runStatic(c);
	if (!logit) return;
	std::vector<std::string> b;
	b.push_back("{\"e\":\"tree\"}");
	size_t gi = 0;
	for (size_t i = 0; i < ops.size(); i++)
	{
		if (!ops[i].empty()) { b.push_back(ops[i]); continue; }
		StaticObs::G g;
		if (gi < o.gets.size()) g = o.gets[gi];
		// Location inside the tree -> segments + trailing slash
		std::vector<std::string> ls;
		bool lslash = false;
		if (g.hasLoc && g.locHere)
		{
			std::string p = g.locPath;
			lslash = !p.empty() && p[p.size() - 1] == '/';
			size_t q = 0;
			while (q < p.size()) { size_t e = p.find('/', q); if (e == std::string::npos) e = p.size(); if (e > q) ls.push_back(p.substr(q, e - q)); q = e + 1; }
		}
		int a = -1, z = -1, t = -1;
		if (sscanf(g.crange.c_str(), "bytes %d-%d/%d", &a, &z, &t) != 3) a = z = t = -1;
		b.push_back("{\"e\":\"get\"," + kv("ms", g.ms) + ",\"req\":" + reqJson[gi] + ",\"obs\":{" + kv("code", g.code) + "," + ks("ctype", g.ctype) + ",\"haslm\":" + jb(g.hasLM) + ",\"lmok\":" + jb(g.lmOk) + "," + kv("lm", g.lm) +
		            ",\"hasdate\":" + jb(g.hasDate) + ",\"dateok\":" + jb(g.dateOk) + ",\"hascc\":" + jb(g.hasCC && !g.cc.empty()) + "," + ks("cc", g.cc) + ",\"hasloc\":" + jb(g.hasLoc) +
		            ",\"lochere\":" + jb(g.locHere) + ",\"locsegs\":" + strs(ls) + ",\"locslash\":" + jb(lslash) + "," + kv("blen", g.blen) + "," + kv("bf", g.bf) + "," + kv("bver", g.bver) + "," +
		            kv("bfrom", g.bfrom) + ",\"cr\":[" + std::to_string(a) + "," + std::to_string(z) + "," + std::to_string(t) + "]}}");
		gi++;
	}
	logBlock(b);
}

// ---- (4) transfers --------------------------------------------------------------------------------------------------
static std::string randName(Rng& r)
{
	static const char* N[] = { "a.txt", "photo 1.jpg", "x", "data-2024_v1.tar.gz", "r\xc3\xa9sum\xc3\xa9.pdf", "it's (1).bin" };
	return N[r.below(6)];
}
static void recTransfer(Rng& r, bool logit)
{
	int k = r.below(100);
	std::vector<std::string> b;
	if (k < 35)
	{
		static const int S[] = { 0, 1, 2, 40, 300, 1000, 15999, 16000, 16001, 70000, 127900, 128000, 300000 };
		int fsize = r.chance(50) ? r.below(400) : S[r.below(13)], fvar = r.range(1, 12);
		std::string fname = randName(r), ctype = r.chance(35) ? (r.chance(50) ? "application/octet-stream" : "text/plain") : "";
		bool exists = r.chance(90);
		if (ctype.empty() && g_avoid.count("MultipartBoundaryTooLong")) ctype = "application/octet-stream";
		static const int HC[] = { 200, 200, 201, 204, 404, 500 };
		int hcode = HC[r.below(6)];
		std::string up = "{" + kv("fsize", fsize) + "," + kv("fvar", fvar) + ",\"fname\":" + vj::codes(fname) + ",\"ctype\":" + vj::codes(ctype) + ",\"exists\":" + jb(exists) + "," + kv("hcode", hcode) + "}";
		vj::Value c = vj::parse("{\"kind\":\"upload\",\"up\":" + up + "}");
		XferObs o = runTransfer(c);
		if (!logit) return;
		bool small = fsize <= 400;
		// projection of the body: head = up to the first blank line, tail = the last (boundary + 8) bytes, inner = the rest
		std::string head, tail, inner = o.v.body;
		size_t pre = strlen("multipart/form-data; boundary=");
		if (ctype.empty() && o.v.ctype.size() > pre)
		{
			size_t bl = o.v.ctype.size() - pre, he = o.v.body.find("\r\n\r\n");
			if (he != std::string::npos && o.v.body.size() >= he + 4 + bl + 8)
			{
				head = o.v.body.substr(0, he + 4);
				tail = o.v.body.substr(o.v.body.size() - (bl + 8));
				inner = o.v.body.substr(he + 4, o.v.body.size() - (he + 4) - (bl + 8));
			}
		}
		b.push_back("{\"e\":\"upload\"," + kv("ms", o.ms) + ",\"fname\":" + vj::codes(fname) + ",\"ctype\":" + vj::codes(ctype) + ",\"exists\":" + jb(exists) + "," + kv("hcode", hcode) + "," + kv("fsize", fsize) +
		            ",\"small\":" + jb(small) + ",\"file\":" + vj::codes(small ? o.sent : std::string()) + ",\"obs\":{\"ret\":" + jb(o.ret) + "," + kv("calls", o.calls) + "," + ks("method", o.v.method) +
		            ",\"ctype\":" + vj::codes(o.v.ctype) + "," + kv("clen", o.v.clen.empty() ? -1 : atol(o.v.clen.c_str())) + "," + kv("blen", (long)o.v.body.size()) + ",\"body\":" + vj::codes(small ? o.v.body : std::string()) +
		            ",\"head\":" + vj::codes(head) + ",\"tail\":" + vj::codes(tail) + ",\"innereq\":" + jb(inner == o.sent) + "}}");
	}
	else if (k < 60)
	{
		static const int S[] = { 0, 1, 100, 15999, 16000, 16001, 70000, 300000 };
		static const int C[] = { 200, 200, 200, 201, 404, 500 };
		bool file = r.chance(30);
		int blen = file ? (r.chance(50) ? 10 : 70000) : (r.chance(40) ? r.below(3000) : S[r.below(8)]), code = C[r.below(6)];
		long seed = r.below(100000);
		std::string d = std::string("{\"kind\":") + (file ? "\"file\"" : "\"bytes\"") + "," + kv("blen", blen) + "," + kv("bseed", seed) + "," + kv("code", code) + ",\"headers\":[]}";
		vj::Value c = vj::parse("{\"kind\":\"download\",\"down\":" + d + "}");
		XferObs o = runTransfer(c);
		if (!logit) return;
		std::string want;
		if (file) { want.resize((size_t)blen); for (int i = 0; i < blen; i++) want[(size_t)i] = (char)fileByte(blen, i, 5); }
		else { ByteArray a = makeBody(blen, seed); want.assign((const char*)a.data(), (size_t)a.length()); }
		b.push_back("{\"e\":\"download\"," + kv("ms", o.ms) + "," + kv("code", code) + "," + kv("blen", blen) + ",\"obs\":{\"ret\":" + jb(o.ret) + "," + kv("calls", o.calls) + "," + ks("method", o.v.method) + ",\"fexists\":" + jb(o.fileExists) +
		            "," + kv("flen", (long)o.fileContent.size()) + ",\"feq\":" + jb(o.fileContent == want) + ",\"pmono\":" + jb(o.progressMono) + "," + kv("plast", o.progressLast) + "}}");
	}
	else if (k < 75)
	{
		static const char* A[] = { "a", "b", "z", "0", "9", " ", "&", "=", "%", "+", "/", "?", "#", "\xc3\xa9", "-", "_", "." };
		int n = r.range(1, 3);
		std::string pairs = "[";
		for (int i = 0; i < n; i++)
		{
			std::string key = "k" + std::to_string(i), val;
			for (int j = r.below(3); j > 0; j--) key += A[r.below(17)];
			for (int j = r.below(6); j > 0; j--) val += A[r.below(17)];
			pairs += std::string(i ? "," : "") + "[" + vj::codes(key) + "," + vj::codes(val) + "]";
		}
		pairs += "]";
		vj::Value c = vj::parse("{\"kind\":\"body\",\"body\":{\"kind\":\"form\",\"json\":0,\"pairs\":" + pairs + "}}");
		XferObs o = runTransfer(c);
		if (!logit) return;
		b.push_back("{\"e\":\"form\"," + kv("ms", o.ms) + ",\"pairs\":" + pairs + ",\"obs\":{" + kv("calls", o.calls) + ",\"ctype\":" + vj::codes(o.v.ctype) + ",\"body\":" + vj::codes(o.v.body) + "}}");
	}
	else
	{
		static const char* SEG[] = { "api", "clients", "17", "a b", "c", "clientsX", "r\xc3\xa9", "other", "v1", "" };
		static const char* PAT[] = { "/api/clients/*", "/api/*", "/*", "*", "/api/clients", "/api/clients/", "/api/clients/17", "/", "/other*", "/api/v1/*", "/api/clients/a b/*", "/a*" };
		int ns = r.below(5);
		std::vector<std::string> segs;
		for (int i = 0; i < ns; i++) { std::string s = SEG[r.below(i == ns - 1 ? 10 : 9)]; segs.push_back(i < 2 && r.chance(60) ? std::string(i == 0 ? "api" : "clients") : s); }
		std::string sj = "[", target;
		for (size_t i = 0; i < segs.size(); i++) { sj += (i ? "," : "") + vj::codes(segs[i]); target += "/" + stdstr(Url::encode(String(segs[i].c_str()), true)); }
		sj += "]";
		if (target.empty()) target = "/";
		std::string method = r.chance(50) ? "GET" : "POST";
		int nc = r.range(1, 8);
		std::string calls = "[";
		for (int i = 0; i < nc; i++)
			calls += std::string(i ? "," : "") + "{" + ks("meth", r.chance(50) ? "" : (r.chance(50) ? "GET" : "POST")) + ",\"pat\":" + vj::codes(PAT[r.below(12)]) + "}";
		calls += "]";
		vj::Value c = vj::parse("{\"kind\":\"route\",\"route\":{" + ks("method", method) + ",\"calls\":" + calls + "},\"target\":" + vj::codes(target) + "}");
		XferObs o = runTransfer(c);
		if (!logit) return;
		std::string res = "[";
		for (size_t i = 0; i < o.v.route.size(); i++) res += std::string(i ? "," : "") + "{\"ok\":" + jb(o.v.route[i].first) + ",\"suffix\":" + vj::codes(o.v.route[i].second) + "}";
		res += "]";
		b.push_back("{\"e\":\"route\"," + kv("ms", o.ms) + "," + ks("method", method) + ",\"segs\":" + sj + ",\"calls\":" + calls + ",\"obs\":{" + kv("calls", o.calls) + ",\"results\":" + res + "}}");
	}
	logBlock(b);
}

static void runKind(int kind, Rng& r, bool logit)
{
	if (kind == 1) recRedirect(r, logit);
	else if (kind == 2) recRules(r, logit);
	else if (kind == 3) recStatic(r, logit);
	else recTransfer(r, logit);
}

struct Job { uint64_t seed; int mode; bool noise; long target; };
static void* worker(void* p)
{
	Job& j = *(Job*)p;
	Rng r(j.seed);
	while (g_lines < j.target)
	{
		if (!j.noise) runKind(j.mode, r, true);
		else runKind(r.range(1, 4), r, false); // (any kind, unlogged: load on the same servers)
	}
	return 0;
}

int main(int argc, char** argv)
{
	Args args(argc, argv);
	Rng rng(args.seed);
	signal(SIGPIPE, SIG_IGN);
	g_stallOn = true;
	Log log(args.out);
	g_log = &log;
	g_avoid = args.avoid;
	ensureSite((unsigned)args.seed);
	int mode = args.mode >= 1 && args.mode <= 4 ? args.mode : 1;
	{ Rng r0(args.seed ^ 99); recStatic(r0, false); }  // (registers the added mime type before anything runs concurrently)
	if (mode == 4) logBlock(std::vector<std::string>(1, "{\"e\":\"reset\"}"));
	int nthreads = rng.range(2, 8);
	std::vector<Job> jobs((size_t)nthreads + 2);
	std::vector<pthread_t> th(jobs.size());
	for (size_t i = 0; i < jobs.size(); i++)
	{
		Job j = { rng.next(), mode, i >= (size_t)nthreads, args.events };
		jobs[i] = j;
	}
	for (size_t i = 0; i < jobs.size(); i++) pthread_create(&th[i], 0, worker, &jobs[i]);
	for (size_t i = 0; i < jobs.size(); i++) pthread_join(th[i], 0);
	g_log = 0;
	stopServers();
	return 0;
}
