// C04 recorder (V): seeded random driver of asl::Var that logs one ndjson event per public call; spec/Trace_VarHeap.tla
// validates the log against the VarHeap actions and operators.  Trees reach depth 5, arrays and objects grow past the
// 3/6/12 capacity steps, containers are shared between roots and inside other containers, every scalar kind is assigned
// over every other (type-changing assignment while shared), own descendants are assigned to their ancestors.
// Growth: typed containers (Var(Array<T>), var = Dic<T>, ...), the other C++ number types, "facts" events with the wide
// observation (conversions to Array<T>/Dic<T>, keyed queries, const operator[], | default, isArrayOf, == with literals), and
// enumerations driven step by step through Var::Enumerator (all(), operator bool, *, ~, ++) with other calls in between:
// while an enumeration is open the driver leaves the Var slots on the enumerated path and the item sets of the containers
// on it alone (element values are assigned freely, also through other Vars that share the container).
// The driver follows the documented API: in-range arguments, extend() with an object argument, no call that would make
// a container contain itself, and no call that triggers an open finding listed in --avoid.
#include "c04_common.h"
#include "vrec.h"
#include <set>
#include <map>

using namespace vrec;

static const int NR = 4;
static const int NKEYS = 8;
static const int MAXDEPTH = 5;
static const int MAXITEMS = 14;
static const int MAXNODES = 60;

static const int NSTRS = 9;
static const char* STRS[] = { "", "abcdefg", "abcdefgh", "12", "1.5xyzuvw", "1.5", "abc", " 7", "-2.5" };
static const char* KEYS[] = { "a", "b", "c234567890123456789", "d", "e", "f", "g", "h" };
static const SVal SCALARS[] = {
	{ "none", 0 }, { "nul", 0 }, { "bool", 1 }, { "bool", 0 }, { "int", 1 }, { "int", 2 }, { "num", 2 }, { "num", 3 }, { "flt", 3 },
	{ "str", 1 }, { "str", 2 }, { "str", 3 }, { "str", 4 }, { "int", 0 }, { "num", -1 }, { "str", 5 }, { "int", -7 }, { "flt", 4 },
	{ "str", 6 }, { "str", 7 }, { "str", 8 }, { "str", 9 }, { "num", 0 }, { "num", -5 }
};
static const int NSCALARS = 24;
// the element values of typed containers (VarApi.TypedVals) and the literal probes (VarApi.LitProbe, 1-based ScalarTab indexes)
static const char* TNAMES[] = { "int", "num", "flt", "bool", "str" };
static const int TYPEDVALS[5][3] = { { 1, -7, 0 }, { 3, -1, 4 }, { 3, 4, -5 }, { 1, 0, 1 }, { 4, 3, 1 } };
static const int LITPROBE[] = { 3, 4, 5, 14, 17, 7, 8, 23, 24, 9, 18, 10, 11, 12, 13, 19, 22, 2, 1 };
static const int NLITS = 19;
static const char* CTYPES[] = { "char", "unsigned", "long", "ulong", "Long", "ULong" };

static std::string pathJson(const Path& p)
{
	std::string s = "[";
	for (size_t i = 0; i < p.size(); i++) s += (i ? "," : "") + std::to_string(p[i]);
	return s + "]";
}
static std::string svalJson(const SVal& x) { return "{\"t\":\"" + x.t + "\"," + kv("v", x.v) + "}"; }

struct Driver
{
	VarWorld w;
	Rng& rng;
	Log& log;
	bool avoidGrow;
	bool avoidExtNon, avoidStrKind; // further open findings the driver can be told to avoid
	// the enumeration in progress
	Var::Enumerator* en;
	Path enPath;
	std::set<const Var*> pathSlots;    // the Var slots from the root down to the enumerated Var
	std::set<const void*> pathNodes;   // the storage of the containers on that path (the enumerated one included)
	const void* enNode;
	Driver(Rng& r, Log& l, bool ag, bool ae = false, bool as = false) : w(NR), rng(r), log(l), avoidGrow(ag), avoidExtNon(ae), avoidStrKind(as), en(0), enNode(0)
	{
		for (int i = 0; i < NSTRS; i++) w.tb.strs.push_back(STRS[i]);
		for (int i = 0; i < NKEYS; i++) w.tb.keys.push_back(KEYS[i]);
	}

	~Driver() { delete en; }

	// ---- enumeration ---------------------------------------------------------------------------------------
	void enumBegin(const Path& p)
	{
		const Var& v = *w.cslot(p);
		enPath = p;
		pathSlots.clear();
		pathNodes.clear();
		for (size_t n = 1; n <= p.size(); n++)
		{
			Path pre(p.begin(), p.begin() + (long)n);
			const Var* sv = w.cslot(pre);
			pathSlots.insert(sv);
			int rc, cap, len;
			const void* ptr;
			storageOf(*sv, rc, cap, len, ptr);
			pathNodes.insert(ptr);
			enNode = ptr;
		}
		en = new Var::Enumerator(v.all());
		log.line("{\"op\":\"enumBegin\",\"p\":" + pathJson(p) + "}");
	}
	void enumNext()
	{
		Var& x = **en;
		int k = w.cslot(enPath)->type() == Var::OBJ ? w.tb.keyId(~*en) : 0;
		String s = x.toString();
		std::string e = "{\"op\":\"enumNext\"," + kv("k", k) + "," + kv("ty", (int)x.type()) + ",\"s\":" + vj::codes(std::string(*s, (size_t)s.length())) + ",\"set\":";
		if (rng.chance(45))
		{
			SVal sv = SCALARS[rng.below(NSCALARS)];
			w.assignScalar(x, sv, rng.below(6));
			e += svalJson(sv);
		}
		else e += "{\"t\":\"keep\",\"v\":0}";
		++*en;
		log.line(e + "}");
	}
	void enumEnd()
	{
		log.line(std::string("{\"op\":\"enumEnd\",") + kv("more", (bool)*en ? 1 : 0) + "}");
		delete en;
		en = 0;
		pathSlots.clear();
		pathNodes.clear();
		enNode = 0;
	}

	// ---- projection of the real values ------------------------------------------------------------------
	SVal scalarOf(const Var& v) const
	{
		SVal x;
		x.v = 0;
		switch (v.type())
		{
		case Var::NONE: x.t = "none"; break;
		case Var::NUL: x.t = "nul"; break;
		case Var::BOOL: x.t = "bool"; x.v = (bool)v ? 1 : 0; break;
		case Var::INT: x.t = "int"; x.v = (int)v; break;
		case Var::NUMBER: x.t = "num"; x.v = (int)((double)v * 2); break;
		case Var::FLOAT: x.t = "flt"; x.v = (int)((double)v * 2); break;
		case Var::STRING: x.t = "str"; x.v = w.tb.strId(*v); break;
		default: x.t = "?"; break;
		}
		return x;
	}
	std::string tree(const Var& v) const
	{
		if (v.type() == Var::ARRAY || v.type() == Var::OBJ)
		{
			int rc, cap, len;
			const void* ptr;
			storageOf(v, rc, cap, len, ptr);
			std::string s = std::string("{\"t\":\"") + (v.type() == Var::ARRAY ? "arr" : "obj") + "\",\"v\":0," + kv("rc", rc) + ",\"items\":[";
			if (v.type() == Var::ARRAY)
				for (int i = 0; i < len; i++) s += std::string(i ? "," : "") + "{\"key\":0,\"val\":" + tree(v[i]) + "}";
			else
			{
				Dic<Var> o = v.object();
				int i = 0;
				for (Dic<Var>::Enumerator e = o.all(); e; ++e, ++i)
					s += std::string(i ? "," : "") + "{" + kv("key", w.tb.keyId(~e)) + ",\"val\":" + tree(*e) + "}";
			}
			return s + "]}";
		}
		SVal x = scalarOf(v);
		return "{\"t\":\"" + x.t + "\"," + kv("v", x.v) + ",\"rc\":0,\"items\":[]}";
	}
	void slots(const Var& v, Path& cur, std::vector<Path>& out) const
	{
		out.push_back(cur);
		if ((int)cur.size() > MAXDEPTH) return;
		if (v.type() == Var::ARRAY)
			for (int i = 0; i < v.length(); i++) { cur.push_back(i); slots(v[i], cur, out); cur.pop_back(); }
		else if (v.type() == Var::OBJ)
		{
			Dic<Var> o = v.object();
			for (Dic<Var>::Enumerator e = o.all(); e; ++e) { cur.push_back(-w.tb.keyId(~e)); slots(*e, cur, out); cur.pop_back(); }
		}
	}
	std::vector<Path> allSlots() const
	{
		std::vector<Path> out;
		for (int r = 1; r <= NR; r++) { Path p(1, r); slots(w.roots[(size_t)r], p, out); }
		return out;
	}
	void reach(const Var& v, std::set<const void*>& out) const
	{
		int rc, cap, len;
		const void* ptr;
		storageOf(v, rc, cap, len, ptr);
		if (!ptr) return;
		out.insert(ptr);
		if (v.type() == Var::ARRAY)
			for (int i = 0; i < len; i++) reach(v[i], out);
		else
		{
			Dic<Var> o = v.object();
			for (Dic<Var>::Enumerator e = o.all(); e; ++e) reach(*e, out);
		}
	}
	int countNodes(const Var& v) const
	{
		int n = 0;
		if (v.type() == Var::ARRAY) { n = 1; for (int i = 0; i < v.length(); i++) n += countNodes(v[i]); }
		else if (v.type() == Var::OBJ) { n = 1; Dic<Var> o = v.object(); for (Dic<Var>::Enumerator e = o.all(); e; ++e) n += countNodes(*e); }
		return n;
	}
	int liveNodes() const
	{
		std::set<const void*> s;
		for (int r = 1; r <= NR; r++) reach(w.roots[(size_t)r], s);
		return (int)s.size();
	}
	const void* holderPtr(const Path& p) const
	{
		if (p.size() == 1) return 0;
		Path par(p.begin(), p.end() - 1);
		int rc, cap, len;
		const void* ptr;
		storageOf(*w.cslot(par), rc, cap, len, ptr);
		return ptr;
	}
	// storing src at p (or inside the container at p when `into`) would make a container contain itself
	bool wouldCycle(const Path& p, const Var& src, bool into) const
	{
		std::set<const void*> r;
		reach(src, r);
		if (r.empty()) return false;
		const void* h;
		if (into) { int rc, cap, len; storageOf(*w.cslot(p), rc, cap, len, h); if (!h) h = holderPtr(p); }
		else h = holderPtr(p);
		return h && r.count(h);
	}
	std::string post(const Path& p) const
	{
		const Var& v = *w.cslot(p);
		return "," + kv("ty", (int)v.type()) + "," + kv("len", v.length()) + "}";
	}
	std::string facts(const Var& v) const
	{
		static const int codes[] = { 0, 1, 2, 3, 4, 5, 6, 8, 9, 10 };
		std::string isn = "[";
		bool first = true;
		for (size_t c = 0; c < sizeof codes / sizeof codes[0]; c++)
			if (v.is((Var::Type)codes[c])) { isn += (first ? "" : ",") + std::to_string(codes[c]); first = false; }
		isn += "]";
		double d = (double)v;
		long long d2 = std::isnan(d) ? 99999 : (long long)(d * 2);
		String s = v.toString();
		String s2 = v;
		if (!(s == s2)) s = "<toString and (String) differ>";
		// contains() for the probe values of the specification (ScalarTab entries 3, 5, 8, 9, 11, 12, 2)
		static const int probe[] = { 2, 4, 7, 8, 10, 11, 1 };
		std::string cont = "[";
		for (size_t q = 0; q < sizeof probe / sizeof probe[0]; q++) cont += std::string(q ? "," : "") + (v.contains(w.make(SCALARS[probe[q]])) ? "1" : "0");
		cont += "]";
		return "{" + kv("ty", (int)v.type()) + ",\"cont\":" + cont + ",\"isn\":" + isn + "," + kv("len", v.length()) + "," + kv("i", (int)v) + "," + kv("d2", d2) + "," +
		       kv("b", (bool)v ? 1 : 0) + ",\"s\":" + vj::codes(std::string(*s, (size_t)s.length())) + "}";
	}
	std::string brief(const Var& r) const
	{
		String s = r.toString();
		return "{" + kv("ty", (int)r.type()) + "," + kv("len", r.length()) + ",\"s\":" + vj::codes(std::string(*s, (size_t)s.length())) + "}";
	}
	static std::string h2(double d) { return std::to_string(std::isnan(d) ? 99999LL : (long long)(d * 2)); }
	template <class A> static std::string listI(const A& a) { std::string s = "["; for (int i = 0; i < a.length(); i++) s += (i ? "," : "") + std::to_string((int)a[i]); return s + "]"; }
	template <class A> static std::string listD(const A& a) { std::string s = "["; for (int i = 0; i < a.length(); i++) s += (i ? "," : "") + h2((double)a[i]); return s + "]"; }
	static std::string listS(const Array<String>& a) { std::string s = "["; for (int i = 0; i < a.length(); i++) s += (i ? "," : "") + vj::codes(std::string(*a[i], (size_t)a[i].length())); return s + "]"; }
	template <class T> static Array<T> vals(const Dic<T>& d) { Array<T> r; foreach2(String& k, T& x, d) { (void)k; r << x; } return r; }
	// both ways of converting must agree; a disagreement is logged as a list no specification value can equal
	template <class A> static std::string both(const A& a, const A& b, const std::string& text) { return a == b ? text : std::string("[\"operator Array<T>() and Array<T>::operator=(const Var&) differ\"]"); }
	std::string facts2(const Var& v) const
	{
		static const int codes[] = { 0, 1, 2, 3, 4, 5, 6, 8, 9, 10 };
		std::string g = "{";
		{
			// (the targets of the assignments hold something already: converting must replace it)
			Array<int> a = v, a2; a2 << 77; a2 = v;
			Array<double> d = v, d2; d2 << 0.25; d2 = v;
			Array<float> f = v;
			Array<bool> b = v, b2; b2 << true; b2 = v;
			Array<String> s = v.operator Array<String>(), s2; s2 << "x"; s2 = v;
			bool fsame = f.length() == d.length();
			for (int i = 0; fsame && i < f.length(); i++) if (!(f[i] == (float)d[i]) && !(std::isnan(f[i]) && std::isnan(d[i]))) fsame = false;
			bool dsame = d.length() == d2.length();
			for (int i = 0; dsame && i < d.length(); i++) if (!(d[i] == d2[i]) && !(std::isnan(d[i]) && std::isnan(d2[i]))) dsame = false;
			g += "\"ai\":" + both(a, a2, listI(a)) + ",\"ad\":" + (fsame && dsame ? listD(d) : std::string("[\"float/double conversions differ\"]")) + ",\"ab\":" + both(b, b2, listI(b)) + ",\"as\":" + both(s, s2, listS(s));
			Dic<int> oi = v; Dic<double> od = v; Dic<bool> ob = v; Dic<String> os = v.operator Dic<String>();
			bool keys = v.type() != Var::OBJ || (oi.keys() == v.object().keys() && od.keys() == oi.keys() && ob.keys() == oi.keys() && os.keys() == oi.keys());
			g += ",\"oi\":" + (keys ? listI(vals(oi)) : std::string("[\"keys differ\"]")) + ",\"od\":" + listD(vals(od)) + ",\"ob\":" + listI(vals(ob)) + ",\"os\":" + listS(vals(os));
		}
		std::string has = "[", call = "[", rd = "[";
		for (int k = 0; k < NKEYS; k++)
		{
			String key(KEYS[k]);
			std::string ts = "[";
			bool first = true;
			for (size_t c = 0; c < sizeof codes / sizeof codes[0]; c++)
				if (v.has(key, (Var::Type)codes[c])) { ts += (first ? "" : ",") + std::to_string(codes[c]); first = false; }
			ts += "]";
			const Var* pp = v.getp(key);
			const Var& cr = v[key];
			Var called = v(key);
			std::string bc = brief(called);
			// has(k), getp(k), const [] and operator() must tell the same story
			if (v.has(key) != (pp != 0) || (first && v.has(key)) || (pp && pp != &cr) || brief(cr) != bc || brief(v[KEYS[k]]) != bc) ts = "[\"keyed queries disagree\"]";
			has += (k ? "," : "") + ts;
			call += (k ? "," : "") + bc;
			int y = 9;
			v.read(key, y);
			rd += (k ? "," : "") + std::to_string(y);
		}
		g += ",\"has\":" + has + "],\"call\":" + call + "],\"rd\":" + rd + "]";
		g += ",\"call2\":[" + brief(v(KEYS[0])(KEYS[0])) + "," + brief(v(KEYS[0])(KEYS[1])) + "," + brief(v(KEYS[1])(KEYS[0])) + "," + brief(v(KEYS[1])(KEYS[1])) + "]";
		g += ",\"cidx\":[";
		for (int i = 0; i < 3; i++)
			g += std::string(i ? "," : "") + (v.type() == Var::ARRAY && i >= v.length() ? std::string("{\"ty\":-1,\"len\":0,\"s\":[]}") : brief(v[i]));
		g += "],\"ord\":[" + brief(v | 35) + "," + brief(v | String(STRS[2])) + "],\"arrof\":[";
		{
			bool first = true;
			for (size_t c = 0; c < sizeof codes / sizeof codes[0]; c++)
			{
				bool r = v.isArrayOf((Var::Type)codes[c]);
				if (v.isArrayOf(v.length(), (Var::Type)codes[c]) != r || v.isArrayOf(v.length() + 1, (Var::Type)codes[c])) { g += (first ? "" : ","); g += "\"isArrayOf(n, t) differs\""; first = false; }
				if (r) { g += (first ? "" : ",") + std::to_string(codes[c]); first = false; }
			}
		}
		g += "],\"eql\":[";
		for (int j = 0; j < NLITS; j++)
		{
			const SVal& x = SCALARS[LITPROBE[j] - 1];
			Var lit = w.make(x);
			bool r0 = v == lit;
			bool same = (lit == v) == r0 && (v != lit) != r0;
			if (x.t == "bool") same = same && (v == (x.v != 0)) == r0 && (v != (x.v != 0)) != r0;
			else if (x.t == "int") same = same && (v == x.v) == r0 && (v != x.v) != r0;
			else if (x.t == "num") same = same && (v == x.v / 2.0) == r0 && (v != x.v / 2.0) != r0;
			else if (x.t == "flt") same = same && (v == (float)(x.v / 2.0)) == r0;
			else if (x.t == "str") same = same && (v == STRS[x.v - 1]) == r0 && (v == String(STRS[x.v - 1])) == r0 && (v != STRS[x.v - 1]) != r0;
			g += std::string(j ? "," : "") + (same ? (r0 ? "1" : "0") : "2");
		}
		return g + "]}";
	}
	void check()
	{
		std::string s = "{\"op\":\"check\",\"roots\":[";
		for (int r = 1; r <= NR; r++) s += (r > 1 ? "," : "") + tree(w.roots[(size_t)r]);
		log.line(s + "]}");
	}

	// ---- one random call ----------------------------------------------------------------------------------
	bool step()
	{
		std::vector<Path> sl = allSlots();
		if (en)
		{
			int r2 = rng.below(100);
			bool more = (bool)*en;
			if (r2 < 38 && more) { enumNext(); return true; }
			if (r2 < 44 || (!more && r2 < 75)) { enumEnd(); return true; }
		}
		else if (rng.chance(5))
		{
			std::vector<Path> cs;
			for (size_t i = 0; i < sl.size(); i++)
			{
				const Var& c = *w.cslot(sl[i]);
				if ((c.type() == Var::ARRAY || c.type() == Var::OBJ) && (c.length() >= 2 || rng.chance(20))) cs.push_back(sl[i]);
			}
			if (cs.empty()) return false;
			enumBegin(cs[(size_t)rng.below((int)cs.size())]);
			return true;
		}
		Path p = sl[(size_t)rng.below((int)sl.size())];
		if (en && rng.chance(45))
		{
			// the items of the enumerated container, through any Var that leads to it
			std::vector<Path> its;
			for (size_t i = 0; i < sl.size(); i++) if (sl[i].size() > 1 && holderPtr(sl[i]) == enNode) its.push_back(sl[i]);
			if (!its.empty()) p = its[(size_t)rng.below((int)its.size())];
		}
		else
		if (rng.chance(15)) p = Path(1, rng.range(1, NR)); // roots a little more often
		else if (rng.chance(40)) { size_t best = (size_t)rng.below((int)sl.size()); for (int t = 0; t < 3; t++) { size_t c = (size_t)rng.below((int)sl.size()); if (sl[c].size() > sl[best].size()) best = c; } p = sl[best]; } // and deep slots
		Var& d = *w.slot(p);
		int rc, cap, len;
		const void* ptr;
		storageOf(d, rc, cap, len, ptr);
		Var::Type ty = d.type();
		int live = liveNodes();
		int r = rng.below(100);
		std::string e;
		int alt = rng.below(16);
		// big trees are not thrown away too often
		if (r < 30 && (ty == Var::ARRAY || ty == Var::OBJ) && countNodes(d) + len >= 3 && rng.chance(75)) r = 30 + rng.below(58);
		// while an enumeration is open: no assignment to a Var on the enumerated path, no call that could add or remove
		// items of a container on it
		if (en && r < 38 && pathSlots.count(&d)) return false;
		if (en && r >= 38 && r < 88 && ptr && pathNodes.count(ptr)) return false;
		if (r < 14) // typed assignment
		{
			SVal x = SCALARS[rng.below(NSCALARS)];
			w.assignScalar(d, x, alt);
			e = "{\"op\":\"assignScalar\",\"p\":" + pathJson(p) + ",\"val\":" + svalJson(x) + post(p);
		}
		else if (r < 30) // Var = Var
		{
			Path q = sl[(size_t)rng.below((int)sl.size())];
			const Var& s = *w.cslot(q);
			if (wouldCycle(p, s, false)) return false;
			d = s;
			e = "{\"op\":\"assignFrom\",\"p\":" + pathJson(p) + ",\"q\":" + pathJson(q) + post(p);
		}
		else if (r < 38) // construction from containers
		{
			if (live >= MAXNODES) return false;
			int which = rng.below(100);
			if (which < 55)
			{
				int shape = rng.below(4);
				w.assignNew(d, shape, alt);
				e = "{\"op\":\"assignNew\",\"p\":" + pathJson(p) + "," + kv("shape", shape) + post(p);
			}
			else if (which < 85) // Var(Array<T>), Var(Dic<T>), var = Array<T>, var = Dic<T>
			{
				int t = rng.below(5), n = rng.below(4);
				bool arr = rng.chance(50);
				std::vector<int> vals(TYPEDVALS[t], TYPEDVALS[t] + 3);
				w.assignTyped(d, arr ? "arr" : "obj", TNAMES[t], n, vals, alt);
				e = "{\"op\":\"assignTyped\",\"p\":" + pathJson(p) + "," + ks("kind", arr ? "arr" : "obj") + "," + ks("T", TNAMES[t]) + "," + kv("n", n) + post(p);
			}
			else if (which < 92) // Var(Var::Type), var = Var::Type
			{
				static const int kc[] = { 0, 1, 5, 8, 9, 10 };
				int c = kc[rng.below(6)];
				if (c == 8 && avoidStrKind) c = 5;
				w.assignKind(d, c, alt);
				e = "{\"op\":\"assignKind\",\"p\":" + pathJson(p) + "," + kv("c", c) + post(p);
			}
			else // char, unsigned, long, unsigned long, Long, ULong
			{
				int ct = rng.below(6);
				static const int cv[] = { 1, 65, -7 };
				int n = cv[rng.below(ct == 1 || ct == 3 || ct == 5 ? 2 : 3)];
				w.assignC(d, CTYPES[ct], n, alt);
				e = "{\"op\":\"assignC\",\"p\":" + pathJson(p) + "," + ks("ct", CTYPES[ct]) + "," + kv("n", n) + post(p);
			}
		}
		else if (r < 46) // operator[](int)
		{
			if ((int)p.size() > MAXDEPTH && ty == Var::NONE) return false;
			if (ty != Var::NONE && ty != Var::ARRAY) return false;
			if (ty == Var::NONE && live >= MAXNODES) return false;
			int i = rng.chance(60) ? rng.below(len + 1) : rng.below(len + 3);
			if (i >= MAXITEMS) return false;
			if (avoidGrow && ty == Var::ARRAY && rc > 1 && i + 1 > cap) return false;
			(void)d[i];
			e = "{\"op\":\"indexInt\",\"p\":" + pathJson(p) + "," + kv("i", i) + post(p);
		}
		else if (r < 54) // operator[](key)
		{
			if (ty != Var::NONE && ty != Var::OBJ) return false;
			if (ty == Var::NONE && live >= MAXNODES) return false;
			int k = rng.range(1, NKEYS);
			bool isnew = ty == Var::NONE || !d.has(KEYS[k - 1]);
			if (isnew && len >= MAXITEMS) return false;
			if (avoidGrow && ty == Var::OBJ && rc > 1 && isnew && len + 1 > cap) return false;
			if (alt & 1) (void)d[KEYS[k - 1]]; else (void)d[String(KEYS[k - 1])];
			e = "{\"op\":\"indexKey\",\"p\":" + pathJson(p) + "," + kv("k", k) + post(p);
		}
		else if (r < 66) // <<
		{
			if (ty == Var::ARRAY && len >= MAXITEMS) return false;
			if (ty == Var::NONE && live >= MAXNODES) return false;
			if (avoidGrow && ty == Var::ARRAY && rc > 1 && len + 1 > cap) return false;
			if (rng.chance(55))
			{
				SVal x = SCALARS[rng.below(NSCALARS)];
				if (x.t == "int" && (alt & 1)) d << x.v; else d << w.make(x);
				e = "{\"op\":\"appendScalar\",\"p\":" + pathJson(p) + ",\"val\":" + svalJson(x) + post(p);
			}
			else
			{
				Path q = sl[(size_t)rng.below((int)sl.size())];
				const Var& s = *w.cslot(q);
				if (&s == &d) return false;
				if ((ty == Var::ARRAY || ty == Var::NONE) && wouldCycle(p, s, ty == Var::ARRAY)) return false;
				d << s;
				e = "{\"op\":\"appendFrom\",\"p\":" + pathJson(p) + ",\"q\":" + pathJson(q) + post(p);
			}
		}
		else if (r < 71) // resize
		{
			if (ty != Var::NONE && ty != Var::ARRAY) return false;
			if (ty == Var::NONE && live >= MAXNODES) return false;
			int n = rng.chance(50) ? rng.below(len + 1) : rng.below(len + 4);
			if (n > MAXITEMS) return false;
			if (avoidGrow && ty == Var::ARRAY && rc > 1 && n > cap) return false;
			d.resize(n);
			e = "{\"op\":\"resize\",\"p\":" + pathJson(p) + "," + kv("n", n) + post(p);
		}
		else if (r < 73)
		{
			if (ty != Var::ARRAY && ty != Var::OBJ) return false;
			d.clear();
			e = "{\"op\":\"clear\",\"p\":" + pathJson(p) + post(p);
		}
		else if (r < 78)
		{
			if (ty != Var::ARRAY) return false;
			int i = rng.below(len + 2);
			if (i > MAXITEMS) return false;
			int n = 1;
			if (rng.chance(30) && i + 2 <= len) n = rng.range(2, len - i); // a range inside the array
			if (n == 1 && (alt & 1)) d.removeAt(i); else d.removeAt(i, n);
			e = "{\"op\":\"removeAt\",\"p\":" + pathJson(p) + "," + kv("i", i) + "," + kv("n", n) + post(p);
		}
		else if (r < 82)
		{
			if (ty != Var::OBJ) return false;
			int k = rng.range(1, NKEYS);
			d.remove(KEYS[k - 1]);
			e = "{\"op\":\"removeKey\",\"p\":" + pathJson(p) + "," + kv("k", k) + post(p);
		}
		else if (r < 88) // extend
		{
			if (ty != Var::NONE && ty != Var::OBJ) return false;
			if (ty == Var::NONE && live >= MAXNODES) return false;
			std::vector<Path> objs;
			bool nonobj = !avoidExtNon && rng.chance(20); // an argument that is not an object adds nothing
			for (size_t i = 0; i < sl.size(); i++) if ((w.cslot(sl[i])->type() == Var::OBJ) != nonobj) objs.push_back(sl[i]);
			if (objs.empty()) return false;
			Path q = objs[(size_t)rng.below((int)objs.size())];
			const Var& s = *w.cslot(q);
			int rc2, cap2, len2;
			const void* ptr2;
			storageOf(s, rc2, cap2, len2, ptr2);
			if (ptr2 == ptr && ptr) return false; // the same object
			if (wouldCycle(p, s, ty == Var::OBJ)) return false;
			int extra = 0;
			{
				Dic<Var> so = s.object();
				for (Dic<Var>::Enumerator it = so.all(); it; ++it) if ((*it).ok() && !(ty == Var::OBJ && d.has(~it))) extra++;
			}
			if (len + extra > MAXITEMS) return false;
			if (avoidGrow && ty == Var::OBJ && rc > 1 && extra > 0 && len + extra > cap) return false;
			d.extend(s);
			e = "{\"op\":\"extend\",\"p\":" + pathJson(p) + ",\"q\":" + pathJson(q) + post(p);
		}
		else if (r < 92) // clone into a root
		{
			Path q = sl[(size_t)rng.below((int)sl.size())];
			int root = rng.range(1, NR);
			if (en && pathSlots.count(&w.roots[(size_t)root])) return false;
			if (live + countNodes(*w.cslot(q)) > MAXNODES + 20) return false;
			w.roots[(size_t)root] = w.cslot(q)->clone();
			Path rp(1, root);
			e = "{\"op\":\"clone\",\"p\":" + pathJson(rp) + ",\"q\":" + pathJson(q) + post(rp);
		}
		else if (r < 98) // comparison / conversions (no state change)
		{
			Path q = sl[(size_t)rng.below((int)sl.size())];
			if (!ptr && rng.chance(50)) // containers more often
			{
				std::vector<Path> cs;
				for (size_t i = 0; i < sl.size(); i++) if (w.cslot(sl[i])->type() == Var::ARRAY || w.cslot(sl[i])->type() == Var::OBJ) cs.push_back(sl[i]);
				if (!cs.empty()) p = cs[(size_t)rng.below((int)cs.size())];
			}
			const Var& a = *w.cslot(p);
			const Var& b = *w.cslot(q);
			if (rng.chance(50))
				e = "{\"op\":\"eq\",\"p\":" + pathJson(p) + ",\"q\":" + pathJson(q) + "," + kv("r", a == b ? 1 : 0) + "," + kv("nr", a != b ? 1 : 0) + "}";
			else
				e = "{\"op\":\"facts\",\"p\":" + pathJson(p) + ",\"f\":" + facts(a) + ",\"g\":" + facts2(a) + "}";
		}
		else { check(); return true; }
		log.line(e);
		return true;
	}

	void run(long n)
	{
		log.line("{\"op\":\"reset\"}");
		long done = 0, tries = 0;
		while (done < n && tries < 50 * n)
		{
			tries++;
			if (liveNodes() > MAXNODES + 10)
			{
				if (en) { enumEnd(); done++; continue; }
				int r = rng.range(1, NR);
				SVal none = { "none", 0 };
				w.assignScalar(w.roots[(size_t)r], none, 0);
				Path rp(1, r);
				log.line("{\"op\":\"assignScalar\",\"p\":" + pathJson(rp) + ",\"val\":" + svalJson(none) + post(rp));
				done++;
				continue;
			}
			if (step()) done++;
		}
		if (en) enumEnd();
		check();
	}
};

int main(int argc, char** argv)
{
	Args args(argc, argv);
	Rng rng(args.seed);
	Log log(args.out);
	bool ag = args.avoid.count("GrowWhileShared") > 0;
	bool ae = args.avoid.count("ExtendNonObject") > 0, as = args.avoid.count("StringKindCtor") > 0;
	long remaining = args.events;
	while (remaining > 0)
	{
		long n = rng.range(150, 900);
		if (n > remaining) n = remaining;
		{
			Driver d(rng, log, ag, ae, as);
			d.run(n);
		}
		remaining -= n;
	}
	return 0;
}
