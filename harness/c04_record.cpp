// C04 recorder (V): seeded random driver of asl::Var that logs one ndjson event per public call; spec/Trace_VarHeap.tla
// validates the log against the VarHeap actions and operators.  Trees reach depth 5, arrays and objects grow past the
// 3/6/12 capacity steps, containers are shared between roots and inside other containers, every scalar kind is assigned
// over every other (type-changing assignment while shared), own descendants are assigned to their ancestors.
// The driver follows the documented API: in-range arguments, extend() with an object argument, no call that would make
// a container contain itself, and no call that triggers an open finding listed in --avoid.
#include "c04_common.h"
#include "vrec.h"
#include <set>
#include <map>

using namespace vrec;

static const int NR = 4;
static const int NKEYS = 8;
static const int MAXDEPTH = 5;
static const int MAXITEMS = 14;
static const int MAXNODES = 60;

static const char* STRS[] = { "", "abcdefg", "abcdefgh", "12", "1.5xyzuvw" };
static const char* KEYS[] = { "a", "b", "c234567890123456789", "d", "e", "f", "g", "h" };
static const SVal SCALARS[] = {
	{ "none", 0 }, { "nul", 0 }, { "bool", 1 }, { "bool", 0 }, { "int", 1 }, { "int", 2 }, { "num", 2 }, { "num", 3 }, { "flt", 3 },
	{ "str", 1 }, { "str", 2 }, { "str", 3 }, { "str", 4 }, { "int", 0 }, { "num", -1 }, { "str", 5 }, { "int", -7 }, { "flt", 4 }
};
static const int NSCALARS = 18;

static std::string pathJson(const Path& p)
{
	std::string s = "[";
	for (size_t i = 0; i < p.size(); i++) s += (i ? "," : "") + std::to_string(p[i]);
	return s + "]";
}
static std::string svalJson(const SVal& x) { return "{\"t\":\"" + x.t + "\"," + kv("v", x.v) + "}"; }

struct Driver
{
	VarWorld w;
	Rng& rng;
	Log& log;
	bool avoidGrow;
	Driver(Rng& r, Log& l, bool ag) : w(NR), rng(r), log(l), avoidGrow(ag)
	{
		for (int i = 0; i < 5; i++) w.tb.strs.push_back(STRS[i]);
		for (int i = 0; i < NKEYS; i++) w.tb.keys.push_back(KEYS[i]);
	}

	// ---- projection of the real values ------------------------------------------------------------------
	SVal scalarOf(const Var& v) const
	{
		SVal x;
		x.v = 0;
		switch (v.type())
		{
		case Var::NONE: x.t = "none"; break;
		case Var::NUL: x.t = "nul"; break;
		case Var::BOOL: x.t = "bool"; x.v = (bool)v ? 1 : 0; break;
		case Var::INT: x.t = "int"; x.v = (int)v; break;
		case Var::NUMBER: x.t = "num"; x.v = (int)((double)v * 2); break;
		case Var::FLOAT: x.t = "flt"; x.v = (int)((double)v * 2); break;
		case Var::STRING: x.t = "str"; x.v = w.tb.strId(*v); break;
		default: x.t = "?"; break;
		}
		return x;
	}
	std::string tree(const Var& v) const
	{
		if (v.type() == Var::ARRAY || v.type() == Var::OBJ)
		{
			int rc, cap, len;
			const void* ptr;
			storageOf(v, rc, cap, len, ptr);
			std::string s = std::string("{\"t\":\"") + (v.type() == Var::ARRAY ? "arr" : "obj") + "\",\"v\":0," + kv("rc", rc) + ",\"items\":[";
			if (v.type() == Var::ARRAY)
				for (int i = 0; i < len; i++) s += std::string(i ? "," : "") + "{\"key\":0,\"val\":" + tree(v[i]) + "}";
			else
			{
				Dic<Var> o = v.object();
				int i = 0;
				for (Dic<Var>::Enumerator e = o.all(); e; ++e, ++i)
					s += std::string(i ? "," : "") + "{" + kv("key", w.tb.keyId(~e)) + ",\"val\":" + tree(*e) + "}";
			}
			return s + "]}";
		}
		SVal x = scalarOf(v);
		return "{\"t\":\"" + x.t + "\"," + kv("v", x.v) + ",\"rc\":0,\"items\":[]}";
	}
	void slots(const Var& v, Path& cur, std::vector<Path>& out) const
	{
		out.push_back(cur);
		if ((int)cur.size() > MAXDEPTH) return;
		if (v.type() == Var::ARRAY)
			for (int i = 0; i < v.length(); i++) { cur.push_back(i); slots(v[i], cur, out); cur.pop_back(); }
		else if (v.type() == Var::OBJ)
		{
			Dic<Var> o = v.object();
			for (Dic<Var>::Enumerator e = o.all(); e; ++e) { cur.push_back(-w.tb.keyId(~e)); slots(*e, cur, out); cur.pop_back(); }
		}
	}
	std::vector<Path> allSlots() const
	{
		std::vector<Path> out;
		for (int r = 1; r <= NR; r++) { Path p(1, r); slots(w.roots[(size_t)r], p, out); }
		return out;
	}
	void reach(const Var& v, std::set<const void*>& out) const
	{
		int rc, cap, len;
		const void* ptr;
		storageOf(v, rc, cap, len, ptr);
		if (!ptr) return;
		out.insert(ptr);
		if (v.type() == Var::ARRAY)
			for (int i = 0; i < len; i++) reach(v[i], out);
		else
		{
			Dic<Var> o = v.object();
			for (Dic<Var>::Enumerator e = o.all(); e; ++e) reach(*e, out);
		}
	}
	int countNodes(const Var& v) const
	{
		int n = 0;
		if (v.type() == Var::ARRAY) { n = 1; for (int i = 0; i < v.length(); i++) n += countNodes(v[i]); }
		else if (v.type() == Var::OBJ) { n = 1; Dic<Var> o = v.object(); for (Dic<Var>::Enumerator e = o.all(); e; ++e) n += countNodes(*e); }
		return n;
	}
	int liveNodes() const
	{
		std::set<const void*> s;
		for (int r = 1; r <= NR; r++) reach(w.roots[(size_t)r], s);
		return (int)s.size();
	}
	const void* holderPtr(const Path& p) const
	{
		if (p.size() == 1) return 0;
		Path par(p.begin(), p.end() - 1);
		int rc, cap, len;
		const void* ptr;
		storageOf(*w.cslot(par), rc, cap, len, ptr);
		return ptr;
	}
	// storing src at p (or inside the container at p when `into`) would make a container contain itself
	bool wouldCycle(const Path& p, const Var& src, bool into) const
	{
		std::set<const void*> r;
		reach(src, r);
		if (r.empty()) return false;
		const void* h;
		if (into) { int rc, cap, len; storageOf(*w.cslot(p), rc, cap, len, h); if (!h) h = holderPtr(p); }
		else h = holderPtr(p);
		return h && r.count(h);
	}
	std::string post(const Path& p) const
	{
		const Var& v = *w.cslot(p);
		return "," + kv("ty", (int)v.type()) + "," + kv("len", v.length()) + "}";
	}
	std::string facts(const Var& v) const
	{
		static const int codes[] = { 0, 1, 2, 3, 4, 5, 6, 8, 9, 10 };
		std::string isn = "[";
		bool first = true;
		for (size_t c = 0; c < sizeof codes / sizeof codes[0]; c++)
			if (v.is((Var::Type)codes[c])) { isn += (first ? "" : ",") + std::to_string(codes[c]); first = false; }
		isn += "]";
		double d = (double)v;
		long long d2 = std::isnan(d) ? 99999 : (long long)(d * 2);
		String s = v.toString();
		String s2 = v;
		if (!(s == s2)) s = "<toString and (String) differ>";
		// contains() for the probe values of the specification (ScalarTab entries 3, 5, 8, 9, 11, 12, 2)
		static const int probe[] = { 2, 4, 7, 8, 10, 11, 1 };
		std::string cont = "[";
		for (size_t q = 0; q < sizeof probe / sizeof probe[0]; q++) cont += std::string(q ? "," : "") + (v.contains(w.make(SCALARS[probe[q]])) ? "1" : "0");
		cont += "]";
		return "{" + kv("ty", (int)v.type()) + ",\"cont\":" + cont + ",\"isn\":" + isn + "," + kv("len", v.length()) + "," + kv("i", (int)v) + "," + kv("d2", d2) + "," +
		       kv("b", (bool)v ? 1 : 0) + ",\"s\":" + vj::codes(std::string(*s, (size_t)s.length())) + "}";
	}
	void check()
	{
		std::string s = "{\"op\":\"check\",\"roots\":[";
		for (int r = 1; r <= NR; r++) s += (r > 1 ? "," : "") + tree(w.roots[(size_t)r]);
		log.line(s + "]}");
	}

	// ---- one random call ----------------------------------------------------------------------------------
	bool step()
	{
		std::vector<Path> sl = allSlots();
		Path p = sl[(size_t)rng.below((int)sl.size())];
		if (rng.chance(15)) p = Path(1, rng.range(1, NR)); // roots a little more often
		else if (rng.chance(40)) { size_t best = (size_t)rng.below((int)sl.size()); for (int t = 0; t < 3; t++) { size_t c = (size_t)rng.below((int)sl.size()); if (sl[c].size() > sl[best].size()) best = c; } p = sl[best]; } // and deep slots
		Var& d = *w.slot(p);
		int rc, cap, len;
		const void* ptr;
		storageOf(d, rc, cap, len, ptr);
		Var::Type ty = d.type();
		int live = liveNodes();
		int r = rng.below(100);
		std::string e;
		int alt = rng.below(6);
		// big trees are not thrown away too often
		if (r < 30 && (ty == Var::ARRAY || ty == Var::OBJ) && countNodes(d) + len >= 3 && rng.chance(75)) r = 30 + rng.below(58);
		if (r < 14) // typed assignment
		{
			SVal x = SCALARS[rng.below(NSCALARS)];
			w.assignScalar(d, x, alt);
			e = "{\"op\":\"assignScalar\",\"p\":" + pathJson(p) + ",\"val\":" + svalJson(x) + post(p);
		}
		else if (r < 30) // Var = Var
		{
			Path q = sl[(size_t)rng.below((int)sl.size())];
			const Var& s = *w.cslot(q);
			if (wouldCycle(p, s, false)) return false;
			d = s;
			e = "{\"op\":\"assignFrom\",\"p\":" + pathJson(p) + ",\"q\":" + pathJson(q) + post(p);
		}
		else if (r < 38) // construction from containers
		{
			if (live >= MAXNODES) return false;
			int shape = rng.below(4);
			w.assignNew(d, shape, alt);
			e = "{\"op\":\"assignNew\",\"p\":" + pathJson(p) + "," + kv("shape", shape) + post(p);
		}
		else if (r < 46) // operator[](int)
		{
			if ((int)p.size() > MAXDEPTH && ty == Var::NONE) return false;
			if (ty != Var::NONE && ty != Var::ARRAY) return false;
			if (ty == Var::NONE && live >= MAXNODES) return false;
			int i = rng.chance(60) ? rng.below(len + 1) : rng.below(len + 3);
			if (i >= MAXITEMS) return false;
			if (avoidGrow && ty == Var::ARRAY && rc > 1 && i + 1 > cap) return false;
			(void)d[i];
			e = "{\"op\":\"indexInt\",\"p\":" + pathJson(p) + "," + kv("i", i) + post(p);
		}
		else if (r < 54) // operator[](key)
		{
			if (ty != Var::NONE && ty != Var::OBJ) return false;
			if (ty == Var::NONE && live >= MAXNODES) return false;
			int k = rng.range(1, NKEYS);
			bool isnew = ty == Var::NONE || !d.has(KEYS[k - 1]);
			if (isnew && len >= MAXITEMS) return false;
			if (avoidGrow && ty == Var::OBJ && rc > 1 && isnew && len + 1 > cap) return false;
			if (alt & 1) (void)d[KEYS[k - 1]]; else (void)d[String(KEYS[k - 1])];
			e = "{\"op\":\"indexKey\",\"p\":" + pathJson(p) + "," + kv("k", k) + post(p);
		}
		else if (r < 66) // <<
		{
			if (ty == Var::ARRAY && len >= MAXITEMS) return false;
			if (ty == Var::NONE && live >= MAXNODES) return false;
			if (avoidGrow && ty == Var::ARRAY && rc > 1 && len + 1 > cap) return false;
			if (rng.chance(55))
			{
				SVal x = SCALARS[rng.below(NSCALARS)];
				if (x.t == "int" && (alt & 1)) d << x.v; else d << w.make(x);
				e = "{\"op\":\"appendScalar\",\"p\":" + pathJson(p) + ",\"val\":" + svalJson(x) + post(p);
			}
			else
			{
				Path q = sl[(size_t)rng.below((int)sl.size())];
				const Var& s = *w.cslot(q);
				if (&s == &d) return false;
				if ((ty == Var::ARRAY || ty == Var::NONE) && wouldCycle(p, s, ty == Var::ARRAY)) return false;
				d << s;
				e = "{\"op\":\"appendFrom\",\"p\":" + pathJson(p) + ",\"q\":" + pathJson(q) + post(p);
			}
		}
		else if (r < 71) // resize
		{
			if (ty != Var::NONE && ty != Var::ARRAY) return false;
			if (ty == Var::NONE && live >= MAXNODES) return false;
			int n = rng.chance(50) ? rng.below(len + 1) : rng.below(len + 4);
			if (n > MAXITEMS) return false;
			if (avoidGrow && ty == Var::ARRAY && rc > 1 && n > cap) return false;
			d.resize(n);
			e = "{\"op\":\"resize\",\"p\":" + pathJson(p) + "," + kv("n", n) + post(p);
		}
		else if (r < 73)
		{
			if (ty != Var::ARRAY && ty != Var::OBJ) return false;
			d.clear();
			e = "{\"op\":\"clear\",\"p\":" + pathJson(p) + post(p);
		}
		else if (r < 78)
		{
			if (ty != Var::ARRAY) return false;
			int i = rng.below(len + 2);
			if (i > MAXITEMS) return false;
			d.removeAt(i);
			e = "{\"op\":\"removeAt\",\"p\":" + pathJson(p) + "," + kv("i", i) + post(p);
		}
		else if (r < 82)
		{
			if (ty != Var::OBJ) return false;
			int k = rng.range(1, NKEYS);
			d.remove(KEYS[k - 1]);
			e = "{\"op\":\"removeKey\",\"p\":" + pathJson(p) + "," + kv("k", k) + post(p);
		}
		else if (r < 88) // extend
		{
			if (ty != Var::NONE && ty != Var::OBJ) return false;
			if (ty == Var::NONE && live >= MAXNODES) return false;
			std::vector<Path> objs;
			for (size_t i = 0; i < sl.size(); i++) if (w.cslot(sl[i])->type() == Var::OBJ) objs.push_back(sl[i]);
			if (objs.empty()) return false;
			Path q = objs[(size_t)rng.below((int)objs.size())];
			const Var& s = *w.cslot(q);
			int rc2, cap2, len2;
			const void* ptr2;
			storageOf(s, rc2, cap2, len2, ptr2);
			if (ptr2 == ptr && ptr) return false; // the same object
			if (wouldCycle(p, s, ty == Var::OBJ)) return false;
			int extra = 0;
			{
				Dic<Var> so = s.object();
				for (Dic<Var>::Enumerator it = so.all(); it; ++it) if ((*it).ok() && !(ty == Var::OBJ && d.has(~it))) extra++;
			}
			if (len + extra > MAXITEMS) return false;
			if (avoidGrow && ty == Var::OBJ && rc > 1 && extra > 0 && len + extra > cap) return false;
			d.extend(s);
			e = "{\"op\":\"extend\",\"p\":" + pathJson(p) + ",\"q\":" + pathJson(q) + post(p);
		}
		else if (r < 93) // clone into a root
		{
			Path q = sl[(size_t)rng.below((int)sl.size())];
			int root = rng.range(1, NR);
			if (live + countNodes(*w.cslot(q)) > MAXNODES + 20) return false;
			w.roots[(size_t)root] = w.cslot(q)->clone();
			Path rp(1, root);
			e = "{\"op\":\"clone\",\"p\":" + pathJson(rp) + ",\"q\":" + pathJson(q) + post(rp);
		}
		else if (r < 97) // comparison / conversions (no state change)
		{
			Path q = sl[(size_t)rng.below((int)sl.size())];
			const Var& a = *w.cslot(p);
			const Var& b = *w.cslot(q);
			if (rng.chance(50))
				e = "{\"op\":\"eq\",\"p\":" + pathJson(p) + ",\"q\":" + pathJson(q) + "," + kv("r", a == b ? 1 : 0) + "," + kv("nr", a != b ? 1 : 0) + "}";
			else
				e = "{\"op\":\"facts\",\"p\":" + pathJson(p) + ",\"f\":" + facts(a) + "}";
		}
		else { check(); return true; }
		log.line(e);
		return true;
	}

	void run(long n)
	{
		log.line("{\"op\":\"reset\"}");
		long done = 0, tries = 0;
		while (done < n && tries < 50 * n)
		{
			tries++;
			if (liveNodes() > MAXNODES + 10)
			{
				int r = rng.range(1, NR);
				SVal none = { "none", 0 };
				w.assignScalar(w.roots[(size_t)r], none, 0);
				Path rp(1, r);
				log.line("{\"op\":\"assignScalar\",\"p\":" + pathJson(rp) + ",\"val\":" + svalJson(none) + post(rp));
				done++;
				continue;
			}
			if (step()) done++;
		}
		check();
	}
};

int main(int argc, char** argv)
{
	Args args(argc, argv);
	Rng rng(args.seed);
	Log log(args.out);
	bool ag = args.avoid.count("GrowWhileShared") > 0;
	long remaining = args.events;
	while (remaining > 0)
	{
		long n = rng.range(150, 900);
		if (n > remaining) n = remaining;
		{
			Driver d(rng, log, ag);
			d.run(n);
		}
		remaining -= n;
	}
	return 0;
}
