// C18 growth, CmdArgs replayer (R): executes the cases TLC generates from spec/CmdArgs.tla.
//   "args":  a command line + specification -> CmdArgs(argc, argv, spec); rest(), length(), operator[](int), all(),
//            options(), operator()(name), untested() and - for names that are absent - has/get/dflt/multi/is must be what
//            the specification's parser says.  Command lines flagged unspec are only executed (memory safety).
//            Part of the cases (all those longer than 200 bytes, and a hash-chosen 1/C18A_SELF_EVERY of the others) are
//            also run through CmdArgs(spec) in a re-executed process whose own arguments are the command line.
//   "query": the same + a sequence of queries with the expected answer and untested() after each.
#include "c18_cmdargs.h"
#include "vrun.h"

using vrun::Outcome;
using namespace c18a;

static std::string show(const Strs& v)
{
	std::string r = "[";
	for (size_t i = 0; i < v.size(); i++) r += (i ? " " : "") + vj::quote(v[i].size() > 40 ? v[i].substr(0, 40) + "..." : v[i]);
	return r + "]";
}

static std::string checkNew(const vj::Value& c, const vj::Value& e, const Strs& toks)
{
	if (strsOf(e["all"]) != toks) return "all() is " + show(strsOf(e["all"])) + " for the command line " + show(toks);
	Strs rest = strsOf(c["rest"]);
	if (strsOf(e["rest"]) != rest) return "rest() is " + show(strsOf(e["rest"])) + ", specification says " + show(rest);
	if (e["len"].i() != (int)rest.size()) return "length() is " + std::to_string(e["len"].i()) + ", specification says " + std::to_string(rest.size());
	if (strsOf(e["idx"]) != rest) return "operator[](int) gives " + show(strsOf(e["idx"])) + ", specification says " + show(rest);
	if (!e["past"].bytes().empty()) return "operator[](length()) is not empty";
	const vj::Value& eo = e["opts"];
	const vj::Value& co = c["opts"];
	if (eo.size() != co.size()) return "options() has " + std::to_string(eo.size()) + " entries, specification says " + std::to_string(co.size());
	Strs first;
	for (size_t i = 0; i < co.size(); i++)
	{
		std::string name = co[i]["name"].bytes();
		first.push_back(name);
		bool found = false;
		for (size_t j = 0; j < eo.size(); j++)
			if (eo[j]["name"].bytes() == name)
			{
				found = true;
				if (eo[j]["val"].bytes() != co[i]["val"].bytes())
					return "option " + vj::quote(name) + " has the value " + vj::quote(eo[j]["val"].bytes()) + ", specification says " + vj::quote(co[i]["val"].bytes());
				if (strsOf(eo[j]["multi"]) != strsOf(co[i]["multi"]))
					return "operator()(" + vj::quote(name) + ") is " + show(strsOf(eo[j]["multi"])) + ", specification says " + show(strsOf(co[i]["multi"]));
			}
		if (!found) return "options() lacks " + vj::quote(name);
	}
	if (strsOf(e["unt"]) != first) return "untested() is " + show(strsOf(e["unt"])) + " on a new object, specification says " + show(first);
	return "";
}

static std::string checkQuery(const vj::Value& want, const vj::Value& e)
{
	std::string what = e["kind"].s() + "(" + vj::quote(e["x"].bytes()) + ")";
	const vj::Value& r = e["r"];
	const vj::Value& w = want["r"];
	if (w.has("b")) { if (w["b"].s() != "u" && r["b"].s() != w["b"].s()) return what + " is " + r["b"].s() + ", specification says " + w["b"].s(); }
	else if (w.has("s")) { if (r["s"].bytes() != w["s"].bytes()) return what + " is " + vj::quote(r["s"].bytes()) + ", specification says " + vj::quote(w["s"].bytes()); }
	else if (strsOf(r["l"]) != strsOf(w["l"])) return what + " is " + show(strsOf(r["l"])) + ", specification says " + show(strsOf(w["l"]));
	if (strsOf(e["unt"]) != strsOf(want["unt"])) return "untested() after " + what + " is " + show(strsOf(e["unt"])) + ", specification says " + show(strsOf(want["unt"]));
	return "";
}

static Outcome runCase(const vj::Value& c)
{
	Strs toks = strsOf(c["toks"]), flags = strsOf(c["flags"]), vopts = strsOf(c["vopts"]);
	bool isQuery = c["k"].s() == "query";
	std::vector<Query> qs;
	std::vector<vj::Value> want;
	if (isQuery)
		for (size_t i = 0; i < c["qs"].size(); i++)
		{
			Query q;
			q.kind = c["qs"][i]["kind"].s();
			q.x = c["qs"][i]["x"].bytes();
			qs.push_back(q);
		}
	else
	{
		// names that are absent: every kind of query must say so
		static const char* KINDS[] = { "has", "get", "dflt", "multi", "is" };
		for (size_t i = 0; i < c["absent"].size(); i++)
			for (int k = 0; k < 5; k++) { Query q; q.kind = KINDS[k]; q.x = c["absent"][i].bytes(); qs.push_back(q); }
		// names that are present: is()
		for (size_t i = 0; i < c["opts"].size(); i++) { Query q; q.kind = "is"; q.x = c["opts"][i]["name"].bytes(); qs.push_back(q); }
	}
	size_t bytes = 0;
	for (size_t i = 0; i < toks.size(); i++) bytes += toks[i].size() + 1;
	const char* every = getenv("C18A_SELF_EVERY");
	unsigned long long h = vrun::fnv(strsJson(toks) + strsJson(flags));
	bool self = bytes > 200 || (h >> 9) % (unsigned long long)(every ? atoi(every) : 40) == 0;
	Outcome res;
	res.nontrivial = !toks.empty();
	for (int mode = 0; mode < (self ? 2 : 1); mode++)
	{
		Strs lines;
		std::string err;
		if (mode == 0) lines = direct(toks, flags, vopts, qs);
		else if (!viaSelf(toks, flags, vopts, qs, lines, err)) return Outcome::fail("CmdArgs(spec): " + err);
		std::string how = mode == 0 ? "CmdArgs(argc, argv, spec): " : "CmdArgs(spec) on the process's own arguments: ";
		if (lines.size() != qs.size() + 1) return Outcome::fail("harness: " + std::to_string(lines.size()) + " events instead of " + std::to_string(qs.size() + 1));
		if (c["unspec"].is(vj::Value::BOOL) && c["unspec"].b) continue; // undocumented command line: executed only
		std::vector<vj::Value> ev;
		for (size_t i = 0; i < lines.size(); i++) ev.push_back(vj::parse(lines[i]));
		if (mode == 1 && strsOf(ev[0]["toks"]) != toks) return Outcome::fail("harness: the re-executed process got other arguments");
		if (!isQuery)
		{
			std::string bad = checkNew(c, ev[0], toks);
			if (!bad.empty()) return Outcome::fail(how + bad);
			size_t k = 1;
			for (size_t i = 0; i < c["absent"].size(); i++)
				for (int j = 0; j < 5; j++, k++)
				{
					const vj::Value& r = ev[k]["r"];
					bool ok = j == 0 || j == 4 ? r["b"].s() == "f" : j == 1 ? r["s"].bytes().empty() : j == 2 ? r["s"].bytes() == "dflt" : r["l"].size() == 0;
					if (!ok) return Outcome::fail(how + qs[k - 1].kind + "(" + vj::quote(qs[k - 1].x) + ") for an option that is not on the command line: " + lines[k]);
				}
			for (size_t i = 0; i < c["opts"].size(); i++, k++)
			{
				std::string w = c["opts"][i]["is"].s();
				if (w != "u" && ev[k]["r"]["b"].s() != w)
					return Outcome::fail(how + "is(" + vj::quote(qs[k - 1].x) + ") is " + ev[k]["r"]["b"].s() + ", specification says " + w);
			}
		}
		else
		{
			if (strsOf(ev[0]["unt"]) != strsOf(c["untested"])) return Outcome::fail(how + "untested() on a new object is " + show(strsOf(ev[0]["unt"])));
			for (size_t i = 0; i < qs.size(); i++)
			{
				std::string bad = checkQuery(c["qs"][i], ev[i + 1]);
				if (!bad.empty()) return Outcome::fail(how + bad);
			}
		}
	}
	return res;
}

int main(int argc, char** argv)
{
	maybeSelfChild(argc, argv);
	return vrun::run(argc, argv, runCase);
}
