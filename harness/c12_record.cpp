// C12 recorder (V): free-running, jittered, contended executions; the hook log of every atomic increment/decrement
// (with the value it returned) is validated by spec/Trace_Counter.tla as a linearizable counter history.
#include <asl/Array.h>
#include <asl/Map.h>
#include <asl/HashMap.h>
#include <asl/Shared.h>
#include <asl/Pointer.h>
#include <asl/Mutex.h>
#include "vsched.h"
#include "vrec.h"
#include <vector>

using namespace asl;
using namespace vrec;

static volatile int g_live;
struct Probe
{
	int* heap;
	Probe() : heap(new int(1)) { __sync_add_and_fetch(&g_live, 1); }
	Probe(const Probe& o) : heap(new int(*o.heap)) { __sync_add_and_fetch(&g_live, 1); }
	Probe& operator=(const Probe& o) { *heap = *o.heap; return *this; }
	~Probe() { delete heap; __sync_sub_and_fetch(&g_live, 1); }
};
namespace asl {
ASL_SMART_CLASS(Obj, SmartObject)
{
public:
	ASL_SMART_INNER_DEF(Obj);
	Probe probe;
	Obj_() {}
};
class Obj : public SmartObject
{
public:
	ASL_SMART_DEF(Obj, SmartObject);
};
}

struct CounterJob
{
	AtomicCount* c;
	Atomic<int>* a;
	uint64_t seed;
	int ops;
	long net;
};
static void* counterThread(void* p)
{
	CounterJob& j = *(CounterJob*)p;
	Rng rng(j.seed);
	for (int i = 0; i < j.ops; i++)
	{
		int r = rng.below(10);
		if (r < 4) { ++*j.c; j.net++; }
		else if (r < 7) { --*j.c; j.net--; }
		else if (r < 8)
		{
			int w = rng.below(4); // every increment/decrement flavour of Atomic<T>
			if (w == 0) { ++*j.a; vsched::hook(113, j.a, 1); }
			else if (w == 1) { (*j.a)++; vsched::hook(113, j.a, 1); }
			else if (w == 2) { --*j.a; vsched::hook(113, j.a, -1); }
			else { (*j.a)--; vsched::hook(113, j.a, -1); }
		}
		else if (r < 9) { int k = rng.range(1, 9); *j.a -= k; vsched::hook(113, j.a, -k); }
		else { int k = rng.range(1, 9); *j.a += k; vsched::hook(113, j.a, k); }
	}
	return 0;
}

static bool counterScenario(Rng& rng, int maxThreads, int opsPer)
{
	int nt = rng.range(2, maxThreads), init = rng.range(-5, 50);
	AtomicCount c(init);
	Atomic<int> a(init);
	vsched::hook(111, &c, init);
	vsched::hook(111, &a, init);
	std::vector<CounterJob> jobs((size_t)nt);
	std::vector<pthread_t> th((size_t)nt);
	for (int i = 0; i < nt; i++)
	{
		CounterJob j = { &c, &a, rng.next(), opsPer, 0 };
		jobs[i] = j;
	}
	for (int i = 0; i < nt; i++) pthread_create(&th[i], 0, counterThread, &jobs[i]);
	long net = 0;
	for (int i = 0; i < nt; i++) { pthread_join(th[i], 0); net += jobs[i].net; }
	int fin = (int)c;
	vsched::hook(112, &c, fin);
	vsched::hook(112, &a, (int)*a);
	if (fin != init + net)
	{
		fprintf(stderr, "VREC-FAIL: AtomicCount final value %d, expected %ld (lost update)\n", fin, init + net);
		return false;
	}
	return true;
}

struct BigJob
{
	AtomicCount* c;
	Atomic<int>* a;
	Atomic<int>* m; // multiplicative operators: phase 1 "*= 2", phase 2 "/= 2"
	uint64_t seed;
	int ops;
	long netC, netA;
	int doublings, phase;
};
static void* bigThread(void* p)
{
	BigJob& j = *(BigJob*)p;
	Rng rng(j.seed);
	if (j.phase == 1) { for (int i = 0; i < j.doublings; i++) *j.m *= 2; return 0; }
	if (j.phase == 2) { for (int i = 0; i < j.doublings; i++) *j.m /= 2; return 0; }
	for (int i = 0; i < j.ops; i++)
	{
		int r = rng.below(10);
		if (r < 3) { ++*j.c; j.netC++; }
		else if (r < 5) { --*j.c; j.netC--; }
		else if (r < 6) { if (r & 1) ++*j.a; else (*j.a)++; j.netA++; }
		else if (r < 7) { if (i & 1) --*j.a; else (*j.a)--; j.netA--; }
		else if (r < 8) { int k = rng.range(1, 9); *j.a -= k; j.netA -= k; }
		else { int k = rng.range(1, 9); *j.a += k; j.netA += k; }
	}
	return 0;
}
// high-contention run: logs one line {"sum":[{"init":..,"net":[per thread],"final":..}, ...]} for the AtomicCount and the Atomic<int>
static bool bigCounterScenario(Rng& rng, int maxThreads, int opsPer, FILE* f)
{
	int nt = rng.range(4, maxThreads), init = rng.range(-5, 50);
	AtomicCount c(init);
	Atomic<int> a(init);
	std::vector<BigJob> jobs((size_t)nt);
	std::vector<pthread_t> th((size_t)nt);
	int minit = rng.range(1, 60), per = 24 / nt;
	Atomic<int> m(minit);
	for (int i = 0; i < nt; i++) { BigJob j = { &c, &a, &m, rng.next(), opsPer, 0, 0, per, 0 }; jobs[i] = j; }
	for (int i = 0; i < nt; i++) pthread_create(&th[i], 0, bigThread, &jobs[i]);
	for (int i = 0; i < nt; i++) pthread_join(th[i], 0);
	for (int i = 0; i < nt; i++) jobs[i].phase = 1;
	for (int i = 0; i < nt; i++) pthread_create(&th[i], 0, bigThread, &jobs[i]);
	for (int i = 0; i < nt; i++) pthread_join(th[i], 0);
	int afterMul = (int)*m;
	for (int i = 0; i < nt; i++) jobs[i].phase = 2;
	for (int i = 0; i < nt; i++) pthread_create(&th[i], 0, bigThread, &jobs[i]);
	for (int i = 0; i < nt; i++) pthread_join(th[i], 0);
	int afterDiv = (int)*m;
	std::string nc = "[", na = "[";
	for (int i = 0; i < nt; i++)
	{
		nc += (i ? "," : "") + std::to_string(jobs[i].netC);
		na += (i ? "," : "") + std::to_string(jobs[i].netA);
	}
	fprintf(f, "{\"sum\":[{\"init\":%d,\"net\":%s],\"final\":%d},{\"init\":%d,\"net\":%s],\"final\":%d}],"
	           "\"prod\":{\"init\":%d,\"doublings\":%d,\"afterMul\":%d,\"afterDiv\":%d},\"objs\":[]}\n",
	        init, nc.c_str(), (int)c, init, na.c_str(), (int)*a, minit, per * nt, afterMul, afterDiv);
	return true;
}

template <class C>
struct HandleJob
{
	C* first;
	uint64_t seed;
	int ops;
};
template <class C>
static void* handleThread(void* p)
{
	HandleJob<C>& j = *(HandleJob<C>*)p;
	Rng rng(j.seed);
	C* slot[4] = { j.first, 0, 0, 0 };
	for (int i = 0; i < j.ops; i++)
	{
		int a = rng.below(4), b = rng.below(4);
		if (slot[a] && !slot[b]) slot[b] = new C(*slot[a]);
		else if (slot[a] && slot[b] && a != b) { if (rng.chance(50)) *slot[a] = *slot[b]; else if (a != 0) { delete slot[a]; slot[a] = 0; } }
	}
	for (int s = 0; s < 4; s++) delete slot[s];
	return 0;
}
template <class C>
static bool handleScenario(Rng& rng, C proto, int maxThreads, int opsPer, const char* name)
{
	int nt = rng.range(2, maxThreads);
	std::vector<HandleJob<C> > jobs((size_t)nt);
	std::vector<pthread_t> th((size_t)nt);
	for (int i = 0; i < nt; i++)
	{
		HandleJob<C> j = { new C(proto), rng.next(), opsPer };
		jobs[i] = j;
	}
	for (int i = 0; i < nt; i++) pthread_create(&th[i], 0, handleThread<C>, &jobs[i]);
	for (int i = 0; i < nt; i++) pthread_join(th[i], 0);
	return true;
}

int main(int argc, char** argv)
{
	Args args(argc, argv);
	Rng rng(args.seed);
	vsched::install();
	FILE* f = fopen(args.out.c_str(), "w");
	if (!f) { perror("out"); return 2; }
	long events = 0;
	static const int kinds[] = { 2, 4, 111, 112, 113 };
	int round = 0;
	while (events < args.events)
	{
		int live0 = g_live;
		bool big = (round++ % 4) == 3; // every 4th execution: high contention, only totals are logged
		int opsPer = big ? rng.range(1000, args.mode == 1 ? 200000 : 20000) : args.mode == 3 ? rng.range(50, 2000) : rng.range(3, 14);
		int maxThreads = big ? 16 : args.mode == 3 ? 8 : 3;
		int kind = big ? 0 : rng.below(6);
		bool ok = true;
		{
			Array<Probe> pa; pa << Probe();
			Map<int, Probe> pm; pm[1] = Probe();
			HashMap<int, Probe> ph; ph[1] = Probe();
			Shared<Probe> ps(new Probe);
			Obj po;
			if (big)
			{
				// hooks stay silent: no per-operation log, no jitter; the specification checks the totals
				ok = bigCounterScenario(rng, maxThreads, opsPer, f);
				events += 1;
			}
			else
			{
				if (args.mode != 3) vsched::beginFree(rng.next(), rng.range(0, 50)); // mode 3: no hooks at all (data-race detector runs)
				if (kind == 0) ok = counterScenario(rng, maxThreads, opsPer);
				else if (kind == 1) ok = handleScenario(rng, pa, maxThreads, opsPer, "Array");
				else if (kind == 2) ok = handleScenario(rng, pm, maxThreads, opsPer, "Map");
				else if (kind == 3) ok = handleScenario(rng, ph, maxThreads, opsPer, "HashMap");
				else if (kind == 4) ok = handleScenario(rng, ps, maxThreads, opsPer, "Shared");
				else ok = handleScenario(rng, po, maxThreads, opsPer, "SmartObject class");
				if (args.mode != 3)
				{
					vsched::end();
					events += vsched::dumpLogByObject(f, kinds, 5) + 1;
				}
				else
					events += 50;
			}
		}
		fflush(f);
		if (!ok) return 3;
		if (g_live != live0)
		{
			fprintf(stderr, "VREC-FAIL: %d payload instance(s) alive after every handle was dropped (scenario kind %d)\n", g_live - live0, kind);
			return 3;
		}
	}
	fclose(f);
	return 0;
}
