// C12 recorder (V): free-running, jittered, contended executions; the hook log of every atomic increment/decrement
// (with the value it returned) is validated by spec/Trace_Counter.tla as a linearizable counter history.
// Growth: the value-returning part of Atomic<T> / AtomicCount (events 114..127), the other handle types that share one
// Array / HashMap block (Dic, HashDic, Set, Stack, Queue, Array2, Var containers with nesting), the rest of the
// Shared<T> / SmartObject API (null handles, as<>(), converting copies, clone()), a handle captured by the lambda of
// a new asl::Thread that outlives the creator's handle, and handles passed between threads through a Mutex-protected
// Queue signalled with a Semaphore.
#include <asl/Array.h>
#include <asl/Map.h>
#include <asl/HashMap.h>
#include <asl/Shared.h>
#include <asl/Pointer.h>
#include <asl/Mutex.h>
#include <asl/Thread.h>
#include <asl/Queue.h>
#include <asl/Stack.h>
#include <asl/Array2.h>
#include <asl/Set.h>
#include <asl/Var.h>
#include <asl/util.h>
#include "vsched.h"
#include "vrec.h"
#include <vector>

using namespace asl;
using namespace vrec;

static volatile int g_live;
struct Probe
{
	int* heap;
	Probe() : heap(new int(1)) { __sync_add_and_fetch(&g_live, 1); }
	Probe(const Probe& o) : heap(new int(*o.heap)) { __sync_add_and_fetch(&g_live, 1); }
	Probe& operator=(const Probe& o) { *heap = *o.heap; return *this; }
	~Probe() { delete heap; __sync_sub_and_fetch(&g_live, 1); }
};
namespace asl {
ASL_SMART_CLASS(Obj, SmartObject)
{
public:
	ASL_SMART_INNER_DEF(Obj);
	Probe probe;
	Obj_() {}
};
class Obj : public SmartObject
{
public:
	ASL_SMART_DEF(Obj, SmartObject);
};
}

struct CounterJob
{
	AtomicCount* c;
	Atomic<int>* a;
	uint64_t seed;
	int ops;
	long net;
};
static void* counterThread(void* p)
{
	CounterJob& j = *(CounterJob*)p;
	Rng rng(j.seed);
	for (int i = 0; i < j.ops; i++)
	{
		int r = rng.below(10);
		if (r < 4) { ++*j.c; j.net++; }
		else if (r < 7) { --*j.c; j.net--; }
		else if (r < 8)
		{
			int w = rng.below(4); // every increment/decrement flavour of Atomic<T>
			if (w == 0) { ++*j.a; vsched::hook(113, j.a, 1); }
			else if (w == 1) { (*j.a)++; vsched::hook(113, j.a, 1); }
			else if (w == 2) { --*j.a; vsched::hook(113, j.a, -1); }
			else { (*j.a)--; vsched::hook(113, j.a, -1); }
		}
		else if (r < 9) { int k = rng.range(1, 9); *j.a -= k; vsched::hook(113, j.a, -k); }
		else { int k = rng.range(1, 9); *j.a += k; vsched::hook(113, j.a, k); }
	}
	return 0;
}

static bool counterScenario(Rng& rng, int maxThreads, int opsPer)
{
	int nt = rng.range(2, maxThreads), init = rng.range(-5, 50);
	AtomicCount c(init);
	Atomic<int> a(init);
	vsched::hook(111, &c, init);
	vsched::hook(111, &a, init);
	std::vector<CounterJob> jobs((size_t)nt);
	std::vector<pthread_t> th((size_t)nt);
	for (int i = 0; i < nt; i++)
	{
		CounterJob j = { &c, &a, rng.next(), opsPer, 0 };
		jobs[i] = j;
	}
	for (int i = 0; i < nt; i++) pthread_create(&th[i], 0, counterThread, &jobs[i]);
	long net = 0;
	for (int i = 0; i < nt; i++) { pthread_join(th[i], 0); net += jobs[i].net; }
	int fin = (int)c;
	vsched::hook(112, &c, fin);
	vsched::hook(112, &a, (int)*a);
	if (fin != init + net)
	{
		fprintf(stderr, "VREC-FAIL: AtomicCount final value %d, expected %ld (lost update)\n", fin, init + net);
		return false;
	}
	return true;
}


// ---- the value-returning interface of Atomic<int> and AtomicCount: every returned value is logged (Trace_Counter.tla 114..127)
struct ApiJob
{
	AtomicCount* c;
	Atomic<int>* a;
	uint64_t seed;
	int ops, lo;
	bool plainReads; // AtomicCount's reads are plain reads of a volatile int: not exercised under the data-race detector
};
static long cmpCode(int c, bool r) { return (long)(c + 1000) * 2 + (r ? 1 : 0); }
static void* apiThread(void* p)
{
	ApiJob& j = *(ApiJob*)p;
	Rng rng(j.seed);
	Atomic<int>& a = *j.a;
	AtomicCount& c = *j.c;
	for (int i = 0; i < j.ops; i++)
	{
		int r = rng.below(18), v, k = rng.range(j.lo - 2, j.lo + 6);
		if (!j.plainReads && (r == 12 || r == 13)) r = 14;
		switch (r)
		{
		case 0: v = ++a; vsched::hook(114, &a, v); break;
		case 1: v = a++; vsched::hook(115, &a, v); break;
		case 2: v = --a; vsched::hook(116, &a, v); break;
		case 3: v = a--; vsched::hook(117, &a, v); break;
		case 4: v = (int)a; vsched::hook(118, &a, v); break;
		case 5: v = ~a; vsched::hook(118, &a, v); break;
		case 6: a = k; vsched::hook(119, &a, k); break;
		case 7:
		{
			int w = rng.below(6);
			bool b = w == 0 ? a == k : w == 1 ? a != k : w == 2 ? a < k : w == 3 ? a <= k : w == 4 ? a > k : a >= k;
			vsched::hook(120 + w, &a, cmpCode(k, b));
			break;
		}
		case 8: v = -a; vsched::hook(126, &a, v); break;
		case 9: if (rng.chance(50)) { bool b = !a; vsched::hook(127, &a, b ? 1 : 0); } else { bool b = (bool)a; vsched::hook(127, &a, b ? 0 : 1); } break;
		case 10: a += k; vsched::hook(113, &a, k); break;
		case 11: a -= k; vsched::hook(113, &a, -k); break;
		case 12: v = (int)c; vsched::hook(118, &c, v); break;
		case 13:
		{
			int w = rng.below(4); // AtomicCount has ==, <, > and <=
			bool b = w == 0 ? c == k : w == 1 ? c < k : w == 2 ? c > k : c <= k;
			vsched::hook(w == 0 ? 120 : w == 1 ? 122 : w == 2 ? 124 : 123, &c, cmpCode(k, b));
			break;
		}
		case 14: case 15: ++c; break; // results logged by the library hook (kind 2 / 4)
		default: --c; break;
		}
	}
	return 0;
}
static bool apiCounterScenario(Rng& rng, int maxThreads, int opsPer, bool plainReads)
{
	int nt = rng.range(2, maxThreads), init = rng.range(-3, 12);
	AtomicCount c(init);
	Atomic<int> a(init);
	vsched::hook(111, &c, init);
	vsched::hook(111, &a, init);
	std::vector<ApiJob> jobs((size_t)nt);
	std::vector<pthread_t> th((size_t)nt);
	for (int i = 0; i < nt; i++) { ApiJob j = { &c, &a, rng.next(), opsPer, init, plainReads }; jobs[i] = j; }
	for (int i = 0; i < nt; i++) pthread_create(&th[i], 0, apiThread, &jobs[i]);
	for (int i = 0; i < nt; i++) pthread_join(th[i], 0);
	Atomic<int> copy(a); // copy construction reads under the source's lock
	vsched::hook(112, &c, (int)c);
	vsched::hook(112, &a, (int)copy);
	return true;
}

struct BigJob
{
	AtomicCount* c;
	Atomic<int>* a;
	Atomic<int>* m; // multiplicative operators: phase 1 "*= 2", phase 2 "/= 2"
	uint64_t seed;
	int ops;
	long netC, netA;
	int doublings, phase;
};
static void* bigThread(void* p)
{
	BigJob& j = *(BigJob*)p;
	Rng rng(j.seed);
	if (j.phase == 1) { for (int i = 0; i < j.doublings; i++) *j.m *= 2; return 0; }
	if (j.phase == 2) { for (int i = 0; i < j.doublings; i++) *j.m /= 2; return 0; }
	for (int i = 0; i < j.ops; i++)
	{
		int r = rng.below(10);
		if (r < 3) { ++*j.c; j.netC++; }
		else if (r < 5) { --*j.c; j.netC--; }
		else if (r < 6) { if (r & 1) ++*j.a; else (*j.a)++; j.netA++; }
		else if (r < 7) { if (i & 1) --*j.a; else (*j.a)--; j.netA--; }
		else if (r < 8) { int k = rng.range(1, 9); *j.a -= k; j.netA -= k; }
		else { int k = rng.range(1, 9); *j.a += k; j.netA += k; }
	}
	return 0;
}
// high-contention run: logs one line {"sum":[{"init":..,"net":[per thread],"final":..}, ...]} for the AtomicCount and the Atomic<int>
static bool bigCounterScenario(Rng& rng, int maxThreads, int opsPer, FILE* f)
{
	int nt = rng.range(4, maxThreads), init = rng.range(-5, 50);
	AtomicCount c(init);
	Atomic<int> a(init);
	std::vector<BigJob> jobs((size_t)nt);
	std::vector<pthread_t> th((size_t)nt);
	int minit = rng.range(1, 60), per = 24 / nt;
	Atomic<int> m(minit);
	for (int i = 0; i < nt; i++) { BigJob j = { &c, &a, &m, rng.next(), opsPer, 0, 0, per, 0 }; jobs[i] = j; }
	for (int i = 0; i < nt; i++) pthread_create(&th[i], 0, bigThread, &jobs[i]);
	for (int i = 0; i < nt; i++) pthread_join(th[i], 0);
	for (int i = 0; i < nt; i++) jobs[i].phase = 1;
	for (int i = 0; i < nt; i++) pthread_create(&th[i], 0, bigThread, &jobs[i]);
	for (int i = 0; i < nt; i++) pthread_join(th[i], 0);
	int afterMul = (int)*m;
	for (int i = 0; i < nt; i++) jobs[i].phase = 2;
	for (int i = 0; i < nt; i++) pthread_create(&th[i], 0, bigThread, &jobs[i]);
	for (int i = 0; i < nt; i++) pthread_join(th[i], 0);
	int afterDiv = (int)*m;
	std::string nc = "[", na = "[";
	for (int i = 0; i < nt; i++)
	{
		nc += (i ? "," : "") + std::to_string(jobs[i].netC);
		na += (i ? "," : "") + std::to_string(jobs[i].netA);
	}
	fprintf(f, "{\"sum\":[{\"init\":%d,\"net\":%s],\"final\":%d},{\"init\":%d,\"net\":%s],\"final\":%d}],"
	           "\"prod\":{\"init\":%d,\"doublings\":%d,\"afterMul\":%d,\"afterDiv\":%d},\"objs\":[]}\n",
	        init, nc.c_str(), (int)c, init, na.c_str(), (int)*a, minit, per * nt, afterMul, afterDiv);
	return true;
}

template <class C>
struct HandleJob
{
	C* first;
	uint64_t seed;
	int ops;
};
template <class C>
static void* handleThread(void* p)
{
	HandleJob<C>& j = *(HandleJob<C>*)p;
	Rng rng(j.seed);
	C* slot[4] = { j.first, 0, 0, 0 };
	for (int i = 0; i < j.ops; i++)
	{
		int a = rng.below(4), b = rng.below(4);
		if (slot[a] && !slot[b]) slot[b] = new C(*slot[a]);
		else if (slot[a] && slot[b] && a != b) { if (rng.chance(50)) *slot[a] = *slot[b]; else if (a != 0) { delete slot[a]; slot[a] = 0; } }
	}
	for (int s = 0; s < 4; s++) delete slot[s];
	return 0;
}
template <class C>
static bool handleScenario(Rng& rng, C proto, int maxThreads, int opsPer, const char* name)
{
	int nt = rng.range(2, maxThreads);
	std::vector<HandleJob<C> > jobs((size_t)nt);
	std::vector<pthread_t> th((size_t)nt);
	for (int i = 0; i < nt; i++)
	{
		HandleJob<C> j = { new C(proto), rng.next(), opsPer };
		jobs[i] = j;
	}
	for (int i = 0; i < nt; i++) pthread_create(&th[i], 0, handleThread<C>, &jobs[i]);
	for (int i = 0; i < nt; i++) pthread_join(th[i], 0);
	return true;
}


// ---- a handle captured by the lambda of a new asl::Thread; the creator drops its own handle at once -----------------
static __thread int g_sink; // keeps results alive (per thread: the data-race detector watches globals too)
template <class C>
static bool threadCaptureScenario(Rng& rng, const C& proto, int maxThreads)
{
	int nt = rng.range(1, maxThreads);
	std::vector<Thread*> th;
	{
		C* mine = new C(proto);
		for (int i = 0; i < nt; i++)
		{
			const C& h = *mine;
			uint64_t seed = rng.next();
			th.push_back(new Thread([h, seed]() {
				Rng r(seed);
				C a(h), b(a);
				for (int k = r.range(0, 3); k > 0; k--) { C c2(b); a = c2; }
				g_sink += (int)sizeof(a);
			}));
		}
		delete mine; // the threads' captured copies keep the object alive
	}
	for (int i = 0; i < nt; i++) { th[i]->join(); delete th[i]; }
	return true;
}

// ---- handles captured by lambdas wrapped in asl::Function objects: created, passed on (a copy takes the functor over),
// replaced by another one, assigned to themselves, called and destroyed by several threads at once
template <class C>
struct FnJob
{
	const C* proto;
	uint64_t seed;
	int rounds;
};
template <class C>
static void* fnThread(void* p)
{
	FnJob<C>& j = *(FnJob<C>*)p;
	Rng rng(j.seed);
	for (int i = 0; i < j.rounds; i++)
	{
		C h(*j.proto);
		Function<int, int> f = [h](int x) { C inner(h); return x + 1; };
		Function<int, int> g(f); // f is empty now, g owns the functor and its captured handle
		Function<int, int> k = [h](int x) { return x + 2; };
		if (g && !f) g_sink += g(1);
		if (rng.chance(70)) k = g; // k's previous functor, with its captured handle, is released
		if (rng.chance(30)) { Function<int, int>& r = k; k = r; }
		if (k) g_sink += k(2);
	}
	return 0;
}
template <class C>
static bool functionScenario(Rng& rng, const C& proto, int maxThreads)
{
	int nt = rng.range(2, maxThreads);
	C* mine = new C(proto);
	std::vector<FnJob<C> > jobs((size_t)nt);
	std::vector<pthread_t> th((size_t)nt);
	for (int i = 0; i < nt; i++) { FnJob<C> j = { mine, rng.next(), rng.range(1, 3) }; jobs[i] = j; }
	for (int i = 0; i < nt; i++) pthread_create(&th[i], 0, fnThread<C>, &jobs[i]);
	for (int i = 0; i < nt; i++) pthread_join(th[i], 0);
	delete mine;
	return true;
}

// ---- handles handed from producers to consumers through a Mutex-protected Queue, signalled with a Semaphore ------------
template <class C>
struct Channel
{
	Mutex mutex;
	Semaphore items;
	Queue<C> queue;
	Queue<int> ids; // which item each queued handle is (travels with it)
	AtomicCount taken;
};
template <class C>
struct ChanJob
{
	Channel<C>* ch;
	const C* proto;
	int n, id;
	bool producer;
};
template <class C>
static void* chanThread(void* p)
{
	ChanJob<C>& j = *(ChanJob<C>*)p;
	Channel<C>& ch = *j.ch;
	for (int i = 0; i < j.n; i++)
	{
		if (j.producer)
		{
			C h(*j.proto); // the producer's own handle
			{
				Lock l(ch.mutex);
				ch.queue.put(h);
				ch.ids.put(j.id * 100 + i);
				vsched::hook(130, &ch, j.id * 100 + i); // logged under the lock: the log order is the queue order
			}
			ch.items.post();
		} // ... dropped here, possibly after the consumer has dropped the queued one
		else
		{
			ch.items.wait();
			C got;
			{
				Lock l(ch.mutex);
				int id = ch.ids.get();
				got = ch.queue.get();
				vsched::hook(131, &ch, id);
			}
			C again(got);
			++ch.taken;
		}
	}
	return 0;
}
template <class C>
static bool channelScenario(Rng& rng, const C& proto, int maxPairs)
{
	int np = rng.range(1, maxPairs), per = rng.range(1, 3);
	Channel<C> ch;
	vsched::hook(111, &ch.taken, 0);
	std::vector<ChanJob<C> > jobs((size_t)np * 2);
	std::vector<pthread_t> th((size_t)np * 2);
	C* mine = new C(proto);
	for (int i = 0; i < np * 2; i++) { ChanJob<C> j = { &ch, mine, per, i + 1, i < np }; jobs[i] = j; }
	for (int i = 0; i < np * 2; i++) pthread_create(&th[i], 0, chanThread<C>, &jobs[i]);
	for (int i = 0; i < np; i++) pthread_join(th[i], 0); // producers done: nobody reads *mine any more
	delete mine;
	for (int i = np; i < np * 2; i++) pthread_join(th[i], 0);
	vsched::hook(112, &ch.taken, (int)ch.taken);
	if ((int)ch.taken != np * per || ch.queue.length() != 0)
	{
		fprintf(stderr, "VREC-FAIL: %d handles taken from the queue, %d left in it; %d were put\n", (int)ch.taken, ch.queue.length(), np * per);
		return false;
	}
	return true;
}

// the hand-off events (130 = put item v, 131 = got item v) in the order they happened (they are logged under the
// channel's mutex), as one more trace line {"objs":[],"chan":[...]} validated by Trace_Counter.tla (ChanOK)
static long dumpChannel(FILE* f)
{
	vsched::Sched& s = vsched::S();
	long n = 0;
	fprintf(f, "{\"objs\":[],\"chan\":[");
	for (size_t i = 0; i < s.log.size(); i++)
		if (s.log[i].kind == 130 || s.log[i].kind == 131)
			fprintf(f, "%s{\"k\":%d,\"t\":%d,\"v\":%ld}", n++ ? "," : "", s.log[i].kind, s.log[i].tid, s.log[i].val);
	fprintf(f, "]}\n");
	return n + 1;
}

// the class hierarchy behind the Shared<T> / SmartObject API scenario
struct DProbe : public Probe
{
	virtual ~DProbe() {}
	virtual DProbe* clone() const { return new DProbe(*this); }
};
struct DProbe2 : public DProbe
{
	DProbe* clone() const { return new DProbe2(*this); }
};
struct DProbe3 : public DProbe
{
	DProbe* clone() const { return new DProbe3(*this); }
};
namespace asl {
ASL_SMART_CLASS(DObj, Obj)
{
public:
	ASL_SMART_INNER_DEF(DObj);
	DObj_() {}
};
class DObj : public Obj
{
public:
	ASL_SMART_DEF(DObj, Obj);
};
ASL_SMART_CLASS(EObj, Obj)
{
public:
	ASL_SMART_INNER_DEF(EObj);
	EObj_() {}
};
class EObj : public Obj
{
public:
	ASL_SMART_DEF(EObj, Obj);
};
}
struct ApiHandleJob
{
	Shared<DProbe>* sp;
	Obj* so;
	uint64_t seed;
	int ops;
};
static void* apiHandleThread(void* p)
{
	ApiHandleJob& j = *(ApiHandleJob*)p;
	Rng rng(j.seed);
	Shared<DProbe> mine(*j.sp);
	Obj obj(*j.so);
	for (int i = 0; i < j.ops; i++)
	{
		switch (rng.below(8))
		{
		// (what these calls return is decided in the R direction against RefCount.tla; here their counter traffic is recorded)
		case 0: { Shared<DProbe2> d = mine.as<DProbe2>(); Shared<DProbe> b(d); break; }
		case 1: { Shared<DProbe3> d = mine.as<DProbe3>(); Shared<DProbe> b(d); break; }
		case 2: { Shared<DProbe> c = mine.clone(); Shared<DProbe> c2(c); break; }
		case 3: { Shared<DProbe> n; Shared<DProbe> k(mine); k = n; n = mine; break; }
		case 4: { DObj d = obj.as<DObj>(); Obj b(d); g_sink += obj.is<DObj>(); break; }
		case 5: { EObj e = obj.as<EObj>(); Obj b(e); g_sink += obj.is<EObj>(); break; }
		case 6: { Obj c = obj.clone(); Obj& r = c; c = r; Obj c2(c); break; }
		default: { Obj n((Obj::Ptr)0); Obj k(obj); k = n; n = obj; break; }
		}
	}
	return 0;
}
static bool apiHandleScenario(Rng& rng, int maxThreads, int opsPer)
{
	int nt = rng.range(2, maxThreads);
	Shared<DProbe>* sp = new Shared<DProbe>(Shared<DProbe2>(new DProbe2));
	Obj* so = new Obj(DObj());
	std::vector<ApiHandleJob> jobs((size_t)nt);
	std::vector<pthread_t> th((size_t)nt);
	for (int i = 0; i < nt; i++) { ApiHandleJob j = { sp, so, rng.next(), opsPer }; jobs[i] = j; }
	for (int i = 0; i < nt; i++) pthread_create(&th[i], 0, apiHandleThread, &jobs[i]);
	for (int i = 0; i < nt; i++) pthread_join(th[i], 0);
	delete sp;
	delete so;
	return true;
}

// several shared objects (e.g. a container and one nested in it); the creator drops its handles while the workers run,
// so any thread can be the one that drops the last handle
template <class C>
static bool multiHandleScenario(Rng& rng, std::vector<C*>& protos, int maxThreads, int opsPer)
{
	int nt = rng.range(2, maxThreads);
	std::vector<HandleJob<C> > jobs((size_t)nt);
	std::vector<pthread_t> th((size_t)nt);
	for (int i = 0; i < nt; i++)
	{
		HandleJob<C> j = { new C(*protos[(size_t)i % protos.size()]), rng.next(), opsPer };
		jobs[i] = j;
	}
	for (int i = 0; i < nt; i++) pthread_create(&th[i], 0, handleThread<C>, &jobs[i]);
	for (size_t i = 0; i < protos.size(); i++) delete protos[i];
	protos.clear();
	for (int i = 0; i < nt; i++) pthread_join(th[i], 0);
	return true;
}
template <class C>
static bool oneHandleScenario(Rng& rng, C* proto, int maxThreads, int opsPer)
{
	std::vector<C*> v(1, proto);
	return multiHandleScenario(rng, v, maxThreads, opsPer);
}
static bool varScenario(Rng& rng, int maxThreads, int opsPer)
{
	// outer object { "a": 1, "k": [7, [8]] , "l": <the same inner array> }: two embedded handles to `mid`, `mid` embeds `inner`
	Var* inner = new Var(Var::ARRAY);
	*inner << 8;
	Var* mid = new Var(Var::ARRAY);
	*mid << 7 << *inner;
	Var* outer = new Var(Var::OBJ);
	(*outer)["a"] = 1;
	(*outer)["k"] = *mid;
	(*outer)["l"] = *mid;
	std::vector<Var*> v;
	v.push_back(outer);
	v.push_back(mid);
	v.push_back(inner);
	return multiHandleScenario(rng, v, maxThreads, opsPer);
}

int main(int argc, char** argv)
{
	Args args(argc, argv);
	Rng rng(args.seed);
	vsched::install();
	FILE* f = fopen(args.out.c_str(), "w");
	if (!f) { perror("out"); return 2; }
	long events = 0;
	static const int kinds[] = { 2, 4, 111, 112, 113, 114, 115, 116, 117, 118, 119, 120, 121, 122, 123, 124, 125, 126, 127 };
	int round = 0;
	while (events < args.events)
	{
		int live0 = g_live;
		bool big = (round++ % 4) == 3; // every 4th execution: high contention, only totals are logged
		int opsPer = big ? rng.range(1000, args.mode == 1 ? 200000 : 20000) : args.mode == 3 ? rng.range(50, 2000) : rng.range(3, 14);
		int maxThreads = big ? 16 : args.mode == 3 ? 8 : 3;
		int kind = big ? 0 : rng.below(21);
		if (getenv("C12_DEBUG")) fprintf(stderr, "exec %d kind %d\n", round - 1, kind);
		bool ok = true;
		{
			Array<Probe> pa; pa << Probe();
			Map<int, Probe> pm; pm[1] = Probe();
			HashMap<int, Probe> ph; ph[1] = Probe();
			Shared<Probe> ps(new Probe);
			Obj po;
			if (big)
			{
				// hooks stay silent: no per-operation log, no jitter; the specification checks the totals
				ok = bigCounterScenario(rng, maxThreads, opsPer, f);
				events += 1;
			}
			else
			{
				if (args.mode != 3) vsched::beginFree(rng.next(), rng.range(0, 50)); // mode 3: no hooks at all (data-race detector runs)
				if (kind == 0) ok = counterScenario(rng, maxThreads, opsPer);
				else if (kind == 1) ok = handleScenario(rng, pa, maxThreads, opsPer, "Array");
				else if (kind == 2) ok = handleScenario(rng, pm, maxThreads, opsPer, "Map");
				else if (kind == 3) ok = handleScenario(rng, ph, maxThreads, opsPer, "HashMap");
				else if (kind == 4) ok = handleScenario(rng, ps, maxThreads, opsPer, "Shared");
				else if (kind == 5) ok = handleScenario(rng, po, maxThreads, opsPer, "SmartObject class");
				else if (kind == 6 || kind == 7) ok = apiCounterScenario(rng, maxThreads, args.mode == 3 ? opsPer : rng.range(2, 7), args.mode != 3);
				else if (kind == 8) { Dic<Probe>* d = new Dic<Probe>; (*d)["a"] = Probe(); ok = oneHandleScenario(rng, d, maxThreads, opsPer); }
				else if (kind == 9) { HashDic<Probe>* d = new HashDic<Probe>; (*d)["a"] = Probe(); ok = oneHandleScenario(rng, d, maxThreads, opsPer); }
				else if (kind == 10) { Set<int>* d = new Set<int>; *d << 3 << 4; ok = oneHandleScenario(rng, d, maxThreads, opsPer); }
				else if (kind == 11) { Stack<Probe>* d = new Stack<Probe>; d->push(Probe()); ok = oneHandleScenario(rng, d, maxThreads, opsPer); }
				else if (kind == 12) { Queue<Probe>* d = new Queue<Probe>; d->put(Probe()); ok = oneHandleScenario(rng, d, maxThreads, opsPer); }
				else if (kind == 13) { Array2<Probe>* d = new Array2<Probe>(1, 2); ok = oneHandleScenario(rng, d, maxThreads, opsPer); }
				else if (kind == 14 || kind == 15) ok = varScenario(rng, maxThreads, opsPer);
				else if (kind == 16) ok = rng.chance(50) ? threadCaptureScenario(rng, pa, maxThreads) : rng.chance(50) ? threadCaptureScenario(rng, ps, maxThreads) : threadCaptureScenario(rng, po, maxThreads);
				else if (kind == 17) ok = rng.chance(50) ? channelScenario(rng, pa, 2) : rng.chance(50) ? channelScenario(rng, ps, 2) : channelScenario(rng, Var(Array<Var>(2)), 2);
				else if (kind == 20) ok = rng.chance(50) ? functionScenario(rng, pa, maxThreads) : rng.chance(50) ? functionScenario(rng, ps, maxThreads) : functionScenario(rng, po, maxThreads);
				else ok = apiHandleScenario(rng, maxThreads, args.mode == 3 ? opsPer : rng.range(2, 6));
				if (args.mode != 3)
				{
					vsched::end();
					events += vsched::dumpLogByObject(f, kinds, (int)(sizeof kinds / sizeof kinds[0])) + 1;
					if (kind == 17) events += dumpChannel(f);
				}
				else
					events += 50;
			}
		}
		fflush(f);
		if (!ok) return 3;
		if (g_live != live0)
		{
			fprintf(stderr, "VREC-FAIL: %d payload instance(s) alive after every handle was dropped (scenario kind %d)\n", g_live - live0, kind);
			return 3;
		}
	}
	fclose(f);
	return 0;
}
