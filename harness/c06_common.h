// Shared by the C05/C06 harnesses: projection of an asl::Var to the tagged form used by spec/JsonText.tla,
// comparison of a Var with an expected value emitted by TLC, driving XdlParser chunk by chunk.
//   z:0 | b:0/1 | i:[neg,hi,lo] f:[h,l] | d:[l3,l2,l1,l0] f:[h,l] | s:[bytes] | a:[values] | o:[[keybytes,value],...]
// Wide integers and IEEE patterns are written as 16-bit limbs (TLC integers are 32-bit).  Nothing here parses or
// prints JSON text with ASL: harness I/O uses vjson.h / snprintf only.
#ifndef C06_COMMON_H
#define C06_COMMON_H
#include <asl/Var.h>
#include <asl/JSON.h>
#include <asl/Xdl.h>
#include "vjson.h"
#include <string>
#include <vector>
#include <stdint.h>
#include <string.h>
#include <stdio.h>

namespace jx {

inline std::string limbs64(double d)
{
	uint64_t u;
	memcpy(&u, &d, 8);
	char b[64];
	snprintf(b, sizeof b, "[%u,%u,%u,%u]", (unsigned)(u >> 48), (unsigned)((u >> 32) & 0xffff), (unsigned)((u >> 16) & 0xffff), (unsigned)(u & 0xffff));
	return b;
}
inline std::string limbs32(float f)
{
	uint32_t u;
	memcpy(&u, &f, 4);
	char b[48];
	snprintf(b, sizeof b, "[%u,%u]", (unsigned)(u >> 16), (unsigned)(u & 0xffff));
	return b;
}
inline std::string intLimbs(int x)
{
	uint32_t a = x < 0 ? (uint32_t)(-(int64_t)x) : (uint32_t)x;
	char b[48];
	snprintf(b, sizeof b, "[%d,%u,%u]", x < 0 ? 1 : 0, (unsigned)(a >> 16), (unsigned)(a & 0xffff));
	return b;
}
inline double fromLimbs64(const vj::Value& a)
{
	uint64_t u = ((uint64_t)a[0].ll() << 48) | ((uint64_t)a[1].ll() << 32) | ((uint64_t)a[2].ll() << 16) | (uint64_t)a[3].ll();
	double d;
	memcpy(&d, &u, 8);
	return d;
}
inline float fromLimbs32(const vj::Value& a)
{
	uint32_t u = ((uint32_t)a[0].ll() << 16) | (uint32_t)a[1].ll();
	float f;
	memcpy(&f, &u, 4);
	return f;
}
inline int fromIntLimbs(const vj::Value& a)
{
	int64_t m = ((int64_t)a[1].ll() << 16) | (int64_t)a[2].ll();
	return (int)(a[0].ll() ? -m : m);
}

// projection of a Var (what the implementation produced) for logs and for comparing results with each other
inline void project(const asl::Var& v, std::string& out, int depth = 0)
{
	using asl::Var;
	switch (v.type())
	{
	case Var::NONE: out += "{\"none\":0}"; break;
	case Var::NUL: out += "{\"z\":0}"; break;
	case Var::BOOL: out += (bool)v ? "{\"b\":1}" : "{\"b\":0}"; break;
	case Var::INT: out += "{\"i\":" + intLimbs((int)v) + ",\"f\":" + limbs32((float)(int)v) + "}"; break;
	case Var::FLOAT:
	case Var::NUMBER: out += "{\"d\":" + limbs64((double)v) + ",\"f\":" + limbs32((float)(double)v) + "}"; break;
	case Var::STRING: out += "{\"s\":" + vj::codes(std::string(*v)) + "}"; break;
	case Var::ARRAY:
		out += "{\"a\":[";
		for (int i = 0; i < v.length(); i++)
		{
			if (i) out += ",";
			project(v[i], out, depth + 1);
		}
		out += "]}";
		break;
	case Var::OBJ:
	{
		out += "{\"o\":[";
		bool first = true;
		foreach2 (asl::String & k, const Var& x, v)
		{
			if (!first) out += ",";
			first = false;
			out += "[" + vj::codes(std::string(*k)) + ",";
			project(x, out, depth + 1);
			out += "]";
		}
		out += "]}";
		break;
	}
	default: out += "{\"unknown\":0}"; break;
	}
}
inline std::string project(const asl::Var& v)
{
	std::string s;
	project(v, s);
	return s;
}

inline bool sameBits(double a, double b)
{
	if (a == 0 && b == 0) return true; // the sign of zero is not part of the value
	return memcmp(&a, &b, 8) == 0;
}

// Var against the expected value of a TLC-generated case:
//   {"z":0} {"b":0/1} {"n":[token],"d":[limbs] or []} {"s":[..]} {"a":[..]} {"o":[[k,v],..]}
inline bool matches(const asl::Var& v, const vj::Value& e, std::string& why)
{
	using asl::Var;
	if (e.has("z")) { if (v.type() != Var::NUL) { why = "expected null"; return false; } return true; }
	if (e.has("b"))
	{
		if (v.type() != Var::BOOL || (bool)v != (e["b"].i() != 0)) { why = "expected boolean " + std::to_string(e["b"].i()); return false; }
		return true;
	}
	if (e.has("n"))
	{
		if (v.type() != Var::INT && v.type() != Var::NUMBER) { why = "expected a number for token " + e["n"].bytes(); return false; }
		if (e["d"].size() == 4)
		{
			double want = fromLimbs64(e["d"]);
			double got = v.type() == Var::INT ? (double)(int)v : (double)v;
			if (!sameBits(want, got))
			{
				char b[160];
				snprintf(b, sizeof b, "token %s: expected %.17g (%s) got %.17g (%s)", e["n"].bytes().c_str(), want, limbs64(want).c_str(), got, limbs64(got).c_str());
				why = b;
				return false;
			}
		}
		return true;
	}
	if (e.has("s"))
	{
		if (v.type() != Var::STRING || std::string(*v) != e["s"].bytes()) { why = "expected string " + vj::codes(e["s"].bytes()) + " got " + project(v); return false; }
		return true;
	}
	if (e.has("a"))
	{
		const vj::Value& a = e["a"];
		if (v.type() != Var::ARRAY || (size_t)v.length() != a.size()) { why = "expected an array of " + std::to_string(a.size()) + " got " + project(v).substr(0, 200); return false; }
		for (size_t i = 0; i < a.size(); i++)
			if (!matches(v[(int)i], a[i], why)) return false;
		return true;
	}
	if (e.has("o"))
	{
		const vj::Value& o = e["o"];
		if (v.type() != Var::OBJ || (size_t)v.length() != o.size()) { why = "expected an object of " + std::to_string(o.size()) + " got " + project(v).substr(0, 200); return false; }
		for (size_t i = 0; i < o.size(); i++)
		{
			std::string key = o[i][0].bytes();
			asl::String k(key.c_str());
			if (!v.has(k)) { why = "missing key " + vj::codes(key); return false; }
			if (!matches(v[k], o[i][1], why)) return false;
		}
		return true;
	}
	why = "harness: unknown expected value";
	return false;
}

// XdlParser driven incrementally: the text cut at the given positions (ascending, within 0..n)
inline asl::Var parseChunks(const std::string& t, const std::vector<size_t>& cuts)
{
	asl::XdlParser p;
	size_t a = 0;
	for (size_t i = 0; i <= cuts.size(); i++)
	{
		size_t b = i < cuts.size() ? cuts[i] : t.size();
		std::string chunk = t.substr(a, b - a);
		p.parse(chunk.c_str());
		a = b;
	}
	p.parse("\n"); // the flush of XdlParser::decode() (spec/XdlSM.tla: Flush)
	return p.value();
}

}
#endif
