// C17 replayer (R) for the file-system surface around File/TextFile (growth round):
//   k = "path" / "pair"  cases of spec/FileModelPath.tla  - the path algebra of asl::Path (and the same questions asked of File /
//                        Directory objects), every value compared with the one TLC computed
//   k = "dir"            histories of spec/FileModelDir.tla - Directory::create/createOne/remove/removeRecursive/copy/move/change/
//                        current/createTemp, File::put/copy/move/remove on a finite tree inside a private scratch directory; results
//                        of the calls, then the whole tree (POSIX walk), every node query and every listing compared
//   k = "seek"           histories of spec/FileModelSeek.tla - one File/TextFile object in the modes READ/WRITE/APPEND/RW with
//                        seek/position/end/read/write/readLine, writers through other objects, times, File::temp
// The expected values all come out of TLC; this program executes, projects (byte strings, sorted name lists) and compares.
#define C17_FS_REPLAY
#include "c17_common.h"
#include "vrun.h"
#include <limits.h>
#include <algorithm>
#include <set>
#include <map>
#include <time.h>
#include <utime.h>

using vrun::Outcome;
using namespace c17;

static TmpDir* g_tmp = 0;

#define FAILX(...) do { char _b[1200]; snprintf(_b, sizeof _b, __VA_ARGS__); return Outcome::fail(where + ": " + _b); } while (0)

static std::string showp(const std::string& s)
{
	std::string r = "\"";
	for (size_t i = 0; i < s.size() && i < 200; i++)
	{
		unsigned char c = (unsigned char)s[i];
		if (c >= 32 && c < 127 && c != '"') r += (char)c;
		else { char b[8]; snprintf(b, sizeof b, "\\x%02x", c); r += b; }
	}
	return r + "\"";
}

// mkdir -p; returns the directories it had to make (deepest last)
static std::vector<std::string> mkdirs(const std::string& path)
{
	std::vector<std::string> made;
	for (size_t i = 1; i <= path.size(); i++)
		if (i == path.size() || path[i] == '/')
			if (mkdir(path.substr(0, i).c_str(), 0755) == 0) made.push_back(path.substr(0, i));
	return made;
}

// ---------------------------------------------------------------------------------------------------------------------------
// FileModelPath
// ---------------------------------------------------------------------------------------------------------------------------

#define WANT_S(expr, field) do { std::string _g = fromStr(expr), _w = c[field].bytes(); \
	if (_g != _w) FAILX("%s = %s, specification says %s", #expr, showp(_g).c_str(), showp(_w).c_str()); } while (0)
#define WANT_B(expr, field) do { bool _g = (expr), _w = c[field].b; \
	if (_g != _w) FAILX("%s = %d, specification says %d", #expr, (int)_g, (int)_w); } while (0)

static Outcome runPath(const vj::Value& c)
{
	std::string cwd = c["cwd"].bytes(), raw = c["raw"].bytes();
	std::string where = "Path(" + showp(raw) + ")";
	// (the check makes this directory before it generates the cases; a stand-alone replay makes and removes it)
	struct Cwd
	{
		std::vector<std::string> made;
		~Cwd() { if (chdir("/") != 0) {} for (size_t i = made.size(); i > 0; i--) rmdir(made[i - 1].c_str()); }
	} here;
	here.made = mkdirs(cwd);
	if (chdir(cwd.c_str()) != 0) return Outcome::fail("harness: cannot enter " + cwd);
	Outcome res;
	res.nontrivial = raw.size() >= 2;
	bool plain = raw.find('\\') == std::string::npos;
	if (c["k"].s() == "path")
	{
		Path p(toStr(raw));
		WANT_S(p.string(), "str");
		WANT_S(p.name(), "name");
		WANT_S(p.directory().string(), "dir");
		WANT_S(p.extension(), "ext");
		WANT_S(p.noExt().string(), "noext");
		WANT_S(p.nameNoExt(), "nne");
		WANT_B(p.hasDir(), "hasdir");
		WANT_B(p.hasDirectory(), "hasdir");
		WANT_B(p.isAbsolute(), "isabs");
		WANT_B(p.hasExtension("B|x"), "hasext");
		WANT_B(!!p, "ok");
		{
			Path viaChars(raw.c_str());
			WANT_S(viaChars.string(), "str");
		}
		if (!c["unc"].b)
		{
			WANT_S(p.absolute().string(), "abs");
			WANT_S(p.absolute().absolute().string(), "abs");
			WANT_B(p.absolute().isAbsolute(), "yes");
			WANT_B(p.equals(p.absolute()), "yes");
		}
		{
			// every path goes through removeDDots (memory errors are observed); the text is compared where the specification fixes it
			Path r2 = p;
			r2.removeDDots();
			if (c["rx"].b) WANT_S(r2.string(), "rdd");
		}
		if (plain)
		{
			// File and Directory answer the same questions about their path
			File f(toStr(raw));
			WANT_S(f.name(), "name");
			WANT_S(f.extension(), "ext");
			WANT_S(f.directory(), "dir");
			WANT_B(f.hasExtension("B|x"), "hasext");
			WANT_S(f.path(), "str");
			Directory d(toStr(raw));
			WANT_S(d.name(), "name");
			WANT_S(d.directory(), "dir");
			WANT_S(d.path(), "str");
		}
	}
	else
	{
		std::string raw2 = c["raw2"].bytes();
		where += " , " + showp(raw2);
		Path p(toStr(raw)), q(toStr(raw2));
		if (c["jx"].b)
		{
			WANT_S((p / q.string()).string(), "join");
			WANT_S((p / *q.string()).string(), "join");
		}
		if (!c["unc"].b)
		{
			WANT_B(p.equals(q), "eq");
			WANT_B(q.equals(p), "eq");
		}
		WANT_B(p == toStr(raw2), "same");
		WANT_B(p == raw2.c_str(), "same");
		WANT_B(!(p != toStr(raw2)), "same");
		WANT_S((p + toStr(raw2)).string(), "cat");
	}
	return res;
}

// ---------------------------------------------------------------------------------------------------------------------------
#include "c17_fs_dir.h"
#include "c17_fs_seek.h"

static Outcome runCase(const vj::Value& c)
{
	const std::string& k = c["k"].s();
	Outcome r;
	if (k == "path" || k == "pair") r = runPath(c);
	else if (k == "dir") r = runDir(c);
	else if (k == "seek") r = runSeek(c);
	else r = Outcome::fail("harness: unknown case kind " + k);
	if (chdir("/") != 0) {}
	return r;
}

int main(int argc, char** argv)
{
	TmpDir tmp("c17fs");
	g_tmp = &tmp;
	return vrun::run(argc, argv, runCase);
}
