// C09 replayer (R): executes the cases emitted by TLC from spec/HttpRequestTargets.tla ("tgt"), spec/HttpRequestStreams.tla
// ("req") and spec/HttpRequestUrl.tla ("url", "dec", "pq") on the real library under ASan and compares what the
// application is handed with the expected values computed by the specification.  This file only executes, projects and
// compares; every expected value comes from the case.
#include "c09_common.h"
#include "vrun.h"
#include <algorithm>

using namespace c09;

static std::string g_base; // scratch directory: <base>/r1/root is the web root, <base>/r1/a and <base>/a are outside it

static std::string show(const std::string& s)
{
	std::string r = "\"";
	char b[8];
	for (size_t i = 0; i < s.size() && i < 200; i++)
	{
		unsigned char c = (unsigned char)s[i];
		if (c >= 32 && c < 127 && c != '"' && c != '\\') r += (char)c;
		else { snprintf(b, sizeof b, "\\x%02x", c); r += b; }
	}
	return r + "\"";
}

static void writeFile(const std::string& p, const std::string& content)
{
	FILE* f = fopen(p.c_str(), "wb");
	if (!f) { perror(p.c_str()); _exit(2); }
	fwrite(content.data(), 1, content.size(), f);
	fclose(f);
}

static void setupDirs(const std::string& base)
{
	g_base = base;
	mkdir(base.c_str(), 0755);
	mkdir((base + "/r1").c_str(), 0755);
	mkdir((base + "/r1/root").c_str(), 0755);
	mkdir((base + "/r1/root/aa").c_str(), 0755);
	writeFile(base + "/a", "TOPSECRET-0");
	writeFile(base + "/r1/a", "TOPSECRET-1");
	writeFile(base + "/r1/root/a", "PUBLIC-A");
	writeFile(base + "/r1/root/index.html", "PUBLIC-INDEX");
	writeFile(base + "/r1/root/aa/a", "PUBLIC-AA");
	writeFile(base + "/f10", "0123456789");
}

static void removeDirs()
{
	const char* fs[] = {"/a", "/r1/a", "/r1/root/a", "/r1/root/index.html", "/r1/root/aa/a", "/f10"};
	for (size_t i = 0; i < sizeof fs / sizeof *fs; i++) unlink((g_base + fs[i]).c_str());
	rmdir((g_base + "/r1/root/aa").c_str());
	rmdir((g_base + "/r1/root").c_str());
	rmdir((g_base + "/r1").c_str());
	rmdir(g_base.c_str());
}

static std::string upper(std::string s) { for (size_t i = 0; i < s.size(); i++) s[i] = (char)toupper((unsigned char)s[i]); return s; }
static std::string capital(std::string s)
{
	bool cap = true;
	for (size_t i = 0; i < s.size(); i++)
	{
		s[i] = (char)(cap ? toupper((unsigned char)s[i]) : tolower((unsigned char)s[i]));
		cap = s[i] == '-';
	}
	return s;
}

// property clause that holds for every dispatch whatever the input: the path never contains ".."
static std::string universal(const Dispatch& d)
{
	if (d.pathLen < 0) return "path of negative length";
	if (containsDD(d.path)) return "decoded path contains '..' (length-delimited bytes): " + show(d.path);
	if (containsDD(std::string(d.path.c_str()))) return "decoded path contains '..' (C string): " + show(d.path);
	return "";
}

static std::string compareDispatch(const Dispatch& d, const vj::Value& e)
{
	char b[64];
	if (d.method != e["m"].bytes()) return "method " + show(d.method) + " expected " + show(e["m"].bytes());
	if (d.res != e["t"].bytes()) return "resource " + show(d.res) + " expected " + show(e["t"].bytes());
	snprintf(b, sizeof b, "HTTP/1.%d", e["v"].i());
	if (d.proto != b) return "protocol " + show(d.proto) + " expected " + b;
	if (e["pstrict"].b && d.path != e["path"].bytes()) return "path " + show(d.path) + " expected " + show(e["path"].bytes());
	if (d.qs != e["q"].bytes()) return "query string " + show(d.qs) + " expected " + show(e["q"].bytes());
	if (e["qstrict"].b)
	{
		const vj::Value& qp = e["qp"];
		if (d.query.size() != qp.size())
		{
			snprintf(b, sizeof b, "%zu query parameters, expected %zu", d.query.size(), qp.size());
			return b;
		}
		for (size_t i = 0; i < qp.size(); i++)
		{
			std::string k = qp[i]["k"].bytes(), v = qp[i]["v"].bytes();
			bool found = false;
			for (size_t j = 0; j < d.query.size(); j++)
				if (d.query[j].first == k) { found = true; if (d.query[j].second != v) return "query[" + show(k) + "] = " + show(d.query[j].second) + " expected " + show(v); }
			if (!found) return "query parameter " + show(k) + " missing";
		}
	}
	const vj::Value& hs = e["hs"];
	// a header sent with an empty value may be reported as absent (header() yields "" either way)
	size_t nonEmpty = 0;
	for (size_t i = 0; i < hs.size(); i++)
		if (hs[i]["v"].size() > 0) nonEmpty++;
	if (d.headers.size() < nonEmpty || d.headers.size() > hs.size())
	{
		snprintf(b, sizeof b, "%zu headers, expected %zu", d.headers.size(), hs.size());
		return b;
	}
	for (size_t i = 0; i < hs.size(); i++)
	{
		std::string n = hs[i]["n"].bytes(), v = hs[i]["v"].bytes(), alt = hs[i]["alt"].bytes();
		std::string names[3] = {n, upper(n), capital(n)};
		for (int k = 0; k < 3; k++)
		{
			std::map<std::string, std::string>::const_iterator it = d.probes.find(names[k]);
			if (it == d.probes.end()) return "internal: probe missing";
			if (it->second != v && it->second != alt) return "header(" + show(names[k]) + ") = " + show(it->second) + " expected " + show(v);
			if (!v.empty() && !d.has.find(names[k])->second) return "hasHeader(" + show(names[k]) + ") false";
		}
	}
	if (d.body != e["body"].bytes()) return "body " + show(d.body) + " expected " + show(e["body"].bytes());
	return "";
}

static vrun::Outcome runReq(const vj::Value& c)
{
	std::string w = c["w"].bytes();
	const vj::Value& exp = c["exp"];
	RecServer srv;
	srv.filePath = g_base + "/f10";
	// every header name that occurs in any expected request is looked up in three capitalisations inside the handler
	for (size_t i = 0; i < exp.size(); i++)
		for (size_t j = 0; j < exp[i]["hs"].size(); j++)
		{
			std::string n = exp[i]["hs"][j]["n"].bytes();
			srv.probeNames.push_back(n);
			srv.probeNames.push_back(upper(n));
			srv.probeNames.push_back(capital(n));
		}
	std::string resp;
	double dt = runStream(srv, w, resp, (size_t)(c.has("piece") ? c["piece"].i() : 0), 200);
	char b[160];
	if (dt > 8.0)
	{
		snprintf(b, sizeof b, "serve() took %.1f s on a stream the peer had closed", dt);
		return vrun::Outcome::fail(b);
	}
	for (size_t i = 0; i < srv.seen.size(); i++)
	{
		std::string u = universal(srv.seen[i]);
		if (!u.empty()) return vrun::Outcome::fail(u);
	}
	// "lenient": the stream is outside the strict grammar (bare LF line ends, folded header line): the server may drop the
	// connection instead of dispatching, but what it dispatches must still be what was sent
	bool lenient = c["lenient"].b;
	for (size_t i = 0; i < srv.seen.size() && i < exp.size(); i++)
		if (exp[i]["cont100"].b && resp.find("HTTP/1.1 100 Continue\r\n\r\n") == std::string::npos)
			return vrun::Outcome::fail("no interim 100 Continue response to Expect: 100-continue: " + show(resp));
	vrun::Outcome o;
	o.nontrivial = w.size() > 0;
	if (lenient ? srv.seen.size() > exp.size() : srv.seen.size() != exp.size())
	{
		snprintf(b, sizeof b, "handler called %zu time(s), expected %s%zu (stream of %zu of %d bytes)", srv.seen.size(), lenient ? "at most " : "", exp.size(), w.size(), c["total"].i());
		std::string m = b;
		if (!srv.seen.empty()) m += "; last: " + show(srv.seen.back().method) + " " + show(srv.seen.back().res) + " body " + show(srv.seen.back().body);
		return vrun::Outcome::fail(m);
	}
	for (size_t i = 0; i < srv.seen.size(); i++)
	{
		std::string m = compareDispatch(srv.seen[i], exp[i]);
		if (!m.empty())
		{
			snprintf(b, sizeof b, "request %zu: ", i + 1);
			return vrun::Outcome::fail(b + m);
		}
	}
	return o;
}

static vrun::Outcome runTgt(const vj::Value& c)
{
	std::string t = c["t"].bytes();
	std::string w = "GET " + t + " HTTP/1.1\r\nHost: h\r\n\r\n";
	RecServer srv;
	std::string resp;
	double dt = runStream(srv, w, resp);
	if (dt > 8.0) return vrun::Outcome::fail("serve() did not return promptly");
	if (srv.seen.size() != 1)
	{
		char b[80];
		snprintf(b, sizeof b, "handler called %zu time(s), expected 1", srv.seen.size());
		return vrun::Outcome::fail(b);
	}
	const Dispatch& d = srv.seen[0];
	std::string u = universal(d);
	if (!u.empty()) return vrun::Outcome::fail(u);
	if (d.res != t) return vrun::Outcome::fail("resource " + show(d.res) + " expected " + show(t));
	if (c["strict"].b && d.path != c["path"].bytes())
		return vrun::Outcome::fail("path " + show(d.path) + " expected " + show(c["path"].bytes()));
	if (d.qs != c["q"].bytes()) return vrun::Outcome::fail("query string " + show(d.qs) + " expected " + show(c["q"].bytes()));
	// the same target against the static file server rooted at <base>/r1/root: nothing outside the root is ever served
	HttpServer fs(-1);
	fs.setRoot(String((g_base + "/r1/root").c_str()));
	std::string resp2;
	dt = runStream(fs, w, resp2);
	if (dt > 8.0) return vrun::Outcome::fail("file server: serve() did not return promptly");
	if (resp2.find("TOPSECRET") != std::string::npos)
		return vrun::Outcome::fail("file server rooted at a directory served a file outside it: " + show(resp2.substr(resp2.size() > 60 ? resp2.size() - 60 : 0)));
	if (resp2.compare(0, 9, "HTTP/1.1 ") != 0) return vrun::Outcome::fail("file server: no response: " + show(resp2));
	if (c["strict"].b && c["path"].bytes() == "/a" && resp2.find("PUBLIC-A") == std::string::npos)
		return vrun::Outcome::fail("file server: /a not served: " + show(resp2));
	vrun::Outcome o;
	o.nontrivial = t.size() > 1;
	return o;
}

static bool eqBytes(const String& s, const vj::Value& v) { return ss(s) == v.bytes(); }

static vrun::Outcome runUrl(const vj::Value& c)
{
	std::string in = c["u"].bytes();
	String s(in.c_str(), (int)in.size());
	std::string kind = c["k"].s();
	vrun::Outcome o;
	o.nontrivial = in.size() > 0;
	if (kind == "url")
	{
		Url u(s);
		if (u.host.length() < 0 || u.path.length() < 0 || u.protocol.length() < 0) return vrun::Outcome::fail("negative length");
		if ((size_t)u.host.length() > in.size() || (size_t)u.path.length() > in.size() + 1 || (size_t)u.protocol.length() > in.size())
			return vrun::Outcome::fail("component longer than the URL");
		if (c["strict"].b)
		{
			if (!eqBytes(u.protocol, c["scheme"])) return vrun::Outcome::fail("protocol " + show(ss(u.protocol)) + " expected " + show(c["scheme"].bytes()));
			if (!eqBytes(u.host, c["host"])) return vrun::Outcome::fail("host " + show(ss(u.host)) + " expected " + show(c["host"].bytes()));
			if (!eqBytes(u.path, c["path"])) return vrun::Outcome::fail("path " + show(ss(u.path)) + " expected " + show(c["path"].bytes()));
			if (u.port != c["port"].i())
			{
				char b[64];
				snprintf(b, sizeof b, "port %d expected %d", u.port, c["port"].i());
				return vrun::Outcome::fail(b);
			}
		}
	}
	else if (kind == "dec")
	{
		String d = Url::decode(s);
		if (d.length() < 0 || (size_t)d.length() > in.size()) return vrun::Outcome::fail("decode: result longer than the input");
		if (c["strict"].b && !eqBytes(d, c["out"])) return vrun::Outcome::fail("decode " + show(ss(d)) + " expected " + show(c["out"].bytes()));
	}
	else if (kind == "pq")
	{
		Dic<> q = Url::parseQuery(s);
		if (c["strict"].b)
		{
			const vj::Value& qp = c["qp"];
			if ((size_t)q.length() != qp.size()) return vrun::Outcome::fail("parseQuery: wrong number of keys");
			for (size_t i = 0; i < qp.size(); i++)
			{
				std::string k = qp[i]["k"].bytes(), v = qp[i]["v"].bytes();
				String key(k.c_str(), (int)k.size());
				if (!q.has(key)) return vrun::Outcome::fail("parseQuery: key " + show(k) + " missing");
				if (ss(q[key]) != v) return vrun::Outcome::fail("parseQuery[" + show(k) + "] = " + show(ss(q[key])) + " expected " + show(v));
			}
		}
	}
	else
		return vrun::Outcome::fail("unknown case kind " + kind);
	return o;
}

static vrun::Outcome runCase(const vj::Value& c)
{
	std::string kind = c["k"].s();
	if (kind == "req") return runReq(c);
	if (kind == "tgt") return runTgt(c);
	return runUrl(c);
}

int main(int argc, char** argv)
{
	std::string base;
	for (int i = 1; i + 1 < argc; i++)
		if (std::string(argv[i]) == "--tmp") base = argv[i + 1];
	char b[64];
	snprintf(b, sizeof b, "/c09-%d", (int)getpid());
	if (base.empty())
	{
		mkdir("/verif/build/tmp", 0755);
		base = "/verif/build/tmp";
	}
	setupDirs(base + b);
	signal(SIGPIPE, SIG_IGN);
	int rc = vrun::run(argc, argv, runCase);
	removeDirs();
	return rc;
}
