// X01 / Process: the helper program (the child side of spec/ProcLife.tla and spec/ProcPipes.tla) and small utilities
// shared by the recorder and the replayer.  The harness executables re-run themselves as `<exe> helper <mode> ...`.
#ifndef X01_PROC_COMMON_H
#define X01_PROC_COMMON_H
#include <asl/Process.h>
#include <asl/SharedMem.h>
#include <string>
#include <vector>
#include <cstdio>
#include <cstdlib>
#include <cstring>
#include <cerrno>
#include <unistd.h>
#include <signal.h>
#include <dirent.h>
#include <fcntl.h>
#include <sys/stat.h>
#include <sys/wait.h>

namespace x01 {

static const int UNIT = 4096; // one pipe page: the unit of spec/ProcPipes.tla

inline unsigned char patternByte(long i, int salt) { return (unsigned char)((i * 131 + (i >> 8) * 7 + salt) % 251); }

// one unit of ProcPipes.tla: its number in the first four bytes, the rest a pattern depending on number and stream
inline void fillUnit(unsigned char* b, long id, int stream)
{
	b[0] = (unsigned char)(id >> 24); b[1] = (unsigned char)(id >> 16); b[2] = (unsigned char)(id >> 8); b[3] = (unsigned char)id;
	for (int j = 4; j < UNIT; j++) b[j] = patternByte(j, (int)(id * 3 + stream));
}
// the unit's number, or -1 if its content is not what fillUnit(number, stream) produces
inline long checkUnit(const unsigned char* b, int stream)
{
	long id = ((long)b[0] << 24) | ((long)b[1] << 16) | ((long)b[2] << 8) | b[3];
	for (int j = 4; j < UNIT; j++) if (b[j] != patternByte(j, (int)(id * 3 + stream))) return -1;
	return id;
}

inline bool writeAll(int fd, const void* p, size_t n)
{
	const char* c = (const char*)p;
	while (n > 0)
	{
		ssize_t w = write(fd, c, n);
		if (w < 0) { if (errno == EINTR) continue; return false; }
		c += w;
		n -= (size_t)w;
	}
	return true;
}

// read exactly n bytes unless EOF comes first; returns the number read
inline size_t readExact(int fd, void* p, size_t n)
{
	char* c = (char*)p;
	size_t got = 0;
	while (got < n)
	{
		ssize_t r = read(fd, c + got, n - got);
		if (r < 0) { if (errno == EINTR) continue; break; }
		if (r == 0) break;
		got += (size_t)r;
	}
	return got;
}

// --- the child ------------------------------------------------------------------------------------------------
//   helper echo                     framed commands on stdin: <kind><len><payload>; E echo, R reverse, S n bytes 'e' to stderr
//                                   (payload = n as two bytes), X exit(payload[0]); EOF = exit 0
//   helper args a1 .. ak            writes <len(a)><a> for every argument, exit 0
//   helper env NAME                 writes the value of the environment variable, exit 0
//   helper shm NAME size off k woff HEX   SharedMem(NAME, size): writes k bytes found at off to stdout, stores the bytes
//                                   given in hex at woff, destroys its object, exit 0 (exit 3 if ptr() is NULL)
//   helper exit code                exit(code)
//   helper spew nout nerr code      nout pattern bytes to stdout, nerr to stderr (interleaved in 8 KiB slices), exit(code)
//   helper pipe greedy|exact B      copy stdin to stdout: read up to / exactly B units, write them all; EOF = exit 0
//   helper seq s1 n1 s2 n2 ..       write n units to stream s (1 = stdout, 2 = stderr) in the given order, exit 0
inline int helperMain(int argc, char** argv)
{
	signal(SIGPIPE, SIG_DFL);
	std::string mode = argc > 0 ? argv[0] : "";
	if (mode == "echo")
	{
		for (;;)
		{
			unsigned char h[2];
			if (readExact(0, h, 2) < 2) _exit(0);
			std::vector<unsigned char> p(h[1] + 1);
			if (readExact(0, p.data(), h[1]) < h[1]) _exit(0);
			if (h[0] == 'E') writeAll(1, p.data(), h[1]);
			else if (h[0] == 'R')
			{
				std::vector<unsigned char> q(h[1] + 1);
				for (int i = 0; i < h[1]; i++) q[i] = p[h[1] - 1 - i];
				writeAll(1, q.data(), h[1]);
			}
			else if (h[0] == 'S')
			{
				int n = p[0] * 256 + p[1];
				std::string e((size_t)n, 'e');
				writeAll(2, e.data(), e.size());
			}
			else if (h[0] == 'X') _exit(p[0]);
		}
	}
	if (mode == "args")
	{
		for (int i = 1; i < argc; i++)
		{
			unsigned char l = (unsigned char)strlen(argv[i]);
			writeAll(1, &l, 1);
			writeAll(1, argv[i], l);
		}
		_exit(0);
	}
	if (mode == "env" && argc > 1)
	{
		const char* v = getenv(argv[1]);
		if (v) writeAll(1, v, strlen(v));
		_exit(0);
	}
	if (mode == "shm" && argc >= 7)
	{
		int rc = 0;
		{
			asl::SharedMem m(argv[1], atoi(argv[2]));
			if (!m.ptr()) rc = 3;
			else
			{
				writeAll(1, m.ptr() + atoi(argv[3]), (size_t)atoi(argv[4]));
				const char* h = argv[6];
				int woff = atoi(argv[5]);
				for (size_t i = 0; h[i] && h[i + 1]; i += 2)
				{
					char b[3] = {h[i], h[i + 1], 0};
					m.ptr()[woff + (int)(i / 2)] = (asl::byte)strtol(b, 0, 16);
				}
			}
		}
		_exit(rc);
	}
	if (mode == "exit") _exit(argc > 1 ? atoi(argv[1]) : 0);
	if (mode == "spew" && argc >= 4)
	{
		long nout = atol(argv[1]), nerr = atol(argv[2]), o = 0, e = 0;
		std::vector<unsigned char> b(8192);
		while (o < nout || e < nerr)
		{
			if (o < nout)
			{
				long k = nout - o < 8192 ? nout - o : 8192;
				for (long i = 0; i < k; i++) b[i] = patternByte(o + i, 1);
				if (!writeAll(1, b.data(), (size_t)k)) _exit(99);
				o += k;
			}
			if (e < nerr)
			{
				long k = nerr - e < 8192 ? nerr - e : 8192;
				for (long i = 0; i < k; i++) b[i] = patternByte(e + i, 2);
				if (!writeAll(2, b.data(), (size_t)k)) _exit(99);
				e += k;
			}
		}
		_exit(atoi(argv[3]));
	}
	if (mode == "pipe" && argc >= 3)
	{
		bool exact = !strcmp(argv[1], "exact");
		size_t B = (size_t)atoi(argv[2]) * UNIT;
		std::vector<char> b(B);
		for (;;)
		{
			size_t n;
			if (exact) n = readExact(0, b.data(), B);
			else
			{
				ssize_t r;
				do r = read(0, b.data(), B); while (r < 0 && errno == EINTR);
				n = r > 0 ? (size_t)r : 0;
			}
			if (n == 0) _exit(0);
			if (!writeAll(1, b.data(), n)) _exit(99);
			if (exact && n < B) _exit(0);
		}
	}
	if (mode == "seq")
	{
		std::vector<unsigned char> b(UNIT);
		long cnt[3] = {0, 0, 0};
		for (int i = 1; i + 1 < argc; i += 2)
		{
			int s = atoi(argv[i]);
			long n = atol(argv[i + 1]);
			for (long u = 0; u < n; u++)
			{
				fillUnit(b.data(), ++cnt[s], s);
				if (!writeAll(s, b.data(), UNIT)) _exit(99);
			}
		}
		_exit(0);
	}
	_exit(98);
}

inline std::string selfPath()
{
	char b[4096];
	ssize_t n = readlink("/proc/self/exe", b, sizeof b - 1);
	if (n <= 0) { perror("readlink"); exit(2); }
	b[n] = 0;
	return b;
}

inline int countFds()
{
	DIR* d = opendir("/proc/self/fd");
	if (!d) return -1;
	int n = 0;
	while (struct dirent* e = readdir(d))
		if (e->d_name[0] != '.') n++;
	closedir(d);
	return n - 1; // the directory stream's own descriptor
}

// The specification numbers descriptors 0, 1, 2, .. = the free numbers of this process in increasing order (lowest-free
// allocation only ever uses those); FdMap translates between the two numberings.
struct FdMap
{
	std::vector<int> freeNums;
	void init()
	{
		freeNums.clear();
		for (int fd = 0; fd < 256 && freeNums.size() < 64; fd++)
			if (fcntl(fd, F_GETFD) == -1 && errno == EBADF) freeNums.push_back(fd);
	}
	int rel(int fd) const
	{
		for (size_t i = 0; i < freeNums.size(); i++) if (freeNums[i] == fd) return (int)i;
		return -1;
	}
	int abs(int r) const { return r >= 0 && r < (int)freeNums.size() ? freeNums[(size_t)r] : -1; }
};

// state letter of a process / thread from its stat file ('R', 'S', 'Z', ...), 0 if gone
inline char statState(const std::string& path)
{
	FILE* f = fopen(path.c_str(), "r");
	if (!f) return 0;
	char buf[512];
	size_t n = fread(buf, 1, sizeof buf - 1, f);
	fclose(f);
	buf[n] = 0;
	char* p = strrchr(buf, ')');
	return (p && p[1] == ' ') ? p[2] : 0;
}
// true iff pid is a (live or zombie) child of this process - never signal anything else
inline bool isOurChild(int pid)
{
	char p[64], buf[512];
	snprintf(p, sizeof p, "/proc/%d/stat", pid);
	FILE* f = fopen(p, "r");
	if (!f) return false;
	size_t n = fread(buf, 1, sizeof buf - 1, f);
	fclose(f);
	buf[n] = 0;
	char* q = strrchr(buf, ')');
	int ppid = -1;
	char st;
	if (!q || sscanf(q + 1, " %c %d", &st, &ppid) != 2) return false;
	return ppid == (int)getpid();
}
inline char procState(int pid)
{
	char p[64];
	snprintf(p, sizeof p, "/proc/%d/stat", pid);
	return statState(p);
}

}
#endif
