// Shared by the C17 replayer and recorder: run-length coding of byte strings (the vocabulary of spec/FileModel.tla's
// emitted cases and of the recorded traces), private scratch directories below /verif/build/tmp, POSIX file access
// (independent of the library under test), conversions between std::string and asl types.
#ifndef C17_COMMON_H
#define C17_COMMON_H
#include <asl/File.h>
#include <asl/TextFile.h>
#include <asl/Directory.h>
#include <asl/Array.h>
#include <asl/String.h>
#include "vjson.h"
#include <string>
#include <vector>
#include <cstring>
#include <cstdio>
#include <cstdlib>
#include <unistd.h>
#include <fcntl.h>
#include <dirent.h>
#include <sys/stat.h>
using namespace asl;

namespace c17 {

// [b1,n1,b2,n2,...] -> bytes
inline std::string unrle(const vj::Value& v)
{
	std::string r;
	for (size_t i = 0; i + 1 < v.size(); i += 2) r.append((size_t)v[i + 1].ll(), (char)v[i].i());
	return r;
}
// bytes -> "[b1,n1,...]" with maximal runs
inline std::string rle(const std::string& s)
{
	std::string r = "[";
	char b[48];
	size_t i = 0;
	bool first = true;
	while (i < s.size())
	{
		size_t j = i;
		while (j < s.size() && s[j] == s[i]) j++;
		snprintf(b, sizeof b, first ? "%d,%zu" : ",%d,%zu", (int)(unsigned char)s[i], j - i);
		r += b;
		first = false;
		i = j;
	}
	return r + "]";
}
inline std::string rleList(const std::vector<std::string>& ss)
{
	std::string r = "[";
	for (size_t i = 0; i < ss.size(); i++) r += (i ? "," : "") + rle(ss[i]);
	return r + "]";
}
inline std::string show(const std::string& s)
{
	std::string r = rle(s.substr(0, 2000));
	if (r.size() > 160) r = r.substr(0, 160) + "...";
	return r + "(" + std::to_string(s.size()) + " bytes)";
}

inline ByteArray toBytes(const std::string& s)
{
	ByteArray a((int)s.size());
	if (!s.empty()) memcpy(a.data(), s.data(), s.size());
	return a;
}
inline std::string fromBytes(const ByteArray& a) { return std::string((const char*)a.data(), (size_t)a.length()); }
inline String toStr(const std::string& s) { return String(s.c_str(), (int)s.size()); }
inline std::string fromStr(const String& s) { return std::string(*s, (size_t)s.length()); }

inline bool posixRead(const std::string& path, std::string& r)
{
	r.clear();
	int fd = open(path.c_str(), O_RDONLY);
	if (fd < 0) return false;
	char buf[65536];
	ssize_t n;
	while ((n = read(fd, buf, sizeof buf)) > 0) r.append(buf, (size_t)n);
	close(fd);
	return true;
}
inline bool posixWrite(const std::string& path, const std::string& data)
{
	int fd = open(path.c_str(), O_WRONLY | O_CREAT | O_TRUNC, 0644);
	if (fd < 0) return false;
	size_t off = 0;
	while (off < data.size())
	{
		ssize_t n = write(fd, data.data() + off, data.size() - off);
		if (n <= 0) { close(fd); return false; }
		off += (size_t)n;
	}
	close(fd);
	return true;
}
inline bool posixExists(const std::string& path)
{
	struct stat st;
	return stat(path.c_str(), &st) == 0;
}

inline void rmTree(const std::string& path)
{
	DIR* d = opendir(path.c_str());
	if (d)
	{
		while (dirent* e = readdir(d))
		{
			if (!strcmp(e->d_name, ".") || !strcmp(e->d_name, "..")) continue;
			std::string p = path + "/" + e->d_name;
			struct stat st;
			if (lstat(p.c_str(), &st) == 0 && S_ISDIR(st.st_mode)) rmTree(p);
			else unlink(p.c_str());
		}
		closedir(d);
	}
	rmdir(path.c_str());
}

// private scratch directory below /verif/build/tmp (created by the parent process, inherited by forked children)
struct TmpDir
{
	std::string path;
	explicit TmpDir(const char* stem)
	{
		// below the check's own scratch directory when it says so (removed by the check even if this process dies)
		const char* base = getenv("VERIF_TMP");
		mkdir("/verif/build/tmp", 0755);
		std::string t = std::string(base && *base ? base : "/verif/build/tmp") + "/" + stem + "-XXXXXX";
		std::vector<char> b(t.begin(), t.end());
		b.push_back(0);
		if (!mkdtemp(&b[0])) { perror("mkdtemp"); exit(2); }
		path = &b[0];
	}
	~TmpDir() { rmTree(path); }
	// a fresh sub-directory for one case / one execution
	std::string sub() const
	{
		static unsigned long n = 0;
		char b[64];
		snprintf(b, sizeof b, "/w%d-%lu", (int)getpid(), n++);
		std::string p = path + b;
		mkdir(p.c_str(), 0755);
		return p;
	}
};

// the three paths of the specification inside a work directory: p, q, the directory d and r = d/p
struct Paths
{
	std::string dir, p, q, d, r;
	explicit Paths(const std::string& w) : dir(w), p(w + "/p"), q(w + "/q"), d(w + "/d"), r(w + "/d/p") { mkdir(d.c_str(), 0755); }
	~Paths() { rmTree(dir); }
	const std::string& of(const std::string& x) const { return x == "p" ? p : x == "q" ? q : x == "d" ? d : r; }
};

}
#endif
