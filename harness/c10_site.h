// C10 (growth): shared by c10_site_replay.cpp (R) and c10_site_record.cpp (V).
// Real HttpServers on loopback + the library's client (Http::request/upload/download) or a raw POSIX client execute a
// scenario - a redirect site, a connection history against the server's built-ins, operations on a static file tree,
// a transfer - and return what was *observed* (handler side and client side).  The replayer compares the observation with
// the values TLC printed from spec/HttpRedirect.tla, HttpServerRules.tla, HttpStatic.tla, HttpTransfer.tla; the recorder logs
// scenario + observation for the Trace_* specifications.  No expected value is computed here.
#ifndef C10_SITE_H
#define C10_SITE_H
#include "c10_common.h"
#include <asl/JSON.h>
#include <sys/socket.h>
#include <netinet/in.h>
#include <arpa/inet.h>
#include <netinet/tcp.h>
#include <poll.h>
#include <utime.h>
#include <time.h>
#include <dirent.h>
#include <set>

// ---- one visit of a handler ---------------------------------------------------------------------------------------
struct Visit
{
	std::string method, path, ctype, clen, body, text, ims;
	std::map<std::string, std::string> query;
	std::map<std::string, std::string> hdr; // request headers the case asked to look at
	int seq;
	bool jsonEq;
	std::vector<std::pair<bool, std::string> > route;
	Visit() : seq(0), jsonEq(false) {}
};
struct Entry
{
	vj::Value c;
	std::string kind;
	std::vector<Visit> visits;
};
static std::map<long, Entry> g_reg;
static long g_nextCase = 1;
static std::string g_root;      // temp directory: web root of the site server, upload sources, download targets
static int g_sitePort = 0;

static inline long regCase(const vj::Value& c, const std::string& kind)
{
	pthread_mutex_lock(&g_mu);
	long id = g_nextCase++;
	Entry& e = g_reg[id];
	e.c = c;
	e.kind = kind;
	pthread_mutex_unlock(&g_mu);
	return id;
}
static inline std::vector<Visit> unregCase(long id)
{
	pthread_mutex_lock(&g_mu);
	std::vector<Visit> v = g_reg[id].visits;
	g_reg.erase(id);
	pthread_mutex_unlock(&g_mu);
	return v;
}

static inline void removeTree(const std::string& d)
{
	DIR* dir = opendir(d.c_str());
	if (dir)
	{
		struct dirent* e;
		while ((e = readdir(dir)))
		{
			std::string n = e->d_name;
			if (n == "." || n == "..") continue;
			std::string p = d + "/" + n;
			struct stat st;
			if (lstat(p.c_str(), &st) == 0 && S_ISDIR(st.st_mode)) removeTree(p);
			else unlink(p.c_str());
		}
		closedir(dir);
	}
	rmdir(d.c_str());
}

static inline int nodeBodyLen(int node) { return node == 2 ? 70000 : 10 + node; }
static inline ByteArray nodeBody(int node) { return makeBody(nodeBodyLen(node), 100 + node); }
static inline unsigned char statByte(int f, int ver, int i) { return (unsigned char)((i * 13 + f * 29 + ver * 101 + (i >> 8) * 7 + 1) & 255); }
static const char* REDIR_QUERY = "?k=v%20w";

struct SiteServer : public HttpServer
{
	void serve(HttpRequest& req, HttpResponse& resp)
	{
		long id = atol(*req.header("X-Case"));
		pthread_mutex_lock(&g_mu);
		std::map<long, Entry>::iterator it = g_reg.find(id);
		if (it == g_reg.end())
		{
			pthread_mutex_unlock(&g_mu);
			resp.setCode(599);
			resp.put("unknown case");
			return;
		}
		vj::Value c = it->second.c;
		std::string kind = it->second.kind;
		pthread_mutex_unlock(&g_mu);
		maybeStall();
		Visit v;
		v.method = stdstr(req.method());
		v.path = stdstr(req.path());
		v.ctype = stdstr(req.header("Content-Type"));
		v.clen = stdstr(req.header("Content-Length"));
		v.body = std::string((const char*)req.body().data(), (size_t)req.body().length());
		v.seq = atoi(*req.header("X-Seq"));
		foreach2(String& k, const String& val, req.query()) v.query[stdstr(k)] = stdstr(val);
		if (req.hasHeader("X-Test")) v.hdr["X-Test"] = stdstr(req.header("x-test"));
		if (kind == "redir")
		{
			int node = atoi(v.path.substr(v.path.rfind('/') + 1).c_str());
			const vj::Value& site = c["site"];
			if (node < 1 || node > (int)site.size()) { resp.setCode(598); resp.put("no such node"); }
			else
			{
				const vj::Value& n = site[node - 1];
				resp.setCode(n["code"].i());
				std::string form = n["form"].s();
				if (form != "none")
				{
					String loc = form == "abs" ? String::f("http://127.0.0.1:%i", g_sitePort) : String("");
					loc += String::f("/n/%i/%i", (int)id, n["to"].i());
					if (n["q"].b) loc += REDIR_QUERY;
					resp.setHeader("Location", loc);
				}
				resp.put(nodeBody(node));
			}
		}
		else if (kind == "static")
		{
			v.ims = stdstr(req.header("If-Modified-Since"));
			if (req.hasHeader("X-Set-CC")) resp.setHeader("Cache-Control", req.header("X-Set-CC"));
			serveFile(req, resp);
		}
		else if (kind == "upload")
		{
			resp.setCode(c["up"]["hcode"].i());
			resp.put("done");
		}
		else if (kind == "download")
		{
			const vj::Value& d = c["down"];
			resp.setCode(d["code"].i());
			if (d["kind"].s() == "file") resp.put(File(filePath(d["blen"].i(), 5).c_str()));
			else resp.put(makeBody(d["blen"].i(), d["bseed"].ll()));
		}
		else if (kind == "body")
		{
			if (c["body"]["kind"].s() == "json") v.jsonEq = req.json() == jsonValue(c["body"]["json"].i());
			resp.put("ok");
		}
		else if (kind == "text")
		{
			v.text = stdstr(req.text());
			if (c["dir"].s() == "resp") resp.put(String(c["text"].bytes().c_str()));
			else resp.put("ok");
		}
		else if (kind == "route")
		{
			const vj::Value& calls = c["route"]["calls"];
			for (size_t i = 0; i < calls.size(); i++)
			{
				std::string meth = calls[i]["meth"].s(), pat = calls[i]["pat"].bytes();
				bool ok = meth.empty() ? req.is(String(pat.c_str())) : req.is(meth.c_str(), String(pat.c_str()));
				v.route.push_back(std::make_pair(ok, stdstr(req.suffix())));
			}
			resp.put("routed");
		}
		pthread_mutex_lock(&g_mu);
		it = g_reg.find(id);
		if (it != g_reg.end()) it->second.visits.push_back(v);
		pthread_mutex_unlock(&g_mu);
	}
};

// servers for the built-in rules: one per configuration [cors, extra methods]; the raw client dictates the handler's answer
struct RulesServer : public HttpServer
{
	void serve(HttpRequest& req, HttpResponse& resp)
	{
		long id = atol(*req.header("X-Case"));
		maybeStall();
		Visit v;
		v.method = stdstr(req.method());
		v.path = stdstr(req.path());
		v.body = std::string((const char*)req.body().data(), (size_t)req.body().length());
		v.seq = atoi(*req.header("X-Seq"));
		pthread_mutex_lock(&g_mu);
		std::map<long, Entry>::iterator it = g_reg.find(id);
		if (it != g_reg.end()) it->second.visits.push_back(v);
		pthread_mutex_unlock(&g_mu);
		resp.setCode(atoi(*req.header("X-Code")));
		resp.put(makeBody(atoi(*req.header("X-Blen")), 40 + v.seq));
	}
};

static SiteServer* g_site = 0;
static std::map<std::string, std::pair<RulesServer*, int> > g_rules;
static std::set<std::string> g_mimes;

static inline int bindFree(HttpServer* s, unsigned& st)
{
	for (int tries = 0; tries < 200; tries++)
	{
		st = st * 1103515245u + 12345u;
		int port = 20000 + (int)((st >> 8) % 40000);
		if (s->bind("127.0.0.1", port)) return port;
	}
	fprintf(stderr, "harness: no free port\n");
	exit(2);
}
static unsigned g_portState = 0;
static inline void ensureSite(unsigned seed)
{
	if (g_site) return;
	char tmpl[512];
	const char* base = getenv("C10_TMP"); // (the check passes its scratch directory, removed when it ends)
	snprintf(tmpl, sizeof tmpl, "%s/c10s-XXXXXX", base && *base ? base : "/verif/build/tmp");
	if (!mkdtemp(tmpl)) { perror("mkdtemp"); exit(2); }
	g_root = tmpl;
	g_dir = tmpl;
	g_portState = seed * 2654435761u + (unsigned)getpid() * 40503u;
	g_site = new SiteServer;
	g_sitePort = bindFree(g_site, g_portState);
	g_site->setRoot(g_root.c_str());
	g_site->start(true);
}
static inline int rulesPort(const vj::Value& cfg)
{
	std::string key = cfg["cors"].b ? "C" : "c";
	for (size_t i = 0; i < cfg["extra"].size(); i++) key += "," + cfg["extra"][i].s();
	pthread_mutex_lock(&g_mu);
	std::map<std::string, std::pair<RulesServer*, int> >::iterator it = g_rules.find(key);
	if (it == g_rules.end())
	{
		RulesServer* s = new RulesServer;
		s->setCrossDomain(cfg["cors"].b);
		for (size_t i = 0; i < cfg["extra"].size(); i++) s->addMethod(cfg["extra"][i].s().c_str());
		int port = bindFree(s, g_portState);
		s->start(true);
		it = g_rules.insert(std::make_pair(key, std::make_pair(s, port))).first;
	}
	int port = it->second.second;
	pthread_mutex_unlock(&g_mu);
	return port;
}
static inline void stopServers()
{
	if (g_site) { g_site->stop(true); delete g_site; g_site = 0; }
	for (std::map<std::string, std::pair<RulesServer*, int> >::iterator it = g_rules.begin(); it != g_rules.end(); ++it) { it->second.first->stop(true); delete it->second.first; }
	g_rules.clear();
	if (!g_root.empty()) removeTree(g_root);
}

static inline std::string siteUrl(const std::string& path) { return "http://127.0.0.1:" + std::to_string(g_sitePort) + path; }
static inline std::string limbs64(unsigned long long h)
{
	char b[64];
	snprintf(b, sizeof b, "[%u,%u,%u,%u]", (unsigned)(h >> 48) & 0xffff, (unsigned)(h >> 32) & 0xffff, (unsigned)(h >> 16) & 0xffff, (unsigned)h & 0xffff);
	return b;
}
static inline unsigned long long hashOf(const std::string& s) { return fnv64((const unsigned char*)s.data(), s.size()); }
static inline unsigned long long hashOf(const ByteArray& a) { return fnv64((const unsigned char*)a.data(), (size_t)a.length()); }
static inline std::string bodyOf(const HttpResponse& r) { return std::string((const char*)r.body().data(), (size_t)r.body().length()); }

// =====================================================================================================================
// (1) redirect sites
// =====================================================================================================================
struct RedirObs
{
	struct V { int node; std::string method; long blen; unsigned long long bh; bool q, qbad; };
	std::vector<V> visits;
	int code;
	int node;          // the node whose body the client received (0: none of them / empty)
	std::string locForm; // Location of the response the client got: "none" / "abs" / "rel" / "other"
	int locTo;
	bool locQ;
	long ms;           // wall time of the whole call
	RedirObs() : code(0), node(0), locTo(0), locQ(false), ms(0) {}
};

// c: {site:[{code,to,form,q}], call:{method,follow,blen}}
static inline RedirObs runRedirect(const vj::Value& c)
{
	long id = regCase(c, "redir");
	const vj::Value& call = c["call"];
	HttpRequest req(call["method"].s().c_str(), siteUrl("/n/" + std::to_string(id) + "/1").c_str());
	req.setFollowRedirects(call["follow"].b);
	req.setHeader("X-Case", String((int)id));
	ByteArray sent = makeBody(call["blen"].i(), 7);
	if (call["blen"].i() > 0) req.put(sent);
	long t0 = monoMs();
	HttpResponse res = Http::request(req);
	long ms = monoMs() - t0;
	std::vector<Visit> vs = unregCase(id);
	RedirObs o;
	o.ms = ms;
	for (size_t i = 0; i < vs.size(); i++)
	{
		RedirObs::V v;
		v.node = atoi(vs[i].path.substr(vs[i].path.rfind('/') + 1).c_str());
		v.method = vs[i].method;
		v.blen = (long)vs[i].body.size();
		v.bh = hashOf(vs[i].body);
		v.q = !vs[i].query.empty();
		v.qbad = v.q && !(vs[i].query.size() == 1 && vs[i].query.count("k") && vs[i].query["k"] == "v w");
		o.visits.push_back(v);
	}
	o.code = res.code();
	std::string body = bodyOf(res);
	for (int n = 1; n <= (int)c["site"].size(); n++)
	{
		ByteArray nb = nodeBody(n);
		if ((size_t)nb.length() == body.size() && memcmp(nb.data(), body.data(), body.size()) == 0) o.node = n;
	}
	std::string loc = stdstr(res.header("Location")), pre = "/n/" + std::to_string(id) + "/";
	if (!res.hasHeader("Location")) o.locForm = "none";
	else
	{
		std::string abs = "http://127.0.0.1:" + std::to_string(g_sitePort);
		o.locForm = "rel";
		if (loc.compare(0, abs.size(), abs) == 0) { o.locForm = "abs"; loc = loc.substr(abs.size()); }
		if (loc.compare(0, pre.size(), pre) == 0)
		{
			loc = loc.substr(pre.size());
			o.locTo = atoi(loc.c_str());
			size_t qm = loc.find('?');
			o.locQ = qm != std::string::npos;
			if (o.locQ && loc.substr(qm) != REDIR_QUERY) o.locForm = "other";
		}
		else o.locForm = "other";
	}
	return o;
}
static inline unsigned long long sentBodyHash(int blen) { return hashOf(makeBody(blen, 7)); }

// =====================================================================================================================
// raw client
// =====================================================================================================================
// How long the raw client waits for input before it gives up.  poll() returns as soon as data or the end of the stream arrives,
// so these only bound a silent peer; they are far above the library's own limits (5 s / 10 s) so that they are never the first
// thing to fire (the recorder marks exchanges that took C10_SLOW_MS or longer; the replayer has its per-case time limit).
static const int RAW_WAIT_MS = 120000;        // response head, body of known length
static const int RAW_PROBE_WAIT_MS = 60000;   // answer to the probe that tells whether the connection is still served
// Only reached by a response without Content-Length (the unchanged library never sends one here): `unclosed` = the server did
// not end such a body by closing within this time.  Deliberately NOT raised: a connection lives at most 10 s on the server, so a
// longer wait would always see it closed and the observation could not be made any more.
static const int RAW_UNCLOSED_MS = 2500;
struct RawConn
{
	int fd;
	std::string in;
	bool eof;
	RawConn() : fd(-1), eof(false) {}
	bool open(int port)
	{
		fd = socket(AF_INET, SOCK_STREAM, 0);
		struct sockaddr_in a;
		memset(&a, 0, sizeof a);
		a.sin_family = AF_INET;
		a.sin_port = htons((unsigned short)port);
		a.sin_addr.s_addr = htonl(INADDR_LOOPBACK);
		bool ok = connect(fd, (struct sockaddr*)&a, sizeof a) == 0;
		quickAck();
		return ok;
	}
	// the server writes head and body separately: without this every exchange waits for the delayed ACK (40 ms)
	void quickAck() { int one = 1; setsockopt(fd, IPPROTO_TCP, TCP_QUICKACK, &one, sizeof one); setsockopt(fd, IPPROTO_TCP, TCP_NODELAY, &one, sizeof one); }
	~RawConn() { if (fd >= 0) close(fd); }
	bool sendAll(const std::string& d)
	{
		size_t p = 0;
		while (p < d.size())
		{
			ssize_t w = send(fd, d.data() + p, d.size() - p, MSG_NOSIGNAL);
			if (w <= 0) return false;
			p += (size_t)w;
		}
		return true;
	}
	// reads more input; false on timeout or end of stream (eof set)
	bool more(int timeoutMs)
	{
		if (eof) return false;
		struct pollfd pf = { fd, POLLIN, 0 };
		if (poll(&pf, 1, timeoutMs) <= 0) return false;
		char tmp[65536];
		ssize_t k = recv(fd, tmp, sizeof tmp, 0);
		if (k <= 0) { eof = true; return false; }
		in.append(tmp, (size_t)k);
		quickAck();
		return true;
	}
	bool readHead(std::string& head, int timeoutMs)
	{
		size_t e;
		while ((e = in.find("\r\n\r\n")) == std::string::npos)
			if (!more(timeoutMs)) return false;
		head = in.substr(0, e);
		in.erase(0, e + 4);
		return true;
	}
	bool readN(std::string& out, size_t n, int timeoutMs)
	{
		while (in.size() < n)
			if (!more(timeoutMs)) return false;
		out = in.substr(0, n);
		in.erase(0, n);
		return true;
	}
	// waits for the peer to close; true if it did (whatever arrived before is left in `in`)
	bool waitClosed(int timeoutMs)
	{
		double t0 = asl::now();
		while (!eof && asl::now() - t0 < timeoutMs / 1000.0) more(100);
		return eof;
	}
};
struct RawHead
{
	std::string proto;
	int code;
	std::map<std::string, std::string> h; // lower-case name -> value
	RawHead() : code(-1) {}
};
static inline RawHead parseHead(const std::string& head)
{
	RawHead r;
	size_t sp = head.find(' ');
	if (sp != std::string::npos) { r.proto = head.substr(0, sp); r.code = atoi(head.c_str() + sp + 1); }
	size_t ls = head.find("\r\n");
	while (ls != std::string::npos)
	{
		size_t le = head.find("\r\n", ls + 2);
		std::string line = head.substr(ls + 2, le == std::string::npos ? std::string::npos : le - ls - 2);
		size_t c = line.find(':');
		if (c != std::string::npos)
		{
			std::string v = line.substr(c + 1);
			while (!v.empty() && v[0] == ' ') v.erase(0, 1);
			r.h[lower(line.substr(0, c))] = v;
		}
		ls = le;
	}
	return r;
}

// =====================================================================================================================
// (2) built-ins: one connection history on a raw socket
// =====================================================================================================================
struct RulesObs
{
	struct X
	{
		std::vector<int> interim;
		int code;                       // -1: no (complete) final response
		std::string proto;
		std::map<std::string, std::string> h;
		long blen;
		unsigned long long bh;
		bool unclosed;                  // a response without a length that the server did not end by closing
		int handlerRuns;                // how often the application's handler ran for this request
		std::string hmethod;
		long hblen;
		unsigned long long hbh;
		long ms;                        // wall time from just before connect() until this observation was complete
		X() : code(-1), blen(-1), bh(0), unclosed(false), handlerRuns(0), hblen(0), hbh(0), ms(0) {}
	};
	std::vector<X> xs;
	int open;      // after the last exchange: 1 = a further request was answered, 0 = the server closed, -1 = neither (silent),
	               // -2 = not decided: the connection was abandoned because it took slowMs or longer (recorder only)
	long endMs;    // wall time from just before connect() until `open` was decided
	std::string note;
	RulesObs() : open(-1), endMs(0) {}
};
static inline std::string connValue(const std::string& conn, int cap)
{
	if (conn == "keep-alive") return cap == 0 ? "keep-alive" : cap == 1 ? "Keep-Alive" : "KEEP-ALIVE";
	if (conn == "close") return cap == 0 ? "close" : cap == 1 ? "Close" : "CLOSE";
	return conn;
}
static inline unsigned long long rulesReqBodyHash(int blen, int seq) { return hashOf(makeBody(blen, 60 + seq)); }
static inline unsigned long long rulesRespBodyHash(int blen, int seq) { return hashOf(makeBody(blen, 40 + seq)); }

// c: {cfg:{cors,extra}, hist:[{req:{...}}]}; plays the requests in order on one connection.
// slowMs > 0 (recorder): HttpServer closes a connection 10 s after accepting it and after 5 s / 10 s without data, so once the
// connection is slowMs old what the server does next is no longer a function of the requests: the history is abandoned right
// after the exchange that crossed the limit (xs ends there) and open = -2.
static inline RulesObs runRules(const vj::Value& c, long slowMs = 0)
{
	RulesObs o;
	int port = rulesPort(c["cfg"]);
	long id = regCase(c, "rules");
	RawConn k;
	long t0 = monoMs();
	bool abandoned = false;
	if (!k.open(port)) { o.note = "connect failed"; unregCase(id); return o; }
	const vj::Value& hist = c["hist"];
	bool dead = false;
	for (size_t i = 0; i < hist.size() && !dead; i++)
	{
		const vj::Value& r = hist[i]["req"];
		int seq = (int)i + 1;
		RulesObs::X x;
		std::string msg = r["method"].s() + " /h HTTP/" + r["ver"].s() + "\r\nHost: 127.0.0.1\r\n";
		msg += "X-Case: " + std::to_string(id) + "\r\nX-Seq: " + std::to_string(seq) + "\r\n";
		msg += "X-Code: " + std::to_string(r["hcode"].i()) + "\r\nX-Blen: " + std::to_string(r["hblen"].i()) + "\r\n";
		if (!r["conn"].s().empty()) msg += "Connection: " + connValue(r["conn"].s(), r["cap"].i()) + "\r\n";
		if (r["origin"].size()) msg += "Origin: " + r["origin"].bytes() + "\r\n";
		if (r["acrh"].size()) msg += "Access-Control-Request-Headers: " + r["acrh"].bytes() + "\r\n";
		bool expect = r["expect"].b;
		if (expect) msg += "Expect: 100-continue\r\n";
		if (expect || r["clen"].i() > 0 || r["method"].s() == "POST") msg += "Content-Length: " + std::to_string(r["clen"].i()) + "\r\n";
		msg += "\r\n";
		ByteArray body = makeBody(r["blen"].i(), 60 + seq);
		std::string bodys((const char*)body.data(), (size_t)body.length());
		bool bodySent = false;
		if (!expect && !bodys.empty() && stallNow()) // (demonstration only: an 11 s pause between the head and the body)
		{
			if (!k.sendAll(msg)) { o.note = "send failed"; dead = true; }
			usleep(11000000);
			msg = "";
		}
		if (!expect) { msg += bodys; bodySent = true; }
		if (!dead && !k.sendAll(msg)) { o.note = "send failed"; dead = true; }
		// responses: 1xx heads until the final one
		while (!dead)
		{
			std::string head;
			if (!k.readHead(head, RAW_WAIT_MS)) { dead = true; break; }
			RawHead h = parseHead(head);
			if (h.code >= 100 && h.code < 200)
			{
				x.interim.push_back(h.code);
				if (h.code == 100 && !bodySent) { if (!k.sendAll(bodys)) dead = true; bodySent = true; }
				continue;
			}
			x.proto = h.proto;
			x.h = h.h;
			std::string rb;
			if (h.h.count("content-length"))
			{
				if (!k.readN(rb, (size_t)atol(h.h["content-length"].c_str()), RAW_WAIT_MS)) { dead = true; break; }
			}
			else
			{
				// no length: the body is whatever arrives until the server closes
				k.waitClosed(RAW_UNCLOSED_MS);
				rb = k.in;
				k.in.clear();
				x.unclosed = !k.eof;
			}
			x.code = h.code;
			x.blen = (long)rb.size();
			x.bh = hashOf(rb);
			break;
		}
		x.ms = monoMs() - t0;
		o.xs.push_back(x);
		if (slowMs > 0 && x.ms >= slowMs) { abandoned = true; break; }
	}
	// is the connection still served?
	if (abandoned) o.open = -2;
	else if (o.xs.empty() || o.xs.back().code < 0) o.open = -1;
	else
	{
		std::string probe = "GET /h HTTP/1.1\r\nHost: 127.0.0.1\r\nX-Case: " + std::to_string(id) + "\r\nX-Seq: 99\r\nX-Code: 200\r\nX-Blen: 0\r\nConnection: close\r\n\r\n";
		std::string head;
		if (k.eof) o.open = 0;
		else if (k.sendAll(probe) && k.readHead(head, RAW_PROBE_WAIT_MS) && parseHead(head).code == 200) o.open = 1;
		else o.open = k.eof ? 0 : -1;
	}
	o.endMs = monoMs() - t0;
	if (slowMs > 0 && o.endMs >= slowMs) o.open = -2;
	std::vector<Visit> vs = unregCase(id);
	for (size_t i = 0; i < vs.size(); i++)
	{
		if (vs[i].seq < 1 || vs[i].seq > (int)o.xs.size()) continue;
		RulesObs::X& x = o.xs[(size_t)vs[i].seq - 1];
		x.handlerRuns++;
		x.hmethod = vs[i].method;
		x.hblen = (long)vs[i].body.size();
		x.hbh = hashOf(vs[i].body);
	}
	return o;
}

// =====================================================================================================================
// (3) static files: operations on a real directory tree, fetched through the site server (serveFile)
// =====================================================================================================================
struct StaticObs
{
	struct G
	{
		int code;
		std::string ctype, cc, crange, locPath;
		bool hasLM, lmOk, hasDate, dateOk, hasCC, hasLoc, locHere; // locHere: the Location is on this host and inside this case's tree
		long lm;
		long blen;
		int bf, bver, bfrom;   // which file content the body is (bf = 0: none of the tree's / empty body)
		long ms;               // wall time of the request
		G() : code(0), hasLM(false), lmOk(false), hasDate(false), dateOk(false), hasCC(false), hasLoc(false), locHere(false), lm(-1), blen(0), bf(0), bver(0), bfrom(0), ms(0) {}
	};
	std::vector<G> gets;   // one per "get" operation, in order
};
static inline bool parseHttpDate(const std::string& s, long& t)
{
	struct tm tm;
	memset(&tm, 0, sizeof tm);
	const char* e = strptime(s.c_str(), "%a, %d %b %Y %H:%M:%S GMT", &tm);
	if (!e || *e) return false;
	t = (long)timegm(&tm);
	return true;
}
static inline std::string httpDate(long t)
{
	time_t tt = (time_t)t;
	struct tm tm;
	gmtime_r(&tt, &tm);
	char b[64];
	strftime(b, sizeof b, "%a, %d %b %Y %H:%M:%S GMT", &tm);
	return b;
}
static inline std::string joinSegs(const vj::Value& segs)
{
	std::string p;
	for (size_t i = 0; i < segs.size(); i++) p += "/" + segs[i].s();
	return p;
}
static inline void writeTreeFile(const std::string& path, int f, int ver, int size, long mtime)
{
	std::string tmp = path + ".tmp";
	FILE* o = fopen(tmp.c_str(), "wb");
	if (!o) { perror(tmp.c_str()); exit(2); }
	std::string buf((size_t)size, '\0');
	for (int i = 0; i < size; i++) buf[(size_t)i] = (char)statByte(f, ver, i);
	if (size) fwrite(buf.data(), 1, (size_t)size, o);
	fclose(o);
	struct utimbuf ut = { (time_t)mtime, (time_t)mtime };
	utime(tmp.c_str(), &ut);
	rename(tmp.c_str(), path.c_str());
}
static const long STATIC_T0 = 1700000000;

// c: {files:[{dir,name,ext,size}], mimes:[{ext,type}], hist:[{op:"write",f,ver,size,mtime} | {op:"delete",f} | {op:"get",req:{...}}]}
// ownRoot: the tree is the web root itself (setRoot; only without concurrent static scenarios), else it lives under /t<case>/
static inline StaticObs runStatic(const vj::Value& c, bool ownRoot = false)
{
	StaticObs o;
	long id = regCase(c, "static");
	const vj::Value& files = c["files"];
	pthread_mutex_lock(&g_mu);
	for (size_t i = 0; i < c["mimes"].size(); i++)
		if (g_mimes.insert(c["mimes"][i]["ext"].s()).second) g_site->addMimeType(c["mimes"][i]["ext"].s().c_str(), c["mimes"][i]["type"].s().c_str());
	pthread_mutex_unlock(&g_mu);
	std::string prefix = "/t" + std::to_string(id), base = g_root + prefix;
	mkdir(base.c_str(), 0755);
	if (ownRoot) { g_site->setRoot(base.c_str()); prefix = ""; }
	std::vector<std::string> fpath(files.size() + 1);
	std::vector<int> curVer(files.size() + 1, 0);
	for (size_t f = 1; f <= files.size(); f++)
	{
		std::string d = base;
		for (size_t k = 0; k < files[f - 1]["dir"].size(); k++) { d += "/" + files[f - 1]["dir"][k].s(); mkdir(d.c_str(), 0755); }
		fpath[f] = d + "/" + files[f - 1]["name"].s();
		writeTreeFile(fpath[f], (int)f, 0, files[f - 1]["size"].i(), STATIC_T0);
	}
	mkdir((base + "/empty").c_str(), 0755);
	const vj::Value& hist = c["hist"];
	int maxVer = 0;
	for (size_t i = 0; i < hist.size(); i++)
	{
		const vj::Value& op = hist[i];
		if (op["op"].s() == "write")
		{
			int f = op["f"].i();
			writeTreeFile(fpath[(size_t)f], f, op["ver"].i(), op["size"].i(), op["mtime"].ll());
			if (op["ver"].i() > maxVer) maxVer = op["ver"].i();
		}
		else if (op["op"].s() == "delete") unlink(fpath[(size_t)op["f"].i()].c_str());
		else
		{
			const vj::Value& r = op["req"];
			std::string target = prefix + joinSegs(r["segs"]) + (r["slash"].b ? "/" : "");
			HttpRequest req(r["method"].s().c_str(), siteUrl(target).c_str());
			req.setFollowRedirects(r["follow"].b);
			req.setHeader("X-Case", String((int)id));
			long ims = (long)r["ims"].ll();
			if (ims >= 0) req.setHeader("If-Modified-Since", httpDate(ims).c_str());
			else if (ims == -2) req.setHeader("If-Modified-Since", "not a date");
			if (r["range"].size() == 2)
			{
				int b = r["range"][0].i(), e = r["range"][1].i();
				req.setHeader("Range", e < 0 ? String::f("bytes=%i-", b) : String::f("bytes=%i-%i", b, e));
			}
			if (!r["cc"].s().empty()) req.setHeader("X-Set-CC", r["cc"].s().c_str());
			long t0 = monoMs();
			HttpResponse res = Http::request(req);
			StaticObs::G g;
			g.ms = monoMs() - t0;
			g.code = res.code();
			g.ctype = stdstr(res.header("Content-Type"));
			g.hasLM = res.hasHeader("Last-Modified");
			if (g.hasLM) g.lmOk = parseHttpDate(stdstr(res.header("Last-Modified")), g.lm);
			g.hasDate = res.hasHeader("Date");
			long dt;
			if (g.hasDate) g.dateOk = parseHttpDate(stdstr(res.header("Date")), dt);
			g.hasCC = res.hasHeader("Cache-Control");
			g.cc = stdstr(res.header("Cache-Control"));
			g.crange = stdstr(res.header("Content-Range"));
			g.hasLoc = res.hasHeader("Location");
			if (g.hasLoc)
			{
				std::string loc = stdstr(res.header("Location")), here = siteUrl(prefix);
				g.locHere = loc.compare(0, here.size(), here) == 0;
				g.locPath = g.locHere ? loc.substr(here.size()) : loc;
			}
			std::string body = bodyOf(res);
			g.blen = (long)body.size();
			int from = 0;
			if (g.code == 206 && g.crange.compare(0, 6, "bytes ") == 0) from = atoi(g.crange.c_str() + 6);
			for (size_t f = 1; f <= files.size() && !g.bf && !body.empty(); f++)
				for (int ver = 0; ver <= maxVer && !g.bf; ver++)
				{
					int size = files[f - 1]["size"].i() + ver;
					if (from + (int)body.size() > size) continue;
					bool same = true;
					for (size_t k = 0; k < body.size() && same; k++) same = (unsigned char)body[k] == statByte((int)f, ver, from + (int)k);
					if (same) { g.bf = (int)f; g.bver = ver; g.bfrom = from; }
				}
			o.gets.push_back(g);
		}
	}
	unregCase(id);
	if (ownRoot) g_site->setRoot(g_root.c_str());
	removeTree(base);
	return o;
}

// =====================================================================================================================
// (4) transfers, structured bodies, routing
// =====================================================================================================================
struct XferObs
{
	bool ret;
	int calls;                 // how often the handler ran
	Visit v;                   // its last visit
	std::string clientText;    // text() of the response
	bool fileExists;
	std::string fileContent;   // download target afterwards
	int progressCalls, progressLast, progressTotal;
	bool progressMono;
	std::string sent;          // upload: the bytes of the file on disk
	long ms;                   // wall time of the client's call
	XferObs() : ret(false), calls(0), fileExists(false), progressCalls(0), progressLast(-1), progressTotal(-1), progressMono(true), ms(0) {}
};
struct ProgressSink
{
	XferObs* o;
	void operator()(const HttpStatus& st)
	{
		o->progressCalls++;
		if (st.received < o->progressLast) o->progressMono = false;
		o->progressLast = st.received;
		o->progressTotal = st.totalReceive;
	}
};
static inline std::string readWhole(const std::string& path, bool& exists)
{
	std::string s;
	FILE* f = fopen(path.c_str(), "rb");
	exists = f != 0;
	if (!f) return s;
	char buf[65536];
	size_t n;
	while ((n = fread(buf, 1, sizeof buf, f)) > 0) s.append(buf, n);
	fclose(f);
	return s;
}
static inline Var formVar(const vj::Value& pairs)
{
	Var v;
	for (size_t i = 0; i < pairs.size(); i++) v[String(pairs[i][0].bytes().c_str())] = String(pairs[i][1].bytes().c_str());
	return v;
}

// c: one case of HttpTransferCases ({kind, up | down | body | text/dir | route/target})
static inline XferObs runTransfer(const vj::Value& c)
{
	XferObs o;
	std::string kind = c["kind"].s();
	long id = regCase(c, kind);
	Dic<> hdrs;
	hdrs["X-Case"] = String((int)id);
	std::string dir = g_root + "/x" + std::to_string(id);
	long t0 = 0;
	if (kind == "upload")
	{
		const vj::Value& u = c["up"];
		mkdir(dir.c_str(), 0755);
		std::string path = dir + "/" + u["fname"].bytes();
		if (u["exists"].b)
		{
			std::string buf((size_t)u["fsize"].i(), '\0');
			for (int i = 0; i < u["fsize"].i(); i++) buf[(size_t)i] = (char)fileByte(u["fsize"].i(), i, u["fvar"].i());
			FILE* f = fopen(path.c_str(), "wb");
			if (!f) { perror(path.c_str()); exit(2); }
			if (!buf.empty()) fwrite(buf.data(), 1, buf.size(), f);
			fclose(f);
			o.sent = buf;
		}
		if (u["ctype"].size()) hdrs["Content-Type"] = String(u["ctype"].bytes().c_str());
		t0 = monoMs();
		o.ret = Http::upload(siteUrl("/x").c_str(), path.c_str(), hdrs);
	}
	else if (kind == "download")
	{
		const vj::Value& d = c["down"];
		mkdir(dir.c_str(), 0755);
		std::string path = dir + "/target.bin";
		for (size_t i = 0; i < d["headers"].size(); i++) hdrs[String(d["headers"][i][0].bytes().c_str())] = String(d["headers"][i][1].bytes().c_str());
		ProgressSink ps = { &o };
		t0 = monoMs();
		o.ret = Http::download(siteUrl("/x").c_str(), path.c_str(), ps, hdrs);
		o.ms = monoMs() - t0;
		o.fileContent = readWhole(path, o.fileExists);
	}
	else if (kind == "body")
	{
		const vj::Value& b = c["body"];
		t0 = monoMs();
		if (b["kind"].s() == "json") o.ret = Http::post(siteUrl("/x").c_str(), jsonValue(b["json"].i()), hdrs).ok();
		else
		{
			hdrs["Content-Type"] = "application/x-www-form-urlencoded";
			o.ret = Http::post(siteUrl("/x").c_str(), formVar(b["pairs"]), hdrs).ok();
		}
	}
	else if (kind == "text")
	{
		t0 = monoMs();
		HttpResponse res = c["dir"].s() == "req" ? Http::post(siteUrl("/x").c_str(), String(c["text"].bytes().c_str()), hdrs) : Http::get(siteUrl("/x").c_str(), hdrs);
		o.ret = res.ok();
		o.clientText = stdstr(res.text());
	}
	else if (kind == "route")
	{
		HttpRequest req(c["route"]["method"].s().c_str(), siteUrl(c["target"].bytes()).c_str(), hdrs);
		t0 = monoMs();
		o.ret = Http::request(req).ok();
	}
	if (kind != "download") o.ms = monoMs() - t0;
	std::vector<Visit> vs = unregCase(id);
	o.calls = (int)vs.size();
	if (!vs.empty()) o.v = vs.back();
	if (kind == "upload" || kind == "download") removeTree(dir);
	return o;
}

#endif
