// X01 part "log", R direction: runs one TLC-generated history of calls (MC_LogFile_*.cfg, Emit) on the real asl::Log in a
// private directory and compares the projection of every file with the lines the specification expects.
//   case: {"part":"log","hist":[{"op":...}],"exp":[{"f":1,"cur":[{c,lb,id,n}..],"old":[..],"bytes":..,"obytes":..},..]}
// The label of a line is compared with the set of labels the specification accepts for the call's level ("lbs" of the call
// that produced message id); bytes only when the labels on disk are the ones the expected lines carry.
#include "x01_log_calls.h"
#include "vrun.h"
#include <map>
#include <set>

using namespace xlog;

static std::string cmpLines(const char* what, int f, const std::vector<Line>& got, const vj::Value& exp,
                            std::map<int, std::set<std::string> >& lbs, bool& sameLabels)
{
	char b[300];
	if (got.size() != exp.size())
	{
		snprintf(b, sizeof b, "file %d %s: %zu lines on disk, %zu expected", f, what, got.size(), (size_t)exp.size());
		return b;
	}
	for (size_t i = 0; i < got.size(); i++)
	{
		const Line& g = got[i];
		const vj::Value& e = exp[i];
		if (!g.ok || g.dl != 19 || g.c != e["c"].i() || g.id != e["id"].i() || g.n != e["n"].i() || !lbs[g.id].count(g.lb))
		{
			snprintf(b, sizeof b, "file %d %s line %zu: on disk {c %d, label '%s', id %d, n %d, date length %d, well-formed %d}, expected {c %d, label '%s', id %d, n %d}",
			         f, what, i + 1, g.c, g.lb.c_str(), g.id, g.n, g.dl, g.ok, e["c"].i(), e["lb"].s().c_str(), e["id"].i(), e["n"].i());
			return b;
		}
		if (g.lb != e["lb"].s()) sameLabels = false;
	}
	return "";
}

static vrun::Outcome runCase(const vj::Value& c)
{
	unsetenv("ASL_LOG");
	Dir dir;
	resetLog(dir);
	const vj::Value& hist = c["hist"];
	std::map<int, std::set<std::string> > lbs;
	bool logged = false;
	char b[200];
	for (size_t i = 0; i < hist.size(); i++)
	{
		const vj::Value& e = hist[i];
		std::string op = e["op"].s();
		if (op == "setMaxLevel") asl::Log::setMaxLevel(e["k"].i());
		else if (op == "enable") asl::Log::enable(e["on"].i() != 0);
		else if (op == "useFile") asl::Log::useFile(e["on"].i() != 0);
		else if (op == "setFile") asl::Log::setFile(dir.file(e["f"].i()).c_str());
		else if (op == "maxLevel")
		{
			int r = asl::Log::maxLevel();
			if (e["r"].i() != -1 && r != e["r"].i())
			{
				snprintf(b, sizeof b, "call %zu: maxLevel() returned %d, expected %d", i + 1, r, e["r"].i());
				return vrun::Outcome::fail(b);
			}
		}
		else if (op == "log")
		{
			const vj::Value& l = e["lbs"];
			for (size_t k = 0; k < l.size(); k++) lbs[e["id"].i()].insert(l[k].s());
			logCall(e["c"].i(), e["d"].i(), e["via"].i(), e["lv"].i(), e["id"].i(), e["n"].i());
			logged = true;
		}
		else return vrun::Outcome::fail("unknown op " + op);
	}
	const vj::Value& exp = c["exp"];
	int nf = (int)exp.size();
	bool any = false;
	for (int k = 0; k < nf; k++)
	{
		int f = exp[(size_t)k]["f"].i();
		Content a = project(dir.file(f)), o = project(dir.old(f));
		bool same = true;
		std::string m = cmpLines("", f, a.lines, exp[(size_t)k]["cur"], lbs, same);
		if (m.empty()) m = cmpLines("(-1 companion)", f, o.lines, exp[(size_t)k]["old"], lbs, same);
		if (m.empty() && same && (a.bytes != exp[(size_t)k]["bytes"].i() || o.bytes != exp[(size_t)k]["obytes"].i()))
		{
			snprintf(b, sizeof b, "file %d: %ld + %ld bytes on disk, %d + %d expected", f, a.bytes, o.bytes, exp[(size_t)k]["bytes"].i(), exp[(size_t)k]["obytes"].i());
			m = b;
		}
		if (!m.empty()) return vrun::Outcome::fail(m);
		if (!a.lines.empty()) any = true;
	}
	int stray = dir.stray(nf);
	if (stray != 0)
	{
		snprintf(b, sizeof b, "%d directory entries with none of the documented names", stray);
		return vrun::Outcome::fail(b);
	}
	vrun::Outcome out;
	out.nontrivial = logged && any;
	return out;
}

int main(int argc, char** argv) { return vrun::run(argc, argv, runCase); }
