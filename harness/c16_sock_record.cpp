// C16 socket lane, recorder (V): seeded random driver of a real asl::Socket / LocalSocket reading from a raw POSIX peer
// that delivers random bytes in random chunkings (1-byte dribbles, small, medium and multi-KB chunks, values split across
// chunk boundaries, many values per chunk) and closes at a random point (also in the middle of a value).  One ndjson
// event per step, in the vocabulary of spec/EndianSocket.tla:
//   {"op":"reset","tr":transport}                              a new connection (episode)
//   {"op":"plan","steps":[{"k":"send","d":[..]}|{"k":"close","d":[]},..]}   the peer is given further steps to perform, in order
//   {"op":"peer"}                                              the peer takes its next step at a quiescent point
//   {"op":"set","o":order,"e":err}                             sock.setEndian
//   {"op":"rclose","e":err}                                    sock.close() by the reader (then a few more calls, then a new episode)
//   {"op":"r","t":type,"k":k,"v":[msb..lsb],"e":err}           sock >> x / sock.read<T>() while the peer takes its next k steps
//                                                              (v = what x holds afterwards)
//   {"op":"rp","n":n,"k":k,"got":count,"d":[bytes],"e":err}    read(p,n);  "rb": read(n) (d = the array);  "rstr": readString(n)
//   {"op":"skip","n":n,"k":k,"e":err}                          (d = the String's characters);  skip(n)
//   {"op":"rall","d":[bytes],"e":err}                          read()
//   {"op":"avail","r":n,"e":err} {"op":"disc","r":b,"c":b,"e":err}    available(); disconnected(), connected()
//   {"op":"wi"|"wd","to":sec,"k":k,"r":b,"e":err}              waitInput / waitData
// The driver only decides WHAT to call and how many of its own scheduled steps the peer performs meanwhile (k: enough for
// the call to return - arithmetic on its own plan); every logged result is what the real object returned.  TLC
// (spec/Trace_EndianSocket.tla) computes what the specification says and accepts the trace only if everything agrees.
#include "c16_sock_common.h"
#include "vrec.h"
#include <deque>
#include <signal.h>

using namespace vrec;
using namespace c16s;

static const char* TYPES[] = { "u8", "i8", "ch", "bool", "i16", "u16", "i32", "u32", "f32", "i64", "u64", "f64" };
static const char* ORDERS[] = { "BIG", "LITTLE", "NATIVE" };
static const char* TRS[] = { "pair", "tcp", "local" };

static TmpDir* g_tmpdir = 0;
static void die(const std::string& msg)
{
	fprintf(stderr, "VREC-FAIL: %s\n", msg.c_str());
	fflush(stderr);
	if (g_tmpdir) g_tmpdir->~TmpDir();
	_exit(3);
}

static const char* tf(bool b) { return b ? "true" : "false"; }

struct Episode
{
	Rng& rng;
	Log& log;
	bool avoidZero;
	Conn c;
	std::deque<Step> sched;  // planned, not yet performed (the specification's `sched`)
	bool closePlanned;       // a close step is in `sched` or has been performed
	long long delivered;     // bytes performed by the peer
	long long consumed;      // bytes the reader has taken, by the driver's bookkeeping (counts returned / sizeof(T))
	std::string stream;      // every byte planned so far (performed or not)
	unsigned calls;
	bool over;               // the reader has seen the end of the stream (error flag up)

	Episode(Rng& r, Log& l, bool az) : rng(r), log(l), avoidZero(az), closePlanned(false), delivered(0), consumed(0), calls(0), over(false) {}

	long long plannedBytes() const { return (long long)stream.size(); }
	long long availNow() const { return delivered - consumed; }
	std::string errf() { return std::string("\"e\":") + tf(c.s->error() != 0); }

	// gives the peer more steps (logged); `atLeast` more bytes unless a close is already planned
	void planMore(long long atLeast)
	{
		if (closePlanned || c.readerClosed) return;
		std::string js = "{\"op\":\"plan\",\"steps\":[";
		int nsteps = rng.range(1, 5);
		long long added = 0;
		bool first = true;
		for (int i = 0; (i < nsteps || added < atLeast) && !closePlanned; i++)
		{
			Step st;
			int k = rng.below(100);
			int len = k < 30 ? 1 : k < 70 ? rng.range(2, 9) : k < 94 ? rng.range(10, 200) : rng.range(200, 3000);
			if (added < atLeast && i >= nsteps) len = (int)(atLeast - added) / 2 + rng.range(1, 64); // do not let the schedule grow long
			for (int j = 0; j < len; j++)
			{
				int b = rng.below(100);
				st.d += (char)(b < 18 ? rng.below(2) : b < 24 ? 0 : b < 30 ? 255 : b < 36 ? 128 + rng.below(4) : rng.below(256));
			}
			sched.push_back(st);
			stream += st.d;
			added += len;
			js += std::string(first ? "" : ",") + "{\"k\":\"send\",\"d\":" + vj::codes(st.d) + "}";
			first = false;
			if (added >= atLeast && rng.chance(5))
			{
				Step cl;
				cl.close = true;
				sched.push_back(cl);
				closePlanned = true;
				js += ",{\"k\":\"close\",\"d\":[]}";
			}
		}
		log.line(js + "]}");
	}

	void perform(const Step& st)
	{
		if (!c.doStep(st)) die("harness: the peer could not send");
		delivered += (long long)st.d.size();
	}

	void peerStep()
	{
		if (sched.empty() || c.readerClosed) return;
		Step st = sched.front();
		sched.pop_front();
		perform(st);
		settle();
		log.line("{\"op\":\"peer\"}");
	}

	void settle()
	{
		c.takenTotal = consumed;
		if (!c.settle())
			die("the peer has sent " + std::to_string(c.sentTotal) + " bytes, the reader has taken " + std::to_string(consumed) + " by its own counts, but " +
			    std::to_string(c.unread()) + " bytes are pending on its descriptor");
	}

	// number of scheduled steps the peer must take for a call needing n bytes to return; -1: it would block for ever
	int stepsFor(long long n)
	{
		long long have = availNow();
		if (have >= n || c.peerClosed || c.readerClosed) return 0;
		for (size_t i = 0; i < sched.size(); i++)
		{
			if (sched[i].close) return (int)i + 1;
			have += (long long)sched[i].d.size();
			if (have >= n) return (int)i + 1;
		}
		return -1;
	}

	// makes sure a call for n bytes terminates, picks k (sometimes one step more: the peer runs ahead) and fills the helper
	int prepare(long long n, Helper& h)
	{
		if (stepsFor(n) < 0) planMore(n - (plannedBytes() - consumed));
		int k = stepsFor(n);
		if (k < 0) die("harness: cannot schedule enough bytes");
		if (k > 0 && (size_t)k < sched.size() && rng.chance(30)) k++;
		for (int i = 0; i < k; i++)
		{
			h.steps.push_back(sched.front());
			sched.pop_front();
		}
		return k;
	}

	void finish(Helper& h)
	{
		h.join();
		if (!h.ok) die("harness: the peer could not send");
		for (size_t i = 0; i < h.steps.size(); i++) delivered += (long long)h.steps[i].d.size();
	}

	// the next byte the reader will get, -1 if none is planned
	int nextByte() const { return consumed < plannedBytes() ? (unsigned char)stream[(size_t)consumed] : -1; }

	void readScalarCall()
	{
		std::string t = TYPES[rng.below(12)];
		if (t == "bool" && nextByte() > 1) t = "u8"; // only 0 and 1 are values of a bool
		int n = sizeOfType(t);
		Helper h(&c, rng.range(1, 3));
		int k = prepare(n, h);
		if (t == "bool" && nextByte() > 1) t = "u8"; // (planMore may have supplied the byte)
		if (!h.start()) die("harness: no thread");
		std::string v;
		readScalar(*c.s, t, rng.chance(50), v);
		finish(h);
		// bookkeeping of the reader's position: the call returns when n bytes were there or the peer had closed
		consumed += std::min<long long>(n, delivered - consumed);
		if (c.s->error() != 0) over = true;
		log.line("{\"op\":\"r\"," + ks("t", t) + "," + kv("k", k) + ",\"v\":" + vj::codes(v) + "," + errf() + "}");
		settle();
	}

	void readRawCall()
	{
		static const char* MODES[] = { "rp", "rb", "rstr", "skip" };
		std::string m = MODES[rng.below(4)];
		int q = rng.below(100);
		int n = q < 6 ? 0 : q < 60 ? rng.range(1, 16) : q < 92 ? rng.range(17, 300) : rng.range(301, 4000);
		if (n == 0 && avoidZero) n = 1;
		Helper h(&c, rng.range(1, 3));
		int k = prepare(n, h);
		if (!h.start()) die("harness: no thread");
		RawResult r = readRaw(*c.s, m, n);
		finish(h);
		if (!r.note.empty()) die(r.note);
		// bookkeeping of the reader's position: the call returns when n bytes were there or the peer had closed
		consumed += std::min<long long>(n, delivered - consumed);
		if (c.s->error() != 0) over = true;
		std::string js = "{" + ks("op", m) + "," + kv("n", n) + "," + kv("k", k);
		if (m == "rp") js += "," + kv("got", r.count);
		if (m != "skip") js += ",\"d\":" + vj::codes(r.d);
		log.line(js + "," + errf() + "}");
		settle();
	}

	void quietCall()
	{
		int q = rng.below(100);
		Socket& s = *c.s;
		if (q < 25)
		{
			int a = s.available();
			log.line("{\"op\":\"avail\"," + kv("r", a) + "," + errf() + "}");
		}
		else if (q < 45)
		{
			bool d = s.disconnected(), cn = s.connected();
			log.line(std::string("{\"op\":\"disc\",\"r\":") + tf(d) + ",\"c\":" + tf(cn) + "," + errf() + "}");
		}
		else if (q < 60)
		{
			bool r = s.waitInput(0);
			log.line(std::string("{\"op\":\"wi\",\"to\":0,\"k\":0,\"r\":") + tf(r) + "," + errf() + "}");
		}
		else if (q < 75)
		{
			bool r = s.waitData(0);
			log.line(std::string("{\"op\":\"wd\",\"to\":0,\"k\":0,\"r\":") + tf(r) + "," + errf() + "}");
		}
		else if (q < 90)
		{
			if (avoidZero && availNow() == 0 && !c.readerClosed) return;
			RawResult r = readRaw(s, "rall", -1);
			consumed += r.count;
			if (s.error() != 0) over = true;
			log.line("{\"op\":\"rall\",\"d\":" + vj::codes(r.d) + "," + errf() + "}");
			settle();
		}
		else if (q < 93 && !c.readerClosed && calls > 3)
		{
			s.close();
			c.readerClosed = true;
			consumed = delivered; // what was delivered and not read is gone
			over = true;
			log.line("{\"op\":\"rclose\"," + errf() + "}");
		}
		else
		{
			std::string o = ORDERS[rng.below(3)];
			s.setEndian(endianOf(o));
			log.line("{\"op\":\"set\"," + ks("o", o) + "," + errf() + "}");
		}
	}

	// waitInput(t) / waitData(t) with nothing to report yet: the peer takes its next step meanwhile
	bool waitBlockingCall()
	{
		if (availNow() != 0 || c.peerClosed || c.readerClosed || c.s->error() != 0) return false;
		if (sched.empty()) planMore(1);
		if (sched.empty()) return false;
		Helper h(&c, rng.range(1, 4));
		h.steps.push_back(sched.front());
		sched.pop_front();
		bool wi = rng.chance(50);
		if (!h.start()) die("harness: no thread");
		bool r = wi ? c.s->waitInput(20.0) : c.s->waitData(20.0);
		finish(h);
		log.line(std::string("{\"op\":\"") + (wi ? "wi" : "wd") + "\",\"to\":20,\"k\":1,\"r\":" + tf(r) + "," + errf() + "}");
		settle();
		return true;
	}

	// one episode; returns when the stream is over (and a few more calls were made) or after maxEvents
	void run(long maxEvents)
	{
		std::string tr = TRS[rng.below(3)];
		std::string why = c.open(tr, rng.below(2), *g_tmpdir);
		if (!why.empty()) die("harness: " + why);
		log.line("{\"op\":\"reset\"," + ks("tr", tr) + "}");
		long start = log.lines;
		int after = -1; // calls still to make after the end of the stream
		while (log.lines - start < maxEvents)
		{
			if (over && after < 0) after = rng.range(2, 6);
			if (after == 0) break;
			if (after > 0) after--;
			int q = rng.below(100);
			if (q < 8 && !closePlanned && sched.size() < 6) planMore(0);
			else if (q < 28 && !sched.empty()) peerStep();
			else if (q < 62) readScalarCall();
			else if (q < 80) readRawCall();
			else if (q < 86 && waitBlockingCall()) {}
			else quietCall();
			calls++;
		}
	}
};

int main(int argc, char** argv)
{
	if (!hostLittle()) { fprintf(stderr, "c16_sock_record: the trace configuration assumes Native = LITTLE\n"); return 2; }
	signal(SIGPIPE, SIG_IGN);
	Args args(argc, argv);
	TmpDir tmp;
	g_tmpdir = &tmp;
	Rng rng(args.seed);
	Log log(args.out);
	bool avoidZero = args.avoid.count("ZeroByteRead") != 0;
	while (log.lines < args.events)
	{
		alarm(600); // a reader call that never returns: the recorder dies (reported by the check)
		Episode ep(rng, log, avoidZero);
		ep.run(std::min<long>(args.events - log.lines, rng.range(30, 400)));
	}
	return 0;
}
