// C09 harness helpers: run one byte stream through the real HttpServer request reader on a socketpair and record what the
// application handler is given.  No server threads are used: ((SocketServer&)server).serve(Socket(fd)) is the seam
// (DESIGN.md 3.5); a plain pthread feeds the input (optionally in pieces) and drains whatever the server writes back, so
// the server never blocks on a full buffer, and closes its sending side when the input is through ("peer closes").
#ifndef C09_COMMON_H
#define C09_COMMON_H
#include <asl/HttpServer.h>
#include <asl/Http.h>
#include <asl/File.h>
#include <asl/Directory.h>
#include "vjson.h"
#include <sys/socket.h>
#include <sys/stat.h>
#include <unistd.h>
#include <fcntl.h>
#include <poll.h>
#include <pthread.h>
#include <errno.h>
#include <string>
#include <vector>
#include <map>
#include <time.h>

namespace c09 {

using namespace asl;

inline std::string ss(const String& s) { return std::string(*s, (size_t)(s.length() < 0 ? 0 : s.length())); }

struct Dispatch
{
	std::string method, path, qs, body, proto, res;
	long pathLen;                                            // String::length() of the path
	std::vector<std::pair<std::string, std::string> > query; // request.query()
	std::vector<std::pair<std::string, std::string> > headers; // request.headers() (library's canonical names)
	std::map<std::string, std::string> probes;               // request.header(name) for every probe name
	std::map<std::string, bool> has;
};

static inline bool containsDD(const std::string& s) { return s.find("..") != std::string::npos; }

struct RecServer : public HttpServer
{
	std::vector<Dispatch> seen;
	std::vector<std::string> probeNames;
	std::string filePath; // a request for "/f" is answered with this file (exercises the Range logic of the server loop)
	RecServer() : HttpServer(-1) {}
	void serve(HttpRequest& req, HttpResponse& res)
	{
		Dispatch d;
		d.method = ss(req.method());
		d.pathLen = req.path().length();
		d.path = std::string(*req.path(), (size_t)(d.pathLen < 0 ? 0 : d.pathLen));
		d.qs = ss(req.querystring());
		d.res = ss(req.resource());
		d.proto = ss(req.protocol());
		d.body = std::string((const char*)req.body().data(), (size_t)req.body().length());
		const Dic<>& q = req.query();
		foreach2(String & k, const String& v, q)
			d.query.push_back(std::make_pair(ss(k), ss(v)));
		const Dic<>& h = req.headers();
		foreach2(String & k2, const String& v2, h)
			d.headers.push_back(std::make_pair(ss(k2), ss(v2)));
		for (size_t i = 0; i < probeNames.size(); i++)
		{
			String n(probeNames[i].c_str());
			d.probes[probeNames[i]] = ss(req.header(n));
			d.has[probeNames[i]] = req.hasHeader(n);
		}
		seen.push_back(d);
		if (d.path == "/f" && !filePath.empty())
			res.put(File(String(filePath.c_str())));
		else
			res.put("ok");
	}
};

struct Pump
{
	int fd;
	const std::string* in;
	size_t piece;       // 0: write everything at once; else write in pieces of this many bytes
	int pauseUs;        // pause between pieces
	std::string out;    // bytes written back by the server
	bool keepOpen;      // do not shut down the sending side after the input (not used for C09: the peer always closes)
	size_t off0;        // input bytes already written before the pump started
	bool preclosed;     // ... and the sending side already shut down
	static void* run(void* p)
	{
		Pump* self = (Pump*)p;
		self->loop();
		return 0;
	}
	void loop()
	{
		size_t off = off0;
		bool wclosed = preclosed;
		int fl = fcntl(fd, F_GETFL, 0);
		fcntl(fd, F_SETFL, fl | O_NONBLOCK);
		for (;;)
		{
			if (off >= in->size() && !wclosed && !keepOpen)
			{
				shutdown(fd, SHUT_WR);
				wclosed = true;
			}
			struct pollfd pf;
			pf.fd = fd;
			pf.events = POLLIN | ((off < in->size()) ? POLLOUT : 0);
			pf.revents = 0;
			int r = poll(&pf, 1, 20000);
			if (r <= 0) break;
			if (pf.revents & POLLIN)
			{
				char b[65536];
				ssize_t n = read(fd, b, sizeof b);
				if (n > 0) out.append(b, (size_t)n);
				else if (n == 0) break;
				else if (errno != EAGAIN && errno != EINTR) break;
			}
			else if (pf.revents & (POLLHUP | POLLERR))
				break;
			if ((pf.revents & POLLOUT) && off < in->size())
			{
				size_t m = in->size() - off;
				if (piece && m > piece) m = piece;
				ssize_t n = send(fd, in->data() + off, m, MSG_NOSIGNAL);
				if (n > 0) off += (size_t)n;
				else if (n < 0 && errno != EAGAIN && errno != EINTR) { off = in->size(); }
				if (piece && pauseUs > 0 && off < in->size()) usleep((useconds_t)pauseUs);
			}
		}
	}
};

inline double nowSec()
{
	struct timespec ts;
	clock_gettime(CLOCK_MONOTONIC, &ts);
	return ts.tv_sec + ts.tv_nsec * 1e-9;
}

// Serves the byte stream with `server`; returns the wall time of serve().  `response` receives what was written back.
inline double runStream(HttpServer& server, const std::string& bytes, std::string& response, size_t piece = 0, int pauseUs = 0)
{
	int sv[2];
	if (socketpair(AF_UNIX, SOCK_STREAM, 0, sv) != 0) { perror("socketpair"); _exit(2); }
	Pump pump;
	pump.fd = sv[0];
	pump.in = &bytes;
	pump.piece = piece;
	pump.pauseUs = pauseUs;
	pump.keepOpen = false;
	pump.off0 = 0;
	pump.preclosed = false;
	if (piece == 0 && bytes.size() <= 60000)
	{
		// deterministic mode: the whole input is in the socket buffer and the peer has closed before the server looks
		if (!bytes.empty() && send(sv[0], bytes.data(), bytes.size(), MSG_NOSIGNAL) != (ssize_t)bytes.size()) { perror("send"); _exit(2); }
		shutdown(sv[0], SHUT_WR);
		pump.off0 = bytes.size();
		pump.preclosed = true;
	}
	pthread_t th;
	if (pthread_create(&th, 0, Pump::run, &pump) != 0) { perror("pthread_create"); _exit(2); }
	double t0 = nowSec();
	{
		Socket client(sv[1]);
		((SocketServer&)server).serve(client);
		client.close(); // what SockClientThread::run does after serve()
	}
	double dt = nowSec() - t0;
	pthread_join(th, 0);
	close(sv[0]);
	response.swap(pump.out);
	return dt;
}

}
#endif
