// C19 recorder (V): seeded random driver of asl::Date that logs one ndjson event per public call;
// spec/Trace_Calendar.tla validates the log with the operators of spec/Calendar.tla (which decide what the fields,
// texts and readings must be).  Nothing here computes an expected value: instants are drawn as (day, second, us),
// turned into the double a Date holds, and whatever the library returns is logged.
//
// Instants are biased towards the edges of the calendar arithmetic (year / century / 400-year block edges, the
// 1904..2099 fast path limits, leap days, first/last second of a day) and include instants off the millisecond grid.
// Strings for Date(String) are (a) well-formed ISO 8601 / HTTP date-times with all zone variants and 0..9 fraction
// digits, (b) one- or two-character mutations and truncations of those, (c) random strings over the alphabet of the
// property (digits T Z : - + . letters space) up to length 40.  Date(text, format) gets formats with number
// placeholders, literals and '?' wildcards and texts that match, are mutated, or end before the format does.
// --avoid <hazards>: SubMsBeforeMidnight (no instants less than 0.5 ms before midnight), PatternWildcardPastEnd (no text
// on which a '?' of the format would have to match beyond the end of the text).
#include <asl/Date.h>
#include <asl/String.h>
#include "vrec.h"
#include <cmath>
#include <string>

using namespace asl;
using namespace vrec;

static const long long DN_MIN = -719162, DN_MAX = 2932896; // 0001-01-01 .. 9999-12-31

struct Inst { long long dn; int sod; int us; };

static double toDouble(const Inst& i) { return (double)i.dn * 86400.0 + (double)i.sod + (double)i.us / 1e6; }

// projection of the double a Date holds: day, second of day, microsecond (nearest)
static bool project(double t, Inst& o)
{
	if (t != t || fabs(t) > 1e14) return false;
	double dn = floor(t / 86400.0);
	double rem = t - dn * 86400.0;
	if (rem < 0) { dn -= 1; rem += 86400.0; }
	if (rem >= 86400.0) { dn += 1; rem -= 86400.0; }
	double sod = floor(rem);
	long long us = (long long)floor((rem - sod) * 1e6 + 0.5);
	long long s = (long long)sod, d = (long long)dn;
	if (us >= 1000000) { us -= 1000000; s++; }
	if (s >= 86400) { s -= 86400; d++; }
	o.dn = d; o.sod = (int)s; o.us = (int)us;
	return true;
}

static std::string j3(const Inst& i)
{
	char b[96];
	snprintf(b, sizeof b, "[%lld,%d,%d]", i.dn, i.sod, i.us);
	return b;
}

static bool leap(int y) { return (y % 4 == 0 && y % 100 != 0) || y % 400 == 0; }
static int dim(int y, int m) { static const int d[] = {31, 28, 31, 30, 31, 30, 31, 31, 30, 31, 30, 31}; return m == 2 && leap(y) ? 29 : d[m - 1]; }

struct Gen
{
	Rng& rng;
	bool avoidSubMs;
	Gen(Rng& r, bool a) : rng(r), avoidSubMs(a) {}

	// input generation only: a day number near the first day of a "round" year (never used as an expected value)
	long long nearYearEdge()
	{
		static const int ys[] = {1, 2, 4, 5, 100, 101, 400, 401, 1000, 1600, 1601, 1700, 1800, 1900, 1901, 1904, 1905, 1970, 1972,
		                         2000, 2001, 2038, 2096, 2099, 2100, 2101, 2200, 2400, 2401, 4000, 8000, 9600, 9900, 9999, 10000};
		int y = ys[rng.below(sizeof ys / sizeof ys[0])];
		if (rng.chance(30)) y = rng.range(1, 9999);
		long long yy = y - 1;
		long long d = 365 * yy + yy / 4 - yy / 100 + yy / 400 + DN_MIN; // some day close to Jan 1 of y
		d += rng.chance(50) ? rng.range(-2, 2) : rng.range(57, 61);     // around new year or around the end of February
		if (d < DN_MIN) d = DN_MIN;
		if (d > DN_MAX) d = DN_MAX;
		return d;
	}
	Inst instant()
	{
		Inst i;
		if (rng.chance(45)) i.dn = nearYearEdge();
		else if (rng.chance(30)) i.dn = rng.range(-25000, 48000);   // 1901..2101 (the fast path and its limits)
		else i.dn = DN_MIN + (long long)(rng.next() % (uint64_t)(DN_MAX - DN_MIN + 1));
		static const int ss[] = {0, 1, 59, 60, 61, 3599, 3600, 43199, 43200, 86340, 86398, 86399, 86399, 86399};
		i.sod = rng.chance(60) ? ss[rng.below(sizeof ss / sizeof ss[0])] : rng.below(86400);
		int r = rng.below(100);
		if (r < 55) i.us = 0;
		else if (r < 75) i.us = 1000 * (rng.chance(40) ? (rng.chance(50) ? 999 : 1) : rng.below(1000));
		else
		{
			// off the millisecond grid, at least 150 us away from the rounding boundary x.xxx5
			int ms = rng.chance(50) ? 999 : rng.below(1000);
			int sub = rng.chance(50) ? rng.range(650, 999) : rng.range(1, 350);
			i.us = ms * 1000 + sub;
			// open finding SubMsBeforeMidnight: exactly the instants less than 0.5 ms before midnight are not generated
			if (avoidSubMs && i.sod == 86399 && i.us >= 999500) i.us = 999000 + rng.range(1, 350);
		}
		return i;
	}

	std::string zone(int& variant)
	{
		variant = rng.below(5);
		int a = rng.chance(30) ? 60 * rng.below(24) : rng.below(1440);
		char sign = rng.chance(50) ? '+' : '-';
		char b[16];
		switch (variant)
		{
		case 0: return "Z";
		case 1: snprintf(b, sizeof b, "%c%02d:%02d", sign, a / 60, a % 60); return b;
		case 2: snprintf(b, sizeof b, "%c%02d%02d", sign, a / 60, a % 60); return b;
		case 3: snprintf(b, sizeof b, "%c%02d", sign, a / 60); return b;
		}
		return rng.chance(50) ? "" : "z";
	}
	std::string isoText()
	{
		int y = rng.chance(20) ? rng.range(1, 9999) : rng.range(1890, 2110);
		if (rng.chance(4)) y = rng.chance(50) ? 1 : 9999;
		int m = rng.range(1, 12);
		int d = rng.chance(25) ? dim(y, m) : rng.chance(20) ? 1 : rng.range(1, dim(y, m));
		if (rng.chance(3)) d = rng.range(29, 32);      // possibly not a date
		if (rng.chance(2)) m = rng.range(0, 13);
		int h = rng.chance(30) ? (rng.chance(50) ? 0 : 23) : rng.below(24), mi = rng.chance(30) ? (rng.chance(50) ? 0 : 59) : rng.below(60),
		    s = rng.chance(30) ? (rng.chance(50) ? 0 : 59) : rng.below(60);
		if (rng.chance(2)) h = 24;
		if (rng.chance(2)) s = 60;
		bool basic = rng.chance(40);
		int tform = rng.below(10); // 0-1: hh:mm, 2-5: hh:mm:ss, 6-9: with fraction
		char b[64];
		std::string t;
		snprintf(b, sizeof b, basic ? "%04d%02d%02dT%02d%02d" : "%04d-%02d-%02dT%02d:%02d", y, m, d, h, mi);
		t = b;
		if (tform >= 2) { snprintf(b, sizeof b, basic ? "%02d" : ":%02d", s); t += b; }
		if (tform >= 6)
		{
			t += '.';
			int n = rng.chance(10) ? rng.range(10, 12) : rng.range(1, 9);
			if (rng.chance(3)) n = 0;
			for (int k = 0; k < n; k++) t += (char)('0' + (rng.chance(25) ? 9 : rng.chance(25) ? 0 : rng.below(10)));
		}
		int v;
		t += zone(v);
		return t;
	}
	std::string httpText()
	{
		Inst i = instant();
		i.us = 0;
		String s = Date(toDouble(i)).toUTCString(Date::HTTP); // input generation: any text will do
		std::string t(*s, (size_t)s.length());
		if (rng.chance(15) && t.size() > 3) { static const char* wd[] = {"Sun", "Mon", "Tue", "Wed", "Thu", "Fri", "Sat"}; t.replace(0, 3, wd[rng.below(7)]); }
		return t;
	}
	static const char* alphabet() { return "0123456789TZ:-+. 0123456789abcdefghijklmnopqrstuvwxyzABCDEFGHIJKLMNOPQRSUVWXY,GMT"; }
	char randomChar()
	{
		const char* a = alphabet();
		return a[rng.below((int)strlen(a))];
	}
	std::string mutate(std::string t)
	{
		int n = rng.chance(70) ? 1 : 2;
		for (int k = 0; k < n; k++)
		{
			int op = rng.below(4);
			size_t p = t.empty() ? 0 : (size_t)rng.below((int)t.size());
			if (op == 0 && !t.empty()) t[p] = randomChar();
			else if (op == 1 && !t.empty()) t.erase(p, 1);
			else if (op == 2) t.insert(p, 1, randomChar());
			else if (!t.empty()) t.resize(p);
		}
		return t;
	}
	// --- format-driven reading: Date(text, format) ---
	std::string patFormat()
	{
		static const char* fs[] = {"Y-M-D h:m:s", "D/M/Y?h:m", "Y?M?D", "h:m:s D.M.Y", "Y-M-D?????????Z", "??Y-M-DTh:m", "YMD", "D.M.Y", "Y/M/D h:m",
		                           "Y-M-DTh:m:sZ", "?Y?M?D?", "D M Y ????", "Yx Mx D"};
		std::string f = fs[rng.below(sizeof fs / sizeof fs[0])];
		if (rng.chance(15)) { int n = rng.range(1, 12); f += std::string((size_t)n, '?'); if (rng.chance(50)) f += rng.chance(50) ? "s" : "Z"; }
		return f;
	}
	std::string patText(const std::string& f)
	{
		int y = rng.chance(30) ? rng.range(1, 9999) : rng.range(1890, 2110), m = rng.range(1, 12);
		int v[6] = {y, m, rng.chance(10) ? rng.range(29, 31) : rng.range(1, dim(y, m)), rng.below(24), rng.below(60), rng.below(60)};
		bool padded = rng.chance(60);
		std::string t;
		char b[16];
		for (size_t k = 0; k < f.size(); k++)
		{
			const char* ix = strchr("YMDhms", f[k]);
			if (ix && f[k]) { snprintf(b, sizeof b, padded ? (f[k] == 'Y' ? "%04d" : "%02d") : "%d", v[ix - "YMDhms"]); t += b; }
			else t += f[k] == '?' ? randomChar() : f[k];
		}
		int r = rng.below(100);
		if (r < 25 && !t.empty()) t.resize((size_t)rng.below((int)t.size() + 1));      // ends before the format does
		else if (r < 40) t = mutate(t);
		return t;
	}
	// hazard PatternWildcardPastEnd evaluated on the input (only used to avoid it while it is an open finding)
	static bool wildcardPastEnd(const std::string& t, const std::string& f)
	{
		size_t pt = 0;
		for (size_t pf = 0; pf < f.size(); pf++)
		{
			if (strchr("YMDhms", f[pf])) { while (pt < t.size() && t[pt] >= '0' && t[pt] <= '9') pt++; }
			else if (pt >= t.size()) return f[pf] == '?' && pf + 1 < f.size();
			else if (f[pf] == '?' || t[pt] == f[pf]) pt++;
			else return false;
		}
		return false;
	}

	std::string text()
	{
		int r = rng.below(100);
		if (r < 40) return isoText();
		if (r < 50) return httpText();
		if (r < 75) return mutate(isoText());
		if (r < 85) return mutate(httpText());
		int n = rng.range(0, 40);
		std::string t;
		for (int k = 0; k < n; k++) t += randomChar();
		return t;
	}
};

int main(int argc, char** argv)
{
	Args args(argc, argv);
	Rng rng(args.seed);
	Log log(args.out);
	Gen gen(rng, args.avoid.count("SubMsBeforeMidnight") > 0);
	static const char* fmtName[] = {"LONG", "SHORT", "FULL", "HTTP"};
	static const Date::Format fmtVal[] = {Date::LONG, Date::SHORT, Date::FULL, Date::HTTP};
	log.line("{\"e\":\"reset\"}");
	for (long n = 1; n < args.events; n++)
	{
		int r = rng.below(100);
		if (r < 30)
		{
			Inst want = gen.instant(), i;
			double t = toDouble(want);
			if (!project(t, i)) continue;
			DateData p = Date(t).splitUTC();
			char b[160];
			snprintf(b, sizeof b, "{\"e\":\"split\",\"i\":%s,\"f\":[%d,%d,%d,%d,%d,%d,%d]}", j3(i).c_str(), p.year, p.month, p.day, p.hours,
			         p.minutes, p.seconds, p.weekDay);
			log.line(b);
		}
		else if (r < 40)
		{
			int y = rng.chance(50) ? rng.range(1, 9999) : rng.range(1890, 2110), m = rng.range(1, 12);
			int d = rng.chance(30) ? dim(y, m) : rng.range(1, dim(y, m));
			int h = rng.below(24), mi = rng.below(60), s = rng.below(60);
			Date c(Date::UTC, y, m, d, h, mi, s);
			Inst i;
			char b[160];
			if (!project(c.time(), i))
				snprintf(b, sizeof b, "{\"e\":\"make\",\"f\":[%d,%d,%d,%d,%d,%d],\"i\":[0,0,-1]}", y, m, d, h, mi, s);
			else
				snprintf(b, sizeof b, "{\"e\":\"make\",\"f\":[%d,%d,%d,%d,%d,%d],\"i\":%s}", y, m, d, h, mi, s, j3(i).c_str());
			log.line(b);
		}
		else if (r < 56)
		{
			Inst want = gen.instant(), i;
			if (want.dn == DN_MAX && want.sod == 86399 && want.us >= 999500) want.us = 0; // would round into year 10000
			double t = toDouble(want);
			if (!project(t, i)) continue;
			int k = rng.below(4);
			String s = Date(t).toUTCString(fmtVal[k]);
			log.line("{\"e\":\"text\",\"i\":" + j3(i) + ",\"fmt\":\"" + fmtName[k] + "\",\"t\":" + vj::codes(std::string(*s, (size_t)s.length())) + "}");
		}
		else if (r < 68)
		{
			std::string f = gen.patFormat(), t = gen.patText(f);
			if (args.avoid.count("PatternWildcardPastEnd") && Gen::wildcardPastEnd(t, f)) continue;
			Date d(String(t.c_str(), (int)t.size()), String(f.c_str(), (int)f.size()));
			Inst i;
			double v = d.time();
			int ok = (v != v) ? 0 : project(v, i) ? 1 : 2;
			if (ok != 1) { i.dn = 0; i.sod = 0; i.us = 0; }
			log.line("{\"e\":\"pread\",\"t\":" + vj::codes(t) + ",\"f\":" + vj::codes(f) + ",\"ok\":" + std::to_string(ok) + ",\"i\":" + j3(i) + "}");
		}
		else
		{
			std::string t = gen.text();
			Date d(String(t.c_str(), (int)t.size()));
			Inst i;
			double v = d.time();
			int ok = (v != v) ? 0 : project(v, i) ? 1 : 2;
			if (ok != 1) { i.dn = 0; i.sod = 0; i.us = 0; }
			log.line("{\"e\":\"read\",\"t\":" + vj::codes(t) + ",\"ok\":" + std::to_string(ok) + ",\"i\":" + j3(i) + "}");
		}
	}
	return 0;
}
