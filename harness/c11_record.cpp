// C11 recorder (V): seeded random driver of asl::WebSocket / WebSocketServer; one ndjson line per event, validated by
// spec/Trace_WsFrame.tla:
//   send   the library (either role) sends a (len, seed) message; the raw bytes it wrote are captured on the socketpair
//          (whole wire for small messages, the first bytes + sampled positions for large ones)
//   psend / precv   a library client and a library server talk to each other over a socketpair (a plain pthread runs one
//          side): what was sent (len, 64-bit hash) and what receive() returned, per direction, in program order
//   rx     a random frame stream written by this file's own RFC 6455 framer (long payloads, up to 4 fragments, pings in
//          between, random cut) is fed to the library's receiver: the bytes and the deliveries are logged; the
//          specification's recognizer decides what the deliveries must be
//   hs     upgrade request with a random key -> WebSocketServer::serve(Socket): key and returned accept value
//   hsc    WebSocket::connect against a raw listener: the request bytes the client wrote
// Lengths are biased to the 125/126 and 65535/65536 header boundaries; --mode 1 (thorough) adds messages up to 4 MiB.
#include "c11_conn.h"
#include "vrec.h"
#include <signal.h>

using namespace c11;
using namespace vrec;

static Rng* R;
static Log* LOG;
static pthread_mutex_t logMutex = PTHREAD_MUTEX_INITIALIZER;
static int g_mode = 0;
static int g_minPing = 0; // 1 while the finding EmptyPingNoPong is open: no ping without payload is generated

static void logLine(const std::string& s)
{
	pthread_mutex_lock(&logMutex);
	LOG->line(s);
	pthread_mutex_unlock(&logMutex);
}

static long pickLen(Rng& r, bool allowHuge)
{
	int k = r.below(100);
	if (k < 20) return r.range(1, 16);
	if (k < 45) return r.range(120, 132);
	if (k < 70) return r.range(65528, 65544);
	if (k < 80) return r.range(1, 2000);
	if (k < 95 || !allowHuge) return r.range(1, 70000);
	if (k < 98) return r.range(70000, 1 << 20);
	return r.range(1 << 20, 4 << 20);
}

static std::string limbs(unsigned long long h)
{
	char b[96];
	snprintf(b, sizeof b, "[%llu,%llu,%llu,%llu]", (h >> 48) & 0xffff, (h >> 32) & 0xffff, (h >> 16) & 0xffff, h & 0xffff);
	return b;
}

// ---- send: capture what the library writes -----------------------------------------------------------------------------
static void evSend()
{
	bool libIsClient = R->chance(50);
	int op = R->chance(50) ? 1 : 2;
	long len = pickLen(*R, g_mode == 1);
	long seed = R->below(256);
	std::string payload;
	expand(payload, len, seed);
	Link link;
	link.open("", false);
	{
		WebSocket ws(Socket(link.libFd()), libIsClient);
		if (op == 2) ws.send(ByteArray((const byte*)payload.data(), (int)payload.size()));
		else ws.send((const byte*)payload.data(), (int)payload.size(), WebSocket::FRAME_TEXT);
		ws.close();
	}
	std::string wire = link.finish();
	std::string s = std::string("{\"e\":\"send\",\"role\":\"") + (libIsClient ? "c" : "s") + "\"," + kv("op", op) + "," + kv("len", len) + "," + kv("seed", seed) +
	                "," + kv("wn", (long long)wire.size());
	if (wire.size() <= 400)
		s += ",\"whole\":true,\"pre\":" + vj::codes(wire) + ",\"samp\":[]";
	else
	{
		s += ",\"whole\":false,\"pre\":" + vj::codes(wire.substr(0, 14)) + ",\"samp\":[";
		for (int i = 0; i < 40; i++)
		{
			size_t pos = i < 4 ? wire.size() - 1 - (size_t)i : i < 12 ? (size_t)(14 + i) : 14 + (size_t)R->below((int)wire.size() - 14);
			char b[48];
			snprintf(b, sizeof b, "%s[%zu,%d]", i ? "," : "", pos + 1, (int)(unsigned char)wire[pos]);
			s += b;
		}
		s += "]";
	}
	logLine(s + "}");
}

// ---- pair: library client <-> library server -----------------------------------------------------------------------------
struct PairSide
{
	WebSocket* ws;
	const char* sendDir;
	const char* recvDir;
	std::vector<std::pair<long, long> > toSend; // (len, seed)
	int toReceive;
	bool sendFirst;
	bool failed;
	void sendAll()
	{
		for (size_t i = 0; i < toSend.size(); i++)
		{
			std::string p;
			expand(p, toSend[i].first, toSend[i].second);
			logLine(std::string("{\"e\":\"psend\",\"dir\":\"") + sendDir + "\"," + kv("len", toSend[i].first) + ",\"h\":" + limbs(fnv64((const unsigned char*)p.data(), p.size())) + "}");
			if (i % 2) ws->send(ByteArray((const byte*)p.data(), (int)p.size()));
			else ws->send((const byte*)p.data(), (int)p.size(), WebSocket::FRAME_TEXT);
		}
	}
	void recvAll()
	{
		int got = 0, calls = 0;
		while (got < toReceive && !ws->closed() && calls++ < 10000)
		{
			WebSocketMsg m = ws->receive();
			int n = m.length();
			if (n == 0) continue;
			got++;
			unsigned long long h = n > 0 ? fnv64((const unsigned char*)*m, (size_t)n) : 0;
			logLine(std::string("{\"e\":\"precv\",\"dir\":\"") + recvDir + "\"," + kv("len", n) + ",\"h\":" + limbs(h) + "}");
			if (n < 0) { failed = true; return; }
		}
	}
	static void* run(void* p)
	{
		PairSide* s = (PairSide*)p;
		if (s->sendFirst) { s->sendAll(); s->recvAll(); }
		else { s->recvAll(); s->sendAll(); }
		return 0;
	}
};

static void evPair()
{
	int sv[2];
	if (socketpair(AF_UNIX, SOCK_STREAM, 0, sv) != 0) { perror("socketpair"); exit(2); }
	logLine("{\"e\":\"pairbegin\"}");
	{
		WebSocket client(Socket(sv[0]), true), server(Socket(sv[1]), false);
		PairSide a, b;
		a.ws = &client; a.sendDir = "cs"; a.recvDir = "sc"; a.sendFirst = true; a.failed = false;
		b.ws = &server; b.sendDir = "sc"; b.recvDir = "cs"; b.sendFirst = false; b.failed = false;
		int n1 = R->range(1, 6), n2 = R->range(1, 6);
		for (int i = 0; i < n1; i++) a.toSend.push_back(std::make_pair(pickLen(*R, g_mode == 1), (long)R->below(256)));
		for (int i = 0; i < n2; i++) b.toSend.push_back(std::make_pair(pickLen(*R, g_mode == 1), (long)R->below(256)));
		a.toReceive = n2;
		b.toReceive = n1;
		pthread_t th;
		if (pthread_create(&th, 0, PairSide::run, &a) != 0) { perror("pthread_create"); exit(2); }
		PairSide::run(&b);
		pthread_join(th, 0);
		client.close();
		server.close();
	}
	logLine("{\"e\":\"pairend\"}");
}

// ---- rx: random frame streams from an independent framer into the library's receiver ----------------------------------------
static void putFrame(std::string& w, bool fin, int op, bool masked, const std::string& pl)
{
	w += (char)((fin ? 0x80 : 0) | op);
	size_t n = pl.size();
	unsigned char m = masked ? 0x80 : 0;
	if (n < 126) w += (char)(m | n);
	else if (n < 65536) { w += (char)(m | 126); w += (char)(n >> 8); w += (char)(n & 255); }
	else { w += (char)(m | 127); for (int i = 7; i >= 0; i--) w += (char)((i >= 4) ? 0 : (n >> (8 * i)) & 255); }
	if (masked)
	{
		unsigned char key[4];
		for (int i = 0; i < 4; i++) key[i] = R->chance(25) ? 0 : (unsigned char)R->below(256);
		w.append((const char*)key, 4);
		for (size_t i = 0; i < n; i++) w += (char)(pl[i] ^ key[i % 4]);
	}
	else
		w += pl;
}

static void evRx()
{
	bool libIsClient = R->chance(50);
	bool masked = !libIsClient;
	std::string w;
	int nmsg = R->range(1, 4);
	for (int i = 0; i < nmsg; i++)
	{
		long len = R->chance(60) ? R->range(1, 300) : R->chance(50) ? R->range(120, 132) : R->range(1, 1500);
		std::string p;
		expand(p, len, R->below(256));
		int nfr = R->chance(50) ? 1 : R->range(2, 4);
		size_t off = 0;
		for (int f = 0; f < nfr; f++)
		{
			size_t n = (f == nfr - 1) ? p.size() - off : (size_t)R->below((int)(p.size() - off) + 1);
			putFrame(w, f == nfr - 1, f == 0 ? (i % 2 ? 2 : 1) : 0, masked, p.substr(off, n));
			off += n;
			if (f < nfr - 1 && R->chance(40))
			{
				std::string pp;
				expand(pp, g_minPing + R->below(5), 7);
				putFrame(w, true, R->chance(70) ? 9 : 10, masked, pp);
			}
		}
		if (R->chance(25)) { std::string pp; expand(pp, g_minPing + R->below(125), 3); putFrame(w, true, R->chance(50) ? 9 : 10, masked, pp); }
	}
	if (R->chance(50)) { std::string cl = std::string("\x03\xe8", 2) + (R->chance(50) ? "" : "bye"); putFrame(w, true, 8, masked, R->chance(20) ? std::string() : cl); }
	if (R->chance(30)) w.resize((size_t)R->below((int)w.size() + 1));
	Link link;
	link.open(w, true, R->chance(50) ? 0 : (size_t)R->range(1, 200));
	Received rx;
	{
		WebSocket ws(Socket(link.libFd()), libIsClient);
		receiveAll(ws, rx);
		ws.close();
	}
	std::string reply = link.finish();
	std::string s = std::string("{\"e\":\"rx\",\"role\":\"") + (libIsClient ? "c" : "s") + "\",\"w\":" + vj::codes(w) + ",\"neg\":" + (rx.negative ? "true" : "false") +
	                ",\"fail\":" + ((rx.badAlloc || rx.runaway) ? "true" : "false") + ",\"d\":[";
	for (size_t i = 0; i < rx.msgs.size(); i++) s += (i ? "," : "") + vj::codes(rx.msgs[i]);
	s += "],\"reply\":" + (libIsClient ? std::string("[]") : vj::codes(reply)) + "," + kv("rn", (long long)reply.size()) + "}";
	logLine(s);
}

// ---- hs: server handshake with a random key --------------------------------------------------------------------------------
struct QuietServer : public WebSocketServer
{
	void serve(WebSocket& ws) { Received r; receiveAll(ws, r); }
};

static void evHs()
{
	static const char b64[] = "ABCDEFGHIJKLMNOPQRSTUVWXYZabcdefghijklmnopqrstuvwxyz0123456789+/";
	std::string key;
	for (int i = 0; i < 22; i++) key += b64[R->below(64)];
	key += "==";
	bool lowerNames = R->chance(30);
	std::string req = "GET /x HTTP/1.1\r\nHost: h\r\n";
	req += lowerNames ? "upgrade: websocket\r\nconnection: Upgrade\r\nsec-websocket-key: " : "Upgrade: websocket\r\nConnection: keep-alive, Upgrade\r\nSec-WebSocket-Key: ";
	req += key + "\r\nSec-WebSocket-Version: 13\r\n\r\n";
	Link link;
	link.open(req);
	QuietServer srv;
	{
		Socket s(link.libFd());
		((SocketServer&)srv).serve(s);
		s.close();
	}
	std::string resp = link.finish();
	logLine("{\"e\":\"hs\",\"key\":" + vj::codes(key) + ",\"resp\":" + vj::codes(resp) + "}");
}

// ---- hsc: client handshake against a raw listener -----------------------------------------------------------------------------
struct Listener
{
	int lfd, port;
	std::string request;
	pthread_t th;
	static void* run(void* p)
	{
		Listener* self = (Listener*)p;
		int fd = accept(self->lfd, 0, 0);
		if (fd < 0) return 0;
		char b[4096];
		while (self->request.find("\r\n\r\n") == std::string::npos)
		{
			ssize_t n = read(fd, b, sizeof b);
			if (n <= 0) break;
			self->request.append(b, (size_t)n);
		}
		// (the accept value of the key the client sent: independent SHA-1 / Base64 of c11_conn.h, itself validated by the chs events)
		std::string resp = "HTTP/1.1 101 Switching Protocols\r\nUpgrade: websocket\r\nConnection: Upgrade\r\nSec-WebSocket-Accept: " +
		                   acceptFor(headValue(self->request, "sec-websocket-key")) + "\r\n\r\n";
		if (send(fd, resp.data(), resp.size(), MSG_NOSIGNAL) < 0) {}
		shutdown(fd, SHUT_WR);
		while (read(fd, b, sizeof b) > 0) {}
		close(fd);
		return 0;
	}
};

static void evHsc()
{
	Listener L;
	L.lfd = socket(AF_INET, SOCK_STREAM, 0);
	sockaddr_in a;
	memset(&a, 0, sizeof a);
	a.sin_family = AF_INET;
	a.sin_addr.s_addr = htonl(INADDR_LOOPBACK);
	if (L.lfd < 0 || bind(L.lfd, (sockaddr*)&a, sizeof a) != 0 || listen(L.lfd, 1) != 0) { perror("listen"); exit(2); }
	socklen_t n = sizeof a;
	getsockname(L.lfd, (sockaddr*)&a, &n);
	L.port = ntohs(a.sin_port);
	if (pthread_create(&L.th, 0, Listener::run, &L) != 0) { perror("pthread_create"); exit(2); }
	bool ok;
	{
		WebSocket ws;
		char url[96];
		snprintf(url, sizeof url, "ws://127.0.0.1:%d/p%d", L.port, R->below(100));
		ok = ws.connect(url);
		ws.close();
	}
	pthread_join(L.th, 0);
	close(L.lfd);
	logLine("{\"e\":\"hsc\",\"ok\":" + std::string(ok ? "true" : "false") + "," + kv("port", L.port) + ",\"req\":" + vj::codes(L.request) + "}");
}

static void onAlarm(int)
{
	const char m[] = "\nc11_record: an exchange did not finish within 60 s\n";
	if (write(2, m, sizeof m - 1)) {}
	_exit(96);
}

int main(int argc, char** argv)
{
	Args args(argc, argv);
	Rng rng(args.seed);
	R = &rng;
	Log log(args.out);
	LOG = &log;
	g_mode = args.mode;
	g_minPing = args.avoid.count("EmptyPingNoPong") ? 1 : 0;
	signal(SIGPIPE, SIG_IGN);
	signal(SIGALRM, onAlarm);
	logLine("{\"e\":\"reset\"}");
	while (log.lines < args.events)
	{
		alarm(60);
		int k = rng.below(100);
		if (k < 35) evSend();
		else if (k < 50) evPair();
		else if (k < 85) evRx();
		else if (k < 95) evHs();
		else evHsc();
		alarm(0);
	}
	return 0;
}
