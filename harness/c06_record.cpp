// C06 recorder (V): seeded random driver of the real decoder.  Source documents come from two grammar walkers (RFC 8259
// with every lexical liberty; the XDL dialect), then each is mutated (truncation, deletion, duplication, splicing with
// another document, byte flips, insertions) and raw random byte strings are added.  Every text is decoded whole and fed to
// the incremental XdlParser in many partitions; one ndjson line per text is written and spec/Trace_JsonTextDec.tla
// classifies it with the strict recognizer (valid => value must match; truncated inside a container/string => must be
// rejected; otherwise only agreement of all partitions).  The recorder itself has no expectations: it executes, projects
// and logs.  Memory errors / hangs are observed (ASan, time limit of the check).
#include "c06_common.h"
#include "vrec.h"

using namespace vrec;
using namespace asl;

struct Gen
{
	Rng& r;
	int keyc;
	explicit Gen(Rng& rr) : r(rr), keyc(0) {}

	std::string ws()
	{
		static const char* w[] = { "", "", "", " ", "\n", "\t", "\r\n", "  ", " \n\t" };
		return w[r.below(9)];
	}
	std::string digits(int n, bool nonzeroFirst)
	{
		std::string s;
		for (int i = 0; i < n; i++) s += (char)('0' + (i == 0 && nonzeroFirst ? r.range(1, 9) : r.below(10)));
		return s;
	}
	std::string number()
	{
		std::string s;
		if (r.chance(30)) s += '-';
		int k = r.below(100);
		if (k < 8) s += "0";
		else if (k < 60) s += digits(r.range(1, 9), true);
		else if (k < 75) s += digits(r.range(10, 12), true);
		else if (k < 80) s += r.chance(50) ? "2147483647" : "2147483648";
		else s += digits(r.range(13, 20), true);
		if (r.chance(35)) s += "." + digits(r.range(1, r.chance(20) ? 18 : 4), false);
		if (r.chance(25))
		{
			s += r.chance(50) ? 'e' : 'E';
			int sg = r.below(3);
			if (sg == 1) s += '+';
			if (sg == 2) s += '-';
			if (r.chance(8)) s += std::to_string(r.range(200, 290));       // close to the ends of the double range
			else if (r.chance(10)) s += "0" + std::to_string(r.below(10)); // leading zero in the exponent
			else s += std::to_string(r.below(25));
		}
		return s;
	}
	void utf8(std::string& s, unsigned cp)
	{
		if (cp < 0x80) s += (char)cp;
		else if (cp < 0x800) { s += (char)(0xC0 | (cp >> 6)); s += (char)(0x80 | (cp & 63)); }
		else if (cp < 0x10000) { s += (char)(0xE0 | (cp >> 12)); s += (char)(0x80 | ((cp >> 6) & 63)); s += (char)(0x80 | (cp & 63)); }
		else { s += (char)(0xF0 | (cp >> 18)); s += (char)(0x80 | ((cp >> 12) & 63)); s += (char)(0x80 | ((cp >> 6) & 63)); s += (char)(0x80 | (cp & 63)); }
	}
	unsigned scalar()
	{
		for (;;)
		{
			int k = r.below(10);
			unsigned cp = k < 4 ? (unsigned)r.range(0x80, 0x7ff) : k < 8 ? (unsigned)r.range(0x800, 0xffff) : (unsigned)r.range(0x10000, 0x10ffff);
			if (cp >= 0xd800 && cp <= 0xdfff) continue;
			return cp;
		}
	}
	std::string str(int maxlen)
	{
		std::string s = "\"";
		int n = r.below(maxlen + 1);
		for (int i = 0; i < n; i++)
		{
			int k = r.below(100);
			if (k < 45) s += (char)r.range('a', 'z');
			else if (k < 60)
			{
				static const char pl[] = " /*[]{},:='#0123456789-+.eEYN_$\x7f";
				s += pl[r.below((int)sizeof pl - 1)];
			}
			else if (k < 72)
			{
				static const char* esc[] = { "\\\"", "\\\\", "\\/", "\\b", "\\f", "\\n", "\\r", "\\t" };
				s += esc[r.below(8)];
			}
			else if (k < 84) utf8(s, scalar());
			else
			{
				unsigned cp = r.chance(30) ? (unsigned)r.range(1, 0x7f) : scalar();
				char b[16];
				const char* fmt = r.chance(50) ? "\\u%04x" : "\\u%04X";
				if (cp >= 0x10000)
				{
					unsigned v = cp - 0x10000;
					snprintf(b, sizeof b, fmt, 0xd800 + (v >> 10));
					s += b;
					snprintf(b, sizeof b, fmt, 0xdc00 + (v & 0x3ff));
					s += b;
				}
				else
				{
					snprintf(b, sizeof b, fmt, cp);
					s += b;
				}
			}
		}
		return s + "\"";
	}
	std::string value(int depth)
	{
		int k = r.below(100);
		if (depth <= 0 || k < 45)
		{
			int q = r.below(100);
			if (q < 40) return number();
			if (q < 75) return str(r.chance(10) ? 40 : 8);
			if (q < 85) return "true";
			if (q < 93) return "false";
			return "null";
		}
		if (k < 75)
		{
			std::string s = "[";
			int n = r.chance(15) ? 0 : r.range(1, r.chance(10) ? 14 : 4);
			for (int i = 0; i < n; i++)
			{
				if (i) s += ",";
				s += ws() + value(depth - 1) + ws();
			}
			if (n == 0) s += ws();
			return s + "]";
		}
		std::string s = "{";
		int n = r.chance(15) ? 0 : r.range(1, 4);
		for (int i = 0; i < n; i++)
		{
			if (i) s += ",";
			std::string key = str(5);
			key.insert(key.size() - 1, std::to_string(keyc++)); // distinct keys
			s += ws() + key + ws() + ":" + ws() + value(depth - 1) + ws();
		}
		if (n == 0) s += ws();
		return s + "}";
	}
	std::string json() { return ws() + value(r.range(0, 5)) + ws(); }

	// ---- XDL dialect ----
	std::string ident()
	{
		std::string s;
		s += (char)(r.chance(80) ? r.range('a', 'z') : r.chance(50) ? '_' : r.range('A', 'Z'));
		int n = r.below(5);
		for (int i = 0; i < n; i++) s += (char)(r.chance(70) ? r.range('a', 'z') : r.chance(50) ? r.range('0', '9') : '_');
		return s + std::to_string(keyc++);
	}
	std::string xws()
	{
		int k = r.below(100);
		if (k < 70) return ws();
		if (k < 80) return "//" + std::string((size_t)r.below(4), 'c') + "\n";
		if (k < 95) return "/*" + std::string((size_t)r.below(4), r.chance(50) ? 'c' : ' ') + "*/";
		return "/* a * b / \n // */";
	}
	std::string xsep()
	{
		static const char* sp[] = { ",", ",", ", ", "\n", " \n ", "\n,", ",\n", "\r\n", "//c\n" };
		return sp[r.below(9)];
	}
	std::string xvalue(int depth)
	{
		int k = r.below(100);
		if (depth <= 0 || k < 45)
		{
			int q = r.below(100);
			if (q < 35) return number();
			if (q < 65) return str(6);
			if (q < 75) return "Y";
			if (q < 85) return "N";
			if (q < 90) return "true";
			if (q < 95) return "false";
			return "null";
		}
		if (k < 72)
		{
			std::string s = "[";
			int n = r.below(4);
			for (int i = 0; i < n; i++)
			{
				if (i) s += xsep();
				s += xws() + xvalue(depth - 1);
				if (r.chance(30)) s += " ";
			}
			return s + xws() + "]";
		}
		std::string s = r.chance(25) ? ident() + (r.chance(30) ? " " : "") + "{" : "{";
		int n = r.below(4);
		for (int i = 0; i < n; i++)
		{
			if (i) s += xsep();
			s += xws();
			if (r.chance(75)) s += ident() + (r.chance(25) ? " =" : "=");
			else
			{
				std::string key = str(4);
				key.insert(key.size() - 1, std::to_string(keyc++));
				s += key + (r.chance(50) ? ":" : "=");
			}
			s += xws() + xvalue(depth - 1);
			if (r.chance(30)) s += " ";
		}
		return s + xws() + "}";
	}
	std::string xdl() { return xws() + xvalue(r.range(0, 4)) + xws(); }
};

static std::string clean(std::string t) // the decoder's interface is a C string
{
	for (size_t i = 0; i < t.size(); i++)
		if (t[i] == 0) t[i] = ' ';
	return t;
}

struct Rec
{
	Log& log;
	Rng& r;
	long events;
	Rec(Log& l, Rng& rr) : log(l), r(rr), events(0) {}

	void decodeAndLog(const std::string& t, const std::string* full)
	{
		Var whole = Json::decode(String(t.c_str()));
		std::string pw = jx::project(whole);
		std::vector<std::string> diff;
		int n = 0;
		std::vector<size_t> cuts;
		size_t len = t.size();
		// 2-cuts: all of them for short texts, a sample (always including the ends) for long ones
		size_t stepc = len <= 96 ? 1 : len / 48;
		for (size_t k = 0; k <= len; k += stepc)
		{
			cuts.assign(1, k);
			Var x = jx::parseChunks(t, cuts);
			n++;
			if (jx::project(x) != pw) diff.push_back("{\"cuts\":" + vj::intlist(cuts.begin(), cuts.end()) + ",\"v\":" + jx::project(x) + "}");
		}
		if (len >= 2)
		{
			cuts.clear();
			for (size_t k = 1; k < len; k++) cuts.push_back(k);
			Var x = jx::parseChunks(t, cuts);
			n++;
			if (jx::project(x) != pw) diff.push_back("{\"cuts\":\"bytewise\",\"v\":" + jx::project(x) + "}");
			for (int rep = 0; rep < 3; rep++)
			{
				cuts.clear();
				int den = r.range(2, 9);
				for (size_t k = 1; k < len; k++)
					if (r.below(den) == 0) cuts.push_back(k);
				Var y = jx::parseChunks(t, cuts);
				n++;
				if (jx::project(y) != pw) diff.push_back("{\"cuts\":" + vj::intlist(cuts.begin(), cuts.end()) + ",\"v\":" + jx::project(y) + "}");
			}
		}
		std::string ln = "{\"e\":\"dec\",\"t\":" + vj::codes(t) + "," + kv("ok", whole.ok() ? 1 : 0) + ",\"v\":" + pw + "," + kv("n", n) + ",\"diff\":[";
		for (size_t i = 0; i < diff.size() && i < 3; i++) ln += (i ? "," : "") + diff[i];
		ln += "]";
		if (full) ln += ",\"full\":" + vj::codes(*full);
		ln += "}";
		log.line(ln);
		events++;
	}

	std::string mutate(const std::string& a, const std::string& b, int kind)
	{
		std::string t = a;
		size_t n = t.size();
		if (n == 0) return t;
		switch (kind)
		{
		case 0: // delete a range
		{
			size_t p = (size_t)r.below((int)n), l = (size_t)r.range(1, 4);
			t.erase(p, l);
			break;
		}
		case 1: // duplicate a range
		{
			size_t p = (size_t)r.below((int)n), l = (size_t)r.range(1, 6);
			t.insert(p, t.substr(p, l));
			break;
		}
		case 2: // splice: prefix of a + suffix of b
		{
			size_t p = (size_t)r.below((int)n + 1), q = b.empty() ? 0 : (size_t)r.below((int)b.size() + 1);
			t = a.substr(0, p) + b.substr(q);
			break;
		}
		case 3: // byte flip
		{
			int m = r.range(1, 3);
			for (int i = 0; i < m; i++) t[(size_t)r.below((int)n)] = (char)r.range(1, 255);
			break;
		}
		case 4: // insert a structural / random byte
		{
			static const char ins[] = "[]{},:\"\\/*=-.eE0u\n \t";
			size_t p = (size_t)r.below((int)n + 1);
			t.insert(p, 1, r.chance(70) ? ins[r.below((int)sizeof ins - 1)] : (char)r.range(1, 255));
			break;
		}
		default: // swap two adjacent bytes
		{
			if (n >= 2)
			{
				size_t p = (size_t)r.below((int)n - 1);
				std::swap(t[p], t[p + 1]);
			}
		}
		}
		return clean(t);
	}
};

int main(int argc, char** argv)
{
	Args args(argc, argv);
	Rng rng(args.seed);
	Log log(args.out);
	Gen gen(rng);
	Rec rec(log, rng);
	std::string prev = "[1,{\"a\":\"b\"}]";
	while (rec.events < args.events)
	{
		log.line("{\"e\":\"reset\"}");
		bool xdl = rng.chance(25);
		std::string doc = clean(xdl ? gen.xdl() : gen.json());
		rec.decodeAndLog(doc, 0);
		// truncations (for short documents every prefix, otherwise a sample biased to the end)
		size_t n = doc.size();
		if (n <= 24)
			for (size_t k = 0; k < n; k++) rec.decodeAndLog(doc.substr(0, k), &doc);
		else
			for (int i = 0; i < 6; i++)
			{
				size_t k = rng.chance(40) ? n - 1 - (size_t)rng.below(4) : (size_t)rng.below((int)n);
				rec.decodeAndLog(doc.substr(0, k), &doc);
			}
		for (int i = 0; i < 6; i++) rec.decodeAndLog(rec.mutate(doc, prev, rng.below(6)), 0);
		// raw bytes
		{
			std::string raw;
			int len = rng.range(1, 40);
			static const char bias[] = "[]{},:\"\\/*=-+.eEuYNtrfalsn0123456789 \n";
			for (int i = 0; i < len; i++) raw += rng.chance(70) ? bias[rng.below((int)sizeof bias - 1)] : (char)rng.range(1, 255);
			rec.decodeAndLog(raw, 0);
		}
		prev = doc;
	}
	return 0;
}
