// X01 part `registry`, recorder (V): seeded random driver of asl::Singleton<T> under concurrent first use, of asl::Shared<T>
// shared between threads, and of long single-threaded call sequences on asl::Shared<T>.  One ndjson line per event;
// spec/Trace_Registry.tla decides every line (RegistryShared.tla for the call sequences).  Nothing is judged here.
//   single    k = number of the singleton class (a fresh class per event: the first use happens once per process),
//             n free-running threads with random start jitter call Singleton<Probe<k>>::instance(); ids = per thread the
//             number of the address it got (addresses numbered in order of appearance), ready = per thread whether the
//             object it got was completely constructed, again = id seen by the main thread afterwards, ctor = constructor runs
//   sharedmt  n threads copy / assign / drop a Shared<Obj> they all share, `rounds` times each; rc = refcount() afterwards,
//             alive, dt0 = destructor runs before and dt1 = after the last reference is dropped
//   sh        one call on the slots (see x01_registry_replay.cpp), obs = {ptr, rc, alive, dt} observed after it
//   reset     new slots and objects (all empty / unmade)
#include <asl/Pointer.h>
#include <asl/Singleton.h>
#include "vjson.h"
#include "vrec.h"
#include <atomic>
#include <thread>
#include <vector>
#include <map>
#include <string>

using namespace vrec;
using namespace asl;

// ---------------------------------------------------------------------------------------------------- Singleton probes
static void spin(unsigned n)
{
	volatile unsigned x = 0;
	for (unsigned i = 0; i < n; i++) x += i;
}

template <int K>
struct Probe
{
	static std::atomic<int> ctors;
	volatile int ready;
	Probe() : ready(0)
	{
		ctors++;
		spin(20000);          // a constructor that takes a while: late comers must wait for it, not see a half-made object
		std::this_thread::yield();
		ready = 1;
	}
};
template <int K> std::atomic<int> Probe<K>::ctors(0);

struct SingleResult { std::vector<void*> addr; std::vector<int> ready; void* again; int ctor; };

template <int K>
static SingleResult runSingle(int n, const std::vector<unsigned>& jitter)
{
	SingleResult r;
	r.addr.assign((size_t)n, (void*)0);
	r.ready.assign((size_t)n, -1);
	std::atomic<bool> go(false);
	std::vector<std::thread> th;
	for (int i = 0; i < n; i++)
		th.push_back(std::thread([&, i]() {
			while (!go.load()) {}
			spin(jitter[(size_t)i]);
			Probe<K>* p = Singleton<Probe<K> >::instance();
			r.ready[(size_t)i] = p->ready;
			r.addr[(size_t)i] = p;
		}));
	go.store(true);
	for (int i = 0; i < n; i++) th[(size_t)i].join();
	r.again = Singleton<Probe<K> >::instance();
	r.ctor = Probe<K>::ctors.load();
	return r;
}

typedef SingleResult (*SingleFn)(int, const std::vector<unsigned>&);
#define P4(a) runSingle<a>, runSingle<a + 1>, runSingle<a + 2>, runSingle<a + 3>
static SingleFn singles[] = { P4(0), P4(4), P4(8), P4(12), P4(16), P4(20), P4(24), P4(28), P4(32), P4(36) };
static const int NSINGLES = 40;

// ------------------------------------------------------------------------------------------------------------ Shared<T>
static std::atomic<int> g_ctor[16], g_dtor[16];

struct Base
{
	int id;
	explicit Base(int i) : id(i) { g_ctor[i]++; }
	virtual ~Base() { g_dtor[id]++; }
	virtual int kind() const { return 0; }
};
struct Derived : public Base
{
	explicit Derived(int i) : Base(i) {}
	int kind() const { return 1; }
};

static const int NS = 4, NO = 6;                 // slots 1..4 (3, 4 are Shared<Derived>), objects 1..6 (1..3 are Derived)
static bool dslot(int s) { return s >= 3; }
static bool dobj(int o) { return o <= 3; }

struct Slots
{
	Shared<Base>* b[NS + 1];
	Shared<Derived>* d[NS + 1];
	Slots() { for (int s = 1; s <= NS; s++) { b[s] = dslot(s) ? 0 : new Shared<Base>(); d[s] = dslot(s) ? new Shared<Derived>() : 0; } }
	~Slots() { for (int s = 1; s <= NS; s++) { delete b[s]; delete d[s]; } }
	bool empty(int s) const { return dslot(s) ? !*d[s] : !*b[s]; }
	int id(int s) const { return empty(s) ? 0 : dslot(s) ? (*d[s])->id : (*b[s])->id; }
	int rc(int s) const { return empty(s) ? 0 : dslot(s) ? d[s]->refcount() : b[s]->refcount(); }
};

static std::string observe(const Slots& sl)
{
	std::vector<long long> ptr, rc, alive, dt;
	for (int s = 1; s <= NS; s++) { ptr.push_back(sl.id(s)); rc.push_back(sl.rc(s)); }
	for (int o = 1; o <= NO; o++) { alive.push_back(g_ctor[o].load() - g_dtor[o].load()); dt.push_back(g_dtor[o].load()); }
	return "{\"ptr\":" + vj::intlist(ptr.begin(), ptr.end()) + ",\"rc\":" + vj::intlist(rc.begin(), rc.end()) +
	       ",\"alive\":" + vj::intlist(alive.begin(), alive.end()) + ",\"dt\":" + vj::intlist(dt.begin(), dt.end()) + "}";
}

int main(int argc, char** argv)
{
	Args args(argc, argv);
	Rng rng(args.seed);
	Log log(args.out);
	int nextSingle = 0;
	bool avoidConvEmpty = args.avoid.count("SharedConvertEmpty") > 0;
	Slots* sl = 0;
	bool made[NO + 1];
	int sinceReset = 0;
	for (long ev = 0; ev < args.events; ev++)
	{
		int kind = rng.below(100);
		if (!sl || sinceReset >= 40 || (sinceReset > 8 && rng.chance(3)))
		{
			delete sl;
			for (int o = 0; o <= NO; o++) { g_ctor[o] = 0; g_dtor[o] = 0; made[o] = false; }
			sl = new Slots();
			sinceReset = 0;
			log.line("{\"e\":\"reset\"}");
			continue;
		}
		if (kind < 6 && nextSingle < NSINGLES)
		{
			int n = rng.range(2, 8);
			std::vector<unsigned> jitter;
			for (int i = 0; i < n; i++) jitter.push_back(rng.chance(40) ? 0u : (unsigned)rng.below(rng.chance(50) ? 300 : 30000));
			int k = nextSingle++;
			SingleResult r = singles[k](n, jitter);
			std::map<void*, int> num;
			std::vector<long long> ids, ready;
			for (int i = 0; i < n; i++)
			{
				if (!num.count(r.addr[(size_t)i])) { int id = (int)num.size() + 1; num[r.addr[(size_t)i]] = id; }
				ids.push_back(num[r.addr[(size_t)i]]);
				ready.push_back(r.ready[(size_t)i]);
			}
			if (!num.count(r.again)) { int id = (int)num.size() + 1; num[r.again] = id; }
			log.line("{\"e\":\"single\"," + kv("k", k) + "," + kv("n", n) + ",\"ids\":" + vj::intlist(ids.begin(), ids.end()) +
			         ",\"ready\":" + vj::intlist(ready.begin(), ready.end()) + "," + kv("again", num[r.again]) + "," + kv("ctor", r.ctor) + "}");
		}
		else if (kind < 10)
		{
			int n = rng.range(2, 6), rounds = rng.range(50, 2000);
			g_ctor[0] = 0; g_dtor[0] = 0;
			Shared<Base> root(new Derived(0));
			std::atomic<bool> go(false);
			std::atomic<int> touched(0);
			std::vector<std::thread> th;
			for (int i = 0; i < n; i++)
				th.push_back(std::thread([&]() {
					while (!go.load()) {}
					for (int r = 0; r < rounds; r++)
					{
						Shared<Base> a(root);
						Shared<Base> b;
						b = a;
						a = Shared<Base>();
						Shared<Derived> c = b.as<Derived>();
						if (c->id == 0 && b->kind() == 1) touched++;
					}
				}));
			go.store(true);
			for (int i = 0; i < n; i++) th[(size_t)i].join();
			int rc = root.refcount(), alive = g_ctor[0].load() - g_dtor[0].load(), dt0 = g_dtor[0].load();
			root = Shared<Base>();
			log.line("{\"e\":\"sharedmt\"," + kv("n", n) + "," + kv("rounds", rounds) + "," + kv("touched", touched.load()) + "," + kv("rc", rc) + "," +
			         kv("alive", alive) + "," + kv("dt0", dt0) + "," + kv("dt1", g_dtor[0].load()) + "," + kv("ctor", g_ctor[0].load()) + "}");
		}
		else
		{
			// one call on the slots; only calls the specification generates (as<>() on an empty pointer is not one)
			int s = rng.range(1, NS), t = rng.range(1, NS), o = 0, x = 0;
			const char* op = 0;
			int c = rng.below(100);
			if (c < 22)
			{
				int tries = 0;
				do { o = rng.range(1, NO); } while ((made[o] || (dslot(s) && !dobj(o))) && ++tries < 20);
				if (made[o] || (dslot(s) && !dobj(o))) c = 50; else { op = "new"; x = rng.range(1, 2); t = 0; }
			}
			if (!op)
			{
				bool needsRef = dslot(s) && !dslot(t);
				if (avoidConvEmpty && !dslot(s) && dslot(t) && sl->empty(t)) c = 85;   // open finding: not that shape
				if (c < 60) { if (needsRef && sl->empty(t)) { op = "release"; t = 0; } else op = "assign"; }
				else if (c < 80) { if (s == t || (needsRef && sl->empty(t))) { op = "temp"; s = 0; } else op = "copy"; }
				else if (c < 90) { op = "release"; t = 0; }
				else { op = "temp"; s = 0; }
			}
			std::string ops = op;
			if (ops == "new")
			{
				made[o] = true;
				if (dslot(s)) { if (x == 1) *sl->d[s] = new Derived(o); else *sl->d[s] = Shared<Derived>(new Derived(o)); }
				else
				{
					Base* p = dobj(o) ? (Base*)new Derived(o) : new Base(o);
					if (x == 1) *sl->b[s] = p; else *sl->b[s] = Shared<Base>(p);
				}
			}
			else if (ops == "assign")
			{
				if (dslot(s) && dslot(t)) *sl->d[s] = *sl->d[t];
				else if (!dslot(s) && !dslot(t)) *sl->b[s] = *sl->b[t];
				else if (!dslot(s)) *sl->b[s] = *sl->d[t];
				else *sl->d[s] = sl->b[t]->as<Derived>();
			}
			else if (ops == "copy")
			{
				if (dslot(s) && dslot(t)) { Shared<Derived>* n = new Shared<Derived>(*sl->d[t]); delete sl->d[s]; sl->d[s] = n; }
				else if (!dslot(s) && !dslot(t)) { Shared<Base>* n = new Shared<Base>(*sl->b[t]); delete sl->b[s]; sl->b[s] = n; }
				else if (!dslot(s)) { Shared<Base>* n = new Shared<Base>(*sl->d[t]); delete sl->b[s]; sl->b[s] = n; }
				else { Shared<Derived>* n = new Shared<Derived>(sl->b[t]->as<Derived>()); delete sl->d[s]; sl->d[s] = n; }
			}
			else if (ops == "release")
			{
				if (dslot(s)) *sl->d[s] = Shared<Derived>(); else *sl->b[s] = Shared<Base>();
			}
			else
			{
				if (dslot(t)) { Shared<Derived> tmp(*sl->d[t]); x = sl->empty(t) ? 0 : tmp.refcount(); }
				else { Shared<Base> tmp(*sl->b[t]); x = sl->empty(t) ? 0 : tmp.refcount(); }
			}
			sinceReset++;
			log.line("{\"e\":\"sh\"," + ks("op", ops) + "," + kv("s", s) + "," + kv("t", t) + "," + kv("o", o) + "," + kv("x", x) + ",\"obs\":" + observe(*sl) + "}");
		}
	}
	delete sl;
	return 0;
}
