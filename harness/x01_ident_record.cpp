// X01 part `ident`, recorder (V): seeded random driver of asl::Uuid::generate() and asl::Random.  It logs arguments and
// results (bytes, texts as byte codes, wide values as 16-bit limbs, reals as floor/ceil of x * 2^16), one ndjson line per
// event; spec/Trace_Ident.tla decides every line with the predicates of spec/Ident.tla.  Nothing is judged here.
//   gen    u = Uuid::generate() bytes, t = its text, back = bytes of Uuid(t)
//   int    ty, a, b, one, xs = results of the integer operator()(a, b) (or operator()(b) when one = 1, a = 0)
//   hist   a, b, n, c = how often each value of [a, b] came out of n draws, out = draws outside [a, b]
//   dbl    ty, a16, b16 (bounds in sixteenths), lo/hi = floor/ceil of each result * 2^16
//   bytes  n, fills, runs = the n-byte buffer after getBytes for each initial fill, guards = the 8+8 bytes around it
//   seq    how, a, b, c = the same call sequence on three generators that were seeded alike (limbs)
//   shuf   in, out
//   coin   k (p = k/16), n, c = number of true results
//   norm   m, s, n, in1/in2 = results within 1 / 2 standard deviations of m, pos = results above m, fin = finite results
#include <asl/Uuid.h>
#include <asl/String.h>
#include <asl/Array.h>
#include <asl/defs.h>
#include "vjson.h"
#include "vrec.h"
#include <cmath>
#include <string>
#include <vector>

using namespace vrec;

static std::string ints(const std::vector<long long>& v) { return vj::intlist(v.begin(), v.end()); }
static std::string bytesOf(const asl::Uuid& u)
{
	std::string r;
	for (int i = 0; i < 16; i++) r += (char)u[i];
	return r;
}
static void limbs(std::vector<long long>& out, unsigned long long x, int n)
{
	for (int i = n - 1; i >= 0; i--) out.push_back((long long)((x >> (16 * i)) & 0xffff));
}

static void pickBounds(Rng& r, long long lim, long long& a, long long& b)
{
	switch (r.below(8))
	{
	case 0: a = -r.range(1, 9); b = a + r.below(4); if (b > -1) b = -1; break;   // small, entirely negative
	case 1: a = -r.range(1, 5); b = r.range(0, 5); break;                          // around zero
	case 2: a = r.below(10); b = a + r.below(10); break;
	case 3: a = b = r.range(-5, 5); break;                                         // one value
	case 4: a = -r.range(1, (int)(lim < 30000 ? lim : 30000)); b = a + r.below(3); if (b > -1) b = -1; break;
	case 5: a = -lim; b = lim; break;
	case 6: a = -lim; b = -lim + r.below(3); break;
	default: a = lim - r.below(3); b = lim; break;
	}
}

template <class T>
static void drawInts(asl::Random& g, bool one, long long a, long long b, int n, std::vector<long long>& xs)
{
	for (int i = 0; i < n; i++)
		xs.push_back(one ? (long long)g((T)b) : (long long)g((T)a, (T)b));
}

static asl::Random& pickGen(Rng& r, asl::Random& seeded, asl::Random& autos)
{
	int k = r.below(3);
	return k == 0 ? asl::random : k == 1 ? autos : seeded;
}

static void sequence(asl::Random& g, std::vector<long long>& out)
{
	for (int i = 0; i < 3; i++) limbs(out, g.getLong(), 4);
	for (int i = 0; i < 3; i++) limbs(out, g.get(), 2);
	double d = g(1.0);
	unsigned long long bits;
	memcpy(&bits, &d, 8);
	limbs(out, bits, 4);
	limbs(out, (unsigned long long)g(1000), 2);
	limbs(out, g.getLong(), 4);
}

int main(int argc, char** argv)
{
	Args args(argc, argv);
	Rng rng(args.seed);
	Log log(args.out);
	asl::Random seeded(false);
	seeded.seed(rng.next());
	asl::Random autos;
	bool avoidNeg = args.avoid.count("RandomNegativeInterval") > 0;
	log.line("{\"e\":\"reset\"}");
	for (long ev = 0; ev < args.events; ev++)
	{
		int kind = rng.below(100);
		if (kind < 30)
		{
			asl::Uuid u = asl::Uuid::generate();
			asl::String t = u;
			asl::Uuid back(t);
			log.line("{\"e\":\"gen\",\"u\":" + vj::codes(bytesOf(u)) + ",\"t\":" + vj::codes(std::string(*t, (size_t)t.length())) +
			         ",\"back\":" + vj::codes(bytesOf(back)) + "," + kv("eq", back == u ? 1 : 0) + "}");
		}
		else if (kind < 55)
		{
			static const char* names[] = { "int", "short", "long", "uint", "byte" };
			int ty = rng.below(5);
			bool one = rng.chance(25) || ty >= 3;
			long long a = 0, b = 0;
			long long lim = ty == 1 ? 32000 : 2000000000LL;
			pickBounds(rng, lim, a, b);
			if (ty == 4) { a = 0; b = rng.chance(50) ? 255 : rng.below(255); }
			if (one) { a = 0; if (b < 0) b = -b; }
			if (avoidNeg && a < 0) { long long w = b - a; a = rng.below(10); b = a + w; if (b > lim) { b = lim; a = b - (w > lim ? lim : w); } }   // open finding: not that shape
			asl::Random& g = pickGen(rng, seeded, autos);
			std::vector<long long> xs;
			int n = 12;
			switch (ty)
			{
			case 0: drawInts<int>(g, one, a, b, n, xs); break;
			case 1: drawInts<short>(g, one, a, b, n, xs); break;
			case 2: drawInts<asl::Long>(g, one, a, b, n, xs); break;
			case 3: drawInts<unsigned>(g, true, a, b, n, xs); break;
			default: drawInts<asl::byte>(g, true, a, b, n, xs); break;
			}
			log.line(std::string("{\"e\":\"int\",") + ks("ty", names[ty]) + "," + kv("a", a) + "," + kv("b", b) + "," + kv("one", one ? 1 : 0) +
			         ",\"xs\":" + ints(xs) + "}");
		}
		else if (kind < 65)
		{
			int K = rng.range(2, 8);
			long long a = avoidNeg ? rng.range(0, 9) : rng.range(-7, 3), b = a + K - 1;
			int n = 4096;
			std::vector<long long> c((size_t)K, 0);
			long long out = 0;
			bool sh = rng.chance(30);
			for (int i = 0; i < n; i++)
			{
				long long x = sh ? (long long)seeded((short)a, (short)b) : (long long)seeded((int)a, (int)b);
				if (x < a || x > b) out++; else c[(size_t)(x - a)]++;
			}
			log.line("{\"e\":\"hist\"," + kv("a", a) + "," + kv("b", b) + "," + kv("n", n) + ",\"c\":" + ints(c) + "," + kv("out", out) + "}");
		}
		else if (kind < 75)
		{
			int ty = rng.below(4);   // 0 double(m,M) 1 double(M) 2 float(m,M) 3 float(M)
			long long a16 = (ty & 1) ? 0 : rng.range(-4000, 4000);
			long long b16 = a16 + (rng.chance(10) ? 0 : rng.chance(30) ? rng.range(0, 3) : rng.range(0, 4000));
			asl::Random& g = pickGen(rng, seeded, autos);
			std::vector<long long> lo, hi;
			for (int i = 0; i < 12; i++)
			{
				double x;
				switch (ty)
				{
				case 0: x = g(a16 / 16.0, b16 / 16.0); break;
				case 1: x = g(b16 / 16.0); break;
				case 2: x = g((float)(a16 / 16.0), (float)(b16 / 16.0)); break;
				default: x = g((float)(b16 / 16.0)); break;
				}
				lo.push_back((long long)std::floor(x * 65536.0));
				hi.push_back((long long)std::ceil(x * 65536.0));
			}
			log.line("{\"e\":\"dbl\"," + kv("ty", ty) + "," + kv("a16", a16) + "," + kv("b16", b16) + ",\"lo\":" + ints(lo) + ",\"hi\":" + ints(hi) + "}");
		}
		else if (kind < 85)
		{
			static const int ns[] = { 0, 1, 2, 7, 8, 15, 16, 17, 31, 32, 33, 63, 64 };
			int n = rng.chance(70) ? ns[rng.below(13)] : rng.below(65);
			static const int fills[] = { 0xAA, 0x55, 0x00, 0xFF };
			std::string runs = "[", guards = "[";
			for (int k = 0; k < 4; k++)
			{
				std::vector<unsigned char> buf((size_t)n + 16, (unsigned char)0xC3);
				for (int i = 0; i < n; i++) buf[(size_t)(8 + i)] = (unsigned char)fills[k];
				asl::Random::getBytes(&buf[8], n);
				runs += (k ? "," : "") + vj::codes(std::string((const char*)&buf[8], (size_t)n));
				guards += (k ? "," : "") + vj::codes(std::string((const char*)&buf[0], 8) + std::string((const char*)&buf[(size_t)(8 + n)], 8));
			}
			log.line("{\"e\":\"bytes\"," + kv("n", n) + ",\"fills\":[170,85,0,255],\"runs\":" + runs + "],\"guards\":" + guards + "]}");
		}
		else if (kind < 91)
		{
			std::vector<long long> a, b, c, sl;
			int how = rng.below(2);
			if (how == 0)
			{
				asl::Random g1(false), g2(false);
				sequence(g1, a);
				sequence(g2, b);
				asl::Random g3(false);
				sequence(g3, c);
			}
			else
			{
				unsigned long long s = rng.chance(30) ? (unsigned long long)rng.below(4) : rng.next();
				limbs(sl, s, 4);
				asl::Random g1, g2(false);
				g1.seed(s);
				g2.seed(s);
				sequence(g1, a);
				sequence(g2, b);
				g1.seed(s);            // seeding again restarts the sequence
				sequence(g1, c);
			}
			log.line("{\"e\":\"seq\"," + kv("how", how) + ",\"s\":" + ints(sl) + ",\"a\":" + ints(a) + ",\"b\":" + ints(b) + ",\"c\":" + ints(c) + "}");
		}
		else if (kind < 96)
		{
			int n = rng.below(13);
			std::vector<long long> in, out;
			asl::Array<int> arr;
			for (int i = 0; i < n; i++) { int v = rng.below(6); in.push_back(v); arr << v; }
			asl::Random& g = pickGen(rng, seeded, autos);
			if (n > 0 && rng.chance(50)) g.shuffle(&arr[0], n); else if (n > 0) g.shuffle(arr);
			for (int i = 0; i < arr.length(); i++) out.push_back(arr[i]);
			log.line("{\"e\":\"shuf\",\"in\":" + ints(in) + ",\"out\":" + ints(out) + "}");
		}
		else if (kind < 98)
		{
			int k = rng.chance(30) ? (rng.chance(50) ? 0 : 16) : rng.below(17);
			int n = 1024, c = 0;
			for (int i = 0; i < n; i++) if (seeded.coin(k / 16.0)) c++;
			log.line("{\"e\":\"coin\"," + kv("k", k) + "," + kv("n", n) + "," + kv("c", c) + "}");
		}
		else
		{
			int ty = rng.below(3);  // 0 normal() 1 normal(double m, double s) 2 normal(float, float)
			int m = ty ? rng.range(-50, 50) : 0, s = ty ? rng.range(1, 8) : 1;
			int n = 4096, in1 = 0, in2 = 0, pos = 0, fin = 0;
			for (int i = 0; i < n; i++)
			{
				double x = ty == 0 ? seeded.normal() : ty == 1 ? seeded.normal((double)m, (double)s) : (double)seeded.normal((float)m, (float)s);
				if (std::isfinite(x)) fin++;
				if (std::fabs(x - m) < s) in1++;
				if (std::fabs(x - m) < 2 * s) in2++;
				if (x > m) pos++;
			}
			log.line("{\"e\":\"norm\"," + kv("ty", ty) + "," + kv("m", m) + "," + kv("s", s) + "," + kv("n", n) + "," + kv("in1", in1) + "," +
			         kv("in2", in2) + "," + kv("pos", pos) + "," + kv("fin", fin) + "}");
		}
	}
	return 0;
}
